//! Deterministic adversarial schedules.
//!
//! * `attack` (C02): a filesystem mutation (move out of the root, replace by a
//!   symlink to the host, exchange, move up) is performed by the interposer at a
//!   chosen system-call boundary of a lookup, optionally undone at the next
//!   boundary (flip-flop).  Every boundary of the unperturbed trace is tried.
//! * `fault` (C10): the interposer makes the k-th system call of an operation
//!   fail with an errno of a catalogue (single faults), or makes every call of
//!   one kind fail from index k on (fd exhaustion, repeated EAGAIN).
//! * `fault-init` (C10): single faults during the first use of the library in a
//!   fresh (forked) process, i.e. during initialisation of the global procfs
//!   handle and sysctl cache.
use crate::{
    cfg_line, fmt, gen, ops,
    ops::{Op, Outcome},
    rng::Rng,
    setup_case_dir, tree,
    tree::{Kind, Labels, TreeSpec},
    Ctx,
};
use pathrs::{
    flags::ResolverFlags,
    verif::{Action, Call, Interposer, Resp},
    Root,
};
use std::{
    cell::RefCell,
    ffi::{CString, OsStr},
    fs,
    io::Write,
    os::unix::{
        ffi::OsStrExt,
        fs::MetadataExt,
        io::{AsFd, AsRawFd},
    },
    path::{Path, PathBuf},
    rc::Rc,
};

// ---------------------------------------------------------------------------
// attacker mutations
// ---------------------------------------------------------------------------

#[derive(Clone, Debug)]
pub enum Mutation {
    /// rename root/<e> to outside/moved
    MoveOut(Vec<u8>),
    /// move root/<e> away and put a symlink to the host directory `outside/dir` in its place
    ReplaceWithHostLink(Vec<u8>),
    /// move root/<e> away and put a symlink to the host *file* `outside/secret` in its place
    ReplaceWithHostFileLink(Vec<u8>),
    /// RENAME_EXCHANGE of two entries of the tree
    Exchange(Vec<u8>, Vec<u8>),
    /// move root/<e> to the top level of the root
    MoveUp(Vec<u8>),
    /// exchange root/<e> with the host directory outside/dir
    ExchangeWithHost(Vec<u8>),
    /// rename root/<e> to a host location whose path is longer than PATH_MAX (the kernel cannot print where it is:
    /// `readlink(/proc/self/fd/N)` fails with ENAMETOOLONG); the host directory holds files named like tree entries
    MoveOutDeep(Vec<u8>),
    /// rename root/<e> into the host directory `<root> (deleted)` next to the root (the kernel's marker for unlinked
    /// files, here part of a live name); same content as above
    MoveToDeletedSibling(Vec<u8>),
}

impl Mutation {
    fn line(&self) -> String {
        match self {
            Mutation::MoveOut(e) => format!("move_out {}", fmt::hex(e)),
            Mutation::ReplaceWithHostLink(e) => format!("replace_with_host_link {}", fmt::hex(e)),
            Mutation::ReplaceWithHostFileLink(e) => format!("replace_with_host_file_link {}", fmt::hex(e)),
            Mutation::Exchange(a, b) => format!("exchange {} {}", fmt::hex(a), fmt::hex(b)),
            Mutation::MoveUp(e) => format!("move_up {}", fmt::hex(e)),
            Mutation::ExchangeWithHost(e) => format!("exchange_with_host {}", fmt::hex(e)),
            Mutation::MoveOutDeep(e) => format!("move_out_deep {}", fmt::hex(e)),
            Mutation::MoveToDeletedSibling(e) => format!("move_to_deleted_sibling {}", fmt::hex(e)),
        }
    }
}

/// a host directory (created on demand) that holds a regular file for every name in `names`; `deep`: below a chain of
/// directories that makes its path longer than PATH_MAX.  Returns a descriptor of it.
fn host_trap_dir(top: &Path, names: &[Vec<u8>], deep: bool) -> Option<std::os::fd::OwnedFd> {
    use std::os::fd::{AsRawFd, FromRawFd, OwnedFd};
    let base = if deep { top.join("outside") } else { top.to_path_buf() };
    let mut cur = unsafe { libc::open(cpath(&base).as_ptr(), libc::O_RDONLY | libc::O_DIRECTORY | libc::O_CLOEXEC) };
    if cur < 0 {
        return None;
    }
    let chain: Vec<CString> = if deep {
        (0..18).map(|_| CString::new(vec![b'D'; 250]).unwrap()).collect()
    } else {
        vec![CString::new("root (deleted)").unwrap()]
    };
    for name in &chain {
        unsafe { libc::mkdirat(cur, name.as_ptr(), 0o755) };
        let next = unsafe { libc::openat(cur, name.as_ptr(), libc::O_RDONLY | libc::O_DIRECTORY | libc::O_CLOEXEC) };
        unsafe { libc::close(cur) };
        if next < 0 {
            return None;
        }
        cur = next;
    }
    let dir = unsafe { OwnedFd::from_raw_fd(cur) };
    for n in names {
        if let Ok(c) = CString::new(n.clone()) {
            let f = unsafe { libc::openat(dir.as_raw_fd(), c.as_ptr(), libc::O_CREAT | libc::O_WRONLY | libc::O_CLOEXEC, 0o644) };
            if f >= 0 {
                unsafe {
                    libc::write(f, b"HOST".as_ptr() as *const _, 4);
                    libc::close(f);
                }
            }
        }
    }
    Some(dir)
}

fn cpath(p: &Path) -> CString {
    CString::new(p.as_os_str().as_bytes()).unwrap()
}

fn exchange(a: &Path, b: &Path) -> bool {
    let (a, b) = (cpath(a), cpath(b));
    unsafe {
        libc::syscall(
            libc::SYS_renameat2,
            libc::AT_FDCWD,
            a.as_ptr(),
            libc::AT_FDCWD,
            b.as_ptr(),
            2u32, /* RENAME_EXCHANGE */
        ) == 0
    }
}

struct Attacker {
    top: PathBuf,
    at: usize,
    undo_at: Option<usize>,
    m: Mutation,
    done: bool,
    undone: bool,
    /// inodes the attacker created inside the root
    created: Rc<RefCell<Vec<(u64, u64)>>>,
    /// inodes of the tree
    inside: std::collections::HashSet<(u64, u64)>,
    /// link bodies the library read from objects that were never inside the root
    reads_out: Rc<RefCell<Vec<String>>>,
    /// names of the tree's entries (what the trap directories offer under the same names)
    names: Vec<Vec<u8>>,
    trap: Option<std::os::fd::OwnedFd>,
}

impl Attacker {
    fn rootp(&self, e: &[u8]) -> PathBuf {
        self.top.join("root").join(OsStr::from_bytes(e))
    }

    fn note_created(&self, p: &Path) {
        if let Ok(md) = fs::symlink_metadata(p) {
            self.created.borrow_mut().push((md.dev(), md.ino()));
        }
    }

    fn apply(&mut self) {
        let moved = self.top.join("outside/moved");
        match self.m.clone() {
            Mutation::MoveOut(e) => {
                let _ = fs::rename(self.rootp(&e), &moved);
            }
            Mutation::ReplaceWithHostLink(e) => {
                if fs::rename(self.rootp(&e), &moved).is_ok() {
                    let _ = std::os::unix::fs::symlink(self.top.join("outside/dir"), self.rootp(&e));
                    self.note_created(&self.rootp(&e));
                }
            }
            Mutation::ReplaceWithHostFileLink(e) => {
                if fs::rename(self.rootp(&e), &moved).is_ok() {
                    let _ = std::os::unix::fs::symlink(self.top.join("outside/secret"), self.rootp(&e));
                    self.note_created(&self.rootp(&e));
                }
            }
            Mutation::Exchange(a, b) => {
                exchange(&self.rootp(&a), &self.rootp(&b));
            }
            Mutation::MoveUp(e) => {
                let _ = fs::rename(self.rootp(&e), self.top.join("root/__moved_up"));
            }
            Mutation::ExchangeWithHost(e) => {
                // the host directory (and what is in it) is moved *into* the root by this step
                self.note_created(&self.top.join("outside/dir"));
                self.note_created(&self.top.join("outside/dir/x"));
                exchange(&self.rootp(&e), &self.top.join("outside/dir"));
            }
            Mutation::MoveOutDeep(e) | Mutation::MoveToDeletedSibling(e) => {
                use std::os::fd::AsRawFd;
                let deep = matches!(self.m, Mutation::MoveOutDeep(_));
                if self.trap.is_none() {
                    self.trap = host_trap_dir(&self.top, &self.names, deep);
                }
                if let Some(t) = &self.trap {
                    let src = cpath(&self.rootp(&e));
                    unsafe { libc::renameat(libc::AT_FDCWD, src.as_ptr(), t.as_raw_fd(), b"__moved\0".as_ptr() as *const _) };
                }
            }
        }
    }

    fn undo(&mut self) {
        let moved = self.top.join("outside/moved");
        match self.m.clone() {
            Mutation::MoveOut(e) => {
                let _ = fs::rename(&moved, self.rootp(&e));
            }
            Mutation::ReplaceWithHostLink(e) | Mutation::ReplaceWithHostFileLink(e) => {
                if moved.symlink_metadata().is_ok() {
                    let _ = fs::remove_file(self.rootp(&e));
                    let _ = fs::rename(&moved, self.rootp(&e));
                }
            }
            Mutation::Exchange(a, b) => {
                exchange(&self.rootp(&a), &self.rootp(&b));
            }
            Mutation::MoveUp(e) => {
                let _ = fs::rename(self.top.join("root/__moved_up"), self.rootp(&e));
            }
            Mutation::ExchangeWithHost(e) => {
                exchange(&self.rootp(&e), &self.top.join("outside/dir"));
            }
            Mutation::MoveOutDeep(e) | Mutation::MoveToDeletedSibling(e) => {
                use std::os::fd::AsRawFd;
                if let Some(t) = &self.trap {
                    let dst = cpath(&self.rootp(&e));
                    unsafe { libc::renameat(t.as_raw_fd(), b"__moved\0".as_ptr() as *const _, libc::AT_FDCWD, dst.as_ptr()) };
                }
            }
        }
    }
}

impl Interposer for Attacker {
    fn pre(&mut self, idx: usize, _call: &Call) -> Action {
        if !self.done && idx >= self.at {
            self.done = true;
            self.apply();
        } else if self.done && !self.undone {
            if let Some(u) = self.undo_at {
                if idx >= u {
                    self.undone = true;
                    self.undo();
                }
            }
        }
        Action::Proceed
    }

    fn post(&mut self, _idx: usize, call: &Call, resp: &Resp) {
        // `readlinkat(fd, "")` on an object of a real filesystem: whose body is being read?
        if call.kind == "readlinkat" && call.strs.first().map(|s| s.is_empty()).unwrap_or(false) && matches!(resp, Resp::Bytes(_)) {
            if let Some(&fd) = call.fds.first() {
                let mut sfs: libc::statfs = unsafe { std::mem::zeroed() };
                if unsafe { libc::fstatfs(fd, &mut sfs) } == 0 && sfs.f_type as i64 != 0x9fa0 {
                    let mut st: libc::stat = unsafe { std::mem::zeroed() };
                    unsafe { libc::fstat(fd, &mut st) };
                    let key = (st.st_dev, st.st_ino);
                    if !self.inside.contains(&key) && !self.created.borrow().contains(&key) {
                        self.reads_out.borrow_mut().push(foreign_name(&self.top, key));
                    }
                }
            }
        }
    }
}

fn mutations_for(rng: &mut Rng, spec: &TreeSpec, op: &Op) -> Vec<Mutation> {
    // entries that lie on the lexical path of the operation or that are links come first
    let (path, path2): (&[u8], &[u8]) = match op {
        Op::Resolve { path, .. } | Op::OpenSubpath { path, .. } | Op::Readlink { path } => (path, b""),
        Op::Mkdir { path, .. }
        | Op::Mknod { path, .. }
        | Op::CreateFile { path, .. }
        | Op::MkdirAll { path, .. }
        | Op::RemoveFile { path }
        | Op::RemoveDir { path }
        | Op::RemoveAll { path } => (path, b""),
        Op::Symlink { path, .. } => (path, b""),
        Op::Hardlink { path, target } => (path, target),
        Op::Rename { src, dst, .. } => (src, dst),
        _ => (b"", b""),
    };
    let comps: Vec<&[u8]> =
        path.split(|c| *c == b'/').chain(path2.split(|c| *c == b'/')).filter(|c| !c.is_empty()).collect();
    let mut scored: Vec<(usize, &tree::Entry)> = spec
        .entries
        .iter()
        .map(|e| {
            let last = e.path.rsplit(|c| *c == b'/').next().unwrap_or(b"");
            let on_path = comps.iter().any(|c| *c == last) as usize;
            let interesting = matches!(e.kind, Kind::Dir | Kind::Link(_)) as usize;
            (2 * on_path + interesting, e)
        })
        .collect();
    scored.sort_by(|a, b| b.0.cmp(&a.0));
    let chosen: Vec<&tree::Entry> = scored.iter().take(5).map(|x| x.1).collect();
    let mut v = Vec::new();
    for e in &chosen {
        v.push(Mutation::MoveOut(e.path.clone()));
        v.push(Mutation::ReplaceWithHostLink(e.path.clone()));
        if matches!(e.kind, Kind::Dir) {
            v.push(Mutation::ExchangeWithHost(e.path.clone()));
            v.push(Mutation::MoveOutDeep(e.path.clone()));
            if tree::depth(&e.path) > 1 {
                v.push(Mutation::MoveUp(e.path.clone()));
            } else {
                v.push(Mutation::MoveToDeletedSibling(e.path.clone()));
            }
        } else {
            v.push(Mutation::ReplaceWithHostFileLink(e.path.clone()));
        }
    }
    for _ in 0..4 {
        if spec.entries.len() >= 2 {
            let a = rng.pick(&spec.entries).path.clone();
            let b = rng.pick(&spec.entries).path.clone();
            // exchanging an entry with one of its own ancestors is refused by the kernel
            if a != b && !a.starts_with(&b) && !b.starts_with(&a) {
                v.push(Mutation::Exchange(a, b));
            }
        }
    }
    v
}

struct CaseCtx<'a> {
    spec: &'a TreeSpec,
    op: &'a Op,
    emulated: bool,
    rflags: ResolverFlags,
    seed: u64,
}

/// run the operation on a fresh copy of the tree with an interposer; returns the text of the case
fn run_one(
    ctx: &mut Ctx,
    cc: &CaseCtx,
    id: &str,
    suite: &str,
    extra: &str,
    mk: &mut dyn FnMut(&Path, &Labels) -> (Option<Box<dyn Interposer>>, Rc<RefCell<Vec<(u64, u64)>>>, Rc<RefCell<Vec<String>>>),
    check_outside: bool,
) -> (String, usize, bool) {
    let (top, rootdir) = setup_case_dir(ctx, "case", cc.spec);
    let labels = Labels::of_tree(cc.spec, &rootdir);
    let mut root = Root::open(&rootdir).expect("open root");
    root.verif_set_emulated(cc.emulated);
    root.set_resolver_flags(cc.rflags);
    let mut s = String::new();
    s.push_str(&format!("case {id}\nmeta seed={} suite={suite}\n", cc.seed));
    s.push_str(&format!("tree {}\n", cc.spec.entries.len()));
    s.push_str(&cc.spec.lines());
    s.push_str(&cc.op.line());
    s.push('\n');
    s.push_str(&cfg_line(&root, cc.emulated, cc.rflags));
    s.push('\n');
    s.push_str(extra);
    let host_mode = suite == "attack-mut";
    if host_mode {
        enrich_host(&top, cc.spec);
    }
    let host_before = if host_mode { Some(host_snapshot(&top)) } else { None };
    let outside_before = if check_outside { Some(outside_snapshot(&top)) } else { None };
    let (ip, created, reads_out) = mk(&top, &labels);
    let before = ops::fd_table();
    let (outcome, log) = ops::run_recorded(&root, cc.op, ip);
    let after = ops::fd_table();
    let ex = match &outcome {
        Outcome::Fd(fd) => Some(fd.as_raw_fd()),
        _ => None,
    };
    let fdt = ops::fd_table_diff(&before, &after, ex);
    s.push_str(&fmt::transcript(&log));
    s.push_str(&outcome.line(&labels));
    s.push('\n');
    // identity of the result: inside the tree, created inside by the attacker, or foreign
    match &outcome {
        Outcome::Fd(fd) => {
            let mut st: libc::stat = unsafe { std::mem::zeroed() };
            unsafe { libc::fstat(fd.as_raw_fd(), &mut st) };
            let key = (st.st_dev, st.st_ino);
            let verdict = if labels.label(key.0, key.1).is_some() {
                "in".to_string()
            } else if created.borrow().contains(&key) {
                "created".to_string()
            } else {
                format!("OUT {}", foreign_name(&top, key))
            };
            s.push_str(&format!("ident {verdict}\n"));
        }
        Outcome::Bytes(b) => {
            // a link body: must be the body of a link of the tree or of a link the attacker put there
            let known = cc.spec.entries.iter().any(|e| matches!(&e.kind, Kind::Link(t) if t == b))
                || b.as_slice() == top.join("outside/dir").as_os_str().as_bytes()
                || b.as_slice() == top.join("outside/secret").as_os_str().as_bytes();
            s.push_str(&format!("ident {}\n", if known { "in".to_string() } else { format!("OUT body {}", fmt::hex(b)) }));
        }
        _ => s.push_str("ident none\n"),
    }
    if reads_out.borrow().is_empty() {
        s.push_str("linkbody in\n");
    } else {
        s.push_str(&format!("linkbody OUT {}\n", reads_out.borrow().join(",")));
    }
    s.push_str(&fdt);
    s.push('\n');
    let mut post_ok = true;
    if let Some(b) = outside_before {
        let a = outside_snapshot(&top);
        if a != b {
            s.push_str("outside CHANGED\n");
            post_ok = false;
        } else {
            s.push_str("outside same\n");
        }
    }
    if let (Some(b), Outcome::Fd(fd)) = (&host_before, &outcome) {
        // a descriptor handed back by the operation must not be one of the host's objects
        let mut st: libc::stat = unsafe { std::mem::zeroed() };
        unsafe { libc::fstat(fd.as_raw_fd(), &mut st) };
        let topdev = fs::metadata(&top).map(|m| m.dev()).unwrap_or(0);
        match b.iter().find(|x| x.5 == st.st_ino && st.st_dev == topdev) {
            Some(x) => {
                s.push_str(&format!("hostfd OUT {} {}\n", x.1, fmt::hex(&x.0)));
                post_ok = false;
            }
            None => s.push_str("hostfd in\n"),
        }
    }
    if let Some(b) = host_before {
        let a = host_snapshot(&top);
        if a != b {
            // the first entry that differs
            let gone = b.iter().find(|x| !a.contains(x));
            let new = a.iter().find(|x| !b.contains(x));
            let show = |x: Option<&(Vec<u8>, char, u32, u64, Vec<u8>, u64)>| match x {
                Some(x) => format!("{} {} {:o} {}", x.1, fmt::hex(&x.0), x.2, x.3),
                None => "-".into(),
            };
            s.push_str(&format!("host CHANGED was=[{}] now=[{}]\n", show(gone), show(new)));
            post_ok = false;
        } else {
            s.push_str("host same\n");
        }
    }
    // did a reported success really happen?  (not asked when an attacker rearranged the tree meanwhile)
    if host_mode {
    } else if let Some(line) = success_postcondition(&root, cc.op, &outcome) {
        s.push_str(&line);
        s.push('\n');
    }
    s.push_str("end\n");
    let n = log.len();
    let panicked = matches!(outcome, Outcome::Panic(_));
    drop(outcome);
    drop(root);
    let _ = fs::remove_dir_all(&top);
    (s, n, post_ok && !panicked)
}

fn foreign_name(top: &Path, key: (u64, u64)) -> String {
    for (name, p) in [
        ("outside/dir", top.join("outside/dir")),
        ("outside/secret", top.join("outside/secret")),
        ("outside", top.join("outside")),
        ("top", top.to_path_buf()),
        ("outside/dir/x", top.join("outside/dir/x")),
        ("/", PathBuf::from("/")),
    ] {
        if let Ok(md) = fs::metadata(&p) {
            if (md.dev(), md.ino()) == key {
                return name.into();
            }
        }
    }
    format!("{}:{}", key.0, key.1)
}

fn outside_snapshot(top: &Path) -> Vec<(Vec<u8>, char, u32, u64, Vec<u8>)> {
    tree::snapshot(top)
        .into_iter()
        .filter(|(p, _)| !(p.starts_with(b"root/") || p == b"root"))
        .map(|(p, e)| (p, e.kind, e.mode, e.size, e.body))
        .collect()
}

/// The host side for the attacked mutating operations: `outside/dir` offers, under the names of the tree's entries, files,
/// a directory with a file in it and a link — whatever name the operation applies below a directory of the tree, a library
/// that lets itself be led into `outside/dir` finds something to remove, replace or collide with there.
fn enrich_host(top: &Path, spec: &TreeSpec) {
    let dir = top.join("outside/dir");
    let mut names: Vec<Vec<u8>> =
        spec.entries.iter().map(|e| e.path.rsplit(|c| *c == b'/').next().unwrap_or(b"").to_vec()).filter(|n| !n.is_empty()).collect();
    names.sort();
    names.dedup();
    for (i, n) in names.iter().enumerate() {
        let p = dir.join(OsStr::from_bytes(n));
        match i % 3 {
            0 => {
                let _ = fs::write(&p, b"HOST");
            }
            1 => {
                let _ = fs::create_dir(&p);
                let _ = fs::write(p.join("inner"), b"HOST");
            }
            _ => {
                let _ = std::os::unix::fs::symlink("../secret", &p);
            }
        }
    }
    let _ = fs::create_dir(dir.join("sub"));
    let _ = fs::write(dir.join("sub/y"), b"HOST");
}

/// what was never inside the root and is not the attacker's own doing (`outside/moved` is where the attacker parks tree
/// entries: it and everything below it was inside the root)
fn host_snapshot(top: &Path) -> Vec<(Vec<u8>, char, u32, u64, Vec<u8>, u64)> {
    tree::snapshot(top)
        .into_iter()
        .filter(|(p, _)| !(p.starts_with(b"root/") || p == b"root" || p == b"outside/moved" || p.starts_with(b"outside/moved/")))
        // (the modification time of `outside` changes when the attacker renames into it: not compared)
        .map(|(p, e)| (p, e.kind, e.mode, e.size, e.body, e.ino))
        .collect()
}

/// After a reported success, ask the kernel (independent in-root lookup) whether the work was done.
fn success_postcondition(root: &Root, op: &Op, outcome: &Outcome) -> Option<String> {
    let ok = matches!(outcome, Outcome::Unit | Outcome::Fd(_));
    if !ok {
        return None;
    }
    let exists = |path: &[u8]| -> Option<bool> {
        // trailing slashes and empty last components are not the subject here
        match ops::kernel_openat2(root.as_fd(), path, (libc::O_PATH | libc::O_NOFOLLOW) as u64, 0) {
            Ok(_) => Some(true),
            Err(libc::ENOENT) => Some(false),
            Err(_) => None,
        }
    };
    let verdict = |want: bool, path: &[u8]| -> String {
        match exists(path) {
            Some(e) if e == want => "post ok".into(),
            Some(_) => format!("post BAD success reported but {} {}", fmt::hex(path), if want { "does not exist" } else { "still exists" }),
            None => "post unknown".into(),
        }
    };
    Some(match op {
        Op::Mkdir { path, .. }
        | Op::Mknod { path, .. }
        | Op::Symlink { path, .. }
        | Op::Hardlink { path, .. }
        | Op::CreateFile { path, .. }
        | Op::MkdirAll { path, .. } => verdict(true, path),
        Op::RemoveFile { path } | Op::RemoveDir { path } | Op::RemoveAll { path } => verdict(false, path),
        Op::Rename { src, dst, flags } => {
            if *flags & 2 != 0 {
                // RENAME_EXCHANGE: both names exist afterwards
                let a = verdict(true, dst);
                if a != "post ok" {
                    a
                } else {
                    verdict(true, src)
                }
            } else {
                let a = verdict(false, src);
                if a != "post ok" {
                    a
                } else {
                    verdict(true, dst)
                }
            }
        }
        _ => return None,
    })
}

fn no_interposer(_top: &Path, _l: &Labels) -> (Option<Box<dyn Interposer>>, Rc<RefCell<Vec<(u64, u64)>>>, Rc<RefCell<Vec<String>>>) {
    (None, Rc::new(RefCell::new(Vec::new())), Rc::new(RefCell::new(Vec::new())))
}

/// hand-made scenarios: the classic "move the directory out while the walk is inside, then `..`"
fn classic_cases() -> Vec<(TreeSpec, Op)> {
    let mk = |ents: &[(&[u8], Kind)]| {
        let mut spec = TreeSpec::default();
        for (p, k) in ents {
            spec.entries.push(tree::Entry { path: p.to_vec(), kind: k.clone(), mode: 0o755 });
        }
        spec
    };
    let deep = mk(&[
        (b"a", Kind::Dir),
        (b"a/b", Kind::Dir),
        (b"a/b/c", Kind::Dir),
        (b"a/b/c/d", Kind::Dir),
        (b"f", Kind::File),
        (b"l", Kind::Link(b"a/b".to_vec())),
        (b"a/up", Kind::Link(b"../..".to_vec())),
        (b"abs", Kind::Link(b"/a/b/c".to_vec())),
    ]);
    vec![
        (deep.clone(), Op::Resolve { path: b"a/b/c/d/../../../..".to_vec(), nofollow: false }),
        (deep.clone(), Op::Resolve { path: b"a/b/c/../c/d/../../../../f".to_vec(), nofollow: false }),
        (deep.clone(), Op::Resolve { path: b"l/c/../../../a".to_vec(), nofollow: false }),
        (deep.clone(), Op::Resolve { path: b"abs/d/../../../up/f".to_vec(), nofollow: false }),
        (deep.clone(), Op::OpenSubpath { path: b"a/b/c/../../../f".to_vec(), flags: libc::O_RDONLY }),
        (deep.clone(), Op::Readlink { path: b"a/b/c/../../up".to_vec() }),
        (deep.clone(), Op::Resolve { path: b"a/b/c/d/../../../../l".to_vec(), nofollow: true }),
        // names that exist only *outside* the root (next to where a moved-out directory lands):
        // the walk must not read outside/link or open outside/dir/x
        (deep.clone(), Op::Resolve { path: b"a/b/c/../link".to_vec(), nofollow: false }),
        (deep.clone(), Op::Resolve { path: b"a/b/c/d/../../link/../f".to_vec(), nofollow: false }),
        (deep.clone(), Op::Readlink { path: b"a/b/c/../link".to_vec() }),
        (deep.clone(), Op::OpenSubpath { path: b"a/b/../dir/x".to_vec(), flags: libc::O_RDONLY }),
        // one-shot opens whose *last* component is `..` or a link, with O_NOFOLLOW (the flag must not
        // select a cheaper, unverified way of opening the final component)
        (deep.clone(), Op::OpenSubpath { path: b"a/b/..".to_vec(), flags: libc::O_PATH | libc::O_NOFOLLOW }),
        (deep.clone(), Op::OpenSubpath { path: b"a/b/c/../..".to_vec(), flags: libc::O_RDONLY | libc::O_NOFOLLOW | libc::O_DIRECTORY }),
        (deep.clone(), Op::OpenSubpath { path: b"a/b/c/d/../../../../..".to_vec(), flags: libc::O_RDONLY | libc::O_NOFOLLOW }),
        (deep.clone(), Op::OpenSubpath { path: b"a/b/c/../../../l".to_vec(), flags: libc::O_PATH | libc::O_NOFOLLOW }),
        (deep, Op::OpenSubpath { path: b"l/c/d/..".to_vec(), flags: libc::O_RDONLY | libc::O_NOFOLLOW }),
    ]
}

pub fn suite_attack(ctx: &mut Ctx, seed: u64, n: usize, per_case: usize) {
    let mut rng = Rng::new(seed);
    let classics = classic_cases();
    for i in 0..n {
        let mut crng = rng.fork();
        let case_seed = crng.0;
        let (spec, op) = if i < classics.len() {
            classics[i].clone()
        } else {
            // look for a lookup that succeeds unperturbed and walks through ".." or a link
            let mut found = None;
            for _ in 0..40 {
                let spec = TreeSpec::generate(&mut crng, 12);
                let op = gen::gen_op_in(&mut crng, &spec, gen::OpClass::Lookups);
                let path: &[u8] = match &op {
                    Op::Resolve { path, .. } | Op::OpenSubpath { path, .. } | Op::Readlink { path } => path,
                    _ => continue,
                };
                let interesting = path.windows(2).any(|w| w == b"..")
                    || spec.entries.iter().any(|e| matches!(e.kind, Kind::Link(_)) && {
                        let last = e.path.rsplit(|c| *c == b'/').next().unwrap_or(b"");
                        path.split(|c| *c == b'/').any(|c| c == last)
                    });
                if !interesting {
                    continue;
                }
                let cc = CaseCtx { spec: &spec, op: &op, emulated: true, rflags: ResolverFlags::empty(), seed: case_seed };
                let mut sink = Ctx { work: ctx.work.clone(), out: Box::new(std::io::sink()), no_openat2: ctx.no_openat2, unpriv: false };
                let (text, _, _) = run_one(&mut sink, &cc, "probe", "attack", "", &mut no_interposer, false);
                if text.contains("\nres ok ") {
                    found = Some((spec, op));
                    break;
                }
            }
            match found {
                Some(x) => x,
                None => continue,
            }
        };
        let rflags = ResolverFlags::empty();
        let backends: &[bool] = if ctx.no_openat2 { &[true] } else { &[true, false] };
        for &emu in backends {
            let cc = CaseCtx { spec: &spec, op: &op, emulated: emu, rflags, seed: case_seed };
            let b = if emu { "e" } else { "k" };
            let (text, ncalls, _) = run_one(ctx, &cc, &format!("{i}{b}-base"), "attack", "attack none\n", &mut no_interposer, false);
            ctx.out.write_all(text.as_bytes()).unwrap();
            let muts = mutations_for(&mut crng, &spec, &op);
            // the grid: mutation x boundary x {permanent, flip-flop}
            let mut grid: Vec<(usize, usize, bool)> = Vec::new();
            for (mi, _) in muts.iter().enumerate() {
                for k in 0..=ncalls {
                    grid.push((mi, k, false));
                    if k < ncalls {
                        grid.push((mi, k, true));
                    }
                }
            }
            // sample without replacement when the grid is larger than the budget
            while grid.len() > per_case {
                let j = crng.below(grid.len());
                grid.swap_remove(j);
            }
            grid.sort();
            for (mi, k, flip) in grid {
                let m = muts[mi].clone();
                let extra = format!("attack at={k} flip={} {}\n", flip as u8, m.line());
                let id = format!("{i}{b}-m{mi}k{k}{}", if flip { "f" } else { "" });
                let mut mk = |top: &Path, labels: &Labels| {
                    let created = Rc::new(RefCell::new(Vec::new()));
                    let reads_out = Rc::new(RefCell::new(Vec::new()));
                    let a = Attacker {
                        top: top.to_path_buf(),
                        at: k,
                        undo_at: if flip { Some(k + 1) } else { None },
                        m: m.clone(),
                        done: false,
                        undone: false,
                        created: created.clone(),
                        inside: labels.0.keys().cloned().collect(),
                        reads_out: reads_out.clone(),
                        names: {
                            let mut n: Vec<Vec<u8>> = cc
                                .spec
                                .entries
                                .iter()
                                .map(|e| e.path.rsplit(|c| *c == b'/').next().unwrap_or(b"").to_vec())
                                .filter(|n| !n.is_empty())
                                .collect();
                            n.sort();
                            n.dedup();
                            n
                        },
                        trap: None,
                    };
                    (Some(Box::new(a) as Box<dyn Interposer>), created, reads_out)
                };
                let (text, _, _) = run_one(ctx, &cc, &id, "attack", &extra, &mut mk, false);
                ctx.out.write_all(text.as_bytes()).unwrap();
            }
        }
    }
}

/// hand-made mutating operations for the attacker grid (every boundary x every mutation is tried on these)
fn classic_mut_cases() -> Vec<(TreeSpec, Op)> {
    let mk = |ents: &[(&[u8], Kind)]| {
        let mut spec = TreeSpec::default();
        for (p, k) in ents {
            spec.entries.push(tree::Entry { path: p.to_vec(), kind: k.clone(), mode: 0o755 });
        }
        spec
    };
    let t = mk(&[
        (b"a", Kind::Dir),
        (b"a/b", Kind::Dir),
        (b"a/b/f1", Kind::File),
        (b"a/b/f2", Kind::File),
        (b"a/b/sub", Kind::Dir),
        (b"a/b/sub/y", Kind::File),
        (b"a/c", Kind::Dir),
        (b"a/l", Kind::Link(b"../a/b".to_vec())),
        (b"f", Kind::File),
        (b"x", Kind::Dir),
        (b"x/inner", Kind::File),
    ]);
    vec![
        (t.clone(), Op::RemoveAll { path: b"a".to_vec() }),
        (t.clone(), Op::RemoveAll { path: b"a/b".to_vec() }),
        (t.clone(), Op::RemoveAll { path: b"a/l/sub".to_vec() }),
        (t.clone(), Op::RemoveAll { path: b"x".to_vec() }),
        (t.clone(), Op::MkdirAll { path: b"a/l/n1/n2/n3".to_vec(), mode: 0o755 }),
        (t.clone(), Op::MkdirAll { path: b"a/b/sub/../sub/n1/n2".to_vec(), mode: 0o700 }),
        (t.clone(), Op::Rename { src: b"a/b/f1".to_vec(), dst: b"a/c/g".to_vec(), flags: 0 }),
        (t.clone(), Op::Rename { src: b"a/b/sub".to_vec(), dst: b"x/sub".to_vec(), flags: 0 }),
        (t.clone(), Op::Rename { src: b"a/b/f1".to_vec(), dst: b"x/inner".to_vec(), flags: libc::RENAME_EXCHANGE }),
        (t.clone(), Op::CreateFile { path: b"a/l/new".to_vec(), flags: libc::O_WRONLY, mode: 0o644 }),
        (t.clone(), Op::CreateFile { path: b"a/b/f1".to_vec(), flags: libc::O_WRONLY | libc::O_TRUNC, mode: 0o644 }),
        (t.clone(), Op::RemoveFile { path: b"a/b/f1".to_vec() }),
        (t.clone(), Op::RemoveFile { path: b"a/l/sub/y".to_vec() }),
        (t.clone(), Op::RemoveDir { path: b"a/c".to_vec() }),
        (t.clone(), Op::Mkdir { path: b"a/b/sub/nd".to_vec(), mode: 0o755 }),
        (t.clone(), Op::Symlink { path: b"a/b/sub/ln".to_vec(), target: b"/etc/passwd".to_vec() }),
        (t.clone(), Op::Hardlink { path: b"a/c/hl".to_vec(), target: b"a/b/f2".to_vec() }),
        (t, Op::Mknod { path: b"a/b/sub/fifo".to_vec(), mode: libc::S_IFIFO | 0o644, dev: 0, ptype: 0 }),
    ]
}

/// C03 under attack, on the real filesystem: a mutating operation runs while the interposer performs one of the attacker's
/// mutations immediately before a chosen system call of the operation (every boundary of the unperturbed run is tried,
/// permanently or undone one call later).  Whatever the operation then does, nothing that was never inside the root may
/// change: the host side (`outside/**` apart from the entries the attacker itself moved out) is compared before and after.
pub fn suite_attack_mut(ctx: &mut Ctx, seed: u64, n: usize, per_case: usize) {
    let mut rng = Rng::new(seed);
    let classics = classic_mut_cases();
    for i in 0..n {
        let mut crng = rng.fork();
        let case_seed = crng.0;
        let (spec, op) = if i < classics.len() {
            classics[i].clone()
        } else {
            // a generated operation that does something when nobody interferes
            let mut found = None;
            for _ in 0..40 {
                let spec = TreeSpec::generate(&mut crng, 12);
                let class = *crng.pick(&[gen::OpClass::Mutating, gen::OpClass::Mutating, gen::OpClass::RemoveAll, gen::OpClass::MkdirAll]);
                let op = gen::gen_op_in(&mut crng, &spec, class);
                // never block on a fifo, never an operation with creation flags that hang
                let cc = CaseCtx { spec: &spec, op: &op, emulated: true, rflags: ResolverFlags::empty(), seed: case_seed };
                let mut sink = Ctx { work: ctx.work.clone(), out: Box::new(std::io::sink()), no_openat2: ctx.no_openat2, unpriv: false };
                let (text, _, _) = run_one(&mut sink, &cc, "probe", "attack-mut", "", &mut no_interposer, false);
                if text.contains("\nres ok") {
                    found = Some((spec, op));
                    break;
                }
            }
            match found {
                Some(x) => x,
                None => continue,
            }
        };
        let rflags = ResolverFlags::empty();
        let backends: &[bool] = if ctx.no_openat2 { &[true] } else { &[true, false] };
        for &emu in backends {
            let cc = CaseCtx { spec: &spec, op: &op, emulated: emu, rflags, seed: case_seed };
            let b = if emu { "e" } else { "k" };
            let (text, ncalls, _) = run_one(ctx, &cc, &format!("{i}{b}-base"), "attack-mut", "attack none\n", &mut no_interposer, false);
            ctx.out.write_all(text.as_bytes()).unwrap();
            // the mutations that lead somewhere else: links to the host, moves, exchanges (not the ones that move host
            // objects into the root, which makes them fair game)
            let muts: Vec<Mutation> = mutations_for(&mut crng, &spec, &op)
                .into_iter()
                .filter(|m| !matches!(m, Mutation::ExchangeWithHost(_) | Mutation::MoveOutDeep(_) | Mutation::MoveToDeletedSibling(_)))
                .collect();
            let mut grid: Vec<(usize, usize, bool)> = Vec::new();
            for (mi, _) in muts.iter().enumerate() {
                for k in 0..=ncalls {
                    grid.push((mi, k, false));
                    if k < ncalls {
                        grid.push((mi, k, true));
                    }
                }
            }
            while grid.len() > per_case {
                let j = crng.below(grid.len());
                grid.swap_remove(j);
            }
            grid.sort();
            for (mi, k, flip) in grid {
                let m = muts[mi].clone();
                let extra = format!("attack at={k} flip={} {}\n", flip as u8, m.line());
                let id = format!("{i}{b}-m{mi}k{k}{}", if flip { "f" } else { "" });
                let mut mk = |top: &Path, labels: &Labels| {
                    let created = Rc::new(RefCell::new(Vec::new()));
                    let reads_out = Rc::new(RefCell::new(Vec::new()));
                    let a = Attacker {
                        top: top.to_path_buf(),
                        at: k,
                        undo_at: if flip { Some(k + 1) } else { None },
                        m: m.clone(),
                        done: false,
                        undone: false,
                        created: created.clone(),
                        inside: labels.0.keys().cloned().collect(),
                        reads_out: reads_out.clone(),
                        names: Vec::new(),
                        trap: None,
                    };
                    (Some(Box::new(a) as Box<dyn Interposer>), created, reads_out)
                };
                let (text, _, _) = run_one(ctx, &cc, &id, "attack-mut", &extra, &mut mk, false);
                ctx.out.write_all(text.as_bytes()).unwrap();
            }
        }
    }
}

// ---------------------------------------------------------------------------
// fault injection
// ---------------------------------------------------------------------------

pub const ERRNOS: &[i32] = &[
    libc::EMFILE,
    libc::ENFILE,
    libc::ENOMEM,
    libc::EACCES,
    libc::EIO,
    libc::EINTR,
    libc::ENOSYS,
    libc::EAGAIN,
    libc::EPERM,
    libc::ENOENT,
    libc::EINVAL,
    libc::ELOOP,
];

#[derive(Clone, Debug)]
pub enum Fault {
    /// the k-th call fails with errno
    Single(usize, i32),
    /// every call that returns a descriptor fails with EMFILE from index k on
    Exhaust(usize),
    /// every openat2 fails with EAGAIN
    AlwaysEagain,
    /// every call of this kind fails with this errno
    Persistent(&'static str, i32),
    /// the first n in-root openat2 calls answer EAGAIN (exactly the retry budget of one lookup)
    EagainFirst(usize),
}

pub struct Faulter(pub Fault, pub usize);

fn returns_fd(kind: &str) -> bool {
    matches!(kind, "openat" | "openat2" | "dup" | "fsopen" | "fsmount" | "open_tree" | "dir_open")
}

/// an operation that makes more system calls than this is taken not to terminate
pub const CALL_BUDGET: usize = 20000;

impl Interposer for Faulter {
    fn pre(&mut self, idx: usize, call: &Call) -> Action {
        // (calls interposed at libc symbol level sit below an `extern "C"` frame: a panic cannot unwind through it)
        if idx > CALL_BUDGET && !matches!(call.kind, "readlink_abs" | "close" | "dup") {
            panic!("verif: call budget of {CALL_BUDGET} system calls exceeded (the operation does not terminate?)");
        }
        match &self.0 {
            Fault::Persistent(kind, e) if call.kind == *kind && call.fds.first().map(|f| *f >= 0).unwrap_or(false) => Action::Fail(*e),
            Fault::Single(k, e) if idx == *k && call.kind != "close" && call.kind != "gettid" && call.kind != "geteuid" => {
                Action::Fail(*e)
            }
            Fault::Exhaust(k) if idx >= *k && returns_fd(call.kind) => Action::Fail(libc::EMFILE),
            Fault::EagainFirst(n) if call.kind == "openat2" && call.nums.get(2).map(|r| r & 0x10 != 0).unwrap_or(false) => {
                self.1 += 1;
                if self.1 <= *n {
                    Action::Fail(libc::EAGAIN)
                } else {
                    Action::Proceed
                }
            }
            Fault::AlwaysEagain if call.kind == "openat2" => {
                // only lookups below the root of the case, not libpathrs' own procfs handle
                if call.nums.get(2).map(|r| r & 0x10 != 0).unwrap_or(false) {
                    Action::Fail(libc::EAGAIN)
                } else {
                    Action::Proceed
                }
            }
            _ => Action::Proceed,
        }
    }
    fn post(&mut self, _idx: usize, _call: &Call, _resp: &Resp) {}
}

/// operations whose fault grid always runs in full: the recursive and the multi-step ones
fn classic_fault_cases() -> Vec<(TreeSpec, Op)> {
    let mk = |ents: &[(&[u8], Kind)]| {
        let mut spec = TreeSpec::default();
        for (p, k) in ents {
            spec.entries.push(tree::Entry { path: p.to_vec(), kind: k.clone(), mode: 0o755 });
        }
        spec
    };
    let t = mk(&[
        (b"a", Kind::Dir),
        (b"a/b", Kind::Dir),
        (b"a/b/f1", Kind::File),
        (b"a/b/f2", Kind::File),
        (b"a/c", Kind::Dir),
        (b"a/l", Kind::Link(b"../a/b".to_vec())),
        (b"f", Kind::File),
    ]);
    vec![
        (t.clone(), Op::RemoveAll { path: b"a".to_vec() }),
        (t.clone(), Op::MkdirAll { path: b"a/l/n1/n2/n3".to_vec(), mode: 0o755 }),
        (t.clone(), Op::Rename { src: b"a/b/f1".to_vec(), dst: b"a/c/g".to_vec(), flags: 0 }),
        (t.clone(), Op::CreateFile { path: b"a/l/new".to_vec(), flags: libc::O_WRONLY, mode: 0o644 }),
        // renames whose flags decide the outcome: whatever fails, NOREPLACE never replaces and EXCHANGE never loses a name
        (t.clone(), Op::Rename { src: b"a/b/f1".to_vec(), dst: b"a/b/f2".to_vec(), flags: libc::RENAME_NOREPLACE }),
        (t, Op::Rename { src: b"a/b/f1".to_vec(), dst: b"f".to_vec(), flags: libc::RENAME_EXCHANGE }),
    ]
}

/// the result line of a case text (`res ...`)
fn res_of(text: &str) -> String {
    text.lines().find(|l| l.starts_with("res ")).unwrap_or("res ?").to_string()
}

pub fn suite_fault(ctx: &mut Ctx, seed: u64, n: usize, per_case: usize, only_case: Option<usize>, aftermath_each: bool) {
    let mut rng = Rng::new(seed);
    let classics = classic_fault_cases();
    for i in 0..n {
        let mut crng = rng.fork();
        let case_seed = crng.0;
        if let Some(o) = only_case {
            if o != i {
                continue;
            }
        }
        let classic = i < classics.len();
        let (spec, op) = if classic {
            classics[i].clone()
        } else {
            let spec = TreeSpec::generate(&mut crng, 10);
            let op = gen::gen_op_in(&mut crng, &spec, gen::OpClass::All);
            (spec, op)
        };
        if matches!(op, Op::Reopen { .. }) {
            continue;
        }
        let rflags = ResolverFlags::empty();
        let backends: &[bool] = if ctx.no_openat2 { &[true] } else { &[true, false] };
        for &emu in backends {
            let cc = CaseCtx { spec: &spec, op: &op, emulated: emu, rflags, seed: case_seed };
            let b = if emu { "e" } else { "k" };
            let (text, ncalls, _) = run_one(ctx, &cc, &format!("{i}{b}-base"), "fault", "fault none\n", &mut no_interposer, true);
            let base_res = res_of(&text);
            ctx.out.write_all(text.as_bytes()).unwrap();
            let mut grid: Vec<Fault> = Vec::new();
            for k in 0..ncalls {
                for e in ERRNOS {
                    grid.push(Fault::Single(k, *e));
                }
                grid.push(Fault::Exhaust(k));
            }
            while !classic && grid.len() > per_case {
                let j = crng.below(grid.len());
                grid.swap_remove(j);
            }
            grid.push(Fault::AlwaysEagain);
            grid.push(Fault::EagainFirst(16));
            if classic {
                for kind in ["unlinkat", "openat", "mkdirat", "dir_open", "dir_next", "renameat", "fstatat"] {
                    for e in [libc::EACCES, libc::EIO, libc::EMFILE] {
                        grid.push(Fault::Persistent(kind, e));
                    }
                }
            }
            for (fi, f) in grid.into_iter().enumerate() {
                let extra = match &f {
                    Fault::Single(k, e) => format!("fault single at={k} errno={e}\n"),
                    Fault::Exhaust(k) => format!("fault exhaust from={k}\n"),
                    Fault::AlwaysEagain => "fault always_eagain\n".to_string(),
                    Fault::Persistent(kind, e) => format!("fault persistent kind={kind} errno={e}\n"),
                    Fault::EagainFirst(n) => format!("fault eagain_first n={n}\n"),
                };
                let id = format!("{i}{b}-f{fi}");
                let mut mk = |_top: &Path, _l: &Labels| {
                    (
                        Some(Box::new(Faulter(f.clone(), 0)) as Box<dyn Interposer>),
                        Rc::new(RefCell::new(Vec::new())),
                        Rc::new(RefCell::new(Vec::new())),
                    )
                };
                let (text, _, _) = run_one(ctx, &cc, &id, "fault", &extra, &mut mk, true);
                ctx.out.write_all(text.as_bytes()).unwrap();
                if aftermath_each {
                    // search mode: the same operation again, without a fault, after every faulted run
                    let (atext, acalls, _) = run_one(ctx, &cc, &format!("{id}-after"), "fault",
                        &format!("fault none\naftermath of={id} base_calls={ncalls} {}\n", extra.trim().replace(' ', "_")),
                        &mut no_interposer, true);
                    if res_of(&atext) != base_res || acalls != ncalls {
                        ctx.out.write_all(atext.as_bytes()).unwrap();
                        return;
                    }
                }
            }
            // aftermath: a failed call must not leave anything behind in the process — the same operation on
            // the same tree without any fault behaves exactly as it did before the faults
            let (atext, _, _) = run_one(ctx, &cc, &format!("{i}{b}-after"), "fault",
                &format!("fault none\naftermath of={i}{b}-sweep base_calls={ncalls}\n"), &mut no_interposer, true);
            ctx.out.write_all(atext.as_bytes()).unwrap();
        }
    }
}

/// Single faults during first use, each in a forked child (no warm-up has happened there).
/// The parent only relays one summary line per child: the model is not involved (the global
/// initialisation is process state the transcripts of ordinary cases deliberately exclude).
pub fn suite_fault_init(work: &Path, out: &mut dyn Write, emulated_procfs: bool) {
    let d = work.join("init");
    let _ = fs::remove_dir_all(&d);
    fs::create_dir_all(d.join("a/b")).unwrap();
    let _ = std::os::unix::fs::symlink("a", d.join("l"));
    // length of the unperturbed first-use trace
    let base = first_use_child(&d, None, emulated_procfs);
    writeln!(out, "init base {base}").unwrap();
    let ncalls: usize = base
        .split_whitespace()
        .find_map(|t| t.strip_prefix("calls=").and_then(|v| v.parse().ok()))
        .unwrap_or(0);
    for k in 0..ncalls {
        for e in ERRNOS {
            let r = first_use_child(&d, Some((k, *e)), emulated_procfs);
            writeln!(out, "init at={k} errno={e} {r}").unwrap();
        }
    }
    // descriptor exhaustion setting in at call k: every later descriptor-returning call fails
    for k in 0..ncalls.min(120) {
        let r = first_use_child_f(&d, Some(Fault::Exhaust(k)), emulated_procfs);
        writeln!(out, "init exhaust_from={k} {r}").unwrap();
    }
    let _ = fs::remove_dir_all(&d);
}

/// First use of the library in a fresh process, step by step, with the descriptor table after every step.  By design
/// the first use creates the process-global procfs handle, which stays open (close-on-exec, on procfs); nothing else may
/// stay open, and later calls add nothing.  Scenarios (each in its own forked child): a procfs lookup of a path outside
/// the pid directories first (on a masked global handle that is the ENOENT retry on a temporary unmasked handle), an
/// emulated in-root lookup through a symlink first (reads the fs.protected_symlinks sysctl through procfs), a reopen first.
pub fn suite_fd_init(work: &Path, out: &mut dyn Write, no_openat2: bool) {
    let d = work.join("fdinit");
    let _ = fs::remove_dir_all(&d);
    fs::create_dir_all(d.join("a/b")).unwrap();
    fs::write(d.join("a/f"), b"x").unwrap();
    let _ = std::os::unix::fs::symlink("a", d.join("l"));
    for scenario in ["proc_open_first", "resolve_first", "reopen_first"] {
        let mut fds = [0i32; 2];
        unsafe { libc::pipe(fds.as_mut_ptr()) };
        let pid = unsafe { libc::fork() };
        if pid == 0 {
            unsafe { libc::close(fds[0]) };
            if no_openat2 {
                pathrs::verif::FORCE_OPENAT2_ENOSYS.store(true, std::sync::atomic::Ordering::SeqCst);
            }
            let mut lines = String::new();
            let mut prev = ops::fd_table();
            let mut step = |name: &str, f: &mut dyn FnMut() -> String| {
                let res = f();
                let now = ops::fd_table();
                let mut extra = String::new();
                for a in &now {
                    if a.0 != fds[1] && !prev.iter().any(|b| b.0 == a.0) {
                        extra.push_str(&format!(" +{}:{}", a.0, crate::procsuite::describe(a.0).replace(' ', ",")));
                    }
                }
                for b in &prev {
                    if !now.iter().any(|a| a.0 == b.0) {
                        extra.push_str(&format!(" -{}", b.0));
                    }
                }
                lines.push_str(&format!("fdinit scenario={scenario} step={name} res={res} extra={}\n", if extra.is_empty() { " none".to_string() } else { extra }));
                prev = now;
            };
            let proc_open = &mut || {
                match pathrs::verif::global_procfs().open(pathrs::procfs::ProcfsBase::ProcRoot, "uptime", pathrs::flags::OpenFlags::O_RDONLY) {
                    Ok(_f) => "ok".to_string(),
                    Err(e) => ops::kind_str(&e.kind()).replace(' ', ":"),
                }
            };
            let resolve = &mut || {
                let mut root = Root::open(&d).expect("open root");
                root.verif_set_emulated(true);
                match root.resolve("l/b/../f") {
                    Ok(_h) => "ok".to_string(),
                    Err(e) => ops::kind_str(&e.kind()).replace(' ', ":"),
                }
            };
            let reopen = &mut || {
                let root = Root::open(&d).expect("open root");
                match root.resolve("a/f").and_then(|h| h.reopen(pathrs::flags::OpenFlags::O_RDONLY)) {
                    Ok(_f) => "ok".to_string(),
                    Err(e) => ops::kind_str(&e.kind()).replace(' ', ":"),
                }
            };
            match scenario {
                "proc_open_first" => {
                    step("proc_open", proc_open);
                    step("proc_open_again", proc_open);
                    step("resolve", resolve);
                    step("reopen", reopen);
                }
                "resolve_first" => {
                    step("resolve", resolve);
                    step("resolve_again", resolve);
                    step("proc_open", proc_open);
                    step("reopen", reopen);
                }
                _ => {
                    step("reopen", reopen);
                    step("reopen_again", reopen);
                    step("proc_open", proc_open);
                    step("resolve", resolve);
                }
            }
            unsafe {
                libc::write(fds[1], lines.as_ptr() as *const _, lines.len());
                libc::_exit(0)
            };
        }
        unsafe { libc::close(fds[1]) };
        let mut buf = vec![0u8; 65536];
        let mut got = Vec::new();
        loop {
            let r = unsafe { libc::read(fds[0], buf.as_mut_ptr() as *mut _, buf.len()) };
            if r <= 0 {
                break;
            }
            got.extend_from_slice(&buf[..r as usize]);
        }
        unsafe { libc::close(fds[0]) };
        let mut status = 0;
        unsafe { libc::waitpid(pid, &mut status, 0) };
        if got.is_empty() {
            writeln!(out, "fdinit scenario={scenario} step=child res=DIED:{status} extra= none").unwrap();
        }
        out.write_all(&got).unwrap();
    }
    let _ = fs::remove_dir_all(&d);
}

fn first_use_child(dir: &Path, fault: Option<(usize, i32)>, emulated_procfs: bool) -> String {
    first_use_child_f(dir, fault.map(|(k, e)| Fault::Single(k, e)), emulated_procfs)
}

fn first_use_child_f(dir: &Path, fault: Option<Fault>, emulated_procfs: bool) -> String {
    let mut fds = [0i32; 2];
    unsafe { libc::pipe(fds.as_mut_ptr()) };
    let pid = unsafe { libc::fork() };
    if pid == 0 {
        unsafe { libc::close(fds[0]) };
        let ip: Option<Box<dyn Interposer>> = fault.map(|f| Box::new(Faulter(f, 0)) as Box<dyn Interposer>);
        // the first use, with the fault; then — recorded separately, without any fault — the same lookup again: what it
        // does must not depend on a fault the process saw earlier
        let (r, log) = ops::recorded(ip, || {
            if emulated_procfs {
                pathrs::verif::FORCE_OPENAT2_ENOSYS.store(true, std::sync::atomic::Ordering::SeqCst);
            }
            let mut root = Root::open(dir)?;
            root.verif_set_emulated(true);
            let first = root.resolve("l/b/../b").map(|_| ());
            Ok::<_, pathrs::error::Error>((root, first.map_err(|e| e.kind())))
        });
        let line = match r {
            Ok(Ok((root, a))) => {
                let (r2, log2) = ops::recorded(None, || root.resolve("l/b/../b").map(|_| ()).map_err(|e| e.kind()));
                // histogram of the kinds of calls of the second lookup
                let mut hist: std::collections::BTreeMap<&str, usize> = std::collections::BTreeMap::new();
                for (c, _) in &log2 {
                    *hist.entry(c.kind).or_insert(0) += 1;
                }
                let sig: Vec<String> = hist.iter().map(|(k, n)| format!("{k}:{n}")).collect();
                let b = match r2 {
                    Ok(b) => b.map(|_| "ok".to_string()).unwrap_or_else(|k| ops::kind_str(&k).replace(' ', ":")),
                    Err(m) => format!("PANIC:{}", fmt::hex(m.as_bytes())),
                };
                format!(
                    "calls={} first={} second={} calls2={} sig2={}",
                    log.len(),
                    a.map(|_| "ok".to_string()).unwrap_or_else(|k| ops::kind_str(&k).replace(' ', ":")),
                    b,
                    log2.len(),
                    sig.join(",")
                )
            }
            Ok(Err(e)) => format!("calls={} open_root_err={}", log.len(), ops::kind_str(&e.kind()).replace(' ', ":")),
            Err(m) => format!("calls={} PANIC {}", log.len(), fmt::hex(m.as_bytes())),
        };
        unsafe {
            libc::write(fds[1], line.as_ptr() as *const _, line.len());
            libc::_exit(0)
        };
    }
    unsafe { libc::close(fds[1]) };
    let mut buf = vec![0u8; 65536];
    let mut got = Vec::new();
    loop {
        let r = unsafe { libc::read(fds[0], buf.as_mut_ptr() as *mut _, buf.len()) };
        if r <= 0 {
            break;
        }
        got.extend_from_slice(&buf[..r as usize]);
    }
    unsafe { libc::close(fds[0]) };
    let mut status = 0;
    unsafe { libc::waitpid(pid, &mut status, 0) };
    let s = String::from_utf8_lossy(&got).to_string();
    if libc::WIFSIGNALED(status) {
        format!("KILLED signal={} {s}", libc::WTERMSIG(status))
    } else if s.is_empty() {
        format!("NOOUTPUT status={status}")
    } else {
        s
    }
}

// ---------------------------------------------------------------------------
// racing callers (C12, C13)
// ---------------------------------------------------------------------------

/// yields the CPU at pseudo-random system-call boundaries so that the threads interleave differently
/// in every round (the schedule is not replayable bit by bit, the per-thread transcripts are)
struct Yielder(Rng);

impl Interposer for Yielder {
    fn pre(&mut self, _idx: usize, _call: &Call) -> Action {
        match self.0.below(6) {
            0 => std::thread::yield_now(),
            1 => std::thread::sleep(std::time::Duration::from_micros(self.0.below(200) as u64)),
            _ => {}
        }
        Action::Proceed
    }
}

pub fn suite_race(ctx: &mut Ctx, seed: u64, n: usize, opname: &str) {
    use std::sync::{Arc, Barrier};
    let mut rng = Rng::new(seed);
    for i in 0..n {
        let mut crng = rng.fork();
        let case_seed = crng.0;
        let spec = TreeSpec::generate(&mut crng, 10);
        let dirs = spec.dirs();
        let nthreads = 2 + crng.below(5);
        // the operations of the threads
        let ops_: Vec<Op> = if opname == "mkdir_all" {
            let base = crng.pick(&dirs).clone();
            let chain: Vec<&[u8]> = vec![b"n1", b"n2", b"n3", b"n4"];
            // in half of the rounds one caller is bound to fail *after* it has created some of the shared directories
            // (a component longer than NAME_MAX): whatever it does about its failure must not disturb the others
            let doomed = if crng.chance(1, 2) { Some(crng.below(nthreads)) } else { None };
            (0..nthreads)
                .map(|t| {
                    let depth = 1 + crng.below(4);
                    let mut p = base.clone();
                    for c in &chain[..depth] {
                        p = tree::join(&p, c);
                    }
                    if doomed == Some(t) {
                        p = tree::join(&p, &vec![b'L'; 256]);
                        p = tree::join(&p, b"x");
                    } else if crng.chance(1, 4) {
                        p.push(b'/');
                    }
                    Op::MkdirAll { path: p, mode: 0o755 }
                })
                .collect()
        } else {
            // remove_all of one entry (preferably a non-empty directory) by every thread
            let mut cands: Vec<&tree::Entry> = spec.entries.iter().filter(|e| e.kind == Kind::Dir).collect();
            if cands.is_empty() {
                cands = spec.entries.iter().collect();
            }
            if cands.is_empty() {
                continue;
            }
            let picked = *crng.pick(&cands);
            let target_is_dir = picked.kind == Kind::Dir;
            let target = picked.path.clone();
            // in every fourth round every other thread spells the entry with a parent part that runs through the entry
            // itself (`x/../x`): the same entry, another spelling of the path
            let last = target.rsplit(|c| *c == b'/').next().unwrap_or(b"").to_vec();
            let through: Vec<u8> = [target.as_slice(), b"/../", last.as_slice()].concat();
            let spelled = i % 4 == 3 && target_is_dir; // (`file/..` is ENOTDIR for the kernel too)
            (0..nthreads).map(|k| Op::RemoveAll { path: if spelled && k % 2 == 1 { through.clone() } else { target.clone() } }).collect()
        };
        let (top, rootdir) = setup_case_dir(ctx, "case", &spec);
        // make the subtree to remove bigger so that the threads really overlap
        if opname != "mkdir_all" {
            if let Op::RemoveAll { path } = &ops_[0] {
                let d = rootdir.join(OsStr::from_bytes(path));
                if d.is_dir() {
                    for a in 0..6 {
                        let sub = d.join(format!("w{a}"));
                        let _ = fs::create_dir(&sub);
                        for b in 0..6 {
                            let _ = fs::write(sub.join(format!("f{b}")), b"x");
                        }
                        let _ = std::os::unix::fs::symlink("../../..", sub.join("up"));
                    }
                }
            }
        }
        let labels = Labels::of_tree(&spec, &rootdir);
        let before = tree::snapshot(&top);
        let barrier = Arc::new(Barrier::new(nthreads));
        let mut handles = Vec::new();
        for (k, op) in ops_.iter().cloned().enumerate() {
            let rootdir = rootdir.clone();
            let barrier = barrier.clone();
            let emulated = (k + i) % 2 == 0 || ctx.no_openat2;
            let yseed = case_seed ^ (k as u64).wrapping_mul(0x9E3779B97F4A7C15);
            handles.push(std::thread::spawn(move || {
                let mut root = Root::open(&rootdir).expect("open root");
                root.verif_set_emulated(emulated);
                let cfg = cfg_line(&root, emulated, ResolverFlags::empty());
                barrier.wait();
                let (outcome, log) = ops::run_recorded(&root, &op, Some(Box::new(Yielder(Rng::new(yseed)))));
                let ident = match &outcome {
                    Outcome::Fd(fd) => {
                        let mut st: libc::stat = unsafe { std::mem::zeroed() };
                        unsafe { libc::fstat(fd.as_raw_fd(), &mut st) };
                        Some((st.st_dev, st.st_ino, st.st_mode & libc::S_IFMT == libc::S_IFDIR))
                    }
                    _ => None,
                };
                (op, cfg, outcome, log, ident)
            }));
        }
        let results: Vec<_> = handles.into_iter().map(|h| h.join().expect("thread")).collect();
        let after = tree::snapshot(&top);
        // verdict of the round
        let mut bad: Vec<String> = Vec::new();
        // a late caller: in the rounds with the second spelling, one more remove_all of that spelling after every thread
        // has returned (the schedule in which this caller comes last; deterministic)
        if opname != "mkdir_all" {
            if let Some(op @ Op::RemoveAll { path }) = ops_.iter().find(|o| matches!(o, Op::RemoveAll { path } if path.windows(4).any(|w| w == b"/../"))) {
                let _ = path;
                if let Ok(root) = Root::open(&rootdir) {
                    let (outcome, _) = ops::run_recorded(&root, op, None);
                    if let Outcome::Err(e) = &outcome {
                        bad.push(format!("thread late {} failed: {}", op.line(), ops::kind_str(e)));
                    }
                }
            }
        }
        for (k, (op, _, outcome, _, ident)) in results.iter().enumerate() {
            match outcome {
                Outcome::Fd(_) | Outcome::Unit => {}
                Outcome::Err(e) => {
                    // (a path with a component longer than NAME_MAX is meant to fail)
                    let doomed = matches!(op, Op::MkdirAll { path, .. } if path.split(|c| *c == b'/').any(|c| c.len() > 255));
                    if !doomed {
                        bad.push(format!("thread {k} {} failed: {}", op.line(), ops::kind_str(e)))
                    }
                }
                Outcome::Panic(_) => bad.push(format!("thread {k} panicked")),
                Outcome::Bytes(_) => {}
            }
            if opname == "mkdir_all" {
                if let (Op::MkdirAll { path, .. }, Some((dev, ino, isdir))) = (op, ident) {
                    if !isdir {
                        bad.push(format!("thread {k} got a handle that is not a directory"));
                    }
                    // the handle is the directory the path names now
                    let mut p = path.clone();
                    while p.ends_with(b"/") {
                        p.pop();
                    }
                    let key = [b"root/".as_ref(), &p].concat();
                    match after.get(&key) {
                        Some(e) if (e.dev, e.ino) == (*dev, *ino) => {}
                        _ => bad.push(format!("thread {k}: handle is not the directory at {}", fmt::hex(&p))),
                    }
                }
            }
        }
        if opname == "mkdir_all" {
            // nothing removed or modified; additions are directories on the requested chains
            for (k, e) in &before {
                match after.get(k) {
                    Some(g) if g.kind == e.kind && g.ino == e.ino && g.body == e.body => {}
                    _ => bad.push(format!("{} was removed or replaced", fmt::hex(k))),
                }
            }
            for (k, e) in &after {
                if !before.contains_key(k) {
                    let wanted = results.iter().any(|(op, ..)| match op {
                        Op::MkdirAll { path, .. } => {
                            let full = [b"root/".as_ref(), path.as_slice()].concat();
                            full.starts_with(k) && (full.len() == k.len() || full[k.len()] == b'/')
                        }
                        _ => false,
                    });
                    if e.kind != 'd' || !wanted {
                        bad.push(format!("unexpected new entry {} {}", e.kind, fmt::hex(k)));
                    }
                }
            }
        } else if let Op::RemoveAll { path } = &results[0].0 {
            let key = [b"root/".as_ref(), path.as_slice()].concat();
            let mut pre = key.clone();
            pre.push(b'/');
            for (k, e) in &before {
                let inside = *k == key || k.starts_with(&pre);
                match (inside, after.get(k)) {
                    (true, Some(_)) => bad.push(format!("{} still exists", fmt::hex(k))),
                    (false, None) => bad.push(format!("{} outside the named subtree was removed", fmt::hex(k))),
                    (false, Some(g)) if g.kind != e.kind || g.ino != e.ino || g.body != e.body => {
                        bad.push(format!("{} outside the named subtree was modified", fmt::hex(k)))
                    }
                    _ => {}
                }
            }
            for k in after.keys() {
                if !before.contains_key(k) {
                    bad.push(format!("{} was created", fmt::hex(k)));
                }
            }
        }
        for (k, (op, cfg, outcome, log, _)) in results.iter().enumerate() {
            let mut s = String::new();
            s.push_str(&format!("case {i}t{k}\nmeta seed={case_seed} suite=race threads={nthreads}\n"));
            s.push_str(&format!("tree {}\n", spec.entries.len()));
            s.push_str(&spec.lines());
            s.push_str(&op.line());
            s.push('\n');
            s.push_str(cfg);
            s.push('\n');
            s.push_str(&fmt::transcript(log));
            s.push_str(&outcome.line(&labels));
            s.push('\n');
            if k == 0 {
                if bad.is_empty() {
                    s.push_str("race ok\n");
                } else {
                    s.push_str(&format!("race BAD {}\n", bad.join("; ")));
                }
            }
            s.push_str("end\n");
            ctx.out.write_all(s.as_bytes()).unwrap();
        }
        drop(results);
        let _ = fs::remove_dir_all(&top);
    }
}

// ---------------------------------------------------------------------------
// reopen from a thread with its own descriptor table (C09)
// ---------------------------------------------------------------------------

/// C02: an emulated lookup through `..` made by a thread that has its own descriptor table (`unshare(CLONE_FILES)`),
/// while the thread-group leader holds *other* directories under the numbers the walk uses.  `check_current` must read
/// the calling thread's descriptors (`/proc/thread-self/fd/N`): through `/proc/self/fd/N` it would compare the leader's.
pub fn suite_lookup_unshared(ctx: &mut Ctx) {
    use std::sync::mpsc;
    let mk = |ents: &[(&[u8], Kind)]| {
        let mut spec = TreeSpec::default();
        for (p, k) in ents {
            spec.entries.push(tree::Entry { path: p.to_vec(), kind: k.clone(), mode: 0o755 });
        }
        spec
    };
    let spec = mk(&[(b"d", Kind::Dir), (b"d/e", Kind::Dir), (b"victim", Kind::File), (b"other", Kind::Dir)]);
    let lookups: [&[u8]; 4] = [b"d/../victim", b"d/e/../../victim", b"d/e/..", b"d/e/n1/n2"];
    for (round, path) in lookups.iter().enumerate() {
        // the last one is a mkdir_all (its partial lookup's handle is re-opened through the fd magic-link)
        let is_mkdir = round == 3;
        let (top, rootdir) = setup_case_dir(ctx, "ucase", &spec);
        let labels = Labels::of_tree(&spec, &rootdir);
        let (tx_fd, rx_fd) = mpsc::channel::<i32>();
        let (tx_go, rx_go) = mpsc::channel::<()>();
        let rootdir2 = rootdir.clone();
        let path2 = path.to_vec();
        let labels2 = Labels::of_tree(&spec, &rootdir);
        let worker = std::thread::spawn(move || {
            if unsafe { libc::unshare(libc::CLONE_FILES) } != 0 {
                return None;
            }
            let mut root = Root::open(&rootdir2).expect("open root");
            root.verif_set_emulated(true);
            tx_fd.send(root.as_fd().as_raw_fd()).unwrap();
            rx_go.recv().unwrap();
            let cfg = cfg_line(&root, true, ResolverFlags::empty());
            let op = if is_mkdir {
                Op::MkdirAll { path: path2.clone(), mode: 0o755 }
            } else {
                Op::Resolve { path: path2.clone(), nofollow: false }
            };
            let kern = if is_mkdir { None } else { ops::kernel_line(&root, &op, ResolverFlags::empty(), &labels2) };
            let (outcome, log) = ops::run_recorded(&root, &op, None);
            let line = outcome.line(&labels2);
            Some((cfg, log, line, kern, op.line()))
        });
        let n = match rx_fd.recv() {
            Ok(n) => n,
            Err(_) => {
                let _ = worker.join();
                let _ = fs::remove_dir_all(&top);
                continue;
            }
        };
        // the leader opens another directory under every free number around the worker's root descriptor
        let other = cpath(&rootdir.join("other"));
        let mut placed: Vec<i32> = Vec::new();
        for k in n..n + 8 {
            if unsafe { libc::fcntl(k, libc::F_GETFD) } < 0 {
                let fd = unsafe { libc::open(other.as_ptr(), libc::O_PATH | libc::O_DIRECTORY | libc::O_CLOEXEC) };
                if fd >= 0 {
                    if fd != k {
                        unsafe {
                            libc::dup3(fd, k, libc::O_CLOEXEC);
                            libc::close(fd);
                        }
                    }
                    placed.push(k);
                }
            }
        }
        tx_go.send(()).unwrap();
        let res = worker.join().ok().flatten();
        for k in placed {
            unsafe { libc::close(k) };
        }
        if let Some((cfg, log, line, kern, opline)) = res {
            let mut s = String::new();
            s.push_str(&format!("case ul{round}\nmeta seed=0 suite=lookup-unshared rootfd={n}\n"));
            s.push_str(&format!("tree {}\n", spec.entries.len()));
            s.push_str(&spec.lines());
            s.push_str(&opline);
            s.push('\n');
            s.push_str(&cfg);
            s.push('\n');
            s.push_str(&fmt::transcript(&log));
            s.push_str(&line);
            s.push('\n');
            if let Some(k) = kern {
                s.push_str(&k);
                s.push('\n');
            }
            if is_mkdir {
                // where did the directories go?
                let made = rootdir.join("d/e/n1/n2").is_dir();
                let strays: Vec<String> = fs::read_dir(rootdir.join("other"))
                    .map(|d| d.filter_map(|e| e.ok()).map(|e| e.file_name().to_string_lossy().into_owned()).collect())
                    .unwrap_or_default();
                if made && strays.is_empty() && line.starts_with("res ok") {
                    s.push_str("unshared same\n");
                } else {
                    s.push_str(&format!(
                        "unshared OTHER mkdir_all by a thread with its own descriptor table: created_in_place={} entries_created_in_the_leader's_directory={:?}\n",
                        made as u8, strays
                    ));
                }
            }
            s.push_str("fdt same\nend\n");
            ctx.out.write_all(s.as_bytes()).unwrap();
        }
        let _ = labels;
        let _ = fs::remove_dir_all(&top);
    }
}


/// A thread that has called `unshare(CLONE_FILES)` has its own descriptor table; the same number
/// means something else in the rest of the process.  `reopen` must go through *this thread's* table.
pub fn suite_reopen_unshared(ctx: &mut Ctx) {
    use std::sync::mpsc;
    let top = ctx.work.join("unshared");
    let _ = fs::remove_dir_all(&top);
    fs::create_dir_all(top.join("root")).unwrap();
    fs::write(top.join("root/victim"), b"VICTIM").unwrap();
    fs::write(top.join("root/decoy"), b"DECOY").unwrap();
    let rootdir = top.join("root");
    for (round, emulated) in [(0, true), (1, false)] {
        if !emulated && ctx.no_openat2 {
            continue;
        }
        let (tx_fd, rx_fd) = mpsc::channel::<i32>();
        let (tx_go, rx_go) = mpsc::channel::<()>();
        let rootdir2 = rootdir.clone();
        let worker = std::thread::spawn(move || {
            // from here on this thread has a private copy of the descriptor table
            if unsafe { libc::unshare(libc::CLONE_FILES) } != 0 {
                return None;
            }
            let mut root = Root::open(&rootdir2).expect("open root");
            root.verif_set_emulated(emulated);
            let handle = root.resolve("victim").expect("resolve victim");
            let n = handle.as_fd().as_raw_fd();
            tx_fd.send(n).unwrap();
            rx_go.recv().unwrap();
            let cfg = cfg_line(&root, emulated, ResolverFlags::empty());
            let hline = {
                let mut st: libc::stat = unsafe { std::mem::zeroed() };
                unsafe { libc::fstat(n, &mut st) };
                (st.st_dev, st.st_ino)
            };
            let (r, log) = ops::recorded(None, || handle.reopen(pathrs::flags::OpenFlags::O_RDONLY));
            let (line, verdict) = match r {
                Ok(Ok(f)) => {
                    let mut st: libc::stat = unsafe { std::mem::zeroed() };
                    unsafe { libc::fstat(f.as_raw_fd(), &mut st) };
                    let same = (st.st_dev, st.st_ino) == hline;
                    let fl = unsafe { libc::fcntl(f.as_raw_fd(), libc::F_GETFL) };
                    let fdfl = unsafe { libc::fcntl(f.as_raw_fd(), libc::F_GETFD) };
                    (
                        format!("res ok fd fd={} label=1 kind=f fl={fl} cloexec={}", f.as_raw_fd(), fdfl & 1),
                        if same { "unshared same".to_string() } else { "unshared OTHER the reopened descriptor is the leader's file at that number".to_string() },
                    )
                }
                Ok(Err(e)) => (
                    format!("res err {}", ops::kind_str(&e.kind())),
                    format!("unshared OTHER reopen failed: {}", ops::kind_str(&e.kind())),
                ),
                Err(_) => ("res panic x".to_string(), "unshared OTHER panic".to_string()),
            };
            Some((n, cfg, log, line, verdict))
        });
        // the leader puts another file at the number the worker's handle has
        let n = match rx_fd.recv() {
            Ok(n) => n,
            Err(_) => {
                let _ = worker.join();
                continue;
            }
        };
        let decoy = fs::File::open(rootdir.join("decoy")).unwrap();
        let had = unsafe { libc::fcntl(n, libc::F_GETFD) } >= 0;
        let saved = if had { Some(unsafe { libc::dup(n) }) } else { None };
        unsafe { libc::dup2(decoy.as_raw_fd(), n) };
        tx_go.send(()).unwrap();
        let res = worker.join().ok().flatten();
        // restore the leader's table
        match saved {
            Some(s) => unsafe {
                libc::dup2(s, n);
                libc::close(s);
            },
            None => unsafe {
                libc::close(n);
            },
        }
        if let Some((n, cfg, log, line, verdict)) = res {
            let mut s = String::new();
            s.push_str(&format!("case u{round}\nmeta seed=0 suite=reopen target=victim nofollow=0 history=unshared fdnum={n}\n"));
            s.push_str("tree 0\n");
            s.push_str(&format!("op reopen 0 {} x76696374696d\n", libc::O_RDONLY));
            s.push_str(&cfg);
            s.push('\n');
            s.push_str(&format!("handle fd={n} label=1 kind=f fl=0 cloexec=1\n"));
            s.push_str(&fmt::transcript(&log));
            s.push_str(&line);
            s.push('\n');
            s.push_str(&verdict);
            s.push_str("\nfdt same\nend\n");
            ctx.out.write_all(s.as_bytes()).unwrap();
        }
    }
    let _ = fs::remove_dir_all(&top);
}
