//! C15: the emulated fs.protected_symlinks check against the kernel's, for every
//! combination of directory mode/owner, link owner, caller uid and link position.
//! The sysctl value is whatever the system has when the process starts (the
//! library caches it at first use); the check script runs this suite once per value.
use crate::{fmt, ops, tree, Ctx};
use pathrs::{flags::ResolverFlags, Root};
use std::{
    ffi::CString,
    fs,
    io::{Read, Write},
    os::unix::{ffi::OsStrExt, fs::PermissionsExt, io::AsFd},
    path::Path,
};

fn lchown(p: &Path, uid: u32) {
    let c = CString::new(p.as_os_str().as_bytes()).unwrap();
    let r = unsafe { libc::lchown(c.as_ptr(), uid, uid) };
    assert_eq!(r, 0, "lchown {p:?}");
}

/// Run `f` in a forked child with the given uid; returns what it wrote.
/// `split`: only the effective (and with it the filesystem) ids change, the real ids stay 0 — the kernel's rule and the
/// library's are about the fsuid, which a caller that reads the real uid gets wrong only here.
fn run_as(uid: u32, split: bool, f: impl FnOnce(&mut Vec<u8>)) -> Vec<u8> {
    let mut fds = [0i32; 2];
    assert_eq!(unsafe { libc::pipe(fds.as_mut_ptr()) }, 0);
    let pid = unsafe { libc::fork() };
    assert!(pid >= 0);
    if pid == 0 {
        unsafe { libc::close(fds[0]) };
        if uid != 0 {
            unsafe {
                libc::setgroups(0, std::ptr::null());
                if split {
                    assert_eq!(libc::setresgid(u32::MAX, uid, u32::MAX), 0);
                    assert_eq!(libc::setresuid(u32::MAX, uid, u32::MAX), 0);
                } else {
                    assert_eq!(libc::setresgid(uid, uid, uid), 0);
                    assert_eq!(libc::setresuid(uid, uid, uid), 0);
                }
            }
        }
        let mut buf = Vec::new();
        f(&mut buf);
        let mut off = 0;
        while off < buf.len() {
            let n = unsafe { libc::write(fds[1], buf[off..].as_ptr() as *const _, buf.len() - off) };
            if n <= 0 {
                break;
            }
            off += n as usize;
        }
        unsafe { libc::_exit(0) };
    }
    unsafe { libc::close(fds[1]) };
    let mut out = Vec::new();
    let mut file = unsafe { <fs::File as std::os::unix::io::FromRawFd>::from_raw_fd(fds[0]) };
    let _ = file.read_to_end(&mut out);
    let mut status = 0;
    unsafe { libc::waitpid(pid, &mut status, 0) };
    out
}

/// `cold`: the harness process has not used the library before forking, so every caller of the matrix initialises the
/// library's process-wide state (the procfs handle, the cached sysctl) itself, with its own privileges — done by an
/// unrecorded lookup in the child before the recorded one.
pub fn suite(ctx: &mut Ctx, cold: bool) {
    let uids = [0u32, 1000, 2000];
    let dir_modes = [0o1777u32, 0o777, 0o1775, 0o755];
    let top = ctx.work.join("c15");
    let _ = fs::remove_dir_all(&top);
    // the whole chain must be searchable by the unprivileged callers
    for anc in ctx.work.ancestors() {
        let _ = fs::set_permissions(anc, fs::Permissions::from_mode(0o755));
        if anc == Path::new("/verif") {
            break;
        }
    }
    let mut n = 0;
    for &dir_mode in &dir_modes {
        for &dir_uid in &uids {
            for &link_uid in &uids {
                // tree: root/target (dir) with file f, root/s (the directory under test) with
                // link -> ../target
                let rootdir = top.join("root");
                let _ = fs::remove_dir_all(&top);
                fs::create_dir_all(rootdir.join("target")).unwrap();
                fs::write(rootdir.join("target/f"), b"x").unwrap();
                fs::create_dir(rootdir.join("s")).unwrap();
                std::os::unix::fs::symlink("../target", rootdir.join("s/link")).unwrap();
                fs::create_dir_all(top.join("warm/a")).unwrap();
                let _ = std::os::unix::fs::symlink("a", top.join("warm/l"));
                fs::set_permissions(&top, fs::Permissions::from_mode(0o755)).unwrap();
                fs::set_permissions(&rootdir, fs::Permissions::from_mode(0o755)).unwrap();
                fs::set_permissions(rootdir.join("s"), fs::Permissions::from_mode(dir_mode)).unwrap();
                lchown(&rootdir.join("s"), dir_uid);
                lchown(&rootdir.join("s/link"), link_uid);
                let spec = {
                    let mut spec = tree::TreeSpec::default();
                    for (p, k, m) in [
                        (&b"target"[..], tree::Kind::Dir, 0o755),
                        (b"target/f", tree::Kind::File, 0o644),
                        (b"s", tree::Kind::Dir, dir_mode),
                        (b"s/link", tree::Kind::Link(b"../target".to_vec()), 0o777),
                    ] {
                        spec.entries.push(tree::Entry { path: p.to_vec(), kind: k, mode: m });
                    }
                    spec
                };
                let labels = tree::Labels::of_tree(&spec, &rootdir);
                for &(caller, split) in &[(0u32, false), (1000, false), (2000, false), (1000, true), (2000, true)] {
                    for (position, path) in [
                        ("trailing", &b"s/link"[..]),
                        ("trailing_slash", b"s/link/"),
                        ("intermediate", b"s/link/f"),
                    ] {
                        // following lookups at every position; at the trailing position also the operations that look at
                        // the link without following it (never restricted by the kernel, whatever the ownership)
                        let opsv: Vec<ops::Op> = if position == "trailing" {
                            vec![
                                ops::Op::Resolve { path: path.to_vec(), nofollow: false },
                                ops::Op::Resolve { path: path.to_vec(), nofollow: true },
                                ops::Op::Readlink { path: path.to_vec() },
                                ops::Op::OpenSubpath { path: path.to_vec(), flags: libc::O_PATH | libc::O_NOFOLLOW },
                                ops::Op::OpenSubpath { path: path.to_vec(), flags: libc::O_RDONLY | libc::O_DIRECTORY },
                            ]
                        } else {
                            vec![ops::Op::Resolve { path: path.to_vec(), nofollow: false }]
                        };
                        // (operation, resolver flags): the following lookup of the trailing link once more with NO_SYMLINKS,
                        // where refusing is certain and only the reason (EACCES before ELOOP in the kernel) is compared
                        let mut opsv: Vec<(ops::Op, ResolverFlags)> = opsv.into_iter().map(|o| (o, ResolverFlags::empty())).collect();
                        if position == "trailing" {
                            opsv.push((ops::Op::Resolve { path: path.to_vec(), nofollow: false }, ResolverFlags::NO_SYMLINKS));
                        }
                        for (op, rflags) in opsv {
                        for emulated in [true, false] {
                            n += 1;
                            let id = format!("p{n}{}", if emulated { "e" } else { "k" });
                            let out = run_as(caller, split, |buf| {
                                if cold {
                                    if let Ok(mut w) = Root::open(top.join("warm")) {
                                        w.verif_set_emulated(true);
                                        let _ = w.resolve("l/../l");
                                    }
                                    let _ = pathrs::verif::global_procfs();
                                }
                                let mut root = match Root::open(&rootdir) {
                                    Ok(r) => r,
                                    Err(e) => {
                                        let _ = writeln!(buf, "case {id}\nmeta suite=c15\nop skip\nres err open-root {:?}\nend", e.kind());
                                        return;
                                    }
                                };
                                root.verif_set_emulated(emulated);
                                root.set_resolver_flags(rflags);
                                let op = op.clone();
                                let mut s = String::new();
                                s.push_str(&format!("case {id}\nmeta seed=0 suite=c15 dir_mode={dir_mode:o} dir_uid={dir_uid} link_uid={link_uid} caller={caller} ruid={} position={position}\n", if split { 0 } else { caller }));
                                s.push_str(&format!("tree {}\n", spec.entries.len()));
                                s.push_str(&spec.lines());
                                s.push_str(&op.line());
                                s.push('\n');
                                s.push_str(&crate::cfg_line(&root, emulated, rflags));
                                s.push('\n');
                                let kern = ops::kernel_line(&root, &op, rflags, &labels);
                                let before = ops::fd_table();
                                let (outcome, log) = ops::run_recorded(&root, &op, None);
                                let after = ops::fd_table();
                                s.push_str(&fmt::transcript(&log));
                                s.push_str(&outcome.line(&labels));
                                s.push('\n');
                                if let Some(k) = kern {
                                    s.push_str(&k);
                                    s.push('\n');
                                }
                                let ex = match &outcome {
                                    ops::Outcome::Fd(fd) => Some(std::os::unix::io::AsRawFd::as_raw_fd(fd)),
                                    _ => None,
                                };
                                s.push_str(&ops::fd_table_diff(&before, &after, ex));
                                s.push_str("\nend\n");
                                buf.extend_from_slice(s.as_bytes());
                                let _ = root.as_fd();
                            });
                            ctx.out.write_all(&out).unwrap();
                        }
                        }
                    }
                }
            }
        }
    }
    let _ = fs::remove_dir_all(&top);
}
