//! The C API of libpathrs, called through its exported symbols.
#![allow(dead_code)]
use libc::{c_char, c_int, c_uint, dev_t, size_t};

#[repr(C)]
pub struct CError {
    pub saved_errno: u64,
    pub description: *const c_char,
}

extern "C" {
    pub fn pathrs_open_root(path: *const c_char) -> c_int;
    pub fn pathrs_reopen(fd: c_int, flags: c_int) -> c_int;
    pub fn pathrs_inroot_resolve(root: c_int, path: *const c_char) -> c_int;
    pub fn pathrs_inroot_resolve_nofollow(root: c_int, path: *const c_char) -> c_int;
    pub fn pathrs_inroot_open(root: c_int, path: *const c_char, flags: c_int) -> c_int;
    pub fn pathrs_inroot_readlink(root: c_int, path: *const c_char, buf: *mut c_char, size: size_t) -> c_int;
    pub fn pathrs_inroot_rename(root: c_int, src: *const c_char, dst: *const c_char, flags: u32) -> c_int;
    pub fn pathrs_inroot_rmdir(root: c_int, path: *const c_char) -> c_int;
    pub fn pathrs_inroot_unlink(root: c_int, path: *const c_char) -> c_int;
    pub fn pathrs_inroot_remove_all(root: c_int, path: *const c_char) -> c_int;
    pub fn pathrs_inroot_creat(root: c_int, path: *const c_char, flags: c_int, mode: c_uint) -> c_int;
    pub fn pathrs_inroot_mkdir(root: c_int, path: *const c_char, mode: c_uint) -> c_int;
    pub fn pathrs_inroot_mkdir_all(root: c_int, path: *const c_char, mode: c_uint) -> c_int;
    pub fn pathrs_inroot_mknod(root: c_int, path: *const c_char, mode: c_uint, dev: dev_t) -> c_int;
    pub fn pathrs_inroot_symlink(root: c_int, path: *const c_char, target: *const c_char) -> c_int;
    pub fn pathrs_inroot_hardlink(root: c_int, path: *const c_char, target: *const c_char) -> c_int;
    pub fn pathrs_proc_open(base: u64, path: *const c_char, flags: c_int) -> c_int;
    pub fn pathrs_proc_readlink(base: u64, path: *const c_char, buf: *mut c_char, size: size_t) -> c_int;
    pub fn pathrs_errorinfo(id: c_int) -> *mut CError;
    pub fn pathrs_errorinfo_free(err: *mut CError);
}

pub const PATHRS_PROC_ROOT: u64 = 0x5001_FFFF;
pub const PATHRS_PROC_SELF: u64 = 0x091D_5E1F;
pub const PATHRS_PROC_THREAD_SELF: u64 = 0x3EAD_5E1F;
