//! Suites that drive the C API (properties C16 and C17).
use crate::{capi, fmt::hex, ops, tree, Ctx};
use pathrs::verif;
use std::{
    ffi::{CStr, CString},
    fs,
    io::Write,
    os::unix::io::{AsRawFd, FromRawFd, OwnedFd},
    sync::{Arc, Mutex},
};

fn cpath(p: &Option<Vec<u8>>) -> Option<CString> {
    p.as_ref().map(|b| CString::new(b.clone()).expect("no NUL in C test paths"))
}

fn ptr(c: &Option<CString>) -> *const libc::c_char {
    match c {
        Some(c) => c.as_ptr(),
        None => std::ptr::null(),
    }
}

fn hexopt(p: &Option<Vec<u8>>) -> String {
    match p {
        Some(b) => hex(b),
        None => "null".into(),
    }
}

/// Consume an error id: (errno, description had NUL?, second call returned NULL?).
fn consume(id: libc::c_int) -> Option<(u64, bool)> {
    let e = unsafe { capi::pathrs_errorinfo(id) };
    if e.is_null() {
        return None;
    }
    let errno = unsafe { (*e).saved_errno };
    let desc_ok = unsafe { !(*e).description.is_null() && !CStr::from_ptr((*e).description).to_bytes().is_empty() };
    let second = unsafe { capi::pathrs_errorinfo(id) };
    unsafe { capi::pathrs_errorinfo_free(e) };
    Some((errno, desc_ok && second.is_null()))
}

#[derive(Clone, Debug, Default)]
pub struct CArgs {
    pub func: &'static str,
    pub fd: i32,
    pub path: Option<Vec<u8>>,
    pub path2: Option<Vec<u8>>,
    pub flags: i64,
    pub mode: u32,
    pub dev: u64,
    pub base: u64,
    pub bufsize: Option<usize>,
}

impl CArgs {
    fn line(&self, fdclass: &str) -> String {
        format!(
            "op capi {} fd={} fdclass={} path={} path2={} flags={} mode={} dev={} base={} bufsize={}",
            self.func,
            self.fd,
            fdclass,
            hexopt(&self.path),
            hexopt(&self.path2),
            self.flags,
            self.mode,
            self.dev,
            self.base,
            self.bufsize.map(|n| n.to_string()).unwrap_or_else(|| "null".into())
        )
    }
}

const CANARY: u8 = 0xAA;

/// Call one C function. Returns (raw return value, buffer region afterwards).
fn call(a: &CArgs) -> (libc::c_int, Option<Vec<u8>>) {
    let p1 = cpath(&a.path);
    let p2 = cpath(&a.path2);
    let mut region: Option<Vec<u8>> = a.bufsize.map(|n| vec![CANARY; n + 16]);
    let bufptr = match region.as_mut() {
        Some(r) => unsafe { r.as_mut_ptr().add(8) as *mut libc::c_char },
        None => std::ptr::null_mut(),
    };
    let bufsize = a.bufsize.unwrap_or(64);
    let r = unsafe {
        match a.func {
            "open_root" => capi::pathrs_open_root(ptr(&p1)),
            "reopen" => capi::pathrs_reopen(a.fd, a.flags as i32),
            "resolve" => capi::pathrs_inroot_resolve(a.fd, ptr(&p1)),
            "resolve_nofollow" => capi::pathrs_inroot_resolve_nofollow(a.fd, ptr(&p1)),
            "open" => capi::pathrs_inroot_open(a.fd, ptr(&p1), a.flags as i32),
            "readlink" => capi::pathrs_inroot_readlink(a.fd, ptr(&p1), bufptr, bufsize),
            "rename" => capi::pathrs_inroot_rename(a.fd, ptr(&p1), ptr(&p2), a.flags as u32),
            "rmdir" => capi::pathrs_inroot_rmdir(a.fd, ptr(&p1)),
            "unlink" => capi::pathrs_inroot_unlink(a.fd, ptr(&p1)),
            "remove_all" => capi::pathrs_inroot_remove_all(a.fd, ptr(&p1)),
            "creat" => capi::pathrs_inroot_creat(a.fd, ptr(&p1), a.flags as i32, a.mode),
            "mkdir" => capi::pathrs_inroot_mkdir(a.fd, ptr(&p1), a.mode),
            "mkdir_all" => capi::pathrs_inroot_mkdir_all(a.fd, ptr(&p1), a.mode),
            "mknod" => capi::pathrs_inroot_mknod(a.fd, ptr(&p1), a.mode, a.dev),
            "symlink" => capi::pathrs_inroot_symlink(a.fd, ptr(&p1), ptr(&p2)),
            "hardlink" => capi::pathrs_inroot_hardlink(a.fd, ptr(&p1), ptr(&p2)),
            "proc_open" => capi::pathrs_proc_open(a.base, ptr(&p1), a.flags as i32),
            "proc_readlink" => capi::pathrs_proc_readlink(a.base, ptr(&p1), bufptr, bufsize),
            other => panic!("unknown C function {other}"),
        }
    };
    (r, region)
}

fn returns_fd(func: &str) -> bool {
    matches!(
        func,
        "open_root" | "reopen" | "resolve" | "resolve_nofollow" | "open" | "creat" | "mkdir_all" | "proc_open"
    )
}

fn base_tree() -> tree::TreeSpec {
    let mut spec = tree::TreeSpec::default();
    let mut add = |p: &[u8], k: tree::Kind| {
        spec.entries.push(tree::Entry {
            path: p.to_vec(),
            kind: k,
            mode: 0o755,
        })
    };
    add(b"a", tree::Kind::Dir);
    add(b"a/f", tree::Kind::File);
    add(b"l", tree::Kind::Link(b"a/f".to_vec()));
    add(b"d", tree::Kind::Dir);
    for n in [1usize, 2, 7, 8, 9, 63, 64, 65, 255, 300] {
        let mut body = Vec::new();
        while body.len() < n {
            body.extend_from_slice(b"x/");
        }
        body.truncate(n);
        if body.last() == Some(&b'/') {
            *body.last_mut().unwrap() = b'y';
        }
        add(format!("len{n}").as_bytes(), tree::Kind::Link(body));
    }
    spec
}

/// One C-API case: fresh tree, recorded call, canonical result.
fn run_case(ctx: &mut Ctx, id: &str, spec: &tree::TreeSpec, mut args: CArgs, fdclass: &str) {
    // `--fd0-free`: the call is made with descriptor 0 closed (a daemon, a program started with `<&-`)
    let fd0 = crate::FD0_FREE.load(std::sync::atomic::Ordering::Relaxed);
    if fd0 {
        crate::fd0_occupy();
    }
    let (top, rootdir) = crate::setup_case_dir(ctx, "ccase", spec);
    let labels = tree::Labels::of_tree(spec, &rootdir);
    let c = CString::new(rootdir.as_os_str().as_encoded_bytes()).unwrap();
    let rootfd = unsafe { capi::pathrs_open_root(c.as_ptr()) };
    assert!(rootfd >= 0, "pathrs_open_root failed");
    let rootfd_owned = unsafe { OwnedFd::from_raw_fd(rootfd) };
    // a second borrowed descriptor for reopen
    let handle = unsafe {
        let p = CString::new("a/f").unwrap();
        OwnedFd::from_raw_fd(capi::pathrs_inroot_resolve(rootfd, p.as_ptr()))
    };
    match fdclass {
        "valid" => args.fd = if args.func == "reopen" { handle.as_raw_fd() } else { rootfd },
        _ => {}
    }
    let mut s = String::new();
    s.push_str(&format!("case {id}\nmeta seed=0 suite=capi{}\n", if fd0 { " fd0free=1" } else { "" }));
    s.push_str(&format!("tree {}\n", spec.entries.len()));
    s.push_str(&spec.lines());
    s.push_str(&args.line(fdclass));
    s.push('\n');
    let (pfd, pmnt, psub, pemu) = verif::procfs_describe(verif::global_procfs());
    s.push_str(&format!(
        "cfg backend=d rflags=0 rootfd={} procfd={} procmnt={} subset={} procemu={} openat2={}\n",
        args.fd,
        pfd,
        pmnt.map(|m| m.to_string()).unwrap_or_else(|| "none".into()),
        psub as u8,
        pemu as u8,
        verif::openat2_is_supported() as u8
    ));
    let before_snap = tree::snapshot(&top);
    if fd0 {
        unsafe { libc::close(0) };
    }
    let before = ops::fd_table();
    let (r, log) = ops::recorded(None, || call(&args));
    let after = ops::fd_table();
    if fd0 && !matches!(&r, Ok((0, _)) if returns_fd(args.func)) {
        unsafe { libc::close(0) };
        crate::fd0_occupy();
    }
    s.push_str(&crate::fmt::transcript(&log));
    let mut ret_fd: Option<OwnedFd> = None;
    match r {
        Err(m) => s.push_str(&format!("res panic {}\n", hex(m.as_bytes()))),
        Ok((ret, region)) => {
            if ret < 0 {
                match consume(ret) {
                    Some((errno, wellformed)) => s.push_str(&format!(
                        "res cerr {errno} id_in_range={} consumed_once={}\n",
                        (ret as i64) <= -4096,
                        wellformed
                    )),
                    None => s.push_str(&format!("res cerr-unknown-id {ret}\n")),
                }
            } else if returns_fd(args.func) {
                s.push_str(&format!("res ok fd {}\n", ops::describe_fd(ret, &labels)));
                ret_fd = Some(unsafe { OwnedFd::from_raw_fd(ret) });
            } else {
                s.push_str(&format!("res ok num {ret}\n"));
            }
            if let Some(region) = region {
                s.push_str(&format!("buf {}\n", hex(&region)));
            }
        }
    }
    s.push_str(&ops::fd_table_diff(&before, &after, ret_fd.as_ref().map(|f| f.as_raw_fd())));
    s.push('\n');
    // borrowed descriptors must still refer to the same objects
    s.push_str(&format!(
        "borrowed root={} handle={}\n",
        ops::describe_fd(rootfd, &labels),
        ops::describe_fd(handle.as_raw_fd(), &labels)
    ));
    let after_snap = tree::snapshot(&top);
    for d in tree::snapshot_diff(&before_snap, &after_snap) {
        s.push_str("snap ");
        s.push_str(&d);
        s.push('\n');
    }
    s.push_str("end\n");
    ctx.out.write_all(s.as_bytes()).unwrap();
    drop(ret_fd);
    drop(handle);
    drop(rootfd_owned);
    let _ = fs::remove_dir_all(&top);
}

const INROOT_FUNCS: [&str; 14] = [
    "resolve",
    "resolve_nofollow",
    "open",
    "readlink",
    "rename",
    "rmdir",
    "unlink",
    "remove_all",
    "creat",
    "mkdir",
    "mkdir_all",
    "mknod",
    "symlink",
    "hardlink",
];

/// C17: every function × invalid-argument class, and the buffer matrix.
pub fn suite_capi_args(ctx: &mut Ctx, thorough: bool) {
    let spec = base_tree();
    let mut n = 0;
    let mut next = |ctx: &mut Ctx, args: CArgs, fdclass: &str| {
        n += 1;
        run_case(ctx, &format!("c{n}"), &spec, args, fdclass);
    };
    let defaults = |func: &'static str| CArgs {
        func,
        fd: -1,
        path: Some(b"new".to_vec()),
        path2: Some(b"a/f".to_vec()),
        flags: 0,
        mode: 0o644,
        dev: 0,
        base: capi::PATHRS_PROC_SELF,
        bufsize: Some(64),
    };
    // descriptor classes × path classes
    for func in INROOT_FUNCS.iter().copied().chain(["reopen"]) {
        for (fdclass, fd) in [("valid", 0), ("neg1", -1), ("atfdcwd", -100), ("min", i32::MIN), ("neg4096", -4096)] {
            for pathclass in ["valid", "null", "null2"] {
                let mut a = defaults(func);
                a.fd = fd;
                if func == "mknod" {
                    a.mode = libc::S_IFREG | 0o644;
                }
                if func == "readlink" {
                    a.path = Some(b"l".to_vec());
                }
                if func == "resolve" || func == "resolve_nofollow" || func == "open" || func == "unlink" {
                    a.path = Some(b"a/f".to_vec());
                }
                if func == "rmdir" || func == "remove_all" {
                    a.path = Some(b"d".to_vec());
                }
                if func == "rename" {
                    a.path = Some(b"a/f".to_vec());
                    a.path2 = Some(b"renamed".to_vec());
                }
                match pathclass {
                    "null" => a.path = None,
                    "null2" => {
                        if !matches!(func, "rename" | "symlink" | "hardlink") {
                            continue;
                        }
                        a.path2 = None
                    }
                    _ => {}
                }
                if func == "reopen" && pathclass != "valid" {
                    continue;
                }
                next(ctx, a, fdclass);
            }
        }
    }
    // failures reported by the kernel (not by argument validation): the error value stays in the C error
    // table until it is consumed, and must not hold on to descriptors meanwhile
    for func in INROOT_FUNCS.iter().copied() {
        for path in [&b"a/missing/x"[..], b"a/f/notdir", b"l/../../missing", b"len9/y"] {
            let mut a = defaults(func);
            a.fd = 0;
            a.path = Some(path.to_vec());
            if func == "mknod" {
                a.mode = libc::S_IFREG | 0o644;
            }
            if func == "rename" {
                a.path2 = Some(b"d/renamed".to_vec());
            }
            if func == "symlink" || func == "hardlink" {
                a.path2 = Some(b"a/f".to_vec());
            }
            next(ctx, a, "valid");
        }
    }
    // open_root
    for path in [Some(b"/".to_vec()), None, Some(b"/nonexistent-dir".to_vec())] {
        let mut a = defaults("open_root");
        a.path = path;
        next(ctx, a, "none");
    }
    // procfs base classes
    for func in ["proc_open", "proc_readlink"] {
        for base in [
            capi::PATHRS_PROC_ROOT,
            capi::PATHRS_PROC_SELF,
            capi::PATHRS_PROC_THREAD_SELF,
            0,
            1,
            0xdead_beef,
            u64::MAX,
            capi::PATHRS_PROC_SELF + 1,
            capi::PATHRS_PROC_SELF | (1 << 40),
        ] {
            for path in [Some(b"exe".to_vec()), None] {
                let mut a = defaults(func);
                a.base = base;
                a.path = path;
                a.flags = (libc::O_PATH | libc::O_NOFOLLOW) as i64;
                if base == capi::PATHRS_PROC_ROOT {
                    if let Some(p) = a.path.as_mut() {
                        *p = b"self/exe".to_vec();
                    }
                }
                next(ctx, a, "none");
            }
        }
    }
    // mknod / mkdir / creat / mkdir_all modes
    for mode in [
        libc::S_IFREG | 0o644,
        libc::S_IFDIR | 0o755,
        libc::S_IFIFO | 0o600,
        libc::S_IFCHR | 0o600,
        libc::S_IFBLK | 0o600,
        libc::S_IFSOCK | 0o644,
        libc::S_IFLNK | 0o777,
        0o644,
        0o170000 | 0o644,
        0o050000 | 0o644,
        0o4755 | libc::S_IFREG,
        0xffff_0000 | libc::S_IFREG | 0o600,
    ] {
        let mut a = defaults("mknod");
        a.mode = mode;
        a.dev = 0x103;
        next(ctx, a, "valid");
    }
    for mode in [0o755, 0o1777, 0o2755, 0o4755, 0o10755, libc::S_IFDIR | 0o755, 0o7777, 0o100000] {
        for func in ["mkdir", "mkdir_all", "creat"] {
            let mut a = defaults(func);
            a.mode = mode;
            a.flags = libc::O_RDWR as i64;
            next(ctx, a, "valid");
        }
    }
    // buffer matrix
    let lens: &[usize] = &[1, 2, 7, 8, 9, 63, 64, 65, 255, 300];
    for &len in lens {
        let sizes: Vec<Option<usize>> = if thorough || len <= 9 {
            (0..=len + 8).map(Some).chain([None]).collect()
        } else {
            vec![Some(0), Some(1), Some(len - 1), Some(len), Some(len + 1), Some(len + 8), None]
        };
        for bs in sizes {
            let mut a = defaults("readlink");
            a.path = Some(format!("len{len}").into_bytes());
            a.bufsize = bs;
            next(ctx, a, "valid");
        }
    }
    for bs in [Some(0usize), Some(1), Some(3), Some(4096), None] {
        let mut a = defaults("proc_readlink");
        a.base = capi::PATHRS_PROC_SELF;
        a.path = Some(b"cwd".to_vec());
        a.bufsize = bs;
        next(ctx, a, "none");
    }
}

/// C16: sequences of failing calls and `pathrs_errorinfo`, sequential and threaded.
pub fn suite_errtable(ctx: &mut Ctx, seed: u64, n: usize, threads: usize) {
    use crate::rng::Rng;
    let classes: [(u32, i32, u64); 8] = [
        (0, 0, libc::ENOSYS as u64),
        (1, 0, 0),
        (2, 0, libc::EINVAL as u64),
        (3, 0, libc::EXDEV as u64),
        (4, 0, 0),
        (5, libc::ENOENT, libc::ENOENT as u64),
        (5, libc::EMFILE, libc::EMFILE as u64),
        (5, libc::ELOOP, libc::ELOOP as u64),
    ];
    // sequential history, replayed through the model
    let mut rng = Rng::new(seed);
    let mut s = String::from("case errtable-seq\nmeta suite=errtable\nop errtable\n");
    let mut live: Vec<i32> = Vec::new();
    let mut dead: Vec<i32> = Vec::new();
    for _ in 0..n {
        match rng.below(10) {
            0..=4 => {
                let (class, errno, want) = *rng.pick(&classes);
                let id = verif::capi::store_error(class, errno);
                s.push_str(&format!("t store {class} {want} {id}\n"));
                live.push(id);
            }
            5..=7 if !live.is_empty() => {
                let i = rng.below(live.len());
                let id = live.swap_remove(i);
                let e = unsafe { capi::pathrs_errorinfo(id) };
                if e.is_null() {
                    s.push_str(&format!("t take {id} none\n"));
                } else {
                    let errno = unsafe { (*e).saved_errno };
                    let desc = unsafe { CStr::from_ptr((*e).description).to_bytes().len() };
                    unsafe { capi::pathrs_errorinfo_free(e) };
                    s.push_str(&format!("t take {id} some {errno} {desc}\n"));
                }
                dead.push(id);
            }
            _ => {
                // an id that is not live: consumed before, an errno-like value, zero, a random one
                let id = match rng.below(4) {
                    0 if !dead.is_empty() => *rng.pick(&dead),
                    1 => -(rng.below(4095) as i32) - 1,
                    2 => 0,
                    _ => -(rng.below(1 << 30) as i32) - 4096,
                };
                if live.contains(&id) {
                    continue;
                }
                let e = unsafe { capi::pathrs_errorinfo(id) };
                if e.is_null() {
                    s.push_str(&format!("t take {id} none\n"));
                } else {
                    let errno = unsafe { (*e).saved_errno };
                    unsafe { capi::pathrs_errorinfo_free(e) };
                    s.push_str(&format!("t take {id} some {errno} 1\n"));
                }
            }
        }
    }
    for id in live.drain(..) {
        let e = unsafe { capi::pathrs_errorinfo(id) };
        if !e.is_null() {
            unsafe { capi::pathrs_errorinfo_free(e) };
        }
    }
    s.push_str("end\n");
    ctx.out.write_all(s.as_bytes()).unwrap();

    // threaded histories: every id is consumed exactly once even when many threads race for it
    let pool: Arc<Mutex<Vec<(i32, u64)>>> = Arc::new(Mutex::new(Vec::new()));
    let results: Arc<Mutex<Vec<String>>> = Arc::new(Mutex::new(Vec::new()));
    let mut handles = Vec::new();
    for t in 0..threads {
        let pool = Arc::clone(&pool);
        let results = Arc::clone(&results);
        let mut rng = Rng::new(seed.wrapping_mul(31).wrapping_add(t as u64));
        handles.push(std::thread::spawn(move || {
            let mut log = Vec::new();
            for _ in 0..n {
                if rng.chance(1, 2) {
                    let (class, errno, want) = *rng.pick(&classes);
                    let id = verif::capi::store_error(class, errno);
                    log.push(format!("h {t} store {want} {id}"));
                    pool.lock().unwrap().push((id, want));
                } else {
                    // do not remove from the pool: several threads race for the same id
                    let pick = {
                        let p = pool.lock().unwrap();
                        if p.is_empty() {
                            None
                        } else {
                            Some(p[rng.below(p.len())])
                        }
                    };
                    if let Some((id, want)) = pick {
                        let e = unsafe { capi::pathrs_errorinfo(id) };
                        if e.is_null() {
                            log.push(format!("h {t} take {id} none {want}"));
                        } else {
                            let errno = unsafe { (*e).saved_errno };
                            unsafe { capi::pathrs_errorinfo_free(e) };
                            log.push(format!("h {t} take {id} some {errno} {want}"));
                        }
                    }
                }
            }
            results.lock().unwrap().extend(log);
        }));
    }
    for h in handles {
        h.join().unwrap();
    }
    let mut s = String::from("case errtable-threads\nmeta suite=errtable\nop errtable_threads\n");
    for l in results.lock().unwrap().iter() {
        s.push_str(l);
        s.push('\n');
    }
    // drain what is left
    for (id, _) in pool.lock().unwrap().iter() {
        let e = unsafe { capi::pathrs_errorinfo(*id) };
        if !e.is_null() {
            unsafe { capi::pathrs_errorinfo_free(e) };
            s.push_str(&format!("h drain take {id} some 0 0\n"));
        }
    }
    s.push_str("end\n");
    ctx.out.write_all(s.as_bytes()).unwrap();

    // backlog: many failures outstanding at once (callers that collect errors and report them later), produced by
    // real failing C calls on several threads and only then consumed by one: none may be lost, each has its own errno
    let backlog = 3 * 4096 + 17;
    let per = backlog / threads.max(1) + 1;
    let stored: Arc<Mutex<Vec<(usize, i32, u64)>>> = Arc::new(Mutex::new(Vec::new()));
    let mut handles = Vec::new();
    for t in 0..threads {
        let stored = Arc::clone(&stored);
        handles.push(std::thread::spawn(move || {
            let mut mine = Vec::new();
            for k in 0..per {
                let (id, want) = if k % 3 == 0 {
                    // a real failing call: a bad descriptor is an invalid argument (EINVAL)
                    (unsafe { capi::pathrs_inroot_resolve(-1, b"a\0".as_ptr() as *const _) }, libc::EINVAL as u64)
                } else {
                    let (class, errno, want) = classes[(k + t) % classes.len()];
                    (verif::capi::store_error(class, errno), want)
                };
                mine.push((t, id, want));
            }
            stored.lock().unwrap().extend(mine);
        }));
    }
    for h in handles {
        h.join().unwrap();
    }
    let mut s = String::from("case errtable-backlog\nmeta suite=errtable\nop errtable_threads\n");
    let all = stored.lock().unwrap().clone();
    for (t, id, want) in &all {
        s.push_str(&format!("h {t} store {want} {id}\n"));
    }
    for (_, id, want) in &all {
        let e = unsafe { capi::pathrs_errorinfo(*id) };
        if e.is_null() {
            s.push_str(&format!("h c take {id} none {want}\n"));
        } else {
            let errno = unsafe { (*e).saved_errno };
            unsafe { capi::pathrs_errorinfo_free(e) };
            s.push_str(&format!("h c take {id} some {errno} {want}\n"));
        }
    }
    // stampede: one id at a time, every thread asks for it at the same moment (barrier); exactly one may get it
    {
        let rounds = 1500usize;
        let barrier = Arc::new(std::sync::Barrier::new(threads + 1));
        let current = Arc::new(std::sync::atomic::AtomicI32::new(0));
        let got = Arc::new(std::sync::atomic::AtomicUsize::new(0));
        let mut hs = Vec::new();
        for _ in 0..threads {
            let (barrier, current, got) = (Arc::clone(&barrier), Arc::clone(&current), Arc::clone(&got));
            hs.push(std::thread::spawn(move || {
                for _ in 0..rounds {
                    barrier.wait();
                    let id = current.load(std::sync::atomic::Ordering::SeqCst);
                    let e = unsafe { capi::pathrs_errorinfo(id) };
                    if !e.is_null() {
                        got.fetch_add(1, std::sync::atomic::Ordering::SeqCst);
                        unsafe { capi::pathrs_errorinfo_free(e) };
                    }
                    barrier.wait();
                }
            }));
        }
        let mut multi = 0usize;
        let mut none = 0usize;
        let mut worst = 0usize;
        let mut first_bad: Option<(usize, i32, usize)> = None;
        for r in 0..rounds {
            let id = verif::capi::store_error(5, libc::ENOENT);
            current.store(id, std::sync::atomic::Ordering::SeqCst);
            got.store(0, std::sync::atomic::Ordering::SeqCst);
            barrier.wait();
            barrier.wait();
            let n = got.load(std::sync::atomic::Ordering::SeqCst);
            if n > 1 {
                multi += 1;
            }
            if n == 0 {
                none += 1;
            }
            if n != 1 && first_bad.is_none() {
                first_bad = Some((r, id, n));
            }
            worst = worst.max(n);
        }
        for h in hs {
            let _ = h.join();
        }
        s.push_str(&format!(
            "stampede rounds={rounds} threads={threads} multi={multi} none={none} worst={worst} first={}\n",
            first_bad.map(|(r, id, n)| format!("{r}:{id}:{n}")).unwrap_or_else(|| "none".into())
        ));
    }
    // the id generator itself: a long run of failing calls, each consumed at once.  The model takes the generator's range
    // ([INT_MIN, -4096]: never a valid descriptor, never an -errno) as given; here it is observed on millions of draws.
    let soak: usize = std::env::var("VERIF_ERRID_SOAK").ok().and_then(|v| v.parse().ok()).unwrap_or(0);
    if soak > 0 {
        let mut bad: Option<(usize, i32)> = None;
        let mut lost: Option<(usize, i32)> = None;
        for k in 0..soak {
            let id = verif::capi::store_error(2, 0);
            if id > -4096 && bad.is_none() {
                bad = Some((k, id));
            }
            let e = unsafe { capi::pathrs_errorinfo(id) };
            if e.is_null() {
                if lost.is_none() {
                    lost = Some((k, id));
                }
            } else {
                unsafe { capi::pathrs_errorinfo_free(e) };
            }
            if bad.is_some() || lost.is_some() {
                break;
            }
        }
        s.push_str(&format!(
            "soak n={soak} bad={} lost={}\n",
            bad.map(|(k, id)| format!("{k}:{id}")).unwrap_or_else(|| "none".into()),
            lost.map(|(k, id)| format!("{k}:{id}")).unwrap_or_else(|| "none".into())
        ));
    }
    s.push_str("end\n");
    ctx.out.write_all(s.as_bytes()).unwrap();
}
