//! Exact-effect oracle for mutating operations (C12, C13, C14).
//!
//! The expected state after an operation is computed from the snapshot taken
//! before it, the outcome the library reported, and *independent* look-ups
//! (raw `openat2(RESOLVE_IN_ROOT)` issued by the harness, `/proc/self/fd`
//! paths): "the corresponding *at call applied to (in-root parent, final name),
//! and nothing else".  The snapshot covers the root and its surroundings.
use crate::{
    fmt::hex,
    ops::{self, Op, Outcome},
    tree::SnapEntry,
};
use pathrs::Root;
use std::{
    collections::BTreeMap,
    fs,
    os::unix::{
        ffi::OsStrExt,
        io::{AsFd, AsRawFd, RawFd},
    },
    path::Path,
};

pub type Snap = BTreeMap<Vec<u8>, SnapEntry>;

/// path of an open descriptor relative to `top` (e.g. `root/a/b`)
pub fn rel_path_of_fd(top: &Path, fd: RawFd) -> Option<Vec<u8>> {
    let p = fs::read_link(format!("/proc/self/fd/{fd}")).ok()?;
    let p = p.strip_prefix(top).ok()?;
    Some(p.as_os_str().as_bytes().to_vec())
}

/// the (in-root parent, final name) a single-entry operation must act on
pub struct Target {
    pub parent: Vec<u8>, // relative to top
    pub name: Vec<u8>,
}

impl Target {
    pub fn key(&self) -> Vec<u8> {
        let mut k = self.parent.clone();
        k.push(b'/');
        k.extend_from_slice(&self.name);
        k
    }
}

pub enum Split {
    /// the library must refuse the path (trailing slash, empty / dot final component)
    MustFail(&'static str),
    /// the parent does not resolve: the operation must fail
    NoParent(i32),
    Target(Target),
}

/// Independent computation of (parent, name): last slash splits, the parent is resolved by the kernel.
pub fn split_target(top: &Path, root: &Root, path: &[u8]) -> Split {
    if path.is_empty() {
        return Split::MustFail("empty path");
    }
    if path.ends_with(b"/") {
        return Split::MustFail("trailing slash");
    }
    let (dir, name): (&[u8], &[u8]) = match path.iter().rposition(|c| *c == b'/') {
        Some(i) => (&path[..i], &path[i + 1..]),
        None => (b"", path),
    };
    if name == b"." || name == b".." {
        return Split::MustFail("final component is . or ..");
    }
    // "/x" has the root as parent; "a//x" has "a/"
    let dirq: Vec<u8> = if dir.is_empty() { b".".to_vec() } else { dir.to_vec() };
    match ops::kernel_openat2(root.as_fd(), &dirq, libc::O_PATH as u64, 0) {
        Err(e) => Split::NoParent(e),
        Ok(fd) => match rel_path_of_fd(top, fd.as_raw_fd()) {
            Some(parent) => Split::Target(Target { parent, name: name.to_vec() }),
            None => Split::NoParent(0),
        },
    }
}

/// (dev, ino) of the entry `name` (never followed) in the kernel's in-root resolution of the rest of `path`
fn nofollow_ident(root: &Root, path: &[u8]) -> Option<(u64, u64)> {
    let (dir, name): (&[u8], &[u8]) = match path.iter().rposition(|c| *c == b'/') {
        Some(i) => (&path[..i], &path[i + 1..]),
        None => (b"", path),
    };
    let dirq: Vec<u8> = if dir.is_empty() { b".".to_vec() } else { dir.to_vec() };
    let fd = ops::kernel_openat2(root.as_fd(), &dirq, libc::O_PATH as u64, 0).ok()?;
    let cname = std::ffi::CString::new(name).ok()?;
    let mut st: libc::stat = unsafe { std::mem::zeroed() };
    let r = unsafe { libc::fstatat(fd.as_raw_fd(), cname.as_ptr(), &mut st, libc::AT_SYMLINK_NOFOLLOW) };
    if r != 0 {
        return None;
    }
    Some((st.st_dev, st.st_ino))
}

/// The permission bits of a newly created entry are those the corresponding raw *at call gives: the same call is made
/// in a scratch directory (outside the root, same filesystem, same mode bits as the in-root parent, same umask) and the
/// two `st_mode`s are compared (set-id / sticky bits, umask, set-gid inheritance and all).
fn mode_probe(top: &Path, op: &Op, parent_key: &[u8], key: &[u8], after: &Snap) -> Option<String> {
    let got = after.get(key)?.mode;
    let parent_mode = after.get(parent_key).map(|e| e.mode).unwrap_or(0o755);
    let d = top.join("modeprobe");
    let _ = fs::remove_dir_all(&d);
    fs::create_dir(&d).ok()?;
    let cd = std::ffi::CString::new(d.as_os_str().as_bytes()).ok()?;
    unsafe { libc::chmod(cd.as_ptr(), parent_mode as libc::mode_t) };
    let cx = std::ffi::CString::new(d.join("x").as_os_str().as_bytes()).ok()?;
    let r = unsafe {
        match op {
            Op::Mkdir { mode, .. } => libc::mkdirat(libc::AT_FDCWD, cx.as_ptr(), *mode as libc::mode_t),
            Op::Mknod { mode, dev, .. } => libc::mknodat(libc::AT_FDCWD, cx.as_ptr(), *mode as libc::mode_t, *dev as libc::dev_t),
            Op::CreateFile { mode, .. } => {
                let fd = libc::openat(libc::AT_FDCWD, cx.as_ptr(), libc::O_CREAT | libc::O_WRONLY | libc::O_CLOEXEC, *mode as libc::c_uint);
                if fd >= 0 {
                    libc::close(fd);
                    0
                } else {
                    -1
                }
            }
            _ => -1,
        }
    };
    let want = if r == 0 {
        let mut st: libc::stat = unsafe { std::mem::zeroed() };
        let ok = unsafe { libc::fstatat(libc::AT_FDCWD, cx.as_ptr(), &mut st, libc::AT_SYMLINK_NOFOLLOW) } == 0;
        if ok {
            Some(st.st_mode & 0o7777)
        } else {
            None
        }
    } else {
        None
    };
    unsafe { libc::chmod(cd.as_ptr(), 0o700) };
    let _ = fs::remove_dir_all(&d);
    match want {
        Some(w) if w != got => Some(format!("mode of the new entry {} is {:o}, the raw call gives {:o}", hex(key), got, w)),
        _ => None,
    }
}

fn subtree_keys(s: &Snap, key: &[u8]) -> Vec<Vec<u8>> {
    let mut pre = key.to_vec();
    pre.push(b'/');
    s.keys().filter(|k| k.as_slice() == key || k.starts_with(&pre)).cloned().collect()
}

fn move_subtree(s: &mut Snap, from: &[u8], to: &[u8]) {
    let keys = subtree_keys(s, from);
    let mut moved = Vec::new();
    for k in keys {
        let e = s.remove(&k).unwrap();
        let mut nk = to.to_vec();
        nk.extend_from_slice(&k[from.len()..]);
        moved.push((nk, e));
    }
    for (k, e) in moved {
        s.insert(k, e);
    }
}

fn placeholder(kind: char) -> SnapEntry {
    SnapEntry { kind, mode: 0, size: 0, body: Vec::new(), dev: 0, ino: 0, nlink: 0 }
}

/// compare two snapshots: kinds, link bodies, identity of pre-existing inodes; new entries (ino 0 in
/// `want`) match any inode; link counts and modes of pre-existing entries must be as before unless
/// listed in `nlink_free`
fn compare(want: &Snap, got: &Snap, nlink_free_ino: Option<u64>) -> Option<String> {
    for (k, w) in want {
        match got.get(k) {
            None => return Some(format!("missing {} {}", w.kind, hex(k))),
            Some(g) => {
                if g.kind != w.kind {
                    return Some(format!("kind of {} is {} expected {}", hex(k), g.kind, w.kind));
                }
                if w.ino != 0 {
                    if g.ino != w.ino {
                        return Some(format!("inode of {} changed", hex(k)));
                    }
                    if g.mode != w.mode || g.size != w.size {
                        return Some(format!("mode/size of {} changed", hex(k)));
                    }
                    if g.nlink != w.nlink && Some(w.ino) != nlink_free_ino {
                        return Some(format!("link count of {} changed {}->{}", hex(k), w.nlink, g.nlink));
                    }
                }
                if w.kind == 'l' && g.body != w.body {
                    return Some(format!("body of link {} is {} expected {}", hex(k), hex(&g.body), hex(&w.body)));
                }
            }
        }
    }
    for (k, g) in got {
        if !want.contains_key(k) {
            return Some(format!("unexpected {} {}", g.kind, hex(k)));
        }
    }
    None
}

fn kind_of_mode(mode: u32) -> char {
    match mode & libc::S_IFMT {
        libc::S_IFIFO => 'p',
        libc::S_IFCHR => 'c',
        libc::S_IFBLK => 'b',
        libc::S_IFSOCK => 's',
        _ => 'f',
    }
}

/// One line for the transcript: `effect ok`, `effect skip <why>` or `effect DIFF <what>`.
pub fn judge(
    top: &Path,
    root: &Root,
    op: &Op,
    before: &Snap,
    after: &Snap,
    outcome: &Outcome,
    pre: &Pre,
) -> String {
    let ok = matches!(outcome, Outcome::Unit | Outcome::Fd(_));
    if matches!(outcome, Outcome::Panic(_)) {
        return "effect skip panic".into();
    }
    let unchanged = |what: &str| match compare(before, after, None) {
        None => "effect ok unchanged".to_string(),
        Some(d) => format!("effect DIFF {what}: {d}"),
    };
    match op {
        Op::Mkdir { .. } | Op::Mknod { .. } | Op::Symlink { .. } | Op::Hardlink { .. } => {
            if !ok {
                return unchanged("the operation failed but the tree changed");
            }
            let t = match &pre.target {
                Split::Target(t) => t,
                Split::MustFail(why) => return format!("effect DIFF success although the path must be refused ({why})"),
                Split::NoParent(e) => return format!("effect DIFF success although the parent does not resolve (errno {e})"),
            };
            let mut want = before.clone();
            let mut free = None;
            let e = match op {
                Op::Mkdir { .. } => placeholder('d'),
                Op::Mknod { mode, .. } => placeholder(kind_of_mode(*mode)),
                Op::Symlink { target, .. } => {
                    let mut e = placeholder('l');
                    e.body = target.clone();
                    e
                }
                Op::Hardlink { .. } => match &pre.link_source {
                    Some(src) => {
                        let mut e = src.clone();
                        e.nlink += 1;
                        free = Some(e.ino);
                        // identity must be the source's: keep ino, but mode/size equal, nlink free
                        e
                    }
                    None => return "effect DIFF hardlink succeeded although its source does not resolve".into(),
                },
                _ => unreachable!(),
            };
            if want.contains_key(&t.key()) {
                return "effect DIFF creation succeeded although the name existed".into();
            }
            want.insert(t.key(), e);
            match compare(&want, after, free) {
                None => match mode_probe(top, op, &t.parent, &t.key(), after) {
                    None => "effect ok created".into(),
                    Some(d) => format!("effect DIFF after create: {d}"),
                },
                Some(d) => format!("effect DIFF after create: {d}"),
            }
        }
        Op::CreateFile { flags, path, .. } if flags & libc::O_PATH != 0 => {
            // O_PATH makes the kernel ignore O_CREAT, O_EXCL and O_TRUNC: the corresponding *at call is a no-follow
            // O_PATH lookup of the final name in the in-root parent.  Nothing changes, and a descriptor that comes back
            // is the entry of that name (whether a '.' or '..' name may come back at all is the escape oracle's business:
            // the `loc` line)
            if let Some(d) = compare(before, after, None) {
                return format!("effect DIFF O_PATH create_file changed the tree: {d}");
            }
            if let Outcome::Fd(fd) = outcome {
                if matches!(pre.target, Split::MustFail("trailing slash") | Split::MustFail("empty path")) {
                    return "effect DIFF success although the path must be refused".into();
                }
                let mut st: libc::stat = unsafe { std::mem::zeroed() };
                unsafe { libc::fstat(fd.as_raw_fd(), &mut st) };
                return match nofollow_ident(root, path) {
                    Some((dev, ino)) if dev == st.st_dev && ino == st.st_ino => "effect ok create_file o_path".into(),
                    Some(_) => "effect DIFF O_PATH create_file returned a descriptor of another file".into(),
                    None => "effect DIFF O_PATH create_file succeeded although (in-root parent, name) does not exist".into(),
                };
            }
            "effect ok unchanged".into()
        }
        Op::CreateFile { flags, .. } => {
            if !ok {
                // O_TRUNC may have truncated? no: a failed open changes nothing
                return unchanged("create_file failed but the tree changed");
            }
            let t = match &pre.target {
                Split::Target(t) => t,
                Split::MustFail(why) => return format!("effect DIFF success although the path must be refused ({why})"),
                Split::NoParent(e) => return format!("effect DIFF success although the parent does not resolve (errno {e})"),
            };
            let mut want = before.clone();
            let key = t.key();
            match want.get(&key).cloned() {
                Some(e) => {
                    if flags & libc::O_EXCL != 0 {
                        return "effect DIFF O_EXCL create_file succeeded on an existing name".into();
                    }
                    if e.kind == 'l' {
                        return "effect DIFF create_file succeeded on a symlink (it must not be followed)".into();
                    }
                    if flags & libc::O_TRUNC != 0 && e.kind == 'f' {
                        // every name of the truncated inode shows the new size
                        for w in want.values_mut() {
                            if (w.dev, w.ino) == (e.dev, e.ino) {
                                w.size = 0;
                            }
                        }
                    }
                }
                None => {
                    want.insert(key.clone(), placeholder('f'));
                    if let Some(d) = mode_probe(top, op, &t.parent, &key, after) {
                        return format!("effect DIFF after create_file: {d}");
                    }
                }
            }
            if let Some(d) = compare(&want, after, None) {
                return format!("effect DIFF after create_file: {d}");
            }
            // the descriptor is the very file under that name
            if let Outcome::Fd(fd) = outcome {
                let mut st: libc::stat = unsafe { std::mem::zeroed() };
                unsafe { libc::fstat(fd.as_raw_fd(), &mut st) };
                match after.get(&key) {
                    Some(e) if e.ino == st.st_ino && e.dev == st.st_dev => "effect ok create_file".into(),
                    _ => "effect DIFF create_file returned a descriptor of another file".into(),
                }
            } else {
                "effect ok create_file".into()
            }
        }
        Op::RemoveFile { .. } | Op::RemoveDir { .. } => {
            if !ok {
                return unchanged("removal failed but the tree changed");
            }
            let t = match &pre.target {
                Split::Target(t) => t,
                Split::MustFail(why) => return format!("effect DIFF success although the path must be refused ({why})"),
                Split::NoParent(e) => return format!("effect DIFF success although the parent does not resolve (errno {e})"),
            };
            let mut want = before.clone();
            let free = want.get(&t.key()).map(|e| e.ino);
            match want.remove(&t.key()) {
                None => return "effect DIFF removal succeeded although the name did not exist".into(),
                Some(e) => {
                    let is_dir = e.kind == 'd';
                    if matches!(op, Op::RemoveDir { .. }) != is_dir {
                        return "effect DIFF removal succeeded on the wrong kind of entry".into();
                    }
                    if is_dir && subtree_keys(&want, &t.key()).len() > 0 {
                        return "effect DIFF remove_dir succeeded on a non-empty directory".into();
                    }
                }
            }
            match compare(&want, after, free) {
                None => "effect ok removed".into(),
                Some(d) => format!("effect DIFF after remove: {d}"),
            }
        }
        Op::Rename { flags, .. } => {
            if !ok {
                return unchanged("rename failed but the tree changed");
            }
            let (s, d) = match (&pre.target, &pre.target2) {
                (Split::Target(s), Some(Split::Target(d))) => (s, d),
                _ => return "effect DIFF rename succeeded although source or destination must be refused".into(),
            };
            let mut want = before.clone();
            let (sk, dk) = (s.key(), d.key());
            if !want.contains_key(&sk) {
                return "effect DIFF rename succeeded although the source did not exist".into();
            }
            let mut free = None;
            if flags & 2 != 0 {
                // RENAME_EXCHANGE
                if !want.contains_key(&dk) {
                    return "effect DIFF exchange succeeded although the destination did not exist".into();
                }
                let tmp = b"\0tmp".to_vec();
                move_subtree(&mut want, &sk, &tmp);
                move_subtree(&mut want, &dk, &sk);
                move_subtree(&mut want, &tmp, &dk);
            } else {
                if sk != dk {
                    if want.contains_key(&dk) {
                        if flags & 1 != 0 {
                            return "effect DIFF RENAME_NOREPLACE succeeded on an existing destination".into();
                        }
                        // same inode under both names: rename is a no-op
                        if want[&dk].ino == want[&sk].ino && want[&sk].kind != 'd' {
                            return match compare(before, after, None) {
                                None => "effect ok rename-noop".into(),
                                Some(x) => format!("effect DIFF after no-op rename: {x}"),
                            };
                        }
                        free = Some(want[&dk].ino);
                        for k in subtree_keys(&want, &dk) {
                            want.remove(&k);
                        }
                    }
                    move_subtree(&mut want, &sk, &dk);
                    if flags & 4 != 0 {
                        // RENAME_WHITEOUT leaves a 0:0 character device at the source
                        want.insert(sk.clone(), placeholder('c'));
                    }
                }
            }
            match compare(&want, after, free) {
                None => "effect ok renamed".into(),
                Some(x) => format!("effect DIFF after rename: {x}"),
            }
        }
        Op::MkdirAll { path, mode } => {
            // additions only, all directories, all on the chain from an existing directory to the handle
            for (k, e) in before {
                match after.get(k) {
                    None => return format!("effect DIFF mkdir_all removed {}", hex(k)),
                    Some(g) if g.kind != e.kind || g.ino != e.ino || g.mode != e.mode || g.body != e.body || g.size != e.size => {
                        return format!("effect DIFF mkdir_all modified {}", hex(k))
                    }
                    _ => {}
                }
            }
            let added: Vec<&Vec<u8>> = after.keys().filter(|k| !before.contains_key(*k)).collect();
            for k in &added {
                if after[*k].kind != 'd' {
                    return format!("effect DIFF mkdir_all created a non-directory {}", hex(k));
                }
                if !(k.starts_with(b"root/")) {
                    return format!("effect DIFF mkdir_all created {} outside the root", hex(k));
                }
            }
            // the additions form one chain
            let mut sorted: Vec<&Vec<u8>> = added.clone();
            sorted.sort_by_key(|k| k.len());
            for w in sorted.windows(2) {
                let mut pre = w[0].clone();
                pre.push(b'/');
                if !w[1].starts_with(&pre) || w[1][pre.len()..].contains(&b'/') {
                    return format!("effect DIFF mkdir_all created directories that are not one chain: {} {}", hex(w[0]), hex(w[1]));
                }
            }
            if let Some(first) = sorted.first() {
                let parent: &[u8] = match first.iter().rposition(|c| *c == b'/') {
                    Some(i) => &first[..i],
                    None => b"",
                };
                if !before.get(parent).map(|e| e.kind == 'd').unwrap_or(false) {
                    return "effect DIFF mkdir_all created a chain that does not start in an existing directory".into();
                }
            }
            if !ok {
                return if added.is_empty() { "effect ok mkdir_all-failed-clean".into() } else { "effect ok mkdir_all-failed-prefix".into() };
            }
            // the handle: in-root resolution of the path *now*, and the end of the chain
            if let Outcome::Fd(fd) = outcome {
                let here = rel_path_of_fd(top, fd.as_raw_fd());
                let mut st: libc::stat = unsafe { std::mem::zeroed() };
                unsafe { libc::fstat(fd.as_raw_fd(), &mut st) };
                match ops::kernel_openat2(root.as_fd(), path, (libc::O_PATH | libc::O_DIRECTORY) as u64, 0) {
                    Ok(k) => {
                        let mut st2: libc::stat = unsafe { std::mem::zeroed() };
                        unsafe { libc::fstat(k.as_raw_fd(), &mut st2) };
                        if (st.st_dev, st.st_ino) != (st2.st_dev, st2.st_ino) {
                            return "effect DIFF mkdir_all returned a handle that is not the in-root resolution of the path".into();
                        }
                    }
                    Err(e) => return format!("effect DIFF mkdir_all succeeded but the path does not resolve afterwards (errno {e})"),
                }
                if let (Some(last), Some(here)) = (sorted.last(), here.as_ref()) {
                    if *last != here {
                        return format!("effect DIFF mkdir_all created {} but returned {}", hex(last), hex(here));
                    }
                }
                // requested mode modulo umask (022 in the harness) on the created directories
                for k in &added {
                    let m = after[*k].mode & 0o777;
                    if m != (mode & 0o777 & !pre.umask) {
                        return format!("effect DIFF mkdir_all created {} with mode {:o}, requested {:o}", hex(k), m, mode);
                    }
                }
            }
            "effect ok mkdir_all".into()
        }
        Op::RemoveAll { path } => {
            if !ok {
                // a failing remove_all may have removed part of the subtree but nothing else
                let t = match &pre.target {
                    Split::Target(t) => Some(t.key()),
                    _ => None,
                };
                for (k, e) in before {
                    let inside = t.as_ref().map(|t| subtree_keys(before, t).contains(k)).unwrap_or(false);
                    match after.get(k) {
                        None if !inside => return format!("effect DIFF failed remove_all removed {} outside the named subtree", hex(k)),
                        Some(g) if !inside && (g.kind != e.kind || g.ino != e.ino || g.body != e.body) => {
                            return format!("effect DIFF failed remove_all modified {}", hex(k))
                        }
                        _ => {}
                    }
                }
                for k in after.keys() {
                    if !before.contains_key(k) {
                        return format!("effect DIFF remove_all created {}", hex(k));
                    }
                }
                return "effect ok remove_all-failed".into();
            }
            let t = match &pre.target {
                Split::Target(t) => t,
                Split::MustFail(why) => {
                    // '.' / '..' / empty must be refused; a trailing slash is a spelling of the same entry
                    if *why == "trailing slash" {
                        let trimmed: Vec<u8> = {
                            let mut p = path.clone();
                            while p.ends_with(b"/") {
                                p.pop();
                            }
                            p
                        };
                        return match split_target_cached(&pre.trimmed_target) {
                            Some(t) => remove_all_success(before, after, t),
                            None => format!("effect skip remove_all trailing slash {}", hex(&trimmed)),
                        };
                    }
                    return format!("effect DIFF remove_all succeeded although the path must be refused ({why})");
                }
                Split::NoParent(e) => return format!("effect DIFF remove_all succeeded although the parent does not resolve (errno {e})"),
            };
            remove_all_success(before, after, t)
        }
        _ => "effect skip op".into(),
    }
}

fn split_target_cached(t: &Option<Split>) -> Option<&Target> {
    match t {
        Some(Split::Target(t)) => Some(t),
        _ => None,
    }
}

fn remove_all_success(before: &Snap, after: &Snap, t: &Target) -> String {
    let mut want = before.clone();
    let keys = subtree_keys(&want, &t.key());
    // removing hard links changes the link count of their other names
    let mut freed: Vec<u64> = Vec::new();
    for k in keys {
        if let Some(e) = want.remove(&k) {
            freed.push(e.ino);
        }
    }
    // compare with link counts of inodes that lost a name left free
    for (k, w) in &want {
        match after.get(k) {
            None => return format!("effect DIFF remove_all removed {} which is not in the named subtree", hex(k)),
            Some(g) => {
                if g.kind != w.kind || g.ino != w.ino || g.body != w.body || g.mode != w.mode || g.size != w.size {
                    return format!("effect DIFF remove_all modified {}", hex(k));
                }
                if g.nlink != w.nlink && !freed.contains(&w.ino) {
                    return format!("effect DIFF remove_all changed the link count of {}", hex(k));
                }
            }
        }
    }
    for k in after.keys() {
        if !want.contains_key(k) {
            return format!("effect DIFF after remove_all {} still exists or was created", hex(k));
        }
    }
    "effect ok remove_all".into()
}

/// what has to be looked up before the operation runs
pub struct Pre {
    pub target: Split,
    pub target2: Option<Split>,
    pub trimmed_target: Option<Split>,
    pub link_source: Option<SnapEntry>,
    pub umask: u32,
}

pub fn prepare(top: &Path, root: &Root, op: &Op, before: &Snap) -> Pre {
    let umask = unsafe {
        let m = libc::umask(0);
        libc::umask(m);
        m as u32
    };
    let mut pre = Pre { target: Split::MustFail("n/a"), target2: None, trimmed_target: None, link_source: None, umask };
    match op {
        Op::Mkdir { path, .. }
        | Op::Mknod { path, .. }
        | Op::Symlink { path, .. }
        | Op::CreateFile { path, .. }
        | Op::RemoveFile { path }
        | Op::RemoveDir { path } => pre.target = split_target(top, root, path),
        Op::RemoveAll { path } => {
            pre.target = split_target(top, root, path);
            let mut p = path.clone();
            while p.ends_with(b"/") && p.len() > 1 {
                p.pop();
            }
            pre.trimmed_target = Some(split_target(top, root, &p));
        }
        Op::Hardlink { path, target } => {
            pre.target = split_target(top, root, path);
            // the source: (in-root parent, final name), never followed
            if let Split::Target(t) = split_target(top, root, target) {
                pre.link_source = before.get(&t.key()).cloned();
            }
        }
        Op::Rename { src, dst, .. } => {
            pre.target = split_target(top, root, src);
            pre.target2 = Some(split_target(top, root, dst));
        }
        _ => {}
    }
    pre
}
