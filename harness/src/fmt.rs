//! Text form of transcripts (one token list per line; byte strings hex-encoded
//! with an `x` prefix so that the empty string is representable).
use pathrs::verif::{Call, Resp};

pub fn hex(b: &[u8]) -> String {
    let mut s = String::with_capacity(1 + 2 * b.len());
    s.push('x');
    for c in b {
        s.push_str(&format!("{c:02x}"));
    }
    s
}

pub fn call_line(c: &Call) -> String {
    let mut s = format!("c {} {}", c.kind, c.fds.len());
    for fd in &c.fds {
        s.push_str(&format!(" {fd}"));
    }
    s.push_str(&format!(" {}", c.strs.len()));
    for b in &c.strs {
        s.push(' ');
        s.push_str(&hex(b));
    }
    s.push_str(&format!(" {}", c.nums.len()));
    for n in &c.nums {
        s.push_str(&format!(" {n}"));
    }
    s
}

pub fn resp_line(r: &Resp) -> String {
    match r {
        Resp::Fd(fd) => format!("r fd {fd}"),
        Resp::Unit => "r unit".into(),
        Resp::Bytes(b) => format!("r bytes {}", hex(b)),
        Resp::Nums(ns) => {
            let mut s = format!("r nums {}", ns.len());
            for n in ns {
                s.push_str(&format!(" {n}"));
            }
            s
        }
        Resp::End => "r end".into(),
        Resp::Err(e) => format!("r err {e}"),
    }
}

pub fn transcript(log: &[(Call, Resp)]) -> String {
    let mut s = String::new();
    for (c, r) in log {
        s.push_str(&call_line(c));
        s.push('\n');
        s.push_str(&resp_line(r));
        s.push('\n');
    }
    s
}
