//! Generators for paths and operations.
use crate::{
    ops::Op,
    rng::Rng,
    tree::{join, parent_of, Kind, TreeSpec},
};

fn split(path: &[u8]) -> Vec<Vec<u8>> {
    if path.is_empty() {
        vec![]
    } else {
        path.split(|c| *c == b'/').map(|c| c.to_vec()).collect()
    }
}

/// A lookup path built from the tree (mostly valid) and then decorated.
pub fn tree_path(rng: &mut Rng, spec: &TreeSpec) -> Vec<u8> {
    let mut comps: Vec<Vec<u8>> = if spec.entries.is_empty() || rng.chance(1, 12) {
        vec![]
    } else {
        split(&rng.pick(&spec.entries).path)
    };
    // non-existing tail
    match rng.below(10) {
        0 => comps.push(b"x".to_vec()),
        1 => {
            comps.push(b"x".to_vec());
            comps.push(b"y".to_vec());
        }
        2 => comps.push(rng.pick(&[&b"a"[..], b"b", b"c", b"l", b"f"]).to_vec()),
        _ => {}
    }
    // decorations
    let ndeco = rng.below(4);
    for _ in 0..ndeco {
        let pos = rng.below(comps.len() + 1);
        match rng.below(8) {
            0 | 1 => comps.insert(pos, b".".to_vec()),
            2 => comps.insert(pos, b"".to_vec()),
            3 | 4 => comps.insert(pos, b"..".to_vec()),
            5 => {
                // go down into a name and back up
                let n = rng.pick(&[&b"a"[..], b"b", b"c", b"l"]).to_vec();
                comps.insert(pos, b"..".to_vec());
                comps.insert(pos, n);
            }
            6 => {
                // re-enter: "..", then the previous component again
                if pos > 0 {
                    let prev = comps[pos - 1].clone();
                    comps.insert(pos, prev);
                    comps.insert(pos, b"..".to_vec());
                }
            }
            _ => {
                let e = rng.pick(&[&b"a"[..], b"b", b"c", b"d", b"e", b"f", b"l", b"m", b"n"]).to_vec();
                comps.insert(pos, e);
            }
        }
    }
    let mut path = comps.join(&b'/');
    match rng.below(12) {
        0 | 1 => path.push(b'/'),
        2 => path.extend_from_slice(b"//"),
        3 => path.extend_from_slice(b"/."),
        _ => {}
    }
    match rng.below(8) {
        0 | 1 => {
            let mut v = b"/".to_vec();
            v.extend_from_slice(&path);
            path = v
        }
        2 => {
            let mut v = b"//".to_vec();
            v.extend_from_slice(&path);
            path = v
        }
        _ => {}
    }
    path
}

/// Malformed / unusual paths.
pub fn odd_path(rng: &mut Rng) -> Vec<u8> {
    match rng.below(10) {
        0 => b"".to_vec(),
        1 => b"a\0zzz".to_vec(),
        2 => b"\0".to_vec(),
        3 => vec![b'a'; 256],
        4 => {
            let mut v = Vec::new();
            for _ in 0..1500 {
                v.extend_from_slice(b"a/");
            }
            v
        }
        5 => b".".to_vec(),
        6 => b"..".to_vec(),
        7 => b"/".to_vec(),
        8 => b"///".to_vec(),
        _ => b"../../..".to_vec(),
    }
}

pub fn lookup_path(rng: &mut Rng, spec: &TreeSpec) -> Vec<u8> {
    if rng.chance(1, 8) {
        odd_path(rng)
    } else {
        tree_path(rng, spec)
    }
}

/// Path for a creating operation: an existing directory plus a (usually) new name.
/// Open flags beyond the access mode for `create_file` (the property quantifies over all open flags).
pub fn exotic_open_flags(rng: &mut Rng) -> i32 {
    match rng.below(12) {
        0 | 1 => libc::O_PATH,
        2 => libc::O_PATH | libc::O_DIRECTORY,
        3 => libc::O_DIRECTORY,
        4 => libc::O_NOFOLLOW | libc::O_CLOEXEC,
        5 => libc::O_TMPFILE,
        6 => libc::O_NOATIME | libc::O_NOCTTY,
        _ => 0,
    }
}

/// A path whose last component is `.` or `..` and whose part before it leads (back) to the root itself: `/..`, `./..`,
/// `a/../..`, `a/b/../../.`, `<link to the root>/..` — the spellings a check of the whole string against "." and ".."
/// does not see, and the ones on which `..` would leave the root if it were passed on to the kernel as a name.
pub fn root_dots_path(rng: &mut Rng, spec: &TreeSpec) -> Vec<u8> {
    let mut path: Vec<u8> = Vec::new();
    if rng.chance(1, 3) {
        path.push(b'/');
    }
    let nseg = 1 + rng.below(3);
    for _ in 0..nseg {
        match rng.below(5) {
            0 => path.extend_from_slice(b"./"),
            1 | 2 | 3 => {
                // down into a directory of the tree and up again
                let dirs: Vec<Vec<u8>> = spec.dirs().into_iter().filter(|d| !d.is_empty()).collect();
                if dirs.is_empty() {
                    path.extend_from_slice(b"./");
                } else {
                    let d = rng.pick(&dirs).clone();
                    let depth = split(&d).len();
                    path.extend_from_slice(&d);
                    path.push(b'/');
                    for _ in 0..depth {
                        path.extend_from_slice(b"../");
                    }
                }
            }
            _ => {
                // a link whose body is the root
                let links: Vec<Vec<u8>> = spec
                    .entries
                    .iter()
                    .filter(|e| matches!(&e.kind, Kind::Link(t) if t.as_slice() == b"/" || t.as_slice() == b"/."))
                    .map(|e| e.path.clone())
                    .collect();
                if links.is_empty() {
                    path.extend_from_slice(b"../");
                } else {
                    let l = rng.pick(&links).clone();
                    path.extend_from_slice(&l);
                    path.push(b'/');
                }
            }
        }
    }
    path.extend_from_slice(*rng.pick(&[&b".."[..], b"..", b"..", b".", b"../..", b"../."]));
    if rng.chance(1, 8) {
        path.push(b'/');
    }
    path
}

pub fn create_path(rng: &mut Rng, spec: &TreeSpec) -> Vec<u8> {
    if rng.chance(1, 6) {
        return lookup_path(rng, spec);
    }
    if rng.chance(1, 10) {
        return root_dots_path(rng, spec);
    }
    // parent: either a directory or a link (possibly to a directory)
    let parents: Vec<Vec<u8>> = {
        let mut v = spec.dirs();
        v.extend(
            spec.entries
                .iter()
                .filter(|e| matches!(e.kind, Kind::Link(_)))
                .map(|e| e.path.clone()),
        );
        v
    };
    let parent = rng.pick(&parents).clone();
    let name: Vec<u8> = rng
        .pick(&[&b"new"[..], b"a", b"b", b"l", b"new2", b".", b"..", b"x y"])
        .to_vec();
    let mut path = join(&parent, &name);
    match rng.below(10) {
        0 => path.push(b'/'),
        1 => {
            let mut v = b"/".to_vec();
            v.extend_from_slice(&path);
            path = v
        }
        2 => {
            // through ".."
            let mut v = join(&parent, b"..");
            v.push(b'/');
            v.extend_from_slice(&join(parent_of(&parent), &name));
            path = v
        }
        _ => {}
    }
    path
}

pub fn mkdir_all_path(rng: &mut Rng, spec: &TreeSpec) -> Vec<u8> {
    let mut path = if rng.chance(1, 3) {
        lookup_path(rng, spec)
    } else {
        create_path(rng, spec)
    };
    let extra = rng.below(4);
    for _ in 0..extra {
        if !path.is_empty() && !path.ends_with(b"/") {
            path.push(b'/');
        }
        let extra_c: &[u8] = *rng.pick(&[&b"n1"[..], b"n2", b".", b"", b"..", b"a"]);
        path.extend_from_slice(extra_c);
    }
    path
}

const ACC: [i32; 4] = [libc::O_RDONLY, libc::O_WRONLY, libc::O_RDWR, libc::O_PATH];

pub fn open_flags(rng: &mut Rng, has_fifo: bool) -> i32 {
    let mut fl = *rng.pick(&ACC);
    if fl & libc::O_PATH != 0 && !rng.chance(1, 12) {
        // openat2 accepts only these together with O_PATH
        for (bit, num, den) in [
            (libc::O_NOFOLLOW, 1, 2),
            (libc::O_DIRECTORY, 1, 3),
            (libc::O_CLOEXEC, 1, 3),
        ] {
            if rng.chance(num, den) {
                fl |= bit;
            }
        }
        return fl;
    }
    for (bit, num, den) in [
        (libc::O_NOFOLLOW, 1, 3),
        (libc::O_DIRECTORY, 1, 4),
        (libc::O_APPEND, 1, 6),
        (libc::O_NONBLOCK, 1, 4),
        (libc::O_NOATIME, 1, 8),
        (libc::O_SYNC, 1, 10),
        (libc::O_DSYNC, 1, 12),
        (libc::O_DIRECT, 1, 14),
        (libc::O_TRUNC, 1, 10),
        (libc::O_CLOEXEC, 1, 4),
        (libc::O_NOCTTY, 1, 8),
        (libc::O_LARGEFILE, 1, 10),
    ] {
        if rng.chance(num, den) {
            fl |= bit;
        }
    }
    if has_fifo && fl & libc::O_PATH == 0 {
        fl |= libc::O_NONBLOCK;
    }
    // a one-shot open never creates: every spelling of a creation request is refused up front
    if rng.chance(1, 16) {
        fl |= *rng.pick(&[libc::O_CREAT, libc::O_EXCL, libc::O_CREAT | libc::O_EXCL, libc::O_TMPFILE, libc::O_PATH | libc::O_CREAT]);
    }
    fl
}

/// Which operations a suite draws from.
#[derive(Clone, Copy, Debug, PartialEq, Eq)]
pub enum OpClass {
    All,
    Lookups,
    Mutating,
    MkdirAll,
    RemoveAll,
    Single,
    SingleValid,
    Reopen,
}

impl OpClass {
    pub fn parse(s: &str) -> Option<OpClass> {
        Some(match s {
            "all" => OpClass::All,
            "lookups" => OpClass::Lookups,
            "mutating" => OpClass::Mutating,
            "mkdir_all" => OpClass::MkdirAll,
            "remove_all" => OpClass::RemoveAll,
            "single" => OpClass::Single,
            "single_valid" => OpClass::SingleValid,
            "reopen" => OpClass::Reopen,
            _ => return None,
        })
    }

    pub fn admits(self, op: &Op) -> bool {
        let lookup = matches!(
            op,
            Op::Resolve { .. } | Op::OpenSubpath { .. } | Op::Readlink { .. }
        );
        match self {
            OpClass::All => true,
            OpClass::Lookups => lookup,
            OpClass::Mutating => !lookup && !matches!(op, Op::Reopen { .. }),
            OpClass::MkdirAll => matches!(op, Op::MkdirAll { .. }),
            OpClass::RemoveAll => matches!(op, Op::RemoveAll { .. }),
            OpClass::Single | OpClass::SingleValid => matches!(
                op,
                Op::Mkdir { .. }
                    | Op::Mknod { .. }
                    | Op::Symlink { .. }
                    | Op::Hardlink { .. }
                    | Op::CreateFile { .. }
                    | Op::RemoveFile { .. }
                    | Op::RemoveDir { .. }
                    | Op::Rename { .. }
            ),
            OpClass::Reopen => matches!(op, Op::Reopen { .. }),
        }
    }
}

/// a way of spelling the path of an existing entry: plain, through a detour, with a leading slash
fn spell(rng: &mut Rng, spec: &TreeSpec, path: &[u8]) -> Vec<u8> {
    let mut p = path.to_vec();
    match rng.below(8) {
        0 => {
            let mut v = b"/".to_vec();
            v.extend_from_slice(&p);
            p = v;
        }
        1 => {
            // down into the parent and back: parent/../parent/name
            let parent = parent_of(path).to_vec();
            if !parent.is_empty() {
                let name = &path[parent.len() + 1..];
                let mut v = parent.clone();
                v.extend_from_slice(b"/../");
                let last = parent.rsplit(|c| *c == b'/').next().unwrap_or(b"").to_vec();
                v.extend_from_slice(&last);
                v.push(b'/');
                v.extend_from_slice(name);
                // only correct when the parent is at depth 1 below its own parent: use the full form otherwise
                if crate::tree::depth(&parent) == 1 {
                    p = v;
                }
            }
        }
        2 => {
            // through a symlink that names the parent directory
            let parent = parent_of(path).to_vec();
            if let Some(l) = spec.entries.iter().find(|e| matches!(&e.kind, Kind::Link(t) if *t == parent && !parent.is_empty())) {
                if !l.path.contains(&b'/') {
                    let name = &path[parent.len() + 1..];
                    p = join(&l.path, name);
                }
            }
        }
        3 => {
            let mut v = b"./".to_vec();
            v.extend_from_slice(&p);
            p = v;
        }
        _ => {}
    }
    p
}

/// single-entry operations that are mostly applicable to the tree (C14)
pub fn gen_single_valid(rng: &mut Rng, spec: &TreeSpec) -> Op {
    if spec.entries.is_empty() || rng.chance(1, 4) {
        return gen_op_in(rng, spec, OpClass::Single);
    }
    let dirs = spec.dirs();
    let fresh = |rng: &mut Rng| -> Vec<u8> {
        let d = rng.pick(&dirs).clone();
        let n: &[u8] = *rng.pick(&[&b"new"[..], b"new2", b"zz", b"x y"]);
        join(&d, n)
    };
    let has_children = |p: &[u8]| {
        let mut pre = p.to_vec();
        pre.push(b'/');
        spec.entries.iter().any(|e| e.path.starts_with(&pre))
    };
    let e = rng.pick(&spec.entries).clone();
    match rng.below(10) {
        0 | 1 => {
            let nondirs: Vec<&crate::tree::Entry> = spec.entries.iter().filter(|e| e.kind != Kind::Dir).collect();
            match nondirs.is_empty() {
                true => Op::RemoveFile { path: spell(rng, spec, &e.path) },
                false => {
                    let t = (*rng.pick(&nondirs)).path.clone();
                    Op::RemoveFile { path: spell(rng, spec, &t) }
                }
            }
        }
        2 | 3 => {
            let empties: Vec<&crate::tree::Entry> =
                spec.entries.iter().filter(|e| e.kind == Kind::Dir && !has_children(&e.path)).collect();
            match empties.is_empty() {
                true => Op::RemoveDir { path: spell(rng, spec, &e.path) },
                false => {
                    let t = (*rng.pick(&empties)).path.clone();
                    Op::RemoveDir { path: spell(rng, spec, &t) }
                }
            }
        }
        4 | 5 | 6 => {
            // rename an existing entry to a fresh name, onto an existing entry, or exchange
            let dst_existing = rng.pick(&spec.entries).path.clone();
            let (dst, flags) = match rng.below(6) {
                0 => (dst_existing, 0),
                1 => (dst_existing, libc::RENAME_EXCHANGE),
                2 => (fresh(rng), libc::RENAME_NOREPLACE),
                3 => (dst_existing, libc::RENAME_NOREPLACE),
                _ => (fresh(rng), 0),
            };
            Op::Rename { src: spell(rng, spec, &e.path), dst: spell(rng, spec, &dst), flags }
        }
        7 => Op::Hardlink { path: fresh(rng), target: spell(rng, spec, &e.path) },
        8 => Op::Symlink { path: fresh(rng), target: e.path.clone() },
        _ => Op::CreateFile {
            path: if rng.chance(1, 2) { spell(rng, spec, &e.path) } else { fresh(rng) },
            flags: *rng.pick(&[libc::O_RDONLY, libc::O_WRONLY, libc::O_RDWR | libc::O_TRUNC, libc::O_WRONLY | libc::O_EXCL])
                // never block on a fifo of the tree
                | if spec.entries.iter().any(|e| e.kind == Kind::Fifo) { libc::O_NONBLOCK } else { 0 }
                | exotic_open_flags(rng),
            mode: 0o644,
        },
    }
}

pub fn gen_op_in(rng: &mut Rng, spec: &TreeSpec, class: OpClass) -> Op {
    if class == OpClass::SingleValid {
        return gen_single_valid(rng, spec);
    }
    loop {
        let op = gen_op(rng, spec);
        if class.admits(&op) {
            return op;
        }
    }
}

pub fn gen_op(rng: &mut Rng, spec: &TreeSpec) -> Op {
    let has_fifo = spec.entries.iter().any(|e| e.kind == Kind::Fifo);
    match rng.below(100) {
        0..=24 => Op::Resolve {
            path: lookup_path(rng, spec),
            nofollow: rng.chance(1, 2),
        },
        25..=36 => Op::OpenSubpath {
            path: lookup_path(rng, spec),
            flags: open_flags(rng, has_fifo),
        },
        37..=42 => Op::Readlink {
            path: lookup_path(rng, spec),
        },
        43..=47 => Op::Mkdir {
            path: create_path(rng, spec),
            mode: *rng.pick(&[0o755, 0o700, 0o1777, 0o2755, 0o777]),
        },
        48..=51 => Op::Mknod {
            path: create_path(rng, spec),
            mode: *rng.pick(&[libc::S_IFREG, libc::S_IFIFO, libc::S_IFCHR, libc::S_IFBLK])
                | *rng.pick(&[0o644, 0o600, 0o4755]),
            dev: *rng.pick(&[0, 0x103, 0x501]),
            ptype: if rng.chance(1, 4) { *rng.pick(&[libc::S_IFREG, libc::S_IFDIR, libc::S_IFBLK, libc::S_IFCHR, libc::S_IFIFO, libc::S_IFLNK]) } else { 0 },
        },
        52..=56 => Op::Symlink {
            path: create_path(rng, spec),
            target: lookup_path(rng, spec),
        },
        57..=60 => Op::Hardlink {
            path: create_path(rng, spec),
            target: lookup_path(rng, spec),
        },
        61..=66 => {
            // (a final `..` behind a spelling of the root, with O_PATH: the open that would hand out the root's parent)
            let dots = rng.chance(1, 5);
            let path = if dots { root_dots_path(rng, spec) } else { create_path(rng, spec) };
            let opath = if dots && rng.chance(1, 2) { libc::O_PATH } else { 0 };
            Op::CreateFile {
            path,
            flags: opath | {
                let mut fl = *rng.pick(&[libc::O_RDONLY, libc::O_WRONLY, libc::O_RDWR]);
                if rng.chance(1, 3) {
                    fl |= libc::O_EXCL;
                }
                if rng.chance(1, 5) {
                    fl |= libc::O_TRUNC;
                }
                if rng.chance(1, 6) {
                    fl |= libc::O_APPEND;
                }
                if has_fifo {
                    fl |= libc::O_NONBLOCK;
                }
                // flags that change what the O_CREAT open means: O_PATH makes the kernel ignore O_CREAT altogether
                // (so the final-component checks of a creating open are gone), O_DIRECTORY|O_CREAT and O_TMPFILE are refused
                fl | exotic_open_flags(rng)
            },
            mode: *rng.pick(&[0o644, 0o600, 0o755]),
        }},
        67..=78 => Op::MkdirAll {
            path: mkdir_all_path(rng, spec),
            // (modes without owner write/search included: every created component gets the requested mode, not only the last)
            mode: *rng.pick(&[0o755, 0o755, 0o755, 0o700, 0o700, 0o711, 0o711, 0o1777, 0o1777, 0o2755, 0o4755, 0o10755, 0o555, 0o500, 0o000, 0o070, 0o1444, 0o311]),
        },
        79..=82 => Op::RemoveFile {
            path: lookup_path(rng, spec),
        },
        83..=86 => Op::RemoveDir {
            path: lookup_path(rng, spec),
        },
        87..=93 => Op::RemoveAll {
            path: lookup_path(rng, spec),
        },
        94..=97 => Op::Rename {
            src: lookup_path(rng, spec),
            dst: if rng.chance(1, 2) {
                create_path(rng, spec)
            } else {
                lookup_path(rng, spec)
            },
            flags: *rng.pick(&[0, 0, libc::RENAME_NOREPLACE, libc::RENAME_EXCHANGE, 8]),
        },
        _ => Op::Reopen {
            path: lookup_path(rng, spec),
            nofollow: rng.chance(1, 2),
            flags: open_flags(rng, has_fifo),
        },
    }
}
