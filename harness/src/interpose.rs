//! Symbol interposition for the libc functions that Rust's std calls on behalf
//! of libpathrs and that the in-crate shim cannot see: `close` (RAII drops of
//! `OwnedFd`/`File`), `fcntl(F_DUPFD_CLOEXEC)` (`try_clone_to_owned`) and
//! `readlink` (`std::fs::read_link` used for error messages).
//!
//! std is linked statically into this executable, so its references to these
//! symbols bind to the definitions below; rustix uses raw syscalls and is not
//! affected. Events are recorded only while a recorder is active on the
//! calling thread.

use pathrs::verif::{self, Action, Call, Resp};
use std::ffi::CStr;

unsafe fn errno() -> i32 {
    *libc::__errno_location()
}

#[no_mangle]
pub unsafe extern "C" fn close(fd: libc::c_int) -> libc::c_int {
    let r = libc::syscall(libc::SYS_close, fd) as libc::c_int;
    if verif::active() {
        let e = errno();
        let call = Call {
            kind: "close",
            fds: vec![fd],
            strs: vec![],
            nums: vec![],
        };
        verif::post(call, if r == 0 { Resp::Unit } else { Resp::Err(e) });
        *libc::__errno_location() = e;
    }
    r
}

#[no_mangle]
pub unsafe extern "C" fn fcntl(fd: libc::c_int, cmd: libc::c_int, arg: libc::c_long) -> libc::c_int {
    if cmd == libc::F_DUPFD_CLOEXEC && verif::active() {
        let call = Call {
            kind: "dup",
            fds: vec![fd],
            strs: vec![],
            nums: vec![arg as u64],
        };
        match verif::pre(&call) {
            Action::Fail(e) => {
                verif::post(call, Resp::Err(e));
                *libc::__errno_location() = e;
                return -1;
            }
            Action::Proceed => {
                let r = libc::syscall(libc::SYS_fcntl, fd, cmd, arg) as libc::c_int;
                let e = errno();
                verif::post(call, if r >= 0 { Resp::Fd(r) } else { Resp::Err(e) });
                *libc::__errno_location() = e;
                return r;
            }
        }
    }
    libc::syscall(libc::SYS_fcntl, fd, cmd, arg) as libc::c_int
}

#[no_mangle]
pub unsafe extern "C" fn readlink(
    path: *const libc::c_char,
    buf: *mut libc::c_char,
    bufsiz: libc::size_t,
) -> libc::ssize_t {
    if verif::active() {
        let call = Call {
            kind: "readlink_abs",
            fds: vec![],
            strs: vec![CStr::from_ptr(path).to_bytes().to_vec()],
            nums: vec![],
        };
        match verif::pre(&call) {
            Action::Fail(e) => {
                verif::post(call, Resp::Err(e));
                *libc::__errno_location() = e;
                return -1;
            }
            Action::Proceed => {
                let r = libc::syscall(libc::SYS_readlink, path, buf, bufsiz) as libc::ssize_t;
                let e = errno();
                let resp = if r >= 0 {
                    Resp::Bytes(std::slice::from_raw_parts(buf as *const u8, r as usize).to_vec())
                } else {
                    Resp::Err(e)
                };
                verif::post(call, resp);
                *libc::__errno_location() = e;
                return r;
            }
        }
    }
    libc::syscall(libc::SYS_readlink, path, buf, bufsiz) as libc::ssize_t
}
