//! Verification harness for libpathrs: drives the real library (built from
//! /repo's working tree with the `_verif_hooks` feature) on generated cases and
//! writes transcripts for the Lean model driver.
mod attack;
mod capi;
mod c15;
mod capisuite;
mod effect;
mod fmt;
mod gen;
mod interpose;
mod ops;
mod procsuite;
mod rng;
mod tree;

use ops::{Op, Outcome};
use pathrs::{
    flags::{OpenFlags, ResolverFlags},
    verif, Root,
};
use rng::Rng;
use std::{
    ffi::OsStr,
    fs,
    io::Write,
    os::unix::{
        ffi::OsStrExt,
        io::{AsFd, AsRawFd},
    },
    path::{Path, PathBuf},
    sync::atomic::Ordering,
};
use tree::{Labels, TreeSpec};

pub struct Ctx {
    pub work: PathBuf,
    pub out: Box<dyn Write>,
    pub no_openat2: bool,
    /// run the library calls (and the kernel reference calls) as uid/gid 65534 on trees owned by that user, some of
    /// whose directories and files have restricted modes; everything the harness does around them stays privileged
    pub unpriv: bool,
}

pub const NOBODY: u32 = 65534;

/// drop the effective ids (keeping the saved ones) / take them back
pub fn drop_priv(on: bool) {
    if on {
        unsafe {
            assert_eq!(libc::setegid(NOBODY), 0);
            assert_eq!(libc::seteuid(NOBODY), 0);
            // a change of the effective uid makes the process non-dumpable, and /proc/self/fd unreadable with it
            libc::prctl(libc::PR_SET_DUMPABLE, 1, 0, 0, 0);
        }
    }
}

pub fn restore_priv(on: bool) {
    if on {
        unsafe {
            assert_eq!(libc::seteuid(0), 0);
            assert_eq!(libc::setegid(0), 0);
            libc::prctl(libc::PR_SET_DUMPABLE, 1, 0, 0, 0);
        }
    }
}

/// hand the tree over to the unprivileged user and take permissions away here and there
fn prepare_unpriv_tree(rootdir: &std::path::Path, spec: &TreeSpec, seed: u64, op: &Op) {
    use std::os::unix::fs::PermissionsExt;
    let chown = |p: &std::path::Path| {
        let c = std::ffi::CString::new(p.as_os_str().as_bytes()).unwrap();
        unsafe { libc::lchown(c.as_ptr(), NOBODY, NOBODY) };
    };
    chown(rootdir);
    let _ = fs::set_permissions(rootdir, fs::Permissions::from_mode(0o755));
    if let Some(top) = rootdir.parent() {
        // the directory that holds the root must be searchable
        let _ = fs::set_permissions(top, fs::Permissions::from_mode(0o755));
    }
    for e in &spec.entries {
        chown(&rootdir.join(OsStr::from_bytes(&e.path)));
    }
    let mut rng = rng::Rng::new(seed ^ 0x5eed_0bad);
    // entries named on the operation's path are the interesting ones to take permissions from
    let line = op.line();
    let on_path: Vec<&tree::Entry> = spec
        .entries
        .iter()
        .filter(|e| {
            let last = e.path.rsplit(|c| *c == b'/').next().unwrap_or(b"");
            !last.is_empty() && line.contains(&fmt::hex(last)[1..])
        })
        .collect();
    // remove_all has to *read* the directory it empties: take that away from the named directory often
    if let Op::RemoveAll { path } = op {
        let last = path.rsplit(|c| *c == b'/').find(|c| !c.is_empty()).unwrap_or(b"");
        if rng.chance(1, 2) {
            if let Some(e) = spec.entries.iter().find(|e| e.kind == tree::Kind::Dir && e.path.rsplit(|c| *c == b'/').next() == Some(last)) {
                let p = rootdir.join(OsStr::from_bytes(&e.path));
                let _ = fs::set_permissions(&p, fs::Permissions::from_mode(*rng.pick(&[0o300, 0o000, 0o200, 0o100, 0o500])));
            }
        }
    }
    if rng.chance(2, 3) {
        for _ in 0..(1 + rng.below(2)) {
            let e = if !on_path.is_empty() && rng.chance(3, 4) { *rng.pick(&on_path) } else { rng.pick(&spec.entries) };
            let p = rootdir.join(OsStr::from_bytes(&e.path));
            let mode = match e.kind {
                tree::Kind::Dir => *rng.pick(&[0o000, 0o300, 0o500, 0o100, 0o600, 0o400, 0o200]),
                tree::Kind::Link(_) => continue,
                _ => *rng.pick(&[0o000, 0o200, 0o400]),
            };
            // never through a symlink (a hard link to a symlink of the tree is one: chmod(2) would follow it, and
            // link bodies such as "/" name real host directories)
            match fs::symlink_metadata(&p) {
                Ok(md) if !md.file_type().is_symlink() => {
                    let _ = fs::set_permissions(&p, fs::Permissions::from_mode(mode));
                }
                _ => {}
            }
        }
    }
}

fn arg_val(args: &[String], name: &str) -> Option<String> {
    args.iter()
        .position(|a| a == name)
        .and_then(|i| args.get(i + 1).cloned())
}

pub fn protected_symlinks() -> u32 {
    fs::read_to_string("/proc/sys/fs/protected_symlinks")
        .ok()
        .and_then(|s| s.trim().parse().ok())
        // what the library assumes when the sysctl cannot be read
        .unwrap_or(1)
}

pub static PSL_AT_START: std::sync::atomic::AtomicU32 = std::sync::atomic::AtomicU32::new(0);

pub fn cfg_line(root: &Root, emulated: bool, rflags: ResolverFlags) -> String {
    let (pfd, pmnt, psub, pemu) = verif::procfs_describe(verif::global_procfs());
    format!(
        "cfg backend={} rflags={} rootfd={} procfd={} procmnt={} subset={} procemu={} openat2={} psl={}",
        if emulated { "e" } else { "k" },
        rflags.bits(),
        root.as_fd().as_raw_fd(),
        pfd,
        pmnt.map(|m| m.to_string()).unwrap_or_else(|| "none".into()),
        psub as u8,
        pemu as u8,
        verif::openat2_is_supported() as u8,
        PSL_AT_START.load(Ordering::SeqCst),
    )
}

/// Make sure the lazily initialised process-global state exists so that
/// transcripts of ordinary cases do not contain first-use initialisation.
fn warm_up(work: &Path) {
    let d = work.join("warmup");
    let _ = fs::create_dir_all(d.join("a"));
    let _ = std::os::unix::fs::symlink("a", d.join("l"));
    let mut root = Root::open(&d).expect("open warm-up root");
    root.verif_set_emulated(true);
    let _ = root.resolve("l/../l");
    let _ = verif::global_procfs();
    let _ = fs::remove_dir_all(&d);
}

pub fn setup_case_dir(ctx: &Ctx, name: &str, spec: &TreeSpec) -> (PathBuf, PathBuf) {
    let top = ctx.work.join(name);
    let _ = fs::remove_dir_all(&top);
    fs::create_dir_all(top.join("root")).expect("create case dir");
    fs::create_dir_all(top.join("outside/dir")).expect("create outside dir");
    fs::write(top.join("outside/secret"), b"secret").unwrap();
    fs::write(top.join("outside/dir/x"), b"x").unwrap();
    let _ = std::os::unix::fs::symlink("secret", top.join("outside/link"));
    spec.materialise(&top.join("root")).expect("materialise tree");
    let root = top.join("root");
    (top, root)
}

fn snapshot_lines(snap: &std::collections::BTreeMap<Vec<u8>, tree::SnapEntry>, labels: &Labels) -> String {
    let mut s = String::new();
    for (p, e) in snap {
        if !(p.starts_with(b"root/") || p == b"root") {
            continue;
        }
        let rel: &[u8] = if p == b"root" { b"" } else { &p[5..] };
        let label = labels
            .label(e.dev, e.ino)
            .map(|l| l.to_string())
            .unwrap_or_else(|| "new".into());
        s.push_str(&format!(
            "a {} {} {:o} {} {}\n",
            e.kind,
            fmt::hex(rel),
            e.mode,
            label,
            fmt::hex(&e.body)
        ));
    }
    s
}

/// `--fd0-free`: every operation of the `root` suite runs with descriptor 0 closed, so that the first descriptor the
/// kernel hands out during the operation is number 0 (a process started with stdin closed).
pub static FD0_FREE: std::sync::atomic::AtomicBool = std::sync::atomic::AtomicBool::new(false);

pub fn fd0_occupy() {
    if unsafe { libc::fcntl(0, libc::F_GETFD) } < 0 {
        let fd = unsafe { libc::open(b"/dev/null\0".as_ptr() as *const _, libc::O_RDONLY | libc::O_CLOEXEC) };
        if fd > 0 {
            unsafe {
                libc::dup3(fd, 0, libc::O_CLOEXEC);
                libc::close(fd);
            }
        }
    }
}

/// One (tree, op) case on one backend.
fn run_root_case(
    ctx: &mut Ctx,
    id: &str,
    seed: u64,
    spec: &TreeSpec,
    op: &Op,
    emulated: bool,
    rflags: ResolverFlags,
) {
    let fd0 = FD0_FREE.load(std::sync::atomic::Ordering::Relaxed);
    if fd0 {
        fd0_occupy();
    }
    let (top, rootdir) = setup_case_dir(ctx, "case", spec);
    let unpriv = ctx.unpriv;
    if unpriv {
        prepare_unpriv_tree(&rootdir, spec, seed, op);
    }
    let labels = Labels::of_tree(spec, &rootdir);
    let mut root = Root::open(&rootdir).expect("open root");
    root.verif_set_emulated(emulated);
    root.set_resolver_flags(rflags);

    let mut s = String::new();
    s.push_str(&format!("case {id}\nmeta seed={seed} suite=root{}{}\n", if unpriv { " unpriv=1" } else { "" }, if fd0 { " fd0free=1" } else { "" }));
    s.push_str(&format!("tree {}\n", spec.entries.len()));
    s.push_str(&spec.lines());
    s.push_str(&op.line());
    s.push('\n');
    s.push_str(&cfg_line(&root, emulated, rflags));
    s.push('\n');

    // one-shot opens: only flag sets that openat2 itself accepts are in scope
    if let Op::OpenSubpath { flags, .. } | Op::Reopen { flags, .. } = op {
        if let Err(e) = ops::kernel_openat2(root.as_fd(), b".", *flags as u32 as u64, 0) {
            if e == libc::EINVAL {
                return;
            }
        }
    }

    // independent kernel oracle first (lookups do not change the tree), with the caller's privileges
    drop_priv(unpriv);
    let kern = ops::kernel_line(&root, op, rflags, &labels);
    let kernb = ops::kernel_beneath_line(&root, op, rflags, &labels);
    restore_priv(unpriv);

    let before_snap = tree::snapshot(&top);
    let pre_effect = if op.is_mutating() { Some(effect::prepare(&top, &root, op, &before_snap)) } else { None };
    drop_priv(unpriv);
    let (outcome, log, pre_handle, fdt) = match op {
        Op::Reopen { path, nofollow, flags } => {
            let h = if *nofollow {
                root.resolve_nofollow(ops::p(path))
            } else {
                root.resolve(ops::p(path))
            };
            match h {
                Err(_) => {
                    restore_priv(unpriv);
                    return; // nothing to reopen; not a case
                }
                Ok(h) => {
                    s.push_str(&format!(
                        "handle {}\n",
                        ops::describe_fd(h.as_fd().as_raw_fd(), &labels)
                    ));
                    let before = ops::fd_table();
                    let (r, log) = ops::recorded(None, || {
                        h.reopen(OpenFlags::from_bits_retain(*flags))
                    });
                    let outcome = match r {
                        Ok(Ok(f)) => Outcome::Fd(f.into()),
                        Ok(Err(e)) => Outcome::Err(e.kind()),
                        Err(m) => Outcome::Panic(m),
                    };
                    let after = ops::fd_table();
                    let ex = match &outcome {
                        Outcome::Fd(fd) => Some(fd.as_raw_fd()),
                        _ => None,
                    };
                    let fdt = ops::fd_table_diff(&before, &after, ex);
                    (outcome, log, Some(h), fdt)
                }
            }
        }
        _ => {
            if fd0 {
                unsafe { libc::close(0) };
            }
            let before = ops::fd_table();
            let (outcome, log) = ops::run_recorded(&root, op, None);
            let after = ops::fd_table();
            if fd0 && !matches!(&outcome, Outcome::Fd(fd) if fd.as_raw_fd() == 0) {
                // (a descriptor 0 left behind is in `after` and so in the fd table line; make room for the next case)
                unsafe { libc::close(0) };
                fd0_occupy();
            }
            let ex = match &outcome {
                Outcome::Fd(fd) => Some(fd.as_raw_fd()),
                _ => None,
            };
            let fdt = ops::fd_table_diff(&before, &after, ex);
            (outcome, log, None, fdt)
        }
    };
    restore_priv(unpriv);
    drop(pre_handle);
    let after_snap = tree::snapshot(&top);

    s.push_str(&fmt::transcript(&log));
    s.push_str(&outcome.line(&labels));
    s.push('\n');
    if let Some(k) = kern {
        s.push_str(&k);
        s.push('\n');
    }
    if let Some(k) = kernb {
        s.push_str(&k);
        s.push('\n');
    }
    s.push_str(&fdt);
    s.push('\n');
    // where the returned descriptor points: inside the root's tree, or not
    if let ops::Outcome::Fd(fd) = &outcome {
        use std::os::fd::AsRawFd;
        match effect::rel_path_of_fd(&top, fd.as_raw_fd()) {
            Some(p) if p == b"root" || p.starts_with(b"root/") => s.push_str(&format!("loc inside {}\n", fmt::hex(&p))),
            // (the directory that contains the root: the empty relative path)
            Some(p) if p.is_empty() => s.push_str(&format!("loc outside {}\n", fmt::hex(b"<the directory that contains the root>"))),
            Some(p) => s.push_str(&format!("loc outside {}\n", fmt::hex(&p))),
            None => match fs::read_link(format!("/proc/self/fd/{}", fd.as_raw_fd())) {
                Ok(p) => s.push_str(&format!("loc outside {}\n", fmt::hex(p.as_os_str().as_bytes()))),
                // no /proc in this environment: where the descriptor points cannot be read
                Err(_) => s.push_str("loc unknown\n"),
            },
        }
    }
    for d in tree::snapshot_diff(&before_snap, &after_snap) {
        s.push_str("snap ");
        s.push_str(&d);
        s.push('\n');
    }
    if let Some(pre) = &pre_effect {
        s.push_str(&effect::judge(&top, &root, op, &before_snap, &after_snap, &outcome, pre));
        s.push('\n');
    }
    if op.is_mutating() {
        s.push_str("after\n");
        s.push_str(&snapshot_lines(&after_snap, &labels));
    }
    s.push_str("end\n");
    ctx.out.write_all(s.as_bytes()).expect("write transcript");
    drop(outcome);
    drop(root);
    let _ = fs::remove_dir_all(&top);
}

/// Boundary cases of the link budget: lookups that traverse exactly `n` symlinks, as one chain and spread over
/// eight components.  The kernel follows at most 40 links (`MAXSYMLINKS`); the property quantifies over lookups of
/// at most 40 traversals, on which both backends must agree with the kernel.
fn ladder_cases(with_mkdir: bool, over: bool) -> Vec<(TreeSpec, Op)> {
    let mut out = Vec::new();
    let ns: &[usize] = if over { &[39, 40, 41] } else { &[39, 40] };
    for &n in ns {
        let mut spec = TreeSpec::default();
        spec.entries.push(tree::Entry { path: b"t".to_vec(), kind: tree::Kind::Dir, mode: 0o755 });
        spec.entries.push(tree::Entry { path: b"t/f".to_vec(), kind: tree::Kind::File, mode: 0o644 });
        spec.entries.push(tree::Entry { path: b"l0".to_vec(), kind: tree::Kind::Link(b"t".to_vec()), mode: 0o777 });
        for i in 1..n {
            spec.entries.push(tree::Entry {
                path: format!("l{i}").into_bytes(),
                kind: tree::Kind::Link(format!("l{}", i - 1).into_bytes()),
                mode: 0o777,
            });
        }
        let top = format!("l{}", n - 1);
        out.push((spec.clone(), Op::Resolve { path: format!("{top}/f").into_bytes(), nofollow: false }));
        out.push((spec.clone(), Op::Resolve { path: top.clone().into_bytes(), nofollow: true }));
        out.push((spec.clone(), Op::OpenSubpath { path: format!("{top}/f").into_bytes(), flags: libc::O_RDONLY }));
        if with_mkdir {
            out.push((spec.clone(), Op::MkdirAll { path: format!("{top}/new/dir").into_bytes(), mode: 0o755 }));
            out.push((spec.clone(), Op::RemoveFile { path: format!("{top}/f").into_bytes() }));
        }
    }
    // 8 components x 5 links = 40 traversals (a0 -> a1 -> a2 -> a3 -> a4 -> ".")
    let mut spec = TreeSpec::default();
    spec.entries.push(tree::Entry { path: b"t".to_vec(), kind: tree::Kind::Dir, mode: 0o755 });
    spec.entries.push(tree::Entry { path: b"t/f".to_vec(), kind: tree::Kind::File, mode: 0o644 });
    spec.entries.push(tree::Entry { path: b"a4".to_vec(), kind: tree::Kind::Link(b".".to_vec()), mode: 0o777 });
    for i in (0..4).rev() {
        spec.entries.push(tree::Entry {
            path: format!("a{i}").into_bytes(),
            kind: tree::Kind::Link(format!("a{}", i + 1).into_bytes()),
            mode: 0o777,
        });
    }
    // a link body of the maximal length (PATH_MAX - 1 = 4095 bytes) and one byte less
    for len in [4095usize, 4094] {
        let mut body = "./".repeat((len - 1) / 2);
        if body.len() + 1 < len {
            body.push('/');
        }
        body.push('f');
        assert_eq!(body.len(), len);
        let mut spec = TreeSpec::default();
        spec.entries.push(tree::Entry { path: b"f".to_vec(), kind: tree::Kind::File, mode: 0o644 });
        spec.entries.push(tree::Entry { path: b"max".to_vec(), kind: tree::Kind::Link(body.into_bytes()), mode: 0o777 });
        out.push((spec.clone(), Op::Readlink { path: b"max".to_vec() }));
        out.push((spec.clone(), Op::Resolve { path: b"max".to_vec(), nofollow: false }));
        out.push((spec, Op::OpenSubpath { path: b"max".to_vec(), flags: libc::O_RDONLY }));
    }
    let p40 = format!("{}t/f", "a0/".repeat(8));
    out.push((spec.clone(), Op::Resolve { path: p40.clone().into_bytes(), nofollow: false }));
    out.push((spec.clone(), Op::Readlink { path: format!("{}a0", "a0/".repeat(7)).into_bytes() }));
    if with_mkdir {
        out.push((spec, Op::MkdirAll { path: format!("{}t/new", "a0/".repeat(8)).into_bytes(), mode: 0o700 }));
    }
    out
}

fn suite_root(ctx: &mut Ctx, seed: u64, n: usize, class: gen::OpClass) {
    let mut rng = Rng::new(seed);
    if matches!(class, gen::OpClass::All | gen::OpClass::Lookups) {
        let backends: &[bool] = if ctx.no_openat2 { &[true] } else { &[false, true] };
        for (j, (spec, op)) in ladder_cases(matches!(class, gen::OpClass::All), matches!(class, gen::OpClass::Lookups)).into_iter().enumerate() {
            for &emu in backends {
                let id = format!("L{j}{}", if emu { "e" } else { "k" });
                run_root_case(ctx, &id, 0, &spec, &op, emu, ResolverFlags::empty());
            }
        }
    }
    for i in 0..n {
        let mut crng = rng.fork();
        let case_seed = crng.0;
        let spec = TreeSpec::generate(&mut crng, 14);
        let op = gen::gen_op_in(&mut crng, &spec, class);
        let rflags = if crng.chance(1, 5) {
            ResolverFlags::NO_SYMLINKS
        } else {
            ResolverFlags::empty()
        };
        let backends: &[bool] = if ctx.no_openat2 { &[true] } else { &[false, true] };
        for &emu in backends {
            let id = format!("{i}{}", if emu { "e" } else { "k" });
            run_root_case(ctx, &id, case_seed, &spec, &op, emu, rflags);
        }
    }
}

fn probe(ctx: &mut Ctx) {
    let mut spec = TreeSpec::default();
    for (p, k) in [
        (&b"a"[..], tree::Kind::Dir),
        (b"a/b", tree::Kind::Dir),
        (b"a/b/f", tree::Kind::File),
        (b"l", tree::Kind::Link(b"a/b".to_vec())),
    ] {
        spec.entries.push(tree::Entry {
            path: p.to_vec(),
            kind: k,
            mode: 0o755,
        });
    }
    let op = Op::Resolve {
        path: b"a/b/../../l/f".to_vec(),
        nofollow: false,
    };
    run_root_case(ctx, "probe-e", 0, &spec, &op, true, ResolverFlags::empty());
    if !ctx.no_openat2 {
        run_root_case(ctx, "probe-k", 0, &spec, &op, false, ResolverFlags::empty());
    }
    let op = Op::RemoveAll { path: b"a".to_vec() };
    run_root_case(ctx, "probe-rm", 0, &spec, &op, true, ResolverFlags::empty());
    let op = Op::MkdirAll { path: b"l/x/y".to_vec(), mode: 0o755 };
    run_root_case(ctx, "probe-mk", 0, &spec, &op, true, ResolverFlags::empty());
    let op = Op::Resolve { path: b"nonexist/x".to_vec(), nofollow: false };
    run_root_case(ctx, "probe-err", 0, &spec, &op, true, ResolverFlags::empty());
}

fn main() {
    let args: Vec<String> = std::env::args().collect();
    let cmd = args.get(1).cloned().unwrap_or_default();
    let seed: u64 = arg_val(&args, "--seed").and_then(|s| s.parse().ok()).unwrap_or(1);
    let n: usize = arg_val(&args, "--n").and_then(|s| s.parse().ok()).unwrap_or(100);
    let no_openat2 = args.iter().any(|a| a == "--no-openat2");
    let out: Box<dyn Write> = match arg_val(&args, "--out") {
        Some(p) => Box::new(std::io::BufWriter::new(
            fs::File::create(p).expect("create output file"),
        )),
        None => Box::new(std::io::stdout()),
    };
    let work = PathBuf::from(
        arg_val(&args, "--work").unwrap_or_else(|| format!("/verif/.cache/work/{}", std::process::id())),
    );
    fs::create_dir_all(&work).expect("create work dir");
    if no_openat2 {
        verif::FORCE_OPENAT2_ENOSYS.store(true, Ordering::SeqCst);
    }
    let mut ctx = Ctx {
        work: work.clone(),
        out,
        no_openat2,
        unpriv: args.iter().any(|a| a == "--unpriv"),
    };
    PSL_AT_START.store(protected_symlinks(), Ordering::SeqCst);
    if args.iter().any(|a| a == "--fd0-free") {
        FD0_FREE.store(true, Ordering::SeqCst);
    }
    if cmd == "fd-init" {
        // no warm-up: what does the *first* use of the library leave open in a fresh process?
        attack::suite_fd_init(&work, &mut ctx.out, no_openat2);
        ctx.out.flush().unwrap();
        drop(ctx);
        let _ = fs::remove_dir_all(&work);
        return;
    }
    if cmd == "fault-init" {
        // no warm-up: the subject is the first use of the library in a fresh process
        attack::suite_fault_init(&work, &mut ctx.out, no_openat2);
        ctx.out.flush().unwrap();
        drop(ctx);
        let _ = fs::remove_dir_all(&work);
        return;
    }
    let cold = cmd == "c15" && args.iter().any(|a| a == "--cold");
    if !cold {
        warm_up(&work);
    }
    match cmd.as_str() {
        "probe" => probe(&mut ctx),
        "c15" => c15::suite(&mut ctx, cold),
        "reopen" => procsuite::suite_reopen(&mut ctx, seed, args.iter().any(|a| a == "--thorough")),
        "proc-new" => procsuite::suite_new(&mut ctx),
        "proc-live" => procsuite::suite_live(&mut ctx, seed, n),
        "proc-overmount" => {
            let masks: Vec<u32> = arg_val(&args, "--masks")
                .map(|s| s.split(',').filter_map(|m| m.parse().ok()).collect())
                .unwrap_or_else(|| vec![0, 0xfff]);
            procsuite::suite_overmount(&mut ctx, &masks, args.iter().any(|a| a == "--faults"))
        }
        "proc-racemount" => procsuite::suite_racemount(&mut ctx),
        "reopen-overmount" => procsuite::suite_reopen_overmount(&mut ctx),
        "proc-matrix" => {
            let label = arg_val(&args, "--label").unwrap_or_else(|| "default".into());
            procsuite::suite_c08(&mut ctx, &label)
        }
        "capi-args" => capisuite::suite_capi_args(&mut ctx, args.iter().any(|a| a == "--thorough")),
        "errtable" => {
            let threads: usize = arg_val(&args, "--threads").and_then(|s| s.parse().ok()).unwrap_or(8);
            capisuite::suite_errtable(&mut ctx, seed, n, threads)
        }
        "handle-probe" => {
            // close-on-exec status of the base descriptor of every handle constructor
            for kind in procsuite::HKind::ALL {
                match kind.make() {
                    Ok(Some(h)) => {
                        let (fd, _, sub, _) = verif::procfs_describe(&h);
                        println!("{} {} subset={}", kind.name(), procsuite::describe(fd), sub as u8);
                    }
                    Ok(None) => {
                        let (fd, _, sub, _) = verif::procfs_describe(verif::global_procfs());
                        println!("{} {} subset={}", kind.name(), procsuite::describe(fd), sub as u8);
                    }
                    Err(e) => println!("{} error {e}", kind.name()),
                }
            }
        }
        "capi-probe" => {
            let r = unsafe { capi::pathrs_inroot_resolve(-1, b"a\0".as_ptr() as *const _) };
            let e = unsafe { capi::pathrs_errorinfo(r) };
            let (errno, desc) = unsafe {
                ((*e).saved_errno, std::ffi::CStr::from_ptr((*e).description).to_string_lossy().to_string())
            };
            println!("ret={r} errno={errno} desc={desc}");
            let e2 = unsafe { capi::pathrs_errorinfo(r) };
            println!("second={:?}", e2.is_null());
            unsafe { capi::pathrs_errorinfo_free(e) };
        }
        "attack" => {
            let per: usize = arg_val(&args, "--per-case").and_then(|s| s.parse().ok()).unwrap_or(300);
            attack::suite_attack(&mut ctx, seed, n, per)
        }
        "attack-mut" => {
            let per: usize = arg_val(&args, "--per-case").and_then(|s| s.parse().ok()).unwrap_or(200);
            attack::suite_attack_mut(&mut ctx, seed, n, per)
        }
        "reopen-unshared" => attack::suite_reopen_unshared(&mut ctx),
        "lookup-unshared" => attack::suite_lookup_unshared(&mut ctx),
        "reopen-fault" => procsuite::suite_reopen_fault(&mut ctx, seed),
        "race" => {
            let op = arg_val(&args, "--op").unwrap_or_else(|| "mkdir_all".into());
            attack::suite_race(&mut ctx, seed, n, &op)
        }
        "fault" => {
            let per: usize = arg_val(&args, "--per-case").and_then(|s| s.parse().ok()).unwrap_or(300);
            let only: Option<usize> = arg_val(&args, "--only-case").and_then(|s| s.parse().ok());
            attack::suite_fault(&mut ctx, seed, n, per, only, args.iter().any(|a| a == "--aftermath-each"))
        }
        "root" => {
            let class = arg_val(&args, "--ops")
                .and_then(|s| gen::OpClass::parse(&s))
                .unwrap_or(gen::OpClass::All);
            suite_root(&mut ctx, seed, n, class)
        }
        other => {
            eprintln!("unknown command {other:?}");
            std::process::exit(2);
        }
    }
    ctx.out.flush().unwrap();
    drop(ctx);
    let _ = fs::remove_dir_all(&work);
    let _ = OsStr::from_bytes(b"");
}
