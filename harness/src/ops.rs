//! Root operations: description, execution against the real library with
//! recording, canonical results.
use crate::{
    fmt::hex,
    tree::Labels,
};
use pathrs::{
    error::{Error, ErrorKind},
    flags::{OpenFlags, RenameFlags, ResolverFlags},
    verif::{self, Call, Interposer, Resp},
    InodeType, Root,
};
use std::{
    ffi::{CString, OsStr},
    fs::Permissions,
    os::unix::{
        ffi::OsStrExt,
        fs::PermissionsExt,
        io::{AsFd, AsRawFd, BorrowedFd, FromRawFd, OwnedFd, RawFd},
    },
    panic::{catch_unwind, AssertUnwindSafe},
    path::Path,
};

#[derive(Clone, Debug)]
pub enum Op {
    Resolve { path: Vec<u8>, nofollow: bool },
    OpenSubpath { path: Vec<u8>, flags: i32 },
    Readlink { path: Vec<u8> },
    Mkdir { path: Vec<u8>, mode: u32 },
    /// `ptype`: file-type bits left in the `Permissions` value handed to the library (as `Metadata::permissions()` of
    /// another node carries them); the library must ignore them
    Mknod { path: Vec<u8>, mode: u32, dev: u64, ptype: u32 },
    Symlink { path: Vec<u8>, target: Vec<u8> },
    Hardlink { path: Vec<u8>, target: Vec<u8> },
    CreateFile { path: Vec<u8>, flags: i32, mode: u32 },
    MkdirAll { path: Vec<u8>, mode: u32 },
    RemoveFile { path: Vec<u8> },
    RemoveDir { path: Vec<u8> },
    RemoveAll { path: Vec<u8> },
    Rename { src: Vec<u8>, dst: Vec<u8>, flags: u32 },
    Reopen { path: Vec<u8>, nofollow: bool, flags: i32 },
}

impl Op {
    pub fn line(&self) -> String {
        match self {
            Op::Resolve { path, nofollow } => format!("op resolve {} {}", *nofollow as u8, hex(path)),
            Op::OpenSubpath { path, flags } => format!("op open_subpath {} {}", flags, hex(path)),
            Op::Readlink { path } => format!("op readlink {}", hex(path)),
            Op::Mkdir { path, mode } => format!("op mkdir {} {}", mode, hex(path)),
            Op::Mknod { path, mode, dev, ptype } => {
                if *ptype == 0 {
                    format!("op mknod {} {} {}", mode, dev, hex(path))
                } else {
                    format!("op mknod {} {} {} {}", mode, dev, hex(path), ptype)
                }
            }
            Op::Symlink { path, target } => format!("op symlink {} {}", hex(path), hex(target)),
            Op::Hardlink { path, target } => format!("op hardlink {} {}", hex(path), hex(target)),
            Op::CreateFile { path, flags, mode } => {
                format!("op create_file {} {} {}", flags, mode, hex(path))
            }
            Op::MkdirAll { path, mode } => format!("op mkdir_all {} {}", mode, hex(path)),
            Op::RemoveFile { path } => format!("op remove_file {}", hex(path)),
            Op::RemoveDir { path } => format!("op remove_dir {}", hex(path)),
            Op::RemoveAll { path } => format!("op remove_all {}", hex(path)),
            Op::Rename { src, dst, flags } => format!("op rename {} {} {}", flags, hex(src), hex(dst)),
            Op::Reopen { path, nofollow, flags } => {
                format!("op reopen {} {} {}", *nofollow as u8, flags, hex(path))
            }
        }
    }

    pub fn is_mutating(&self) -> bool {
        !matches!(
            self,
            Op::Resolve { .. } | Op::Readlink { .. } | Op::Reopen { .. }
        ) && !matches!(self, Op::OpenSubpath { flags, .. } if flags & libc::O_TRUNC == 0)
    }
}

pub fn p(b: &[u8]) -> &Path {
    Path::new(OsStr::from_bytes(b))
}

#[derive(Debug)]
pub enum Outcome {
    Fd(OwnedFd),
    Bytes(Vec<u8>),
    Unit,
    Err(ErrorKind),
    Panic(String),
}

pub fn kind_str(k: &ErrorKind) -> String {
    match k {
        ErrorKind::NotImplemented => "NotImplemented none".into(),
        ErrorKind::NotSupported => "NotSupported none".into(),
        ErrorKind::InvalidArgument => "InvalidArgument none".into(),
        ErrorKind::SafetyViolation => "SafetyViolation none".into(),
        ErrorKind::InternalError => "InternalError none".into(),
        ErrorKind::OsError(Some(e)) => format!("OsError {e}"),
        ErrorKind::OsError(None) => "OsError none".into(),
        _ => "Unknown none".into(),
    }
}

fn fstat(fd: RawFd) -> Option<libc::stat> {
    let mut st: libc::stat = unsafe { std::mem::zeroed() };
    let r = unsafe { libc::fstat(fd, &mut st) };
    if r == 0 {
        Some(st)
    } else {
        None
    }
}

pub fn describe_fd(fd: RawFd, labels: &Labels) -> String {
    let st = fstat(fd);
    let (label, kind) = match st {
        Some(st) => (
            labels
                .label(st.st_dev, st.st_ino)
                .map(|l| l.to_string())
                .unwrap_or_else(|| format!("?{}:{}", st.st_dev, st.st_ino)),
            match st.st_mode & libc::S_IFMT {
                libc::S_IFDIR => 'd',
                libc::S_IFREG => 'f',
                libc::S_IFLNK => 'l',
                libc::S_IFIFO => 'p',
                libc::S_IFSOCK => 's',
                libc::S_IFCHR => 'c',
                libc::S_IFBLK => 'b',
                _ => '?',
            },
        ),
        None => ("badfd".into(), '?'),
    };
    let fl = unsafe { libc::syscall(libc::SYS_fcntl, fd, libc::F_GETFL) };
    let fdfl = unsafe { libc::syscall(libc::SYS_fcntl, fd, libc::F_GETFD) };
    format!("fd={fd} label={label} kind={kind} fl={fl} cloexec={}", fdfl & 1)
}

impl Outcome {
    pub fn line(&self, labels: &Labels) -> String {
        match self {
            Outcome::Fd(fd) => format!("res ok fd {}", describe_fd(fd.as_raw_fd(), labels)),
            Outcome::Bytes(b) => format!("res ok bytes {}", hex(b)),
            Outcome::Unit => "res ok unit".into(),
            Outcome::Err(k) => format!("res err {}", kind_str(k)),
            Outcome::Panic(m) => format!("res panic {}", hex(m.as_bytes())),
        }
    }
}

fn conv<T>(r: Result<T, Error>, f: impl FnOnce(T) -> Outcome) -> Outcome {
    match r {
        Ok(v) => f(v),
        Err(e) => Outcome::Err(e.kind()),
    }
}

/// Run one operation on the real library (no recording control here).
pub fn exec(root: &Root, op: &Op) -> Outcome {
    let perm = |m: u32| Permissions::from_mode(m);
    match op {
        Op::Resolve { path, nofollow } => conv(
            if *nofollow {
                root.resolve_nofollow(p(path))
            } else {
                root.resolve(p(path))
            },
            |h| Outcome::Fd(h.into()),
        ),
        Op::OpenSubpath { path, flags } => conv(
            root.open_subpath(p(path), OpenFlags::from_bits_retain(*flags)),
            |f| Outcome::Fd(f.into()),
        ),
        Op::Readlink { path } => conv(root.readlink(p(path)), |b| {
            Outcome::Bytes(b.as_os_str().as_bytes().to_vec())
        }),
        Op::Mkdir { path, mode } => conv(
            root.create(p(path), &InodeType::Directory(perm(*mode))),
            |_| Outcome::Unit,
        ),
        Op::Mknod { path, mode, dev, ptype } => {
            let fmt = mode & libc::S_IFMT;
            let pm = perm((mode & !libc::S_IFMT) | ptype);
            let ty = match fmt {
                libc::S_IFREG => InodeType::File(pm),
                libc::S_IFIFO => InodeType::Fifo(pm),
                libc::S_IFCHR => InodeType::CharacterDevice(pm, *dev),
                libc::S_IFBLK => InodeType::BlockDevice(pm, *dev),
                _ => InodeType::File(pm),
            };
            conv(root.create(p(path), &ty), |_| Outcome::Unit)
        }
        Op::Symlink { path, target } => conv(
            root.create(p(path), &InodeType::Symlink(p(target).into())),
            |_| Outcome::Unit,
        ),
        Op::Hardlink { path, target } => conv(
            root.create(p(path), &InodeType::Hardlink(p(target).into())),
            |_| Outcome::Unit,
        ),
        Op::CreateFile { path, flags, mode } => conv(
            root.create_file(p(path), OpenFlags::from_bits_retain(*flags), &perm(*mode)),
            |f| Outcome::Fd(f.into()),
        ),
        Op::MkdirAll { path, mode } => conv(root.mkdir_all(p(path), &perm(*mode)), |h| {
            Outcome::Fd(h.into())
        }),
        Op::RemoveFile { path } => conv(root.remove_file(p(path)), |_| Outcome::Unit),
        Op::RemoveDir { path } => conv(root.remove_dir(p(path)), |_| Outcome::Unit),
        Op::RemoveAll { path } => conv(root.remove_all(p(path)), |_| Outcome::Unit),
        Op::Rename { src, dst, flags } => conv(
            root.rename(p(src), p(dst), RenameFlags::from_bits_retain(*flags)),
            |_| Outcome::Unit,
        ),
        Op::Reopen { .. } => unreachable!("reopen is driven by exec_reopen"),
    }
}

static STRACE_MARK: std::sync::atomic::AtomicU64 = std::sync::atomic::AtomicU64::new(0);

fn strace_mark_syscall(kind: &str, n: u64) {
    let s = CString::new(format!("VERIF-MARK-{kind}-{n}")).unwrap();
    // a system call that cannot succeed and that nothing else makes: visible to strace only
    unsafe { libc::syscall(libc::SYS_faccessat, -1i32, s.as_ptr(), 0i32) };
}

/// When `VERIF_STRACE_MARK=<file>` is set, every recorded window is bracketed by two marker
/// system calls and its transcript is appended to `<file>`, so that `tools/strace_tie.py` can
/// compare what the recorder saw with what the kernel saw (strace) for the same window.
fn strace_mark_begin() -> Option<u64> {
    std::env::var_os("VERIF_STRACE_MARK")?;
    let n = STRACE_MARK.fetch_add(1, std::sync::atomic::Ordering::SeqCst);
    strace_mark_syscall("BEGIN", n);
    Some(n)
}

fn strace_mark_end(mark: Option<u64>, log: &[(Call, Resp)]) {
    let Some(n) = mark else { return };
    strace_mark_syscall("END", n);
    if let Some(p) = std::env::var_os("VERIF_STRACE_MARK") {
        use std::io::Write;
        let mut s = format!("mark {n}\n");
        s.push_str(&crate::fmt::transcript(log));
        s.push_str("endmark\n");
        if let Ok(mut f) = std::fs::OpenOptions::new().create(true).append(true).open(p) {
            let _ = f.write_all(s.as_bytes());
        }
    }
}

/// Run `f` with the recorder installed; returns the outcome and the transcript.
pub fn recorded<T>(
    interposer: Option<Box<dyn Interposer>>,
    f: impl FnOnce() -> T,
) -> (Result<T, String>, Vec<(Call, Resp)>) {
    let mark = strace_mark_begin();
    verif::start(interposer);
    let r = catch_unwind(AssertUnwindSafe(f));
    let log = verif::finish();
    strace_mark_end(mark, &log);
    let r = r.map_err(|e| {
        if let Some(s) = e.downcast_ref::<&str>() {
            s.to_string()
        } else if let Some(s) = e.downcast_ref::<String>() {
            s.clone()
        } else {
            "non-string panic".to_string()
        }
    });
    (r, log)
}

pub const PLAIN_CALL_BUDGET: usize = 60000;

struct Budget;

impl Interposer for Budget {
    fn pre(&mut self, idx: usize, call: &pathrs::verif::Call) -> pathrs::verif::Action {
        // (calls interposed at libc symbol level sit below an `extern "C"` frame: a panic cannot unwind through it)
        if idx > PLAIN_CALL_BUDGET && !matches!(call.kind, "readlink_abs" | "close" | "dup") {
            panic!("verif: call budget of {PLAIN_CALL_BUDGET} system calls exceeded (the operation left the tree or does not terminate)");
        }
        pathrs::verif::Action::Proceed
    }
    fn post(&mut self, _idx: usize, _call: &pathrs::verif::Call, _resp: &pathrs::verif::Resp) {}
}

pub fn run_recorded(
    root: &Root,
    op: &Op,
    interposer: Option<Box<dyn Interposer>>,
) -> (Outcome, Vec<(Call, Resp)>) {
    // without an interposer of its own an operation still runs under a budget: an operation on a tree of a dozen entries
    // that makes tens of thousands of system calls has left the tree (or does not terminate)
    let interposer = interposer.or_else(|| Some(Box::new(Budget) as Box<dyn Interposer>));
    let (r, log) = recorded(interposer, || exec(root, op));
    (
        match r {
            Ok(o) => o,
            Err(m) => Outcome::Panic(m),
        },
        log,
    )
}

/// Open descriptors of the process: fd → (dev, ino, cloexec).
pub fn fd_table() -> Vec<(i32, u64, u64, bool)> {
    let mut v = Vec::new();
    if std::env::var_os("VERIF_STRACE_MARK").is_some() {
        // under strace the 2048 probes below dominate the run time; the strace tie does not use them
        return v;
    }
    for fd in 0..2048 {
        let fl = unsafe { libc::syscall(libc::SYS_fcntl, fd, libc::F_GETFD) };
        if fl >= 0 {
            let (dev, ino) = fstat(fd).map(|s| (s.st_dev, s.st_ino)).unwrap_or((0, 0));
            v.push((fd, dev, ino, fl & 1 == 1));
        }
    }
    v
}

/// Difference of two descriptor tables, ignoring `except` (the returned fd).
pub fn fd_table_diff(
    before: &[(i32, u64, u64, bool)],
    after: &[(i32, u64, u64, bool)],
    except: Option<i32>,
) -> String {
    let mut s = String::new();
    for a in after {
        if Some(a.0) == except {
            continue;
        }
        match before.iter().find(|b| b.0 == a.0) {
            None => s.push_str(&format!(" +{}", a.0)),
            Some(b) if b != a => s.push_str(&format!(" ~{}", a.0)),
            _ => {}
        }
    }
    for b in before {
        if !after.iter().any(|a| a.0 == b.0) {
            s.push_str(&format!(" -{}", b.0));
        }
    }
    if let Some(fd) = except {
        if before.iter().any(|b| b.0 == fd) {
            s.push_str(&format!(" !{}", fd));
        }
    }
    if s.is_empty() {
        "fdt same".into()
    } else {
        format!("fdt{s}")
    }
}

/// Independent kernel oracle: `openat2(root, path, flags, RESOLVE_IN_ROOT|NO_MAGICLINKS|extra)`.
pub fn kernel_openat2(root: BorrowedFd<'_>, path: &[u8], flags: u64, resolve_extra: u64) -> Result<OwnedFd, i32> {
    kernel_openat2_mode(root, path, flags, libc::RESOLVE_IN_ROOT | libc::RESOLVE_NO_MAGICLINKS | resolve_extra)
}

/// the confined lookup the procfs resolver uses (`RESOLVE_BENEATH|RESOLVE_NO_XDEV|RESOLVE_NO_MAGICLINKS`), on this tree:
/// validates `PWorld.resolveBeneath` against the live kernel
pub fn kernel_beneath_line(root: &Root, op: &Op, rflags: ResolverFlags, labels: &Labels) -> Option<String> {
    let (path, fl) = match op {
        Op::Resolve { path, nofollow } => (path, libc::O_PATH as u64 | if *nofollow { libc::O_NOFOLLOW as u64 } else { 0 }),
        Op::OpenSubpath { path, flags }
            if flags & (libc::O_TRUNC | libc::O_CREAT) == 0 && flags & libc::O_TMPFILE != libc::O_TMPFILE =>
        {
            (path, *flags as u32 as u64)
        }
        _ => return None,
    };
    let resolve = libc::RESOLVE_BENEATH | libc::RESOLVE_NO_XDEV | libc::RESOLVE_NO_MAGICLINKS | rflags.bits();
    Some(match kernel_openat2_mode(root.as_fd(), path, fl, resolve) {
        Ok(fd) => format!("kernb ok fd {}", describe_fd(fd.as_raw_fd(), labels)),
        Err(e) => format!("kernb err {e}"),
    })
}

pub fn kernel_openat2_mode(root: BorrowedFd<'_>, path: &[u8], flags: u64, resolve: u64) -> Result<OwnedFd, i32> {
    #[repr(C)]
    struct How {
        flags: u64,
        mode: u64,
        resolve: u64,
    }
    let how = How {
        flags: flags | libc::O_CLOEXEC as u64,
        mode: 0,
        resolve,
    };
    let c = match CString::new(path) {
        Ok(c) => c,
        Err(_) => return Err(libc::EINVAL),
    };
    // RESOLVE_IN_ROOT answers EAGAIN when any rename or mount happened on the machine during the
    // walk (a global sequence count): that is not an answer about this tree, ask again
    for _ in 0..10000 {
        let r = unsafe {
            libc::syscall(
                libc::SYS_openat2,
                root.as_raw_fd(),
                c.as_ptr(),
                &how as *const How,
                std::mem::size_of::<How>(),
            )
        };
        if r >= 0 {
            return Ok(unsafe { OwnedFd::from_raw_fd(r as i32) });
        }
        let e = std::io::Error::last_os_error().raw_os_error().unwrap_or(0);
        if e != libc::EAGAIN {
            return Err(e);
        }
    }
    Err(libc::EAGAIN)
}

pub fn kernel_line(root: &Root, op: &Op, rflags: ResolverFlags, labels: &Labels) -> Option<String> {
    let rf = rflags.bits();
    let rootfd = root.as_fd();
    match op {
        Op::Resolve { path, nofollow } => {
            let fl = libc::O_PATH as u64 | if *nofollow { libc::O_NOFOLLOW as u64 } else { 0 };
            Some(match kernel_openat2(rootfd, path, fl, rf) {
                Ok(fd) => format!("kern ok fd {}", describe_fd(fd.as_raw_fd(), labels)),
                Err(e) => format!("kern err {e}"),
            })
        }
        Op::OpenSubpath { path, flags }
            if flags & (libc::O_TRUNC | libc::O_CREAT) == 0 && flags & libc::O_TMPFILE != libc::O_TMPFILE =>
        {
            // the one-shot open is openat2 with the same flags (no side effect without O_TRUNC/O_CREAT)
            Some(match kernel_openat2(rootfd, path, *flags as u32 as u64, rf) {
                Ok(fd) => format!("kern ok fd {}", describe_fd(fd.as_raw_fd(), labels)),
                Err(e) => format!("kern err {e}"),
            })
        }
        Op::Readlink { path } => {
            let fl = (libc::O_PATH | libc::O_NOFOLLOW) as u64;
            Some(match kernel_openat2(rootfd, path, fl, rf) {
                Ok(fd) => {
                    let mut buf = vec![0u8; 8192];
                    let r = unsafe {
                        libc::syscall(
                            libc::SYS_readlinkat,
                            fd.as_raw_fd(),
                            b"\0".as_ptr(),
                            buf.as_mut_ptr(),
                            buf.len(),
                        )
                    };
                    if r >= 0 {
                        format!("kern ok bytes {}", hex(&buf[..r as usize]))
                    } else {
                        format!(
                            "kern err {}",
                            std::io::Error::last_os_error().raw_os_error().unwrap_or(0)
                        )
                    }
                }
                Err(e) => format!("kern err {e}"),
            })
        }
        _ => None,
    }
}
