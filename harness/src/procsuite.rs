//! procfs suites: lookups on live /proc (C07), over-mount layouts (C06),
//! privilege / hidepid matrix (C08), reopen histories (C09).
use crate::{fmt, fmt::hex, ops, rng::Rng, Ctx};
use pathrs::{
    error::Error,
    flags::OpenFlags,
    procfs::{ProcfsBase, ProcfsHandle},
    verif,
};
use std::{
    ffi::CString,
    fs,
    io::Write,
    os::unix::{
        ffi::OsStrExt,
        io::{AsRawFd, FromRawFd, OwnedFd, RawFd},
    },
    path::Path,
};

#[derive(Clone, Copy, Debug, PartialEq, Eq)]
pub enum HKind {
    Global,
    FsopenSubset,
    FsopenFull,
    OpenTree,
    OpenTreeRecursive,
    UnsafeOpen,
    UserFd,
}

impl HKind {
    pub const ALL: [HKind; 7] = [
        HKind::Global,
        HKind::FsopenSubset,
        HKind::FsopenFull,
        HKind::OpenTree,
        HKind::OpenTreeRecursive,
        HKind::UnsafeOpen,
        HKind::UserFd,
    ];
    pub fn name(self) -> &'static str {
        match self {
            HKind::Global => "global",
            HKind::FsopenSubset => "fsopen_subset",
            HKind::FsopenFull => "fsopen_full",
            HKind::OpenTree => "open_tree",
            HKind::OpenTreeRecursive => "open_tree_recursive",
            HKind::UnsafeOpen => "unsafe_open",
            HKind::UserFd => "user_fd",
        }
    }
    /// does a handle of this kind see mounts placed over the host's /proc?
    pub fn sees_host_mounts(self) -> bool {
        matches!(self, HKind::OpenTreeRecursive | HKind::UnsafeOpen | HKind::UserFd)
    }
    pub fn make(self) -> Result<Option<ProcfsHandle>, String> {
        let e = |e: Error| format!("{:?}", e.kind());
        Ok(Some(match self {
            HKind::Global => return Ok(None),
            HKind::FsopenSubset => verif::procfs_new_fsopen(true).map_err(e)?,
            HKind::FsopenFull => verif::procfs_new_fsopen(false).map_err(e)?,
            HKind::OpenTree => verif::procfs_new_open_tree(false).map_err(e)?,
            HKind::OpenTreeRecursive => verif::procfs_new_open_tree(true).map_err(e)?,
            HKind::UnsafeOpen => verif::procfs_new_unsafe_open().map_err(e)?,
            HKind::UserFd => ProcfsHandle::try_from_fd(fs::File::open("/proc").map_err(|x| x.to_string())?)
                .map_err(e)?,
        }))
    }
}

#[derive(Clone, Copy, Debug, PartialEq, Eq)]
pub enum Api {
    Open,
    OpenFollow,
    Readlink,
}

impl Api {
    pub fn name(self) -> &'static str {
        match self {
            Api::Open => "open",
            Api::OpenFollow => "open_follow",
            Api::Readlink => "readlink",
        }
    }
}

fn base_name(b: ProcfsBase) -> &'static str {
    match b {
        ProcfsBase::ProcRoot => "root",
        ProcfsBase::ProcSelf => "self",
        ProcfsBase::ProcThreadSelf => "thread_self",
        _ => "?",
    }
}

fn statx_mnt(fd: RawFd) -> Option<u64> {
    let mut stx: libc::statx = unsafe { std::mem::zeroed() };
    let r = unsafe {
        libc::statx(
            fd,
            b"\0".as_ptr() as *const _,
            libc::AT_EMPTY_PATH | libc::AT_SYMLINK_NOFOLLOW,
            0x1000 | 0x4000,
            &mut stx,
        )
    };
    if r == 0 && stx.stx_mask & (0x1000 | 0x4000) != 0 {
        Some(stx.stx_mnt_id)
    } else {
        None
    }
}

fn fstype(fd: RawFd) -> i64 {
    let mut st: libc::statfs = unsafe { std::mem::zeroed() };
    if unsafe { libc::fstatfs(fd, &mut st) } == 0 {
        st.f_type as i64
    } else {
        -1
    }
}

/// identity of a descriptor: device, inode, kind, mount id, fs type, flags
pub fn describe(fd: RawFd) -> String {
    let mut st: libc::stat = unsafe { std::mem::zeroed() };
    let ok = unsafe { libc::fstat(fd, &mut st) } == 0;
    let kind = if !ok {
        '?'
    } else {
        match st.st_mode & libc::S_IFMT {
            libc::S_IFDIR => 'd',
            libc::S_IFREG => 'f',
            libc::S_IFLNK => 'l',
            libc::S_IFIFO => 'p',
            libc::S_IFSOCK => 's',
            libc::S_IFCHR => 'c',
            libc::S_IFBLK => 'b',
            _ => '?',
        }
    };
    let fl = unsafe { libc::syscall(libc::SYS_fcntl, fd, libc::F_GETFL) };
    let fdfl = unsafe { libc::syscall(libc::SYS_fcntl, fd, libc::F_GETFD) };
    // where the kernel says the descriptor points (numeric pid: /proc/self may be over-mounted)
    let path = std::fs::read_link(format!("/proc/{}/fd/{fd}", std::process::id()))
        .map(|p| crate::fmt::hex(p.as_os_str().as_encoded_bytes()))
        .unwrap_or_else(|_| "x".into());
    format!(
        "fd={fd} dev={} ino={} kind={kind} mnt={} fstype={} fl={fl} cloexec={} path={path}",
        st.st_dev,
        st.st_ino,
        statx_mnt(fd).map(|m| m.to_string()).unwrap_or_else(|| "none".into()),
        fstype(fd),
        fdfl & 1
    )
}

pub struct PCase<'a> {
    pub id: String,
    pub suite: &'a str,
    pub kind: HKind,
    pub emulated: bool,
    pub api: Api,
    pub base: ProcfsBase,
    pub subpath: Vec<u8>,
    pub flags: i32,
    pub meta: String,
}

/// Run one procfs API call on `handle` with recording and write the case.
pub fn run_pcase(ctx: &mut Ctx, handle: &ProcfsHandle, c: &PCase<'_>) {
    run_pcase_f(ctx, handle, c, None);
}

/// ... optionally with the `k`-th system call failing with `errno`; returns the kinds of the calls made.
pub fn run_pcase_f(ctx: &mut Ctx, handle: &ProcfsHandle, c: &PCase<'_>, fault: Option<(usize, i32)>) -> Vec<&'static str> {
    let extra = match fault {
        Some((k, e)) => format!("fault single at={k} errno={e}\n"),
        None => String::new(),
    };
    let ip: Option<Box<dyn pathrs::verif::Interposer>> = fault.map(|(k, e)| {
        Box::new(crate::attack::Faulter(crate::attack::Fault::Single(k, e), 0)) as Box<dyn pathrs::verif::Interposer>
    });
    run_pcase_x(ctx, handle, c, &extra, ip, &mut || String::new())
}

/// the core: extra header lines, an optional interposer, and lines to add after the call (`post`)
pub fn run_pcase_x(
    ctx: &mut Ctx,
    handle: &ProcfsHandle,
    c: &PCase<'_>,
    extra: &str,
    ip: Option<Box<dyn pathrs::verif::Interposer>>,
    post: &mut dyn FnMut() -> String,
) -> Vec<&'static str> {
    let (hfd, hmnt, hsub, hemu) = verif::procfs_describe(handle);
    let (pfd, pmnt, psub, pemu) = verif::procfs_describe(verif::global_procfs());
    let mut s = String::new();
    s.push_str(&format!(
        "case {}\nmeta suite={} handle={} {}\n",
        c.id,
        c.suite,
        c.kind.name(),
        c.meta
    ));
    s.push_str(&format!(
        "op proc_{} {} {} {}\n",
        c.api.name(),
        base_name(c.base),
        c.flags,
        hex(&c.subpath)
    ));
    s.push_str(&format!(
        "cfg backend=p rflags=0 rootfd={hfd} hmnt={} hsubset={} hemu={} procfd={pfd} procmnt={} subset={} procemu={} openat2={} psl={}\n",
        hmnt.map(|m| m.to_string()).unwrap_or_else(|| "none".into()),
        hsub as u8,
        hemu as u8,
        pmnt.map(|m| m.to_string()).unwrap_or_else(|| "none".into()),
        psub as u8,
        pemu as u8,
        verif::openat2_is_supported() as u8,
        crate::PSL_AT_START.load(std::sync::atomic::Ordering::SeqCst),
    ));
    let path = ops::p(&c.subpath);
    let flags = OpenFlags::from_bits_retain(c.flags);
    s.push_str(extra);
    let before = ops::fd_table();
    let (r, log) = ops::recorded(ip, || match c.api {
        Api::Open => handle.open(c.base, path, flags).map(|f| ops::Outcome::Fd(f.into())),
        Api::OpenFollow => handle
            .open_follow(c.base, path, flags)
            .map(|f| ops::Outcome::Fd(f.into())),
        Api::Readlink => handle
            .readlink(c.base, path)
            .map(|b| ops::Outcome::Bytes(b.as_os_str().as_bytes().to_vec())),
    });
    let after = ops::fd_table();
    s.push_str(&fmt::transcript(&log));
    let outcome = match r {
        Ok(Ok(o)) => o,
        Ok(Err(e)) => ops::Outcome::Err(e.kind()),
        Err(m) => ops::Outcome::Panic(m),
    };
    let ex = match &outcome {
        ops::Outcome::Fd(fd) => {
            s.push_str(&format!("res ok fd {}\n", describe(fd.as_raw_fd())));
            Some(fd.as_raw_fd())
        }
        other => {
            s.push_str(&other.line(&Default::default()));
            s.push('\n');
            None
        }
    };
    s.push_str(&ops::fd_table_diff(&before, &after, ex));
    s.push('\n');
    s.push_str(&post());
    s.push_str("end\n");
    ctx.out.write_all(s.as_bytes()).unwrap();
    log.iter().map(|(c, _)| c.kind).collect()
}

fn listing(dir: &str) -> Vec<Vec<u8>> {
    let mut v: Vec<Vec<u8>> = fs::read_dir(dir)
        .map(|rd| {
            rd.filter_map(|e| e.ok())
                .map(|e| e.file_name().as_bytes().to_vec())
                .collect()
        })
        .unwrap_or_default();
    v.sort();
    v
}

/// Sub-paths built from the live contents of /proc, /proc/self, /proc/thread-self.
pub fn live_paths(rng: &mut Rng, n: usize) -> Vec<(ProcfsBase, Vec<u8>)> {
    let root: Vec<Vec<u8>> = listing("/proc")
        .into_iter()
        .filter(|e| !e.iter().all(|c| c.is_ascii_digit()))
        .collect();
    let selfd = listing("/proc/self");
    let tself = listing("/proc/thread-self");
    let fds = listing("/proc/self/fd");
    let nss = listing("/proc/self/ns");
    let mut out: Vec<(ProcfsBase, Vec<u8>)> = Vec::new();
    let fixed: Vec<(ProcfsBase, &[u8])> = vec![
        (ProcfsBase::ProcRoot, b"."),
        (ProcfsBase::ProcRoot, b""),
        (ProcfsBase::ProcRoot, b"self"),
        (ProcfsBase::ProcRoot, b"thread-self"),
        (ProcfsBase::ProcRoot, b"self/"),
        (ProcfsBase::ProcRoot, b"self/.."),
        (ProcfsBase::ProcRoot, b"self/../self"),
        (ProcfsBase::ProcRoot, b".."),
        (ProcfsBase::ProcRoot, b"mounts"),
        (ProcfsBase::ProcRoot, b"net"),
        (ProcfsBase::ProcRoot, b"net/dev"),
        (ProcfsBase::ProcRoot, b"sys/kernel/ostype"),
        (ProcfsBase::ProcRoot, b"sys/fs/protected_symlinks"),
        (ProcfsBase::ProcRoot, b"nonexistent"),
        (ProcfsBase::ProcRoot, b"nonexistent/x"),
        (ProcfsBase::ProcRoot, b"1/status"),
        (ProcfsBase::ProcRoot, b"uptime/"),
        (ProcfsBase::ProcSelf, b"."),
        (ProcfsBase::ProcSelf, b""),
        (ProcfsBase::ProcSelf, b"exe"),
        (ProcfsBase::ProcSelf, b"exe/"),
        (ProcfsBase::ProcSelf, b"cwd"),
        (ProcfsBase::ProcSelf, b"cwd/"),
        (ProcfsBase::ProcSelf, b"cwd/.."),
        (ProcfsBase::ProcSelf, b"root"),
        (ProcfsBase::ProcSelf, b"root/etc"),
        (ProcfsBase::ProcSelf, b"root/etc/passwd"),
        (ProcfsBase::ProcSelf, b"fd"),
        (ProcfsBase::ProcSelf, b"fd/"),
        (ProcfsBase::ProcSelf, b"fd/.."),
        (ProcfsBase::ProcSelf, b"fd/../status"),
        (ProcfsBase::ProcSelf, b"ns/mnt"),
        (ProcfsBase::ProcSelf, b"ns/mnt/"),
        (ProcfsBase::ProcSelf, b"status"),
        (ProcfsBase::ProcSelf, b"status/"),
        (ProcfsBase::ProcSelf, b"./status"),
        (ProcfsBase::ProcSelf, b"//status"),
        (ProcfsBase::ProcSelf, b"task"),
        (ProcfsBase::ProcSelf, b"attr/current"),
        (ProcfsBase::ProcSelf, b"environ"),
        (ProcfsBase::ProcSelf, b"nonexistent"),
        (ProcfsBase::ProcThreadSelf, b"."),
        (ProcfsBase::ProcThreadSelf, b"status"),
        (ProcfsBase::ProcThreadSelf, b"fd"),
        (ProcfsBase::ProcThreadSelf, b"cwd"),
        (ProcfsBase::ProcThreadSelf, b"exe"),
        (ProcfsBase::ProcThreadSelf, b".."),
        (ProcfsBase::ProcThreadSelf, b"../.."),
    ];
    for (b, p) in fixed {
        out.push((b, p.to_vec()));
    }
    for fd in &fds {
        let mut p = b"fd/".to_vec();
        p.extend_from_slice(fd);
        out.push((ProcfsBase::ProcSelf, p.clone()));
        let mut q = p.clone();
        q.push(b'/');
        out.push((ProcfsBase::ProcThreadSelf, q));
        let mut r = p.clone();
        r.extend_from_slice(b"/x");
        out.push((ProcfsBase::ProcSelf, r));
    }
    for ns in &nss {
        let mut p = b"ns/".to_vec();
        p.extend_from_slice(ns);
        out.push((ProcfsBase::ProcSelf, p));
    }
    while out.len() < n {
        let (base, names) = match rng.below(3) {
            0 => (ProcfsBase::ProcRoot, &root),
            1 => (ProcfsBase::ProcSelf, &selfd),
            _ => (ProcfsBase::ProcThreadSelf, &tself),
        };
        if names.is_empty() {
            continue;
        }
        let mut p = rng.pick(names).clone();
        match rng.below(8) {
            0 => p.push(b'/'),
            1 => {
                let mut q = b"./".to_vec();
                q.extend_from_slice(&p);
                p = q
            }
            2 => p.extend_from_slice(b"/."),
            3 => p.extend_from_slice(b"/.."),
            4 => p.extend_from_slice(b"/nonexistent"),
            _ => {}
        }
        out.push((base, p));
    }
    out
}

const FLAGSETS: [i32; 15] = [
    libc::O_PATH,
    libc::O_PATH | libc::O_NOFOLLOW,
    libc::O_PATH | libc::O_DIRECTORY,
    libc::O_PATH | libc::O_DIRECTORY | libc::O_NOFOLLOW,
    libc::O_RDONLY | libc::O_NONBLOCK,
    libc::O_RDONLY | libc::O_NONBLOCK | libc::O_NOFOLLOW,
    libc::O_RDONLY | libc::O_DIRECTORY,
    libc::O_RDONLY | libc::O_DIRECTORY | libc::O_NOFOLLOW,
    libc::O_RDONLY | libc::O_CREAT,
    libc::O_TMPFILE | libc::O_RDWR,
    // the bare __O_TMPFILE bit: a trailing slash on the path adds O_DIRECTORY and completes O_TMPFILE
    0o20000000 | libc::O_RDWR,
    // creation requests spelled with O_PATH (with which the kernel itself would ignore them): refused all the same
    libc::O_PATH | libc::O_CREAT,
    libc::O_PATH | libc::O_EXCL,
    libc::O_PATH | libc::O_CREAT | libc::O_EXCL | libc::O_NOFOLLOW,
    libc::O_PATH | libc::O_RDWR | libc::O_TMPFILE,
];

/// C07: live paths × flags × APIs × both resolvers on a private full procfs handle
/// (and on the global handle).
pub fn suite_live(ctx: &mut Ctx, seed: u64, n: usize) {
    let mut rng = Rng::new(seed);
    let paths = live_paths(&mut rng, n);
    let mut id = 0;
    // fixed rows that always run: creation requests on (magic-)links spelled with a trailing slash
    let fixed_rows: Vec<(ProcfsBase, Vec<u8>, Api, i32)> = {
        let mut v = Vec::new();
        for sub in [&b"cwd/"[..], b"root/", b"exe/", b"fd/0/", b"ns/mnt/", b"cwd", b"task/", b"status", b"fd", b"exe"] {
            for fl in [
                0o20000000 | libc::O_RDWR,
                libc::O_TMPFILE | libc::O_RDWR,
                libc::O_CREAT | libc::O_WRONLY,
                libc::O_EXCL,
                libc::O_PATH | libc::O_CREAT,
                libc::O_PATH | libc::O_EXCL,
                libc::O_PATH | libc::O_TMPFILE | libc::O_RDWR,
            ] {
                for api in [Api::OpenFollow, Api::Open] {
                    v.push((ProcfsBase::ProcSelf, sub.to_vec(), api, fl));
                }
            }
        }
        v
    };
    let rows: Vec<(ProcfsBase, Vec<u8>, Option<(Api, i32)>)> = fixed_rows
        .into_iter()
        .map(|(b, s, a, f)| (b, s, Some((a, f))))
        .chain(paths.iter().map(|(b, s)| (*b, s.clone(), None)))
        .collect();
    for kind in [HKind::FsopenFull, HKind::UnsafeOpen] {
        for (base, sub, fixed) in &rows {
            let (api, flags) = match fixed {
                Some((a, f)) => (*a, *f),
                None => {
                    let api = *rng.pick(&[Api::Open, Api::Open, Api::OpenFollow, Api::Readlink]);
                    let flags = if api == Api::Readlink { libc::O_PATH } else { *rng.pick(&FLAGSETS) };
                    (api, flags)
                }
            };
            for emulated in [false, true] {
                if !verif::openat2_is_supported() && !emulated {
                    continue;
                }
                let mut h = match kind.make() {
                    Ok(Some(h)) => h,
                    _ => continue,
                };
                verif::procfs_set_emulated(&mut h, emulated);
                id += 1;
                run_pcase(
                    ctx,
                    &h,
                    &PCase {
                        id: format!("l{}{}", (id + 1) / 2, if emulated { "e" } else { "k" }),
                        suite: "proc_live",
                        kind,
                        emulated,
                        api,
                        base: *base,
                        subpath: sub.clone(),
                        flags,
                        meta: String::new(),
                    },
                );
            }
        }
    }
}

// ---------------------------------------------------------------------------
// over-mounts (C06)
// ---------------------------------------------------------------------------

fn cstr(p: &str) -> CString {
    CString::new(p).unwrap()
}

/// Enter a private mount namespace (the process must be single-threaded).
pub fn enter_mntns() -> bool {
    let r = unsafe { libc::unshare(libc::CLONE_NEWNS) };
    if r != 0 {
        return false;
    }
    let root = cstr("/");
    unsafe {
        libc::mount(
            std::ptr::null(),
            root.as_ptr(),
            std::ptr::null(),
            libc::MS_SLAVE | libc::MS_REC,
            std::ptr::null(),
        ) == 0
    }
}

fn open_nofollow(path: &str) -> Option<OwnedFd> {
    let c = cstr(path);
    let fd = unsafe { libc::open(c.as_ptr(), libc::O_PATH | libc::O_NOFOLLOW | libc::O_CLOEXEC) };
    if fd >= 0 {
        Some(unsafe { OwnedFd::from_raw_fd(fd) })
    } else {
        None
    }
}

#[derive(Clone, Debug)]
pub enum Over {
    Tmpfs,
    Bind(&'static str),
    /// a symlink with this body, bind-mounted (not followed) on top of the destination
    LinkTo(&'static str),
    /// a FIFO nobody writes to, bind-mounted on top of the destination: whoever opens it for reading blocks
    Fifo,
}

/// Mount over `dst` itself (symlinks and magic-links are not followed).
pub fn overmount(dst: &str, over: &Over) -> Result<(u64, u64), i32> {
    let d = open_nofollow(dst).ok_or(libc::ENOENT)?;
    let dpath = cstr(&format!("/proc/{}/fd/{}", std::process::id(), d.as_raw_fd()));
    let r = match over {
        Over::Tmpfs => unsafe {
            libc::mount(
                cstr("tmpfs").as_ptr(),
                dpath.as_ptr(),
                cstr("tmpfs").as_ptr(),
                0,
                std::ptr::null(),
            )
        },
        Over::LinkTo(body) => {
            static NLINK: std::sync::atomic::AtomicUsize = std::sync::atomic::AtomicUsize::new(0);
            let scratch = format!(
                "/verif/.cache/work/c06-link-{}-{}",
                std::process::id(),
                NLINK.fetch_add(1, std::sync::atomic::Ordering::SeqCst)
            );
            let _ = std::fs::create_dir_all("/verif/.cache/work");
            let _ = std::fs::remove_file(&scratch);
            std::os::unix::fs::symlink(body, &scratch).map_err(|e| e.raw_os_error().unwrap_or(0))?;
            let src = cstr(&scratch);
            // open_tree(AT_FDCWD, link, OPEN_TREE_CLONE|OPEN_TREE_CLOEXEC|AT_SYMLINK_NOFOLLOW); move_mount(tree, "", AT_FDCWD, dst, F_EMPTY_PATH)
            let tree = unsafe { libc::syscall(428, libc::AT_FDCWD, src.as_ptr(), 1u32 | libc::O_CLOEXEC as u32 | libc::AT_SYMLINK_NOFOLLOW as u32) };
            if tree < 0 {
                let _ = std::fs::remove_file(&scratch);
                return Err(std::io::Error::last_os_error().raw_os_error().unwrap_or(0));
            }
            let r = unsafe {
                libc::syscall(429, tree as i32, cstr("").as_ptr(), libc::AT_FDCWD, cstr(dst).as_ptr(), 4u32 /* MOVE_MOUNT_F_EMPTY_PATH */)
            };
            unsafe { libc::close(tree as i32) };
            r as i32 // the scratch name stays: a mounted dentry cannot be unlinked (it lives in the namespace's /tmp)
        }
        Over::Fifo => {
            static NFIFO: std::sync::atomic::AtomicUsize = std::sync::atomic::AtomicUsize::new(0);
            let scratch = format!(
                "/verif/.cache/work/c06-fifo-{}-{}",
                std::process::id(),
                NFIFO.fetch_add(1, std::sync::atomic::Ordering::SeqCst)
            );
            let _ = std::fs::create_dir_all("/verif/.cache/work");
            let _ = std::fs::remove_file(&scratch);
            if unsafe { libc::mkfifo(cstr(&scratch).as_ptr(), 0o644) } != 0 {
                return Err(std::io::Error::last_os_error().raw_os_error().unwrap_or(0));
            }
            let s = open_nofollow(&scratch).ok_or(libc::ENOENT)?;
            let spath = cstr(&format!("/proc/{}/fd/{}", std::process::id(), s.as_raw_fd()));
            unsafe { libc::mount(spath.as_ptr(), dpath.as_ptr(), std::ptr::null(), libc::MS_BIND, std::ptr::null()) }
        }
        Over::Bind(src) => {
            let s = open_nofollow(src).ok_or(libc::ENOENT)?;
            let spath = cstr(&format!("/proc/{}/fd/{}", std::process::id(), s.as_raw_fd()));
            unsafe {
                libc::mount(
                    spath.as_ptr(),
                    dpath.as_ptr(),
                    std::ptr::null(),
                    libc::MS_BIND,
                    std::ptr::null(),
                )
            }
        }
    };
    if r != 0 {
        return Err(std::io::Error::last_os_error().raw_os_error().unwrap_or(0));
    }
    // identity of what is now visible at dst
    let after = open_nofollow(dst).ok_or(libc::ENOENT)?;
    let mut st: libc::stat = unsafe { std::mem::zeroed() };
    unsafe { libc::fstat(after.as_raw_fd(), &mut st) };
    Ok((st.st_dev, st.st_ino))
}

/// (base, subpath, over-mount, is the subpath a symlink in procfs)
pub fn overmount_candidates() -> Vec<(ProcfsBase, &'static str, &'static str, Over)> {
    vec![
        (ProcfsBase::ProcRoot, "uptime", "/proc/uptime", Over::Bind("/etc/hostname")),
        (ProcfsBase::ProcRoot, "cpuinfo", "/proc/cpuinfo", Over::Bind("/proc/meminfo")),
        (ProcfsBase::ProcRoot, "fs", "/proc/fs", Over::Tmpfs),
        (ProcfsBase::ProcRoot, "mounts", "/proc/mounts", Over::Bind("/etc/hostname")),
        (ProcfsBase::ProcSelf, "fdinfo", "/proc/self/fdinfo", Over::Tmpfs),
        (ProcfsBase::ProcSelf, "mountinfo", "/proc/self/mountinfo", Over::Bind("/etc/hostname")),
        (ProcfsBase::ProcSelf, "mounts", "/proc/self/mounts", Over::Bind("/etc/hostname")),
        (ProcfsBase::ProcSelf, "attr/current", "/proc/self/attr/current", Over::Bind("/proc/self/sched")),
        (ProcfsBase::ProcSelf, "exe", "/proc/self/exe", Over::Bind("/etc/hostname")),
        (ProcfsBase::ProcSelf, "cwd", "/proc/self/cwd", Over::Bind("/etc/hostname")),
        (ProcfsBase::ProcSelf, "ns/mnt", "/proc/self/ns/mnt", Over::Bind("/proc/self/ns/uts")),
        (ProcfsBase::ProcThreadSelf, "status", "/proc/thread-self/status", Over::Bind("/etc/hostname")),
        // symlinks of procfs replaced by symlinks into another process (only used alone: masks 4096, 8192, 16384)
        (ProcfsBase::ProcRoot, "net", "/proc/net", Over::LinkTo("1")),
        (ProcfsBase::ProcRoot, "self", "/proc/self", Over::LinkTo("1")),
        (ProcfsBase::ProcRoot, "thread-self", "/proc/thread-self", Over::LinkTo("1/task/1")),
        // a FIFO over a procfs file (used alone: mask 32768): the lookups made with blocking flags must come back
        (ProcfsBase::ProcRoot, "loadavg", "/proc/loadavg", Over::Fifo),
    ]
}

/// SIGALRM every two seconds while a possibly blocking lookup runs: a blocked `open(2)` comes back with EINTR; the third
/// signal ends the process (the lookup retries for ever).
static ALARMS: std::sync::atomic::AtomicUsize = std::sync::atomic::AtomicUsize::new(0);

extern "C" fn on_alarm(_: i32) {
    if ALARMS.fetch_add(1, std::sync::atomic::Ordering::SeqCst) >= 2 {
        unsafe { libc::_exit(98) };
    }
    unsafe { libc::alarm(2) };
}

fn with_alarm<T>(f: impl FnOnce() -> T) -> T {
    unsafe {
        ALARMS.store(0, std::sync::atomic::Ordering::SeqCst);
        let mut sa: libc::sigaction = std::mem::zeroed();
        sa.sa_sigaction = on_alarm as usize;
        sa.sa_flags = 0; // no SA_RESTART
        libc::sigaction(libc::SIGALRM, &sa, std::ptr::null_mut());
        libc::alarm(2);
    }
    let r = f();
    unsafe { libc::alarm(0) };
    r
}

/// C06: in a private mount namespace, place the over-mounts selected by `mask`
/// and look every candidate up through every handle kind / resolver / API.
pub fn suite_overmount(ctx: &mut Ctx, masks: &[u32], faults: bool) {
    if !enter_mntns() {
        let _ = ctx.out.write_all(b"case om-skip\nmeta suite=proc_overmount skipped=unshare\nop skip\nres err skip\nend\n");
        return;
    }
    // the global handle is created before any over-mount exists (warm-up did that)
    let cands = overmount_candidates();
    let mut id = 0;
    for &mask in masks {
        // every layout needs a fresh namespace state: undo by lazily unmounting what we mounted
        let mut mounted: Vec<(usize, (u64, u64))> = Vec::new();
        for (i, (_, _, dst, over)) in cands.iter().enumerate() {
            if mask & (1 << i) != 0 {
                if let Ok(ident) = overmount(dst, over) {
                    mounted.push((i, ident));
                }
            }
        }
        let layout: String = mounted
            .iter()
            .map(|(i, (d, n))| format!("{}@{}:{}", cands[*i].2, d, n))
            .collect::<Vec<_>>()
            .join(",");
        for kind in HKind::ALL {
            for emulated in [false, true] {
                if !verif::openat2_is_supported() && !emulated {
                    continue;
                }
                if kind == HKind::Global && emulated {
                    continue;
                }
                let made = kind.make();
                let mut owned;
                let handle: &ProcfsHandle = match made {
                    Ok(Some(h)) => {
                        owned = h;
                        verif::procfs_set_emulated(&mut owned, emulated);
                        &owned
                    }
                    Ok(None) => verif::global_procfs(),
                    Err(_) => continue,
                };
                // look up every candidate, plus symlinks whose *target* may be over-mounted
                let extra: [(ProcfsBase, &str, &str); 9] = [
                    (ProcfsBase::ProcRoot, "mounts", "/proc/mounts"),
                    (ProcfsBase::ProcRoot, "self/mounts", "/proc/self/mounts"),
                    (ProcfsBase::ProcRoot, "thread-self/status", "/proc/thread-self/status"),
                    // lookups *through* a procfs symlink that may have been replaced
                    (ProcfsBase::ProcRoot, "net/stat", "/proc/net/stat"),
                    (ProcfsBase::ProcRoot, "net/status", "/proc/net/status"),
                    (ProcfsBase::ProcSelf, "status", "/proc/self/status"),
                    (ProcfsBase::ProcSelf, "stat", "/proc/self/stat"),
                    (ProcfsBase::ProcThreadSelf, "stat", "/proc/thread-self/stat"),
                    (ProcfsBase::ProcThreadSelf, "comm", "/proc/thread-self/comm"),
                ];
                let targets: Vec<(Option<usize>, ProcfsBase, &str, &str)> = cands
                    .iter()
                    .enumerate()
                    .map(|(i, (b, s, d, _))| (Some(i), *b, *s, *d))
                    .chain(extra.iter().map(|(b, s, d)| (None, *b, *s, *d)))
                    .collect();
                for (ci, base, sub, dst) in targets.iter() {
                    let over = ci.and_then(|i| mounted.iter().find(|(j, _)| *j == i).map(|(_, id)| *id));
                    for (api, flags) in [
                        (Api::Open, libc::O_PATH),
                        (Api::Open, libc::O_RDONLY | libc::O_NONBLOCK),
                        (Api::OpenFollow, libc::O_RDONLY | libc::O_NONBLOCK),
                        (Api::Readlink, libc::O_PATH),
                    ] {
                        id += 1;
                        let mk = |idstr: String| PCase {
                            id: idstr,
                            suite: "proc_overmount",
                            kind,
                            emulated,
                            api,
                            base: *base,
                            subpath: sub.as_bytes().to_vec(),
                            flags,
                            meta: format!(
                                "mask={mask} dst={dst} over={} visible={} layout={}",
                                over.map(|(d, n)| format!("{d}:{n}")).unwrap_or_else(|| "none".into()),
                                kind.sees_host_mounts() as u8,
                                if layout.is_empty() { "none" } else { &layout }
                            ),
                        };
                        let kinds = run_pcase_f(ctx, handle, &mk(format!("o{id}")), None);
                        // a FIFO lies on the entry: the same lookup with blocking flags, timed (a lookup that opens what is
                        // mounted there before it has looked at the mount blocks until somebody writes to the FIFO)
                        if over.is_some() && matches!(ci.map(|i| &cands[i].3), Some(Over::Fifo)) && api != Api::Readlink {
                            id += 1;
                            let mut c = mk(format!("o{id}"));
                            c.flags = flags & !libc::O_NONBLOCK;
                            let t0 = std::time::Instant::now();
                            with_alarm(|| run_pcase_x(ctx, handle, &c, "", None, &mut || format!("elapsed {}\n", t0.elapsed().as_millis())));
                        }
                        // the verification must fail closed: with an over-mount in the way, make each mount-id /
                        // fs-type probe of the call fail with the errnos that mean "cannot tell" (and one that
                        // does not) and demand that the over-mounted object is still never returned
                        if faults && over.is_some() && kind.sees_host_mounts() {
                            for (k, ck) in kinds.iter().enumerate() {
                                if *ck == "statx" || *ck == "fstatfs" {
                                    for e in [libc::ENOSYS, libc::EINVAL, libc::EACCES] {
                                        id += 1;
                                        run_pcase_f(ctx, handle, &mk(format!("o{id}")), Some((k, e)));
                                    }
                                }
                            }
                        }
                    }
                }
            }
        }
        for (i, _) in mounted.iter().rev() {
            let c = cstr(cands[*i].2);
            // the mount sits on top of dst itself
            if let Some(fd) = open_nofollow(cands[*i].2) {
                let p = cstr(&format!("/proc/{}/fd/{}", std::process::id(), fd.as_raw_fd()));
                unsafe { libc::umount2(p.as_ptr(), libc::MNT_DETACH) };
            } else {
                unsafe { libc::umount2(c.as_ptr(), libc::MNT_DETACH) };
            }
        }
        cleanup_links();
    }
    let _ = Path::new("/");
}

/// C09: the core of `reopen` (`open_follow(ProcThreadSelf, "fd/<n>", flags)`, on every kind of procfs handle) while
/// the host's /proc is over-mounted so that `fd/<n>` leads somewhere else: a file bind-mounted over the magic-link, and
/// `/proc/thread-self` / `/proc/self` replaced by symlinks into a decoy process that has another file open under the same
/// descriptor number.  A handle on a private procfs instance must not notice; a handle that sees the host's mounts may
/// fail, but never return another object.
pub fn suite_reopen_overmount(ctx: &mut Ctx) {
    if !enter_mntns() {
        let _ = ctx.out.write_all(b"case rom-skip\nmeta suite=reopen_overmount skipped=unshare\nop skip\nres err skip\nend\n");
        return;
    }
    const N: i32 = 40;
    let dir = format!("/verif/.cache/work/rom-{}", std::process::id());
    let _ = fs::remove_dir_all(&dir);
    fs::create_dir_all(&dir).expect("scratch");
    fs::write(format!("{dir}/target"), b"target").unwrap();
    fs::write(format!("{dir}/decoy"), b"decoy").unwrap();
    let decoy_path: &'static str = Box::leak(format!("{dir}/decoy").into_boxed_str());
    let t = unsafe { libc::open(cstr(&format!("{dir}/target")).as_ptr(), libc::O_PATH | libc::O_CLOEXEC) };
    assert!(t >= 0);
    assert_eq!(unsafe { libc::dup3(t, N, libc::O_CLOEXEC) }, N);
    unsafe { libc::close(t) };
    let ident = |fd: i32| {
        let mut st: libc::stat = unsafe { std::mem::zeroed() };
        unsafe { libc::fstat(fd, &mut st) };
        (st.st_dev, st.st_ino)
    };
    let want = ident(N);
    // the decoy process: same descriptor number, another file
    let mut pfd = [0i32; 2];
    unsafe { libc::pipe(pfd.as_mut_ptr()) };
    let decoy = unsafe { libc::fork() };
    if decoy == 0 {
        unsafe {
            let d = libc::open(cstr(decoy_path).as_ptr(), libc::O_RDONLY);
            libc::dup2(d, N);
            libc::close(pfd[0]);
            libc::write(pfd[1], b"x".as_ptr() as *const _, 1);
            loop {
                libc::pause();
            }
        }
    }
    unsafe { libc::close(pfd[1]) };
    let mut b = [0u8; 1];
    unsafe { libc::read(pfd[0], b.as_mut_ptr() as *mut _, 1) };
    unsafe { libc::close(pfd[0]) };
    let decoy_ident = fs::metadata(decoy_path).map(|m| { use std::os::unix::fs::MetadataExt; (m.dev(), m.ino()) }).unwrap_or((0, 0));
    let link_task: &'static str = Box::leak(format!("{decoy}/task/{decoy}").into_boxed_str());
    let link_proc: &'static str = Box::leak(format!("{decoy}").into_boxed_str());
    let fd_thread: &'static str = Box::leak(format!("/proc/thread-self/fd/{N}").into_boxed_str());
    let fd_self: &'static str = Box::leak(format!("/proc/self/fd/{N}").into_boxed_str());
    let layouts: Vec<(&str, Vec<(&'static str, Over)>)> = vec![
        ("none", vec![]),
        ("bind-on-thread-self-fd", vec![(fd_thread, Over::Bind(decoy_path))]),
        ("bind-on-self-fd", vec![(fd_self, Over::Bind(decoy_path))]),
        ("thread-self-into-decoy", vec![("/proc/thread-self", Over::LinkTo(link_task))]),
        ("self-into-decoy", vec![("/proc/self", Over::LinkTo(link_proc))]),
        ("both-into-decoy", vec![("/proc/self", Over::LinkTo(link_proc)), ("/proc/thread-self", Over::LinkTo(link_task))]),
        ("tmpfs-on-fd-dir", vec![("/proc/thread-self/fd", Over::Tmpfs)]),
    ];
    let mut id = 0;
    for (lname, mounts) in &layouts {
        let mut placed = Vec::new();
        for (dst, over) in mounts {
            if overmount(dst, over).is_ok() {
                placed.push(*dst);
            }
        }
        for kind in HKind::ALL {
            for emulated in [false, true] {
                if !verif::openat2_is_supported() && !emulated {
                    continue;
                }
                if kind == HKind::Global && emulated {
                    continue;
                }
                let made = kind.make();
                let mut owned;
                let handle: &ProcfsHandle = match made {
                    Ok(Some(h)) => {
                        owned = h;
                        verif::procfs_set_emulated(&mut owned, emulated);
                        &owned
                    }
                    Ok(None) => verif::global_procfs(),
                    Err(_) => continue,
                };
                for flags in [libc::O_PATH, libc::O_RDONLY | libc::O_NONBLOCK] {
                    id += 1;
                    run_pcase(
                        ctx,
                        handle,
                        &PCase {
                            id: format!("rom{id}"),
                            suite: "reopen_overmount",
                            kind,
                            emulated,
                            api: Api::OpenFollow,
                            base: ProcfsBase::ProcThreadSelf,
                            subpath: format!("fd/{N}").into_bytes(),
                            flags,
                            meta: format!(
                                "layout={lname} placed={} want={}:{} decoy={}:{} visible={}",
                                placed.len(),
                                want.0,
                                want.1,
                                decoy_ident.0,
                                decoy_ident.1,
                                kind.sees_host_mounts() as u8
                            ),
                        },
                    );
                }
            }
        }
        for dst in placed.iter().rev() {
            unmount_top(dst);
        }
        cleanup_links();
    }
    unsafe {
        libc::kill(decoy, libc::SIGKILL);
        let mut st = 0;
        libc::waitpid(decoy, &mut st, 0);
        libc::close(N);
    }
    let _ = fs::remove_dir_all(&dir);
}

/// remove the scratch symlinks `overmount` bind-mounted (possible once they are unmounted)
fn cleanup_links() {
    let prefix = format!("c06-link-{}-", std::process::id());
    if let Ok(rd) = std::fs::read_dir("/verif/.cache/work") {
        for e in rd.flatten() {
            if e.file_name().to_string_lossy().starts_with(&prefix) {
                let _ = std::fs::remove_file(e.path());
            }
        }
    }
}

fn unmount_top(dst: &str) {
    if let Some(fd) = open_nofollow(dst) {
        let p = cstr(&format!("/proc/{}/fd/{}", std::process::id(), fd.as_raw_fd()));
        unsafe { libc::umount2(p.as_ptr(), libc::MNT_DETACH) };
    } else {
        let c = cstr(dst);
        unsafe { libc::umount2(c.as_ptr(), libc::MNT_DETACH) };
    }
}

/// performs one over-mount immediately before the `at`-th system call of the lookup
struct Mounter {
    at: usize,
    dst: &'static str,
    over: Over,
    done: std::rc::Rc<std::cell::RefCell<Option<(u64, u64)>>>,
}

impl pathrs::verif::Interposer for Mounter {
    fn pre(&mut self, idx: usize, _call: &pathrs::verif::Call) -> pathrs::verif::Action {
        if idx == self.at && self.done.borrow().is_none() {
            if let Ok(ident) = overmount(self.dst, &self.over) {
                *self.done.borrow_mut() = Some(ident);
            }
        }
        pathrs::verif::Action::Proceed
    }
}

/// C06, last clause: one mount racing with a non-following lookup.  For handles that see the host's mounts, the
/// over-mount of the looked-up entry is performed before the k-th system call of the lookup, for every k; the
/// lookup may succeed with the genuine object (it was past that point) or fail, but never return the over-mount.
pub fn suite_racemount(ctx: &mut Ctx) {
    if !enter_mntns() {
        let _ = ctx.out.write_all(b"case rm-skip\nmeta suite=proc_racemount skipped=unshare\nop skip\nres err skip\nend\n");
        return;
    }
    let cands = overmount_candidates();
    let mut id = 0;
    for (ci, (base, sub, dst, over)) in cands.iter().enumerate() {
        if ci >= 12 || matches!(over, Over::LinkTo(_)) {
            continue;
        }
        for kind in [HKind::UnsafeOpen, HKind::UserFd] {
            for emulated in [false, true] {
                if !verif::openat2_is_supported() && !emulated {
                    continue;
                }
                let mut owned = match kind.make() {
                    Ok(Some(h)) => h,
                    _ => continue,
                };
                verif::procfs_set_emulated(&mut owned, emulated);
                for flags in [libc::O_PATH, libc::O_RDONLY | libc::O_NONBLOCK] {
                    let mk = |idstr: String, meta: String| PCase {
                        id: idstr,
                        suite: "proc_racemount",
                        kind,
                        emulated,
                        api: Api::Open,
                        base: *base,
                        subpath: sub.as_bytes().to_vec(),
                        flags,
                        meta,
                    };
                    id += 1;
                    let kinds = run_pcase_f(ctx, &owned, &mk(format!("rm{id}"), format!("dst={dst} race_at=none")), None);
                    for k in 0..=kinds.len() {
                        id += 1;
                        let done = std::rc::Rc::new(std::cell::RefCell::new(None));
                        let ip = Box::new(Mounter { at: k, dst, over: over.clone(), done: done.clone() });
                        let d2 = done.clone();
                        run_pcase_x(
                            ctx,
                            &owned,
                            &mk(format!("rm{id}"), format!("dst={dst} race_at={k}")),
                            "",
                            Some(ip),
                            &mut || match *d2.borrow() {
                                Some((d, n)) => format!("racemount {d}:{n}\n"),
                                None => "racemount none\n".to_string(),
                            },
                        );
                        if done.borrow().is_some() {
                            unmount_top(dst);
                        }
                    }
                }
            }
        }
    }
}

// ---------------------------------------------------------------------------
// privilege / hidepid matrix (C08)
// ---------------------------------------------------------------------------

/// Runs inside a private mount namespace whose /proc has been replaced by the
/// check script (`mount -t proc -o <options>`), possibly as an unprivileged user.
pub fn suite_c08(ctx: &mut Ctx, label: &str) {
    let paths: Vec<(ProcfsBase, &[u8], &str)> = vec![
        (ProcfsBase::ProcRoot, b"uptime", "existing-or-masked"),
        (ProcfsBase::ProcRoot, b"sys/kernel/ostype", "existing-or-masked"),
        (ProcfsBase::ProcRoot, b"1/status", "existing-or-masked"),
        (ProcfsBase::ProcRoot, b"nonexistent", "missing"),
        (ProcfsBase::ProcRoot, b"nonexistent/deeper", "missing"),
        (ProcfsBase::ProcSelf, b"status", "existing"),
        (ProcfsBase::ProcSelf, b"nonexistent", "missing"),
        (ProcfsBase::ProcThreadSelf, b"stat", "existing"),
        (ProcfsBase::ProcThreadSelf, b"nonexistent", "missing"),
    ];
    // a lookup that retries itself without bound must end (with EMFILE) long before the stack does
    unsafe {
        let mut rl: libc::rlimit = std::mem::zeroed();
        if libc::getrlimit(libc::RLIMIT_NOFILE, &mut rl) == 0 && rl.rlim_cur > 256 {
            rl.rlim_cur = 256;
            libc::setrlimit(libc::RLIMIT_NOFILE, &rl);
        }
    }
    let mut id = 0;
    // three passes: the matrix; lookups of a missing path while the descriptor table is (made to look) exhausted from the
    // k-th system call on, for every second k; the matrix again.  What a lookup answers must not depend on what happened
    // to an earlier lookup of the process.
    for pass in ["first", "exhausted", "again"] {
    for kind in HKind::ALL {
        for emulated in [false, true] {
            if !verif::openat2_is_supported() && !emulated {
                continue;
            }
            if kind == HKind::Global && emulated {
                continue;
            }
            let made = kind.make();
            let mut owned;
            let handle: &ProcfsHandle = match made {
                Ok(Some(h)) => {
                    owned = h;
                    verif::procfs_set_emulated(&mut owned, emulated);
                    &owned
                }
                Ok(None) => verif::global_procfs(),
                Err(_) => continue,
            };
            if pass == "exhausted" {
                let mk = |idstr: String| PCase {
                    id: idstr,
                    suite: "proc_matrix",
                    kind,
                    emulated,
                    api: Api::Open,
                    base: ProcfsBase::ProcRoot,
                    subpath: b"nonexistent".to_vec(),
                    flags: libc::O_PATH,
                    meta: format!("env={label} class=faulted uid={} host_visible=0 pass=exhausted", unsafe { libc::geteuid() }),
                };
                id += 1;
                let n = run_pcase_f(ctx, handle, &mk(format!("m{id}")), None).len();
                let mut k = 0;
                while k < n {
                    id += 1;
                    let ip = Box::new(crate::attack::Faulter(crate::attack::Fault::Exhaust(k), 0)) as Box<dyn pathrs::verif::Interposer>;
                    run_pcase_x(ctx, handle, &mk(format!("m{id}")), &format!("fault exhaust at={k}\n"), Some(ip), &mut || String::new());
                    k += 2;
                }
                continue;
            }
            for (base, sub, class) in &paths {
                id += 1;
                run_pcase(
                    ctx,
                    handle,
                    &PCase {
                        id: format!("m{id}"),
                        suite: "proc_matrix",
                        kind,
                        emulated,
                        api: Api::Open,
                        base: *base,
                        subpath: sub.to_vec(),
                        flags: libc::O_PATH,
                        meta: {
                            let host = match base {
                                ProcfsBase::ProcRoot => format!("/proc/{}", String::from_utf8_lossy(sub)),
                                ProcfsBase::ProcSelf => format!("/proc/self/{}", String::from_utf8_lossy(sub)),
                                _ => format!("/proc/thread-self/{}", String::from_utf8_lossy(sub)),
                            };
                            format!(
                                "env={label} class={class} uid={} host_visible={} pass={pass}",
                                unsafe { libc::geteuid() },
                                fs::symlink_metadata(&host).is_ok() as u8
                            )
                        },
                    },
                );
            }
        }
    }
    }
}

/// Handle constructors, recorded (ties `Procfs.new*` / `tryFromFd` of the model).
pub fn suite_new(ctx: &mut Ctx) {
    let kinds: [(&str, fn() -> Result<ProcfsHandle, Error>); 7] = [
        ("new", || ProcfsHandle::new()),
        ("new_unmasked", || verif::procfs_new_unmasked()),
        ("fsopen_subset", || verif::procfs_new_fsopen(true)),
        ("fsopen_full", || verif::procfs_new_fsopen(false)),
        ("open_tree", || verif::procfs_new_open_tree(false)),
        ("open_tree_recursive", || verif::procfs_new_open_tree(true)),
        ("unsafe_open", || verif::procfs_new_unsafe_open()),
    ];
    let (pfd, pmnt, psub, pemu) = verif::procfs_describe(verif::global_procfs());
    for (i, (name, f)) in kinds.iter().enumerate() {
        let mut s = format!("case n{i}\nmeta suite=proc_new kind={name}\nop proc_new {name}\n");
        s.push_str(&format!(
            "cfg backend=p rflags=0 rootfd=-1 procfd={pfd} procmnt={} subset={} procemu={} openat2={} psl=0\n",
            pmnt.map(|m| m.to_string()).unwrap_or_else(|| "none".into()),
            psub as u8,
            pemu as u8,
            verif::openat2_is_supported() as u8
        ));
        // try_from_fd(File) consumes a descriptor opened outside the recording
        let before = ops::fd_table();
        let (r, log) = ops::recorded(None, f);
        s.push_str(&fmt::transcript(&log));
        let mut keep = None;
        match r {
            Ok(Ok(h)) => {
                let (fd, mnt, sub, _) = verif::procfs_describe(&h);
                s.push_str(&format!(
                    "res ok handle fd={fd} mnt={} subset={} {}\n",
                    mnt.map(|m| m.to_string()).unwrap_or_else(|| "none".into()),
                    sub as u8,
                    describe(fd)
                ));
                keep = Some((h, fd));
            }
            Ok(Err(e)) => s.push_str(&format!("res err {}\n", ops::kind_str(&e.kind()))),
            Err(m) => s.push_str(&format!("res panic {}\n", hex(m.as_bytes()))),
        }
        let after = ops::fd_table();
        s.push_str(&ops::fd_table_diff(&before, &after, keep.as_ref().map(|k| k.1)));
        s.push_str("\nend\n");
        ctx.out.write_all(s.as_bytes()).unwrap();
    }
}

// ---------------------------------------------------------------------------
// reopen (C09)
// ---------------------------------------------------------------------------

/// reopen of handles to every inode type, at forced descriptor numbers, after
/// rename / replace / unlink histories applied to the handle's path.
pub fn suite_reopen(ctx: &mut Ctx, seed: u64, thorough: bool) {
    use crate::tree::{Entry, Kind, TreeSpec};
    use pathrs::{HandleRef, Root};
    use std::os::unix::io::{AsFd, BorrowedFd};
    let mut rng = Rng::new(seed);
    let mut spec = TreeSpec::default();
    for (p, k) in [
        (&b"file"[..], Kind::File),
        (b"dir", Kind::Dir),
        (b"dir/inner", Kind::File),
        (b"fifo", Kind::Fifo),
        (b"sock", Kind::Sock),
        (b"link", Kind::Link(b"file".to_vec())),
        (b"other", Kind::File),
    ] {
        spec.entries.push(Entry { path: p.to_vec(), kind: k, mode: 0o644 | if p == b"dir" { 0o111 } else { 0 } });
    }
    let targets: [(&[u8], bool); 6] = [
        (b"file", false),
        (b"dir", false),
        (b"fifo", false),
        (b"sock", false),
        (b"link", true),
        (b"link", false),
    ];
    let fdnums: Vec<i32> = if thorough {
        vec![0, 1, 2, 3, 4, 5, 9, 10, 63, 64, 100, 255, 256, 1000, 1023]
    } else {
        vec![0, 1, 2, 3, 10, 1023]
    };
    let flagsets: [i32; 9] = [
        libc::O_RDONLY | libc::O_NONBLOCK,
        libc::O_WRONLY | libc::O_NONBLOCK,
        libc::O_RDWR | libc::O_NONBLOCK,
        libc::O_PATH,
        libc::O_RDONLY | libc::O_NONBLOCK | libc::O_DIRECTORY,
        libc::O_RDONLY | libc::O_NONBLOCK | libc::O_NOFOLLOW,
        libc::O_RDONLY | libc::O_NONBLOCK | libc::O_APPEND | libc::O_NOATIME,
        libc::O_RDWR | libc::O_CREAT,
        libc::O_RDWR | libc::O_TMPFILE,
    ];
    // "deepen": the object is moved below a directory chain so that its absolute path is longer than PATH_MAX (the
    // kernel cannot print such a path: readlink of the fd/<n> magic-link fails with ENAMETOOLONG, the link still works)
    let histories = ["none", "rename", "replace", "unlink", "deepen"];
    // every way of spelling a creation request, O_PATH (with which the kernel itself would ignore the creation flags) included
    let creation_sets: [i32; 9] = [
        libc::O_RDWR | libc::O_CREAT,
        libc::O_RDONLY | libc::O_EXCL,
        libc::O_WRONLY | libc::O_CREAT | libc::O_EXCL,
        libc::O_RDWR | libc::O_TMPFILE,
        libc::O_WRONLY | libc::O_TMPFILE | libc::O_EXCL,
        libc::O_PATH | libc::O_CREAT,
        libc::O_PATH | libc::O_EXCL,
        libc::O_PATH | libc::O_CREAT | libc::O_EXCL,
        libc::O_PATH | libc::O_RDWR | libc::O_TMPFILE,
    ];
    let mut plan: Vec<(&[u8], bool, i32, &str, i32)> = Vec::new();
    for (target, nofollow) in targets {
        for &n in &fdnums {
            for history in histories {
                if history == "deepen" && !(n == 3 || n == 0) {
                    continue;
                }
                plan.push((target, nofollow, n, history, *rng.pick(&flagsets)));
            }
        }
        for fl in creation_sets {
            plan.push((target, nofollow, 3, "none", fl));
        }
    }
    let mut id = 0;
    {
        {
            for (target, nofollow, n, history, flags) in plan {
                let (top, rootdir) = crate::setup_case_dir(ctx, "rcase", &spec);
                let labels = crate::tree::Labels::of_tree(&spec, &rootdir);
                let root = Root::open(&rootdir).expect("open root");
                let handle = if nofollow {
                    root.resolve_nofollow(ops::p(target))
                } else {
                    root.resolve(ops::p(target))
                }
                .expect("resolve handle");
                // history applied to the handle's path
                let path = rootdir.join(std::ffi::OsStr::from_bytes(target));
                let real = if target == b"link" && !nofollow { rootdir.join("file") } else { path.clone() };
                match history {
                    "rename" => {
                        let _ = fs::rename(&real, rootdir.join("renamed"));
                    }
                    "replace" => {
                        let _ = fs::rename(&real, rootdir.join("renamed"));
                        let _ = fs::rename(rootdir.join("other"), &real);
                    }
                    "unlink" => {
                        let _ = fs::remove_file(&real).or_else(|_| fs::remove_dir_all(&real));
                    }
                    "deepen" => {
                        let name = std::ffi::CString::new(vec![b'D'; 250]).unwrap();
                        let croot = std::ffi::CString::new(rootdir.as_os_str().as_bytes()).unwrap();
                        let mut cur = unsafe { libc::open(croot.as_ptr(), libc::O_RDONLY | libc::O_DIRECTORY | libc::O_CLOEXEC) };
                        assert!(cur >= 0);
                        for _ in 0..18 {
                            unsafe { libc::mkdirat(cur, name.as_ptr(), 0o755) };
                            let next = unsafe { libc::openat(cur, name.as_ptr(), libc::O_RDONLY | libc::O_DIRECTORY | libc::O_CLOEXEC) };
                            assert!(next >= 0, "deepen openat");
                            unsafe { libc::close(cur) };
                            cur = next;
                        }
                        let creal = std::ffi::CString::new(real.as_os_str().as_bytes()).unwrap();
                        let r = unsafe { libc::renameat(libc::AT_FDCWD, creal.as_ptr(), cur, b"moved\0".as_ptr() as *const _) };
                        assert_eq!(r, 0, "deepen renameat");
                        unsafe { libc::close(cur) };
                    }
                    _ => {}
                }
                // force the descriptor number
                let saved: Option<OwnedFd> = {
                    let fl = unsafe { libc::fcntl(n, libc::F_GETFD) };
                    if fl >= 0 {
                        let d = unsafe { libc::fcntl(n, libc::F_DUPFD_CLOEXEC, 1030) };
                        Some(unsafe { OwnedFd::from_raw_fd(d) })
                    } else {
                        None
                    }
                };
                let hfd = handle.as_fd().as_raw_fd();
                // (dup3 refuses oldfd == newfd: when the handle already has the wanted number, go through a copy)
                let src = if hfd == n { unsafe { libc::fcntl(hfd, libc::F_DUPFD_CLOEXEC, 1040) } } else { hfd };
                let forced = unsafe { libc::dup3(src, n, libc::O_CLOEXEC) };
                if src != hfd {
                    unsafe { libc::close(src) };
                }
                assert_eq!(forced, n, "dup3 to {n}");
                id += 1;
                let mut s = format!(
                    "case r{id}\nmeta seed={seed} suite=reopen target={} nofollow={} history={history} fdnum={n}\ntree {}\n",
                    String::from_utf8_lossy(target),
                    nofollow as u8,
                    spec.entries.len()
                );
                s.push_str(&spec.lines());
                s.push_str(&format!("op reopen {} {} {}\n", nofollow as u8, flags, hex(target)));
                s.push_str(&crate::cfg_line(&root, false, pathrs::flags::ResolverFlags::empty()));
                s.push('\n');
                s.push_str(&format!("handle {}\n", ops::describe_fd(n, &labels)));
                // reference: the kernel's own re-open through the magic-link (what reopen is specified to be)
                let creation = flags & (libc::O_CREAT | libc::O_EXCL) != 0 || flags & libc::O_TMPFILE == libc::O_TMPFILE;
                let kref = if creation {
                    // refused up front by the library; the raw open could block (a fifo without O_NONBLOCK) or create
                    String::new()
                } else {
                    let p = cstr(&format!("/proc/self/fd/{n}"));
                    let fd = unsafe { libc::open(p.as_ptr(), (flags & !libc::O_NOFOLLOW) | libc::O_CLOEXEC | libc::O_NOCTTY) };
                    if fd >= 0 {
                        let l = format!("kref ok {}\n", ops::describe_fd(fd, &labels));
                        unsafe { libc::close(fd) };
                        l
                    } else {
                        format!("kref err {}\n", std::io::Error::last_os_error().raw_os_error().unwrap_or(0))
                    }
                };
                let before = ops::fd_table();
                let href = HandleRef::from_fd(unsafe { BorrowedFd::borrow_raw(n) });
                let (r, log) = ops::recorded(None, || href.reopen(OpenFlags::from_bits_retain(flags)));
                let after = ops::fd_table();
                s.push_str(&fmt::transcript(&log));
                s.push_str(&kref);
                let ex = match r {
                    Ok(Ok(f)) => {
                        let fd: OwnedFd = f.into();
                        s.push_str(&format!("res ok fd {}\n", ops::describe_fd(fd.as_raw_fd(), &labels)));
                        let raw = fd.as_raw_fd();
                        std::mem::forget(fd);
                        Some(raw)
                    }
                    Ok(Err(e)) => {
                        s.push_str(&format!("res err {}\n", ops::kind_str(&e.kind())));
                        None
                    }
                    Err(m) => {
                        s.push_str(&format!("res panic {}\n", hex(m.as_bytes())));
                        None
                    }
                };
                s.push_str(&ops::fd_table_diff(&before, &after, ex));
                s.push('\n');
                // the same request through the C entry point (the descriptor number crosses the C boundary as an int)
                if !creation {
                    let c = unsafe { crate::capi::pathrs_reopen(n, flags) };
                    if c >= 0 {
                        s.push_str(&format!("cres ok fd {}\n", ops::describe_fd(c, &labels)));
                        unsafe { libc::close(c) };
                    } else {
                        let e = unsafe { crate::capi::pathrs_errorinfo(c) };
                        let errno = if e.is_null() { -1 } else { unsafe { (*e).saved_errno as i64 } };
                        if !e.is_null() {
                            unsafe { crate::capi::pathrs_errorinfo_free(e) };
                        }
                        s.push_str(&format!("cres err {errno}\n"));
                    }
                }
                s.push_str("end\n");
                if let Some(raw) = ex {
                    unsafe { libc::close(raw) };
                }
                // restore descriptor n
                match saved {
                    Some(sv) => unsafe {
                        libc::dup3(sv.as_raw_fd(), n, 0);
                    },
                    None => unsafe {
                        libc::close(n);
                    },
                }
                ctx.out.write_all(s.as_bytes()).unwrap();
                drop(handle);
                drop(root);
                let _ = fs::remove_dir_all(&top);
            }
        }
    }
}

/// `Handle::reopen` under single injected faults: every index of the unperturbed trace x the errno catalogue,
/// for handles to a file, a directory and a fifo and a few flag sets.  Same case format as `suite_reopen`, plus
/// a `fault` line; the oracle demands that a success is a descriptor of the handle's inode.
pub fn suite_reopen_fault(ctx: &mut Ctx, seed: u64) {
    use crate::attack::{Fault, Faulter, ERRNOS};
    use crate::tree::{Entry, Kind, TreeSpec};
    use pathrs::verif::Interposer;
    use pathrs::{HandleRef, Root};
    use std::os::unix::io::{AsFd, BorrowedFd};
    let mut spec = TreeSpec::default();
    for (p, k) in [(&b"file"[..], Kind::File), (b"dir", Kind::Dir), (b"fifo", Kind::Fifo)] {
        spec.entries.push(Entry { path: p.to_vec(), kind: k, mode: 0o644 | if p == b"dir" { 0o111 } else { 0 } });
    }
    let flagsets: [i32; 4] = [
        libc::O_PATH,
        libc::O_RDONLY | libc::O_NONBLOCK,
        libc::O_RDWR | libc::O_NONBLOCK,
        libc::O_RDONLY | libc::O_NONBLOCK | libc::O_DIRECTORY,
    ];
    let mut id = 0;
    for target in [&b"file"[..], b"dir", b"fifo"] {
        for flags in flagsets {
            let (top, rootdir) = crate::setup_case_dir(ctx, "rfcase", &spec);
            let labels = crate::tree::Labels::of_tree(&spec, &rootdir);
            let root = Root::open(&rootdir).expect("open root");
            let handle = root.resolve(ops::p(target)).expect("resolve handle");
            let n = handle.as_fd().as_raw_fd();
            let mut one = |fault: Option<(usize, i32)>, id: usize| -> usize {
                let mut s = format!(
                    "case rf{id}\nmeta seed={seed} suite=reopen target={} nofollow=0 history=none fdnum={n}\ntree {}\n",
                    String::from_utf8_lossy(target),
                    spec.entries.len()
                );
                s.push_str(&spec.lines());
                s.push_str(&format!("op reopen 0 {} {}\n", flags, hex(target)));
                s.push_str(&crate::cfg_line(&root, false, pathrs::flags::ResolverFlags::empty()));
                s.push('\n');
                s.push_str(&format!("handle {}\n", ops::describe_fd(n, &labels)));
                match fault {
                    Some((k, e)) => s.push_str(&format!("fault single at={k} errno={e}\n")),
                    None => s.push_str("fault none\n"),
                }
                let ip: Option<Box<dyn Interposer>> =
                    fault.map(|(k, e)| Box::new(Faulter(Fault::Single(k, e), 0)) as Box<dyn Interposer>);
                let before = ops::fd_table();
                let href = HandleRef::from_fd(unsafe { BorrowedFd::borrow_raw(n) });
                let (r, log) = ops::recorded(ip, || href.reopen(OpenFlags::from_bits_retain(flags)));
                let after = ops::fd_table();
                s.push_str(&fmt::transcript(&log));
                let ex = match r {
                    Ok(Ok(f)) => {
                        let fd: OwnedFd = f.into();
                        s.push_str(&format!("res ok fd {}\n", ops::describe_fd(fd.as_raw_fd(), &labels)));
                        let raw = fd.as_raw_fd();
                        std::mem::forget(fd);
                        Some(raw)
                    }
                    Ok(Err(e)) => {
                        s.push_str(&format!("res err {}\n", ops::kind_str(&e.kind())));
                        None
                    }
                    Err(m) => {
                        s.push_str(&format!("res panic {}\n", hex(m.as_bytes())));
                        None
                    }
                };
                s.push_str(&ops::fd_table_diff(&before, &after, ex));
                s.push_str("\nend\n");
                if let Some(raw) = ex {
                    unsafe { libc::close(raw) };
                }
                ctx.out.write_all(s.as_bytes()).unwrap();
                log.len()
            };
            id += 1;
            let ncalls = one(None, id);
            for k in 0..ncalls {
                for e in ERRNOS {
                    id += 1;
                    one(Some((k, *e)), id);
                }
            }
            drop(handle);
            drop(root);
            let _ = fs::remove_dir_all(&top);
        }
    }
}

