//! Tree specifications: generation, materialisation on the real filesystem,
//! snapshots and inode labelling.
use crate::{fmt::hex, rng::Rng};
use std::{
    collections::{BTreeMap, HashMap},
    ffi::{CString, OsStr, OsString},
    fs,
    os::unix::{
        ffi::{OsStrExt, OsStringExt},
        fs::{MetadataExt, PermissionsExt},
    },
    path::{Path, PathBuf},
};

#[derive(Clone, Debug, PartialEq, Eq)]
pub enum Kind {
    Dir,
    File,
    Fifo,
    Sock,
    Link(Vec<u8>),
    /// hard link to the (non-directory) entry with this index
    Hard(usize),
}

#[derive(Clone, Debug)]
pub struct Entry {
    /// path relative to the root, components separated by '/', no leading '/'
    pub path: Vec<u8>,
    pub kind: Kind,
    pub mode: u32,
}

#[derive(Clone, Debug, Default)]
pub struct TreeSpec {
    /// parents always precede their children
    pub entries: Vec<Entry>,
}

pub fn join(dir: &[u8], name: &[u8]) -> Vec<u8> {
    if dir.is_empty() {
        name.to_vec()
    } else {
        let mut v = dir.to_vec();
        v.push(b'/');
        v.extend_from_slice(name);
        v
    }
}

pub fn parent_of(path: &[u8]) -> &[u8] {
    match path.iter().rposition(|c| *c == b'/') {
        Some(i) => &path[..i],
        None => b"",
    }
}

pub fn depth(path: &[u8]) -> usize {
    if path.is_empty() {
        0
    } else {
        path.iter().filter(|c| **c == b'/').count() + 1
    }
}

impl TreeSpec {
    pub fn dirs(&self) -> Vec<Vec<u8>> {
        let mut v = vec![Vec::new()];
        v.extend(
            self.entries
                .iter()
                .filter(|e| e.kind == Kind::Dir)
                .map(|e| e.path.clone()),
        );
        v
    }

    pub fn has(&self, path: &[u8]) -> bool {
        self.entries.iter().any(|e| e.path == path)
    }

    pub fn lines(&self) -> String {
        let mut s = String::new();
        for e in &self.entries {
            let (k, extra) = match &e.kind {
                Kind::Dir => ("d", String::new()),
                Kind::File => ("f", String::new()),
                Kind::Fifo => ("p", String::new()),
                Kind::Sock => ("s", String::new()),
                Kind::Link(t) => ("l", format!(" {}", hex(t))),
                Kind::Hard(i) => ("h", format!(" {}", i + 1)),
            };
            s.push_str(&format!("e {k} {} {}{extra}\n", hex(&e.path), e.mode));
        }
        s
    }

    /// Relative path from directory `from` to entry `to` (both root-relative).
    fn rel(from: &[u8], to: &[u8]) -> Vec<u8> {
        let f: Vec<&[u8]> = if from.is_empty() {
            vec![]
        } else {
            from.split(|c| *c == b'/').collect()
        };
        let t: Vec<&[u8]> = if to.is_empty() {
            vec![]
        } else {
            to.split(|c| *c == b'/').collect()
        };
        let common = f.iter().zip(t.iter()).take_while(|(a, b)| a == b).count();
        let mut parts: Vec<&[u8]> = Vec::new();
        for _ in common..f.len() {
            parts.push(b"..");
        }
        for c in &t[common..] {
            parts.push(c);
        }
        if parts.is_empty() {
            parts.push(b".");
        }
        parts.join(&b'/')
    }

    fn gen_link_body(&self, rng: &mut Rng, dir: &[u8], own_name: &[u8]) -> Vec<u8> {
        let targets: Vec<&Entry> = self.entries.iter().collect();
        let mut body: Vec<u8> = match rng.below(12) {
            0 | 1 | 2 if !targets.is_empty() => {
                let t = rng.pick(&targets);
                Self::rel(dir, &t.path)
            }
            3 | 4 if !targets.is_empty() => {
                let t = rng.pick(&targets);
                let mut v = b"/".to_vec();
                v.extend_from_slice(&t.path);
                v
            }
            5 => rng
                .pick(&[&b"nonexist"[..], b"a/nonexist", b"/nonexist", b"../nonexist", b"nonexist/x"])
                .to_vec(),
            6 => own_name.to_vec(),
            7 => rng
                .pick(&[
                    &b"../../../.."[..],
                    b"/../../x",
                    b"/etc/passwd",
                    b"../../../../etc",
                    b"/..",
                    b"/",
                    b"//",
                    b"/.",
                ])
                .to_vec(),
            8 => rng.pick(&[&b"."[..], b"..", b"./.", b"../.", b"./.."]).to_vec(),
            9 if !targets.is_empty() => {
                // through a parent and back
                let t = rng.pick(&targets);
                let mut v = b"../".to_vec();
                v.extend_from_slice(&Self::rel(parent_of(dir), &t.path));
                if dir.is_empty() {
                    Self::rel(dir, &t.path)
                } else {
                    v
                }
            }
            _ => {
                // sibling name that may or may not exist
                rng.pick(&[&b"a"[..], b"b", b"c", b"d", b"e"]).to_vec()
            }
        };
        match rng.below(10) {
            0 => body.push(b'/'),
            1 => body.extend_from_slice(b"//"),
            2 => body.extend_from_slice(b"/."),
            3 => {
                // doubled slash somewhere
                if let Some(i) = body.iter().position(|c| *c == b'/') {
                    body.insert(i, b'/');
                }
            }
            _ => {}
        }
        if body.is_empty() {
            body = b".".to_vec();
        }
        body
    }

    pub fn generate(rng: &mut Rng, max_entries: usize) -> TreeSpec {
        let mut spec = TreeSpec::default();
        let names: [&[u8]; 9] = [b"a", b"b", b"c", b"d", b"e", b"f", b"l", b"m", b"n"];
        let n = 1 + rng.below(max_entries);
        for _ in 0..n {
            let dirs: Vec<Vec<u8>> = spec
                .dirs()
                .into_iter()
                .filter(|d| depth(d) < 5)
                .collect();
            let dir = rng.pick(&dirs).clone();
            let name: Vec<u8> = if rng.chance(1, 40) {
                rng.pick(&[
                    &b"name with spaces"[..],
                    b"x (deleted)",
                    b"\xff\xfe",
                    b"..."[..].as_ref(),
                    b"..a",
                ])
                .to_vec()
            } else {
                rng.pick(&names).to_vec()
            };
            let path = join(&dir, &name);
            if spec.has(&path) {
                continue;
            }
            let kind = match rng.below(100) {
                0..=34 => Kind::Dir,
                35..=54 => Kind::File,
                55..=89 => Kind::Link(spec.gen_link_body(rng, &dir, &name)),
                90..=93 => Kind::Fifo,
                94..=95 => Kind::Sock,
                _ => {
                    let cands: Vec<usize> = spec
                        .entries
                        .iter()
                        .enumerate()
                        .filter(|(_, e)| !matches!(e.kind, Kind::Dir | Kind::Hard(_)))
                        .map(|(i, _)| i)
                        .collect();
                    if cands.is_empty() {
                        Kind::File
                    } else {
                        Kind::Hard(*rng.pick(&cands))
                    }
                }
            };
            let mode = match kind {
                Kind::Dir => *rng.pick(&[0o755, 0o755, 0o700, 0o711, 0o1777]),
                Kind::Link(_) => 0o777,
                _ => *rng.pick(&[0o644, 0o600, 0o755, 0o444]),
            };
            spec.entries.push(Entry { path, kind, mode });
        }
        spec
    }

    /// Create the tree below `root` (which must exist and be empty).
    pub fn materialise(&self, root: &Path) -> std::io::Result<()> {
        for (idx, e) in self.entries.iter().enumerate() {
            let p = root.join(OsStr::from_bytes(&e.path));
            match &e.kind {
                Kind::Dir => {
                    fs::create_dir(&p)?;
                    fs::set_permissions(&p, fs::Permissions::from_mode(e.mode))?;
                }
                Kind::File => {
                    fs::write(&p, format!("file#{idx}:{}", hex(&e.path)))?;
                    fs::set_permissions(&p, fs::Permissions::from_mode(e.mode))?;
                }
                Kind::Fifo | Kind::Sock => {
                    let c = CString::new(p.as_os_str().as_bytes()).unwrap();
                    let ty = if e.kind == Kind::Fifo {
                        libc::S_IFIFO
                    } else {
                        libc::S_IFSOCK
                    };
                    let r = unsafe { libc::mknod(c.as_ptr(), ty | e.mode, 0) };
                    if r != 0 {
                        return Err(std::io::Error::last_os_error());
                    }
                    fs::set_permissions(&p, fs::Permissions::from_mode(e.mode))?;
                }
                Kind::Link(t) => {
                    std::os::unix::fs::symlink(OsStr::from_bytes(t), &p)?;
                }
                Kind::Hard(i) => {
                    let src = root.join(OsStr::from_bytes(&self.entries[*i].path));
                    // link(2) does not follow a symlink source
                    let a = CString::new(src.as_os_str().as_bytes()).unwrap();
                    let b = CString::new(p.as_os_str().as_bytes()).unwrap();
                    let r = unsafe {
                        libc::linkat(libc::AT_FDCWD, a.as_ptr(), libc::AT_FDCWD, b.as_ptr(), 0)
                    };
                    if r != 0 {
                        return Err(std::io::Error::last_os_error());
                    }
                }
            }
        }
        Ok(())
    }
}

/// (dev, ino) → label. The root is label 0, entry i is label i+1 (hard links
/// share the label of their first name); anything else is unlabelled.
#[derive(Clone, Debug, Default)]
pub struct Labels(pub HashMap<(u64, u64), usize>);

impl Labels {
    pub fn of_tree(spec: &TreeSpec, root: &Path) -> Labels {
        let mut m = HashMap::new();
        if let Ok(md) = fs::symlink_metadata(root) {
            m.insert((md.dev(), md.ino()), 0);
        }
        for (i, e) in spec.entries.iter().enumerate() {
            let p = root.join(OsStr::from_bytes(&e.path));
            if let Ok(md) = fs::symlink_metadata(&p) {
                m.entry((md.dev(), md.ino())).or_insert(i + 1);
            }
        }
        Labels(m)
    }

    pub fn label(&self, dev: u64, ino: u64) -> Option<usize> {
        self.0.get(&(dev, ino)).copied()
    }
}

#[derive(Clone, Debug, PartialEq, Eq)]
pub struct SnapEntry {
    pub kind: char,
    pub mode: u32,
    pub size: u64,
    pub body: Vec<u8>,
    pub dev: u64,
    pub ino: u64,
    pub nlink: u64,
}

/// Snapshot of everything below `top` (paths relative to `top`).
pub fn snapshot(top: &Path) -> BTreeMap<Vec<u8>, SnapEntry> {
    fn walk(top: &Path, rel: &Path, out: &mut BTreeMap<Vec<u8>, SnapEntry>) {
        let full = top.join(rel);
        let md = match fs::symlink_metadata(&full) {
            Ok(md) => md,
            Err(_) => return,
        };
        let ft = md.mode() & libc::S_IFMT;
        let kind = match ft {
            libc::S_IFDIR => 'd',
            libc::S_IFREG => 'f',
            libc::S_IFLNK => 'l',
            libc::S_IFIFO => 'p',
            libc::S_IFSOCK => 's',
            libc::S_IFCHR => 'c',
            libc::S_IFBLK => 'b',
            _ => '?',
        };
        let body = if kind == 'l' {
            fs::read_link(&full)
                .map(|p| p.into_os_string().into_vec())
                .unwrap_or_default()
        } else {
            Vec::new()
        };
        out.insert(
            rel.as_os_str().as_bytes().to_vec(),
            SnapEntry {
                kind,
                mode: md.mode() & 0o7777,
                size: if kind == 'f' { md.size() } else { 0 },
                body,
                dev: md.dev(),
                ino: md.ino(),
                nlink: if kind == 'd' { 0 } else { md.nlink() },
            },
        );
        if kind == 'd' {
            let mut names: Vec<OsString> = match fs::read_dir(&full) {
                Ok(rd) => rd.filter_map(|e| e.ok()).map(|e| e.file_name()).collect(),
                Err(_) => Vec::new(),
            };
            names.sort();
            for n in names {
                walk(top, &rel.join(n), out);
            }
        }
    }
    let mut out = BTreeMap::new();
    walk(top, &PathBuf::new(), &mut out);
    out
}

pub fn snapshot_diff(
    before: &BTreeMap<Vec<u8>, SnapEntry>,
    after: &BTreeMap<Vec<u8>, SnapEntry>,
) -> Vec<String> {
    let mut out = Vec::new();
    for (p, e) in before {
        match after.get(p) {
            None => out.push(format!("- {} {}", e.kind, hex(p))),
            Some(e2) if e2 != e => out.push(format!(
                "~ {}{} {} ino:{}->{} mode:{:o}->{:o} size:{}->{} nlink:{}->{}",
                e.kind, e2.kind, hex(p), e.ino, e2.ino, e.mode, e2.mode, e.size, e2.size, e.nlink, e2.nlink
            )),
            _ => {}
        }
    }
    for (p, e) in after {
        if !before.contains_key(p) {
            out.push(format!("+ {} {} {:o}", e.kind, hex(p), e.mode));
        }
    }
    out
}
