import Pathrs.Replay
import Pathrs.Discipline
import Pathrs.Capi
import Pathrs.Kernel.World
import Pathrs.Ledger
import Pathrs.Kernel.ProcWorld

/-!
# Model driver: reads harness transcripts on stdin, replays each case through
the model and prints one verdict line per case.
-/

open K

def hexVal (c : Char) : Option Nat :=
  if '0' ≤ c ∧ c ≤ '9' then some (c.toNat - '0'.toNat)
  else if 'a' ≤ c ∧ c ≤ 'f' then some (c.toNat - 'a'.toNat + 10)
  else none

def unhexChars : List Char → Option Bytes
  | [] => some []
  | a :: b :: rest => do
    let x ← hexVal a
    let y ← hexVal b
    let tl ← unhexChars rest
    pure ((x * 16 + y).toUInt8 :: tl)
  | _ => none

/-- `x6162` → bytes -/
def unhex (s : String) : Option Bytes :=
  match s.toList with
  | 'x' :: rest => unhexChars rest
  | _ => none

def hexDigit (n : Nat) : Char :=
  if n < 10 then Char.ofNat (48 + n) else Char.ofNat (87 + n)

def hex (b : Bytes) : String :=
  String.ofList ('x' :: b.flatMap fun c => [hexDigit (c.toNat / 16), hexDigit (c.toNat % 16)])

def tokens (line : String) : List String :=
  (line.splitOn " ").filter (· ≠ "")

def takeN (n : Nat) (l : List String) : Option (List String × List String) :=
  if l.length < n then none else some (l.take n, l.drop n)

/-- `n a1 .. an rest` -/
def counted (l : List String) : Option (List String × List String) :=
  match l with
  | n :: rest => do
    let n ← n.toNat?
    takeN n rest
  | [] => none

def parseCall (toks : List String) : Option Call := do
  match toks with
  | kind :: rest =>
    let (fdsS, rest) ← counted rest
    let (strsS, rest) ← counted rest
    let (numsS, _) ← counted rest
    let fds ← fdsS.mapM String.toInt?
    let strs ← strsS.mapM unhex
    let nums ← numsS.mapM String.toNat?
    match kind, fds, strs, nums with
    | "openat", [d], [p], [f, m] => some (.openat d p f m)
    | "openat2", [d], [p], [f, m, r, s] => some (.openat2 d p f m r s)
    | "readlinkat", [d], [p], [n] => some (.readlinkat d p n)
    | "fstatat", [d], [p], [f] => some (.fstatat d p f)
    | "statx", [d], [p], [f, m] => some (.statx d p f m)
    | "fstatfs", [d], [], [] => some (.fstatfs d)
    | "accessat", [d], [p], [a, f] => some (.accessat d p a f)
    | "mkdirat", [d], [p], [m] => some (.mkdirat d p m)
    | "mknodat", [d], [p], [m, dev] => some (.mknodat d p m dev)
    | "unlinkat", [d], [p], [f] => some (.unlinkat d p f)
    | "linkat", [od, nd], [op, np], [f] => some (.linkat od op nd np f)
    | "symlinkat", [d], [t, p], [] => some (.symlinkat t d p)
    | "renameat", [od, nd], [op, np], [] => some (.renameat od op nd np)
    | "renameat2", [od, nd], [op, np], [f] => some (.renameat2 od op nd np f)
    | "dup", [d], [], [m] => some (.dup d m)
    | "close", [d], [], [] => some (.close d)
    | "dir_open", [d], [], [] => some (.dirOpen d)
    | "dir_next", [d], [], [] => some (.dirNext d)
    | "gettid", [], [], [] => some .gettid
    | "geteuid", [], [], [] => some .geteuid
    | "fsopen", [], [t], [f] => some (.fsopen t f)
    | "fsconfig_set_string", [d], [k, v], [] => some (.fsconfigSetString d k v)
    | "fsconfig_create", [d], [], [] => some (.fsconfigCreate d)
    | "fsmount", [d], [], [f, a] => some (.fsmount d f a)
    | "open_tree", [d], [p], [f] => some (.openTree d p f)
    | "readlink_abs", [], [p], [] => some (.readlinkAbs p)
    | "read_line", [d], [], [] => some (.readLine d)
    | "random", [], [], [] => some .random
    | _, _, _, _ => none
  | [] => none

def parseResp (toks : List String) : Option Resp :=
  match toks with
  | ["fd", n] => n.toInt?.map .fd
  | ["unit"] => some .unit
  | ["bytes", b] => (unhex b).map .bytes
  | "nums" :: rest => do
    let (ns, _) ← counted rest
    let ns ← ns.mapM String.toNat?
    pure (.nums ns)
  | ["end"] => some .fin
  | ["err", e] => e.toNat?.map .err
  | _ => none

structure Case where
  id : String := ""
  meta' : List String := []
  tree : List (List String) := []
  op : List String := []
  cfg : List String := []
  events : Hist := []
  res : List String := []
  kern : List String := []
  kernb : List String := []
  fdt : List String := []
  snaps : List (List String) := []
  after : List (List String) := []
  handle : List String := []
  tlines : List (List String) := []
  buf : Option String := none
  bad : Option String := none
deriving Inhabited

def cfgVal (c : Case) (key : String) : Option String :=
  c.cfg.findSome? fun kv =>
    match kv.splitOn "=" with
    | [k, v] => if k = key then some v else none
    | _ => none

def kvVal (toks : List String) (key : String) : Option String :=
  toks.findSome? fun kv =>
    match kv.splitOn "=" with
    | [k, v] => if k = key then some v else none
    | _ => none

/-- A value the model can return. -/
inductive Val where
  | fd (n : Fd) | bytes (b : Bytes) | unit | num (n : Nat) (buf : Option Bytes) | handle (h : ProcH)
deriving Repr, DecidableEq

def errLine : Err → String
  | .notImplemented => "err NotImplemented none"
  | .notSupported => "err NotSupported none"
  | .invalidArgument => "err InvalidArgument none"
  | .safetyViolation => "err SafetyViolation none"
  | .internalError => "err InternalError none"
  | .os e => s!"err OsError {e}"
  | .osNone => "err OsError none"
  | .panic s => s!"panic {s}"
  | .badResp s => s!"badresp {s}"
  | .outOfFuel s => s!"outoffuel {s}"

def resultLine : Except Err Val → String
  | .ok (.fd n) => s!"ok fd {n}"
  | .ok (.bytes b) => s!"ok bytes {hex b}"
  | .ok .unit => "ok unit"
  | .ok (.num n _) => s!"ok num {n}"
  | .ok (.handle h) =>
    let m := match h.mntId with | some m => toString m | none => "none"
    s!"ok handle fd={h.fd} mnt={m} subset={if h.isSubset then 1 else 0}"
  | .error e => errLine e

/-- canonical form of the implementation's `res` line for comparison -/
def implResultLine (res : List String) : String :=
  match res with
  | "ok" :: "fd" :: rest => s!"ok fd {(kvVal rest "fd").getD "?"}"
  | ["ok", "bytes", b] => s!"ok bytes {b}"
  | ["ok", "unit"] => "ok unit"
  | ["ok", "num", n] => s!"ok num {n}"
  | "ok" :: "handle" :: fd :: mnt :: sub :: _ => s!"ok handle {fd} {mnt} {sub}"
  | ["err", k, e] => s!"err {k} {e}"
  | "cerr" :: e :: _ => s!"cerr {e}"
  | "panic" :: _ => "panic"
  | _ => "?"

def mapVal (f : α → Val) (p : M α) : M Val := do
  let a ← p
  pure (f a)

/-- Build the model program of a case. -/
def modelOf (c : Case) : Except String (M Val) := do
  let getNat (k : String) : Except String Nat :=
    match (cfgVal c k).bind String.toNat? with
    | some n => .ok n
    | none => .error s!"cfg {k}"
  let getInt (k : String) : Except String Int :=
    match (cfgVal c k).bind String.toInt? with
    | some n => .ok n
    | none => .error s!"cfg {k}"
  let rootfd ← getInt "rootfd"
  let procfd ← getInt "procfd"
  let rflags ← getNat "rflags"
  let subset ← getNat "subset"
  let procemu ← getNat "procemu"
  let openat2 ← getNat "openat2"
  let psl := ((cfgVal c "psl").bind String.toNat?).getD 0
  let procmnt : Option Nat := (cfgVal c "procmnt").bind String.toNat?
  let emulated := cfgVal c "backend" = some "e"
  let env : Env := {
    proc := { fd := procfd, mntId := procmnt, isSubset := subset = 1, emulated := procemu = 1 },
    openat2 := openat2 = 1,
    protectedSymlinks := psl }
  let root : Root := { fd := rootfd, resolver := { emulated, rflags } }
  let nat (s : String) : Except String Nat :=
    match s.toNat? with | some n => .ok n | none => .error s!"nat {s}"
  let bytes (s : String) : Except String Bytes :=
    match unhex s with | some b => .ok b | none => .error s!"hex {s}"
  match c.op with
  | ["resolve", nf, p] => do
    let p ← bytes p
    pure (mapVal .fd (Root.resolve env root p (nf = "1")))
  | ["open_subpath", fl, p] => do
    let p ← bytes p
    let fl ← nat fl
    pure (mapVal .fd (Root.openSubpath env root p fl))
  | ["readlink", p] => do
    let p ← bytes p
    pure (mapVal .bytes (Root.readlink env root p))
  | ["mkdir", mode, p] => do
    let p ← bytes p
    let mode ← nat mode
    pure (mapVal (fun _ => .unit) (Root.create env root p (.directory mode)))
  | "mknod" :: mode :: dev :: p :: rest => do
    let p ← bytes p
    let mode ← nat mode
    let dev ← nat dev
    -- an optional fifth token: file-type bits left in the `Permissions` value (the library must ignore them)
    let ptype ← match rest with
      | [] => pure 0
      | [t] => nat t
      | _ => .error "mknod: too many tokens"
    let fmt := mode &&& S_IFMT
    let perm := clearBits mode S_IFMT ||| ptype
    let ty : InodeType :=
      if fmt = S_IFIFO then .fifo perm
      else if fmt = S_IFCHR then .charDev perm dev
      else if fmt = S_IFBLK then .blockDev perm dev
      else .file perm
    pure (mapVal (fun _ => .unit) (Root.create env root p ty))
  | ["symlink", p, t] => do
    let p ← bytes p
    let t ← bytes t
    pure (mapVal (fun _ => .unit) (Root.create env root p (.symlink t)))
  | ["hardlink", p, t] => do
    let p ← bytes p
    let t ← bytes t
    pure (mapVal (fun _ => .unit) (Root.create env root p (.hardlink t)))
  | ["create_file", fl, mode, p] => do
    let p ← bytes p
    let fl ← nat fl
    let mode ← nat mode
    pure (mapVal .fd (Root.createFile env root p fl mode))
  | ["mkdir_all", mode, p] => do
    let p ← bytes p
    let mode ← nat mode
    pure (mapVal .fd (Root.mkdirAll env root p mode))
  | ["remove_file", p] => do
    let p ← bytes p
    pure (mapVal (fun _ => .unit) (Root.removeInode env root p false))
  | ["remove_dir", p] => do
    let p ← bytes p
    pure (mapVal (fun _ => .unit) (Root.removeInode env root p true))
  | ["remove_all", p] => do
    let p ← bytes p
    pure (mapVal (fun _ => .unit) (Root.removeAll env root p))
  | ["rename", fl, s, d] => do
    let s ← bytes s
    let d ← bytes d
    let fl ← nat fl
    pure (mapVal (fun _ => .unit) (Root.rename env root s d fl))
  | "capi" :: fn :: kvs => do
    let kv (k : String) : Option String := kvVal kvs k
    let int (k : String) : Except String Int :=
      match (kv k).bind String.toInt? with | some n => .ok n | none => .error s!"capi {k}"
    let natk (k : String) : Except String Nat :=
      match (kv k).bind String.toNat? with | some n => .ok n | none => .error s!"capi {k}"
    let optBytes (k : String) : Except String (Option Bytes) :=
      match kv k with
      | some "null" => .ok none
      | some s => match unhex s with | some b => .ok (some b) | none => .error s!"capi hex {k}"
      | none => .error s!"capi {k}"
    let fd ← int "fd"
    let path ← optBytes "path"
    let path2 ← optBytes "path2"
    let flagsI ← int "flags"
    let flags := (flagsI.toNat)
    let mode ← natk "mode"
    let dev ← natk "dev"
    let base ← natk "base"
    let bufsize : Option Nat := (kv "bufsize").bind String.toNat?
    let buf0 : Option Bytes := bufsize.map fun n => List.replicate n 0xAA
    let bs := bufsize.getD 64
    let unit (p : M Unit) : M Val := mapVal (fun _ => .num 0 none) p
    match fn with
    | "open_root" => pure (mapVal .fd (Capi.openRoot path))
    | "reopen" => pure (mapVal .fd (Capi.reopen env fd flags))
    | "resolve" => pure (mapVal .fd (Capi.resolve env false fd path false))
    | "resolve_nofollow" => pure (mapVal .fd (Capi.resolve env false fd path true))
    | "open" => pure (mapVal .fd (Capi.openSubpath env false fd path flags))
    | "readlink" => pure (mapVal (fun (n, b) => .num n b) (Capi.readlink env false fd path buf0 bs))
    | "rename" => pure (unit (Capi.rename env false fd path path2 flags))
    | "rmdir" => pure (unit (Capi.rmdir env false fd path))
    | "unlink" => pure (unit (Capi.unlink env false fd path))
    | "remove_all" => pure (unit (Capi.removeAll env false fd path))
    | "creat" => pure (mapVal .fd (Capi.creat env false fd path flags mode))
    | "mkdir" => pure (unit (Capi.mkdir env false fd path mode))
    | "mkdir_all" => pure (mapVal .fd (Capi.mkdirAll env false fd path mode))
    | "mknod" => pure (unit (Capi.mknod env false fd path mode dev))
    | "symlink" => pure (unit (Capi.symlink env false fd path path2))
    | "hardlink" => pure (unit (Capi.hardlink env false fd path path2))
    | "proc_open" => pure (mapVal .fd (Capi.procOpen env base path flags))
    | "proc_readlink" => pure (mapVal (fun (n, b) => .num n b) (Capi.procReadlink env base path buf0 bs))
    | other => .error s!"unknown C function {other}"
  | ["proc_new", kind] =>
    match kind with
    | "new" => pure (mapVal .handle (Procfs.new env))
    | "new_unmasked" => pure (mapVal .handle (Procfs.newUnmasked env))
    | "fsopen_subset" => pure (mapVal .handle (Procfs.newFsopen env true))
    | "fsopen_full" => pure (mapVal .handle (Procfs.newFsopen env false))
    | "open_tree" => pure (mapVal .handle (Procfs.newOpenTree env 0))
    | "open_tree_recursive" => pure (mapVal .handle (Procfs.newOpenTree env AT_RECURSIVE))
    | "unsafe_open" => pure (mapVal .handle (Procfs.newUnsafeOpen env))
    | other => .error s!"proc_new {other}"
  | ["reopen", _, fl, _] => do
    let fl ← nat fl
    match (kvVal c.handle "fd").bind String.toInt? with
    | some h => pure (mapVal .fd (Procfs.reopen env h fl))
    | none => .error "reopen: no handle"
  | [pop, base, fl, p] =>
    if !(pop.startsWith "proc_") then .error s!"unknown op {c.op}" else do
    let p ← bytes p
    let fl ← nat fl
    let base ← match base with
      | "root" => pure Procfs.Base.root
      | "self" => pure Procfs.Base.self
      | "thread_self" => pure Procfs.Base.threadSelf
      | b => .error s!"base {b}"
    let hsubset := (cfgVal c "hsubset") = some "1"
    let hemu := (cfgVal c "hemu") = some "1"
    let hmnt : Option Nat := (cfgVal c "hmnt").bind String.toNat?
    let h : ProcH := { fd := rootfd, mntId := hmnt, isSubset := hsubset, emulated := hemu }
    match pop with
    | "proc_open" => pure (mapVal .fd (Procfs.openH env Procfs.retryFuel h base p fl))
    | "proc_open_follow" => pure (mapVal .fd (Procfs.openFollowH env h base p fl))
    | "proc_readlink" => pure (mapVal .bytes (Procfs.readlinkH env h base p))
    | other => .error s!"unknown procfs op {other}"
  | _ => .error s!"unknown op {c.op}"

def showCall (c : Call) : String := reprStr c

/-- verdict for one case -/
def judge (c : Case) : String :=
  match c.bad with
  | some why => s!"case {c.id} PARSE {why}"
  | none =>
    match modelOf c with
    | .error why => s!"case {c.id} PARSE {why}"
    | .ok prog =>
      match replay prog c.events [] 0 with
      | .mismatch step model impl _ =>
        let implS := match impl with | some i => showCall i | none => "<end of transcript>"
        s!"case {c.id} MISMATCH step={step} model={showCall model} impl={implS}"
      | .done a modelCloses rest steps =>
        let leftover := skipCloses rest
        if !leftover.isEmpty then
          s!"case {c.id} MISMATCH step={steps} model=<returned {resultLine a}> impl={showCall (leftover.head!.1)}"
        else
          let want := implResultLine c.res
          let got := match a, c.res with
            | .error e, "cerr" :: _ => if e.isFatal then resultLine a else s!"cerr {Capi.cErrno e}"
            | _, _ => resultLine a
          let got' := if got.startsWith "panic" then "panic" else got
          -- caller buffer: 8 canary bytes, the buffer, 8 canary bytes
          let bufBad : Option String := match a, c.buf with
            | .ok (.num _ (some mb)), some region =>
              let want := hex (List.replicate 8 0xAA ++ mb ++ List.replicate 8 0xAA)
              if want = region then none else some s!"model={want} impl={region}"
            | .error _, some region =>
              match unhex region with
              | some r => if r.all (· == 0xAA) then none else some s!"buffer written on error: {region}"
              | none => some "bad buffer dump"
            | _, _ => none
          if got' ≠ want then
            s!"case {c.id} RESULT model={got} impl={want}"
          else if bufBad.isSome then
            s!"case {c.id} BUFFER {bufBad.getD ""}"
          else
            let rootfd := ((cfgVal c "rootfd").bind String.toInt?).getD (-1)
            let hfd := ((kvVal c.handle "fd").bind String.toInt?).toList
            let implCloses := sortFds (trackedCloses c.events (rootfd :: hfd))
            let modelCl := sortFds modelCloses
            -- a panic unwinds through destructors the model does not follow
            if got' ≠ "panic" ∧ implCloses ≠ modelCl then
              s!"case {c.id} CLOSES model={modelCl} impl={implCloses}"
            else s!"case {c.id} ok steps={steps} res={got}"


/-! ## The kernel specification evaluated on the generated tree (validates `World.kresolve`
against the live kernel's raw `openat2` answer recorded by the harness) -/

structure TEntry where
  kind : String
  path : Bytes
  target : Bytes := []
  hard : Nat := 0
deriving Inhabited

def parseEntry : List String → Option TEntry
  | ["l", p, _, t] => do pure { kind := "l", path := ← unhex p, target := ← unhex t }
  | ["h", p, _, i] => do pure { kind := "h", path := ← unhex p, hard := ← i.toNat? }
  | [k, p, _] => do pure { kind := k, path := ← unhex p }
  | _ => none

def specId (label : Nat) : Fd := 4 + 2 * (label : Int)

/-- the world of a generated tree: the root is label 0, entry `i` label `i+1`, a hard link is
the object of its first name -/
def specWorld (ents : List TEntry) : World :=
  let arr := ents.toArray
  let entOf (fd : Fd) : Option TEntry :=
    if fd < 6 ∨ fd % 2 ≠ 0 then none else arr[((fd - 6) / 2).toNat]?
  let idOfPath (p : Bytes) : Option Fd :=
    if p = [] then some 4 else
    match ents.findIdx? (fun e => e.path = p) with
    | none => none
    | some i => match ents[i]? with
      | some e => if e.kind = "h" then some (specId e.hard) else some (specId (i + 1))
      | none => none
  let pathOf (fd : Fd) : Option Bytes :=
    if fd = 4 then some [] else (entOf fd).map (·.path)
  { root := 4
    kind := fun fd =>
      if fd = 4 then .dir else
      match entOf fd with
      | some e => if e.kind = "d" then .dir else if e.kind = "l" then .lnk else .other
      | none => .other
    child := fun d n =>
      match pathOf d with
      | some dp => idOfPath (if dp = [] then n else dp ++ Path.slash :: n)
      | none => none
    parent := fun fd =>
      match pathOf fd with
      | some p =>
        let comps := Path.splitSlash p
        (idOfPath (Path.joinSlash comps.dropLast)).getD 4
      | none => 4
    body := fun fd => match entOf fd with | some e => e.target | none => []
    dpath := fun fd => (pathOf fd).map fun p => if p = [] then [] else Path.splitSlash p
    rootComps := []
    procMnt := 0
    kernelLinks := 41 }

def judgeSpec (c : Case) : String :=
  let go (nofollow : Bool) (p : String) (wantBody : Bool) : String :=
    match unhex p, c.tree.mapM parseEntry, c.kern with
    | some path, some ents, _ :: _ =>
      if path.contains 0 then s!"spec {c.id} skip nul" else
      let w := specWorld ents
      let rflags := ((cfgVal c "rflags").bind String.toNat?).getD 0
      let cfg : World.Cfg := { nofollow, noSymlinks := hasAll rflags RESOLVE_NO_SYMLINKS, maxLinks := w.kernelLinks }
      let got : String := match World.resolveInRoot w cfg path with
        | .error e => s!"err {e}"
        | .ok o =>
          if wantBody then
            (if w.kind o = .lnk then s!"ok bytes {hex (w.body o)}" else "err notlink")
          else s!"ok label={(o - 4) / 2}"
      let want : String := match c.kern with
        | ["err", e] => s!"err {e}"
        | "ok" :: "bytes" :: b :: _ => s!"ok bytes {b}"
        | "ok" :: "fd" :: rest => s!"ok label={(kvVal rest "label").getD "?"}"
        | other => s!"? {other}"
      if want = "err 36" then s!"spec {c.id} skip nametoolong"
      else if got = want ∨ (got = "err notlink" ∧ (want = "err 22" ∨ want = "err 2")) then s!"spec {c.id} ok {got}"
      else s!"spec {c.id} DIFF spec={got} kernel={want}"
    | _, _, _ => s!"spec {c.id} skip nokern"
  /- the one-shot open: in-root resolution, then `World.openKind` of the object found (validated for regular
  files, directories and symlinks; fifos and sockets have open(2) semantics of their own) -/
  let goOpen (fl : String) (p : String) : String :=
    match unhex p, c.tree.mapM parseEntry, c.kern, fl.toNat? with
    | some path, some ents, _ :: _, some flags =>
      if path.contains 0 then s!"spec {c.id} skip nul" else
      let w := specWorld ents
      let rflags := ((cfgVal c "rflags").bind String.toNat?).getD 0
      let cfg : World.Cfg := { nofollow := hasAll flags O_NOFOLLOW, noSymlinks := hasAll rflags RESOLVE_NO_SYMLINKS,
                               maxLinks := w.kernelLinks }
      let want : String := match c.kern with
        | ["err", e] => s!"err {e}"
        | "ok" :: "fd" :: rest => s!"ok label={(kvVal rest "label").getD "?"}"
        | other => s!"? {other}"
      match World.resolveInRoot w cfg path with
      | .error e =>
        if want = "err 36" then s!"spec {c.id} skip nametoolong"
        else if want = s!"err {e}" then s!"spec {c.id} ok err {e}" else s!"spec {c.id} DIFF spec=err {e} kernel={want}"
      | .ok o =>
        let label := ((o - 4) / 2).toNat
        let ekind : String := if label = 0 then "d" else match ents[label - 1]? with | some e => e.kind | none => "?"
        if !(ekind = "d" ∨ ekind = "l" ∨ ekind = "f" ∨ ekind = "h") then s!"spec {c.id} skip kind {ekind}" else
        let got : String := match World.openKind (w.kind o) flags with
          | .ok () => s!"ok label={label}"
          | .error e => s!"err {e}"
        if got = want then s!"spec {c.id} ok {got}" else s!"spec {c.id} DIFF spec={got} kernel={want} flags={flags} kind={ekind}"
    | _, _, _, _ => s!"spec {c.id} skip nokern"
  match c.op with
  | ["resolve", nf, p] => go (nf = "1") p false
  | ["readlink", p] => go true p true
  | ["open_subpath", fl, p] => goOpen fl p
  | _ => s!"spec {c.id} skip op"

partial def readCases (h : IO.FS.Stream) (cur : Case) (inAfter : Bool) (pendingCall : Option Call)
    (emit : Case → IO Unit) : IO Unit := do
  let line ← h.getLine
  if line.isEmpty then return ()
  let toks := tokens (line.trimAscii.toString)
  match toks with
  | ["case", id] => readCases h { id := id } false none emit
  | "meta" :: rest => readCases h { cur with meta' := rest } inAfter pendingCall emit
  | "tree" :: _ => readCases h cur inAfter pendingCall emit
  | "e" :: rest => readCases h { cur with tree := cur.tree ++ [rest] } inAfter pendingCall emit
  | "op" :: rest => readCases h { cur with op := rest } inAfter pendingCall emit
  | "cfg" :: rest => readCases h { cur with cfg := rest } inAfter pendingCall emit
  | "handle" :: rest => readCases h { cur with handle := rest } inAfter pendingCall emit
  | "c" :: rest =>
    match parseCall rest with
    | some c => readCases h cur inAfter (some c) emit
    | none => readCases h { cur with bad := some s!"call {rest}" } inAfter none emit
  | "r" :: rest =>
    match pendingCall, parseResp rest with
    | some c, some r => readCases h { cur with events := (c, r) :: cur.events } inAfter none emit
    | _, _ => readCases h { cur with bad := some s!"resp {rest}" } inAfter none emit
  | "res" :: rest => readCases h { cur with res := rest } inAfter pendingCall emit
  | "kern" :: rest => readCases h { cur with kern := rest } inAfter pendingCall emit
  | "kernb" :: rest => readCases h { cur with kernb := rest } inAfter pendingCall emit
  | "fdt" :: rest => readCases h { cur with fdt := rest } inAfter pendingCall emit
  | "t" :: rest => readCases h { cur with tlines := rest :: cur.tlines } inAfter pendingCall emit
  | ["buf", b] => readCases h { cur with buf := some b } inAfter pendingCall emit
  | "snap" :: rest => readCases h { cur with snaps := cur.snaps ++ [rest] } inAfter pendingCall emit
  | ["after"] => readCases h cur true pendingCall emit
  | "a" :: rest => readCases h { cur with after := cur.after ++ [rest] } inAfter pendingCall emit
  | ["end"] => do
    emit { cur with events := cur.events.reverse, tlines := cur.tlines.reverse }
    readCases h {} false none emit
  | _ => readCases h cur inAfter pendingCall emit

/-- the discipline predicate of C05 evaluated on the recorded calls of the implementation -/
def judgeDisc (c : Case) : String :=
  match c.events.find? fun (cl, _) => !decide (Disc true cl) with
  | none =>
    let follows := c.events.filter fun (cl, _) => !decide (Disc false cl)
    -- the only legitimate followed open is the procfs magic-link `fd/<n>` of the reopen path
    let badFollow := follows.find? fun (cl, _) =>
      match cl with
      | .openat _ name _ _ => !(allDigits name && !name.isEmpty)
      | _ => true
    match badFollow with
    | some (cl, _) => s!"disc {c.id} BAD followed open of something that is not a procfs fd link: {showCall cl}"
    | none => s!"disc {c.id} ok calls={c.events.length} follow_opens={follows.length}"
  | some (cl, _) => s!"disc {c.id} BAD {showCall cl}"

/-- the generated tree as a `PWorld` (one mount, no magic-links): validates `PWorld.resolveBeneath` — the trusted
specification of `openat2(RESOLVE_BENEATH|RESOLVE_NO_XDEV|RESOLVE_NO_MAGICLINKS)` behind the C06/C07 refinement theorems —
against the live kernel's answer to that very call on the same tree (`kernb` line) -/
def judgePSpec (c : Case) : String :=
  let go (flags : Nat) (p : String) : String :=
    match unhex p, c.tree.mapM parseEntry, c.kernb with
    | some path, some ents, _ :: _ =>
      if path.contains 0 then s!"pspec {c.id} skip nul" else
      let w := specWorld ents
      let pw : PWorld :=
        { base := w.root
          kind := fun fd => match w.kind fd with | .dir => .dir | .lnk => .lnk | .other => .other
          child := w.child, parent := w.parent, body := w.body, mnt := fun _ => 1, kernelLinks := w.kernelLinks }
      let rflags := ((cfgVal c "rflags").bind String.toNat?).getD 0
      let cfg : PWorld.PCfg := { oflags := flags, noSymlinks := hasAll rflags RESOLVE_NO_SYMLINKS, maxLinks := w.kernelLinks }
      let want : String := match c.kernb with
        | ["err", e] => s!"err {e}"
        | "ok" :: "fd" :: rest => s!"ok label={(kvVal rest "label").getD "?"}"
        | other => s!"? {other}"
      match PWorld.resolveBeneath pw cfg path with
      | .error e =>
        if want = "err 36" then s!"pspec {c.id} skip nametoolong"
        else if want = s!"err {e}" then s!"pspec {c.id} ok err {e}" else s!"pspec {c.id} DIFF spec=err {e} kernel={want} flags={flags}"
      | .ok o =>
        let label := ((o - 4) / 2).toNat
        let ekind : String := if label = 0 then "d" else match ents[label - 1]? with | some e => e.kind | none => "?"
        if !(ekind = "d" ∨ ekind = "l" ∨ ekind = "f" ∨ ekind = "h") then s!"pspec {c.id} skip kind {ekind}" else
        let got := s!"ok label={label}"
        if got = want then s!"pspec {c.id} ok {got}" else s!"pspec {c.id} DIFF spec={got} kernel={want} flags={flags} kind={ekind}"
    | _, _, _ => s!"pspec {c.id} skip nokern"
  match c.op with
  | ["resolve", nf, p] => go (if nf = "1" then O_PATH ||| O_NOFOLLOW else O_PATH) p
  | ["open_subpath", fl, p] => match fl.toNat? with | some f => go f p | none => s!"pspec {c.id} skip op"
  | _ => s!"pspec {c.id} skip op"

/-- `rustix::fs::Dir` opens a private descriptor of its own for a directory stream (the recorder sees `dir_open`
answered `unit`, and later the `close` of a number it never saw handed out): drop exactly those closes, one per
outstanding stream -/
def dropStreamCloses : Hist → List Fd → Nat → Hist
  | [], _, _ => []
  | (c, r) :: rest, known, streams =>
    match c with
    | .dirOpen _ => (c, r) :: dropStreamCloses rest known (if r = .unit then streams + 1 else streams)
    | .close n =>
      if known.contains n then (c, r) :: dropStreamCloses rest (known.erase n) streams
      else if streams > 0 then dropStreamCloses rest known (streams - 1)
      else (c, r) :: dropStreamCloses rest known streams
    | _ =>
      match Ledger.produced c r with
      | some n => (c, r) :: dropStreamCloses rest (n :: known) streams
      | none => (c, r) :: dropStreamCloses rest known streams

/-- the descriptor ledger of C11 evaluated on the recorded calls of the implementation: everything the call was handed
and did not close is the descriptor it returns (for `ok fd` results), nothing otherwise; it never closes a descriptor it
was not handed -/
def judgeLedger (c : Case) : String :=
  match Ledger.ledger [] (dropStreamCloses c.events [] 0) with
  | none => s!"ledger {c.id} BAD the call closed a descriptor it did not own"
  | some own =>
    let want : Option (List Fd) := match c.res with
      | "ok" :: "fd" :: rest => ((kvVal rest "fd").bind String.toInt?).map fun n => [n]
      | "ok" :: "handle" :: rest => ((kvVal rest "fd").bind String.toInt?).map fun n => [n]
      | "ok" :: "cint" :: _ => none      -- C API results: the number is a descriptor or a length, judged by the fd-table oracle
      | "panic" :: _ => none
      | _ => some []
    match want with
    | none => s!"ledger {c.id} skip"
    | some w => if own.mergeSort = w.mergeSort then s!"ledger {c.id} ok open={own.length}"
                else s!"ledger {c.id} BAD still open after the call: {own} expected {w}"

/-- replay a sequential history of the C error table through the model -/
def judgeErrTable (c : Case) : String :=
  let rec go : List (List String) → Capi.Table → Nat → String
    | [], _, n => s!"case {c.id} ok steps={n} res=errtable"
    | l :: rest, t, n =>
      match l with
      | ["store", _, want, id] =>
        match want.toNat?, id.toInt? with
        | some w, some i =>
          match Capi.store t w [i] with
          | some (_, t') => go rest t' (n + 1)
          | none => s!"case {c.id} RESULT step={n} store returned id {i} which is out of range or already live"
        | _, _ => s!"case {c.id} PARSE {l}"
      | "take" :: id :: out =>
        match id.toInt? with
        | some i =>
          let (r, t') := Capi.take t i
          match r, out with
          | none, ["none"] => go rest t' (n + 1)
          | some e, ["some", e', desc] =>
            if e'.toNat? = some e ∧ desc ≠ "0" then go rest t' (n + 1)
            else s!"case {c.id} RESULT step={n} take {i}: model errno {e}, impl {e'} desc_len {desc}"
          | none, _ => s!"case {c.id} RESULT step={n} take {i}: model none, impl {out}"
          | some e, _ => s!"case {c.id} RESULT step={n} take {i}: model some {e}, impl {out}"
        | none => s!"case {c.id} PARSE {l}"
      | _ => s!"case {c.id} PARSE {l}"
  go c.tlines [] 0

def main : IO Unit := do
  let stdin ← IO.getStdin
  readCases stdin {} false none fun c => do
    match c.op with
    | ["errtable"] => IO.println (judgeErrTable c)
    | ["errtable_threads"] => IO.println s!"case {c.id} ok steps=0 res=checked-by-history-oracle"
    | _ =>
      IO.println (judge c)
      IO.println (judgeDisc c)
      IO.println (judgeSpec c)
      IO.println (judgeLedger c)
      IO.println (judgePSpec c)
