/-!
# ABI description tables and their consistency check (property C18)

The tables themselves are regenerated from /repo's sources on every run by
`tools/abi_extract.py` into `Pathrs/Generated/AbiData.lean`.
Symbols, enum constants and struct fields are numbered by the translator.
-/

namespace Abi

/-- ABI classes of the C types that occur in the API (LP64 Linux) -/
inductive CType where
  | i32 | u32 | u64 | usize | devt | enum64 | cstr | buf | errptr | void
  /-- an argument whose C type the translator could not see (an untyped variable at a call site) -/
  | any
  /-- alignment attribute of a struct -/
  | align (n : Nat)
deriving DecidableEq, Repr

/-- width in bits -/
def CType.width : CType → Nat
  | .i32 | .u32 => 32
  | .void | .align _ | .any => 0
  | _ => 64

structure FnSig where
  name : Nat
  ret : CType
  args : List CType
deriving DecidableEq, Repr

/-- does the class a binding passes agree with the declared one? -/
def compat (declared used : CType) : Bool :=
  used = .any || declared = used

def argsCompat : List CType → List CType → Bool
  | [], [] => true
  | d :: ds, u :: us => compat d u && argsCompat ds us
  | _, _ => false

def callOk (header : List FnSig) (c : FnSig) : Bool :=
  match header.find? (fun h => h.name = c.name) with
  | some h => argsCompat h.args c.args
  | none => false

def arityOk (header : List FnSig) (c : Nat × Nat) : Bool :=
  match header.find? (fun h => h.name = c.1) with
  | some h => h.args.length = c.2
  | none => false

structure Tables where
  rust : List FnSig
  header : List FnSig
  rustEnum : List (Nat × Nat)
  headerEnum : List (Nat × Nat)
  rustStruct : List (Nat × CType)
  headerStruct : List (Nat × CType)
  goCalls : List FnSig
  goConsts : List Nat
  pyCalls : List (Nat × Nat)
  pyConsts : List Nat
  pyTypedefs : List (CType × CType)
  renamesOk : Bool
  /-- the named constants the bindings export: (the header constant of that name, the header constant assigned to it) -/
  aliases : List (Nat × Nat) := []

/-- the consistency of declarations, values, layouts and call sites -/
def checkCore (t : Tables) : Bool :=
  t.rust == t.header
  && t.rustEnum == t.headerEnum
  && t.rustStruct == t.headerStruct
  && t.goCalls.all (callOk t.header)
  && t.goConsts.all (fun k => t.headerEnum.any (fun kv => kv.1 = k))
  && t.pyCalls.all (arityOk t.header)
  && t.pyConsts.all (fun k => t.headerEnum.any (fun kv => kv.1 = k))
  && t.pyTypedefs.all (fun p => p.1.width = p.2.width)
  && t.renamesOk

/-- the whole consistency check: the above, and every named constant of a binding denotes the header constant of the
same name (`PROC_THREAD_SELF = libpathrs_so.PATHRS_PROC_THREAD_SELF`, `pathrsProcSelf = C.PATHRS_PROC_SELF`) -/
def check (t : Tables) : Bool :=
  checkCore t && t.aliases.all (fun p => p.1 == p.2)

end Abi
