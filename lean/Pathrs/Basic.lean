/-!
# Interaction-tree model of libpathrs: signature and semantics

libpathrs is modelled as a deterministic program that talks to an adversarial
environment through the system calls of `src/syscalls.rs` (plus the three libc
entry points Rust's std uses on its behalf: `close`, `fcntl(F_DUPFD_CLOEXEC)`,
`readlink`).  `Call` mirrors the recorder of `/repo/src/verif.rs` one-to-one.
-/

abbrev Bytes := List UInt8
abbrev Fd := Int

/-- A system call with the raw arguments the kernel sees. -/
inductive Call where
  | openat (dir : Fd) (name : Bytes) (flags mode : Nat)
  | openat2 (dir : Fd) (path : Bytes) (flags mode resolve size : Nat)
  | readlinkat (dir : Fd) (name : Bytes) (bufsize : Nat)
  | fstatat (dir : Fd) (name : Bytes) (flags : Nat)
  | statx (dir : Fd) (name : Bytes) (flags mask : Nat)
  | fstatfs (fd : Fd)
  | accessat (dir : Fd) (name : Bytes) (access flags : Nat)
  | mkdirat (dir : Fd) (name : Bytes) (mode : Nat)
  | mknodat (dir : Fd) (name : Bytes) (mode dev : Nat)
  | unlinkat (dir : Fd) (name : Bytes) (flags : Nat)
  | linkat (odir : Fd) (oname : Bytes) (ndir : Fd) (nname : Bytes) (flags : Nat)
  | symlinkat (target : Bytes) (dir : Fd) (name : Bytes)
  | renameat (odir : Fd) (oname : Bytes) (ndir : Fd) (nname : Bytes)
  | renameat2 (odir : Fd) (oname : Bytes) (ndir : Fd) (nname : Bytes) (flags : Nat)
  | dup (fd : Fd) (min : Nat)
  | close (fd : Fd)
  | dirOpen (fd : Fd)
  | dirNext (fd : Fd)
  | gettid
  | geteuid
  | fsopen (fstype : Bytes) (flags : Nat)
  | fsconfigSetString (fd : Fd) (key val : Bytes)
  | fsconfigCreate (fd : Fd)
  | fsmount (fd : Fd) (flags attrs : Nat)
  | openTree (dir : Fd) (path : Bytes) (flags : Nat)
  | readlinkAbs (path : Bytes)
  | readLine (fd : Fd)
  | random
deriving DecidableEq, Repr, Inhabited

/-- An answer of the environment. -/
inductive Resp where
  | fd (n : Fd)
  | unit
  | bytes (b : Bytes)
  | nums (l : List Nat)
  | fin
  | err (e : Nat)
deriving DecidableEq, Repr, Inhabited

/-- Interaction trees over the syscall signature. -/
inductive Prog (α : Type) where
  | ret : α → Prog α
  | call : Call → (Resp → Prog α) → Prog α

namespace Prog

def bind : Prog α → (α → Prog β) → Prog β
  | .ret a, f => f a
  | .call c k, f => .call c fun r => bind (k r) f

instance : Monad Prog where
  pure := .ret
  bind := bind

/-- perform one call and return the raw answer -/
def perform (c : Call) : Prog Resp := .call c .ret

@[simp] theorem bind_ret (a : α) (f : α → Prog β) : bind (.ret a) f = f a := rfl
@[simp] theorem bind_call (c : Call) (k : Resp → Prog α) (f : α → Prog β) :
    bind (.call c k) f = .call c fun r => bind (k r) f := rfl
@[simp] theorem pure_eq (a : α) : (pure a : Prog α) = .ret a := rfl
@[simp] theorem bind_eq (p : Prog α) (f : α → Prog β) : p >>= f = bind p f := rfl

theorem bind_assoc (p : Prog α) (f : α → Prog β) (g : β → Prog γ) :
    bind (bind p f) g = bind p fun a => bind (f a) g := by
  induction p with
  | ret a => rfl
  | call c k ih => simp [bind, ih]

@[simp] theorem bind_ret_right (p : Prog α) : bind p .ret = p := by
  induction p with
  | ret a => rfl
  | call c k ih => simp [bind, ih]

end Prog

/-- The history of a run: calls with their answers, oldest first. -/
abbrev Hist := List (Call × Resp)

/-- An environment: answers every call as an arbitrary function of the whole
history so far.  Kernel states, attacker interleavings, injected faults and
mount layouts are all particular oracles. -/
abbrev Oracle := Hist → Call → Resp

namespace Prog

/-- Run a program against an oracle, extending the history. -/
def trace (o : Oracle) : Prog α → Hist → Hist × α
  | .ret a, h => (h, a)
  | .call c k, h => trace o (k (o h c)) (h ++ [(c, o h c)])

/-- Run against a deterministic state machine (kernel model, schedules, ...). -/
def runState (step : σ → Call → σ × Resp) : Prog α → σ → σ × α
  | .ret a, s => (s, a)
  | .call c k, s => runState step (k (step s c).2) (step s c).1

/-- All-oracle postcondition: `P` holds of the final history and result for
every possible sequence of answers. -/
def wp : Prog α → Hist → (Hist → α → Prop) → Prop
  | .ret a, h, P => P h a
  | .call c k, h, P => ∀ r, wp (k r) (h ++ [(c, r)]) P

theorem wp_bind (p : Prog α) (f : α → Prog β) (h : Hist) (P : Hist → β → Prop) :
    wp (bind p f) h P ↔ wp p h (fun h' a => wp (f a) h' P) := by
  induction p generalizing h with
  | ret a => simp [wp]
  | call c k ih => simp [wp, ih]

theorem wp_mono (p : Prog α) (h : Hist) (P Q : Hist → α → Prop)
    (hPQ : ∀ h a, P h a → Q h a) : wp p h P → wp p h Q := by
  induction p generalizing h with
  | ret a => exact hPQ h a
  | call c k ih => intro hp r; exact ih r _ (hp r)

theorem wp_trace (p : Prog α) (h : Hist) (P : Hist → α → Prop) (hp : wp p h P) (o : Oracle) :
    P (trace o p h).1 (trace o p h).2 := by
  induction p generalizing h with
  | ret a => exact hp
  | call c k ih => exact ih _ _ (hp _)

/-- The oracle that replays a fixed list of answers (then `unit`). -/
def replayOracle (rs : List Resp) : Oracle := fun h _ => (rs[h.length]?).getD .unit

theorem wp_iff_all_oracles (p : Prog α) (P : Hist → α → Prop) :
    wp p [] P → ∀ o : Oracle, P (trace o p []).1 (trace o p []).2 :=
  fun hp o => wp_trace p [] P hp o

/-- Every call the program can make, under any answers, satisfies `D`
(which may inspect the history before the call). -/
def AllCalls (D : Hist → Call → Prop) : Prog α → Hist → Prop
  | .ret _, _ => True
  | .call c k, h => D h c ∧ ∀ r, AllCalls D (k r) (h ++ [(c, r)])

theorem allCalls_bind (D : Hist → Call → Prop) (p : Prog α) (f : α → Prog β) (h : Hist) :
    AllCalls D (bind p f) h ↔
      AllCalls D p h ∧ wp p h (fun h' a => AllCalls D (f a) h') := by
  induction p generalizing h with
  | ret a => simp [AllCalls, wp]
  | call c k ih =>
    simp only [bind, AllCalls, wp, ih]
    constructor
    · rintro ⟨hd, hr⟩
      exact ⟨⟨hd, fun r => (hr r).1⟩, fun r => (hr r).2⟩
    · rintro ⟨⟨hd, h1⟩, h2⟩
      exact ⟨hd, fun r => ⟨h1 r, h2 r⟩⟩

/-- `AllCalls` for a history-independent predicate. -/
def AllCalls' (D : Call → Prop) : Prog α → Prop
  | .ret _ => True
  | .call c k => D c ∧ ∀ r, AllCalls' D (k r)

theorem allCalls'_bind (D : Call → Prop) (p : Prog α) (f : α → Prog β)
    (hp : AllCalls' D p) (hf : ∀ a, AllCalls' D (f a)) : AllCalls' D (bind p f) := by
  induction p with
  | ret a => exact hf a
  | call c k ih => exact ⟨hp.1, fun r => ih r (hp.2 r)⟩

theorem allCalls'_trace (D : Call → Prop) (p : Prog α) (hp : AllCalls' D p) (o : Oracle)
    (h : Hist) (hh : ∀ cr ∈ h, D cr.1) : ∀ cr ∈ (trace o p h).1, D cr.1 := by
  induction p generalizing h with
  | ret a => exact hh
  | call c k ih =>
    apply ih _ (hp.2 _)
    intro cr hcr
    rcases List.mem_append.mp hcr with h1 | h1
    · exact hh cr h1
    · simp at h1; subst h1; exact hp.1

end Prog

/-! ## Errors and the error monad -/

/-- `ErrorKind` of the crate, plus the two outcomes that are not errors of the
library: a Rust panic at a named site, and an answer of the wrong shape. -/
inductive Err where
  | notImplemented
  | notSupported
  | invalidArgument
  | safetyViolation
  | internalError
  | os (e : Nat)
  | osNone
  | panic (site : String)
  | badResp (site : String)
  | outOfFuel (site : String)
deriving DecidableEq, Repr, Inhabited

/-- Programs that may fail with an `Err`. -/
def M (α : Type) := Prog (Except Err α)

namespace M

def pure' (a : α) : M α := Prog.ret (.ok a)
def throw' (e : Err) : M α := Prog.ret (.error e)

def bind' (p : M α) (f : α → M β) : M β :=
  Prog.bind p fun
    | .ok a => f a
    | .error e => Prog.ret (.error e)

instance : Monad M where
  pure := pure'
  bind := bind'

instance : MonadExcept Err M where
  throw := throw'
  tryCatch p h := Prog.bind p fun
    | .ok a => Prog.ret (.ok a)
    | .error e => h e

/-- lift an infallible program -/
def lift (p : Prog α) : M α := Prog.bind p fun a => Prog.ret (.ok a)

instance : MonadLift Prog M := ⟨lift⟩

/-- lift a pure `Except` -/
def ofExcept : Except Err α → M α
  | .ok a => pure' a
  | .error e => throw' e

instance : MonadLift (Except Err) M := ⟨ofExcept⟩

/-- perform a call -/
def call (c : Call) : M Resp := lift (Prog.perform c)

/-- run `cleanup` if `p` fails, then re-raise -/
def onErr (p : M α) (cleanup : Prog Unit) : M α :=
  Prog.bind p fun
    | .ok a => Prog.ret (.ok a)
    | .error e => Prog.bind cleanup fun _ => Prog.ret (.error e)

/-- run `cleanup` after `p`, whatever the result -/
def finally' (p : M α) (cleanup : Prog Unit) : M α :=
  Prog.bind p fun r => Prog.bind cleanup fun _ => Prog.ret r

/-- result of `p` as a value -/
def attempt (p : M α) : Prog (Except Err α) := p

theorem pure_def (a : α) : (pure a : M α) = Prog.ret (.ok a) := rfl
theorem throw_def (e : Err) : (throw e : M α) = Prog.ret (.error e) := rfl
@[simp] theorem bind_def (p : M α) (f : α → M β) : p >>= f = bind' p f := rfl
-- (the simp normal form keeps `pure`/`throw`, which are typed in `M`: rewriting them to
-- `Prog.ret` leaves terms that are only well-typed after unfolding `M`)
@[simp] theorem bind_error (e : Err) (f : α → M β) : bind' (throw e : M α) f = throw e := rfl
@[simp] theorem bind_ok (a : α) (f : α → M β) : bind' (pure a : M α) f = f a := rfl
@[simp] theorem ofExcept_ok (a : α) : ofExcept (.ok a : Except Err α) = (pure a : M α) := rfl
@[simp] theorem ofExcept_error (e : Err) : ofExcept (.error e : Except Err α) = (throw e : M α) := rfl
@[simp] theorem liftM_except (x : Except Err α) : (liftM x : M α) = ofExcept x := rfl
@[simp] theorem monadLift_except (x : Except Err α) : (monadLift x : M α) = ofExcept x := rfl

end M
