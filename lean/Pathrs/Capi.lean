import Pathrs.Root

/-!
# The C boundary (`src/capi/*.rs`): argument validation, buffer copies, the error table
-/

open K

namespace Capi

/-- `CBorrowedFd::try_as_borrowed_fd` -/
def borrowFd (fd : Int) : Except Err Fd :=
  if fd < 0 then .error .invalidArgument else .ok fd

/-- `parse_path`: `none` is a NULL pointer -/
def parsePath (p : Option Bytes) : Except Err Bytes :=
  match p with
  | none => .error .invalidArgument
  | some b => .ok b

def PATHRS_PROC_ROOT : Nat := 0x5001FFFF
def PATHRS_PROC_SELF : Nat := 0x091D5E1F
def PATHRS_PROC_THREAD_SELF : Nat := 0x3EAD5E1F

/-- `TryFrom<CProcfsBase> for ProcfsBase` -/
def procBase (v : Nat) : Except Err Procfs.Base :=
  if v = PATHRS_PROC_ROOT then .ok .root
  else if v = PATHRS_PROC_SELF then .ok .self
  else if v = PATHRS_PROC_THREAD_SELF then .ok .threadSelf
  else .error .invalidArgument

/-- `copy_path_into_buffer`: the caller's buffer (`none` = NULL) of `bufsize`
bytes; returns the length of the path and the buffer afterwards. -/
def copyPathIntoBuffer (path : Bytes) (buf : Option Bytes) (bufsize : Nat) : Nat × Option Bytes :=
  match buf with
  | none => (path.length, none)
  | some b =>
    if bufsize > 0 then
      let n := min path.length bufsize
      (path.length, some (path.take n ++ b.drop n))
    else (path.length, some b)

/-- the decoding of `mode` in `pathrs_inroot_mknod` -/
def mknodType (mode dev : Nat) : Except Err InodeType :=
  let fmt := mode &&& S_IFMT
  let perms := mode ^^^ fmt
  if fmt = S_IFREG then .ok (.file perms)
  else if fmt = S_IFDIR then .ok (.directory perms)
  else if fmt = S_IFBLK then .ok (.blockDev perms dev)
  else if fmt = S_IFCHR then .ok (.charDev perms dev)
  else if fmt = S_IFIFO then .ok (.fifo perms)
  else if fmt = S_IFSOCK then .error .notImplemented
  else .error .invalidArgument

/-- `CError::saved_errno` (`ErrorKind::errno().unwrap_or(0)`) -/
def cErrno : Err → Nat
  | .notImplemented => ENOSYS
  | .invalidArgument => EINVAL
  | .safetyViolation => EXDEV
  | .os e => e
  | _ => 0

/-- a `RootRef::from_fd(fd)`: default resolver -/
def rootOf (env : Env) (emulated : Bool) (fd : Fd) : Root :=
  { fd, resolver := { emulated := emulated || !env.openat2, rflags := 0 } }

/-- the shape shared by the `pathrs_inroot_*` entry points: validate the
descriptor, then the path, then run the operation -/
def inroot (env : Env) (emulated : Bool) (fd : Int) (path : Option Bytes)
    (body : Root → Bytes → M α) : M α := do
  let fd ← (borrowFd fd : Except Err _)
  let root := rootOf env emulated fd
  let path ← (parsePath path : Except Err _)
  body root path

def inroot2 (env : Env) (emulated : Bool) (fd : Int) (p1 p2 : Option Bytes)
    (body : Root → Bytes → Bytes → M α) : M α := do
  let fd ← (borrowFd fd : Except Err _)
  let root := rootOf env emulated fd
  let p1 ← (parsePath p1 : Except Err _)
  let p2 ← (parsePath p2 : Except Err _)
  body root p1 p2

def resolve (env : Env) (emu : Bool) (fd : Int) (path : Option Bytes) (nofollow : Bool) : M Fd :=
  inroot env emu fd path fun root p => Root.resolve env root p nofollow

def openSubpath (env : Env) (emu : Bool) (fd : Int) (path : Option Bytes) (flags : Nat) : M Fd :=
  inroot env emu fd path fun root p => Root.openSubpath env root p flags

def readlink (env : Env) (emu : Bool) (fd : Int) (path : Option Bytes) (buf : Option Bytes)
    (bufsize : Nat) : M (Nat × Option Bytes) :=
  inroot env emu fd path fun root p => do
    let target ← Root.readlink env root p
    pure (copyPathIntoBuffer target buf bufsize)

def rename (env : Env) (emu : Bool) (fd : Int) (src dst : Option Bytes) (flags : Nat) : M Unit :=
  inroot2 env emu fd src dst fun root s d => Root.rename env root s d flags

def rmdir (env : Env) (emu : Bool) (fd : Int) (path : Option Bytes) : M Unit :=
  inroot env emu fd path fun root p => Root.removeInode env root p true

def unlink (env : Env) (emu : Bool) (fd : Int) (path : Option Bytes) : M Unit :=
  inroot env emu fd path fun root p => Root.removeInode env root p false

def removeAll (env : Env) (emu : Bool) (fd : Int) (path : Option Bytes) : M Unit :=
  inroot env emu fd path fun root p => Root.removeAll env root p

def creat (env : Env) (emu : Bool) (fd : Int) (path : Option Bytes) (flags mode : Nat) : M Fd :=
  inroot env emu fd path fun root p => Root.createFile env root p flags (clearBits mode S_IFMT)

def mkdirAll (env : Env) (emu : Bool) (fd : Int) (path : Option Bytes) (mode : Nat) : M Fd :=
  inroot env emu fd path fun root p => Root.mkdirAll env root p mode

def mknod (env : Env) (emu : Bool) (fd : Int) (path : Option Bytes) (mode dev : Nat) : M Unit :=
  inroot env emu fd path fun root p => do
    let ty ← (mknodType mode dev : Except Err _)
    Root.create env root p ty

def mkdir (env : Env) (emu : Bool) (fd : Int) (path : Option Bytes) (mode : Nat) : M Unit :=
  mknod env emu fd path (S_IFDIR ||| clearBits mode S_IFMT) 0

def symlink (env : Env) (emu : Bool) (fd : Int) (path target : Option Bytes) : M Unit :=
  inroot2 env emu fd path target fun root p t => Root.create env root p (.symlink t)

def hardlink (env : Env) (emu : Bool) (fd : Int) (path target : Option Bytes) : M Unit :=
  inroot2 env emu fd path target fun root p t => Root.create env root p (.hardlink t)

def reopen (env : Env) (fd : Int) (flags : Nat) : M Fd := do
  let fd ← (borrowFd fd : Except Err _)
  Procfs.reopen env fd flags

def procOpen (env : Env) (base : Nat) (path : Option Bytes) (flags : Nat) : M Fd := do
  let base ← (procBase base : Except Err _)
  let path ← (parsePath path : Except Err _)
  if hasAll flags O_NOFOLLOW then Procfs.openH env Procfs.retryFuel env.proc base path flags
  else Procfs.openFollowH env env.proc base path flags

def procReadlink (env : Env) (base : Nat) (path : Option Bytes) (buf : Option Bytes) (bufsize : Nat) :
    M (Nat × Option Bytes) := do
  let base ← (procBase base : Except Err _)
  let path ← (parsePath path : Except Err _)
  let target ← Procfs.readlinkH env env.proc base path
  pure (copyPathIntoBuffer target buf bufsize)

/-- `pathrs_open_root` -/
def openRoot (path : Option Bytes) : M Fd := do
  let path ← (parsePath path : Except Err _)
  Sys.openat AT_FDCWD path (O_PATH ||| O_DIRECTORY) 0

/-! ## The error table (`capi/error.rs`) -/

/-- stored errors: id ↦ (errno, description has no NUL) -/
abbrev Table := List (Int × Nat)

def INT_MIN : Int := -2147483648
def ID_MAX : Int := -4096

/-- `store_error`: the random stream proposes candidates until one is vacant;
`none` if the stream never does -/
def store (t : Table) (errno : Nat) : List Int → Option (Int × Table)
  | [] => none
  | c :: rest =>
    if INT_MIN ≤ c ∧ c ≤ ID_MAX ∧ (t.lookup c).isNone then some (c, (c, errno) :: t)
    else store t errno rest

/-- `pathrs_errorinfo`: remove-on-read -/
def take (t : Table) (id : Int) : Option Nat × Table :=
  match t.lookup id with
  | none => (none, t)
  | some e => (some e, t.filter fun kv => kv.1 != id)

end Capi
