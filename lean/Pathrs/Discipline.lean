import Pathrs.Root

/-!
# The syscall discipline (property C05) as a decidable predicate on one call
-/

open K

/-- a name handed to the kernel is one path component -/
def single (name : Bytes) : Prop := Path.containsSlash name = false

instance (name : Bytes) : Decidable (single name) := by unfold single; infer_instance

def OPEN_FORCED : Nat := O_NOFOLLOW ||| O_CLOEXEC ||| O_NOCTTY

def startsWith (p pre : Bytes) : Prop := pre.isPrefixOf p = true

def allDigits (b : Bytes) : Bool := b.all fun c => 48 ≤ c && c ≤ 57

/-- the existence probes of `ProcfsBase::into_path` below a procfs root -/
def isProcProbe (name : Bytes) : Prop :=
  name = b!"thread-self" ∨ name = b!"self" ∨
    ((b!"self/task/").isPrefixOf name = true ∧ allDigits (name.drop 10) = true)

/-- The discipline, call by call.  `followOk = false` forbids any `openat`
without `O_NOFOLLOW`. -/
def Disc (followOk : Bool) : Call → Prop
  | .openat dir name flags _ =>
      (0 ≤ dir ∧ single name ∧ hasAll flags OPEN_FORCED = true)
    ∨ (followOk = true ∧ 0 ≤ dir ∧ single name ∧ hasAll flags (O_CLOEXEC ||| O_NOCTTY) = true)
    ∨ (dir = AT_FDCWD ∧ name = b!"/proc" ∧ hasAll flags OPEN_FORCED = true)
  | .openat2 dir _ flags _ resolve _ =>
      0 ≤ dir ∧ hasAll flags O_CLOEXEC = true ∧
      (hasAll resolve (RESOLVE_IN_ROOT ||| RESOLVE_NO_MAGICLINKS) = true ∨
       hasAll resolve (RESOLVE_BENEATH ||| RESOLVE_NO_XDEV ||| RESOLVE_NO_MAGICLINKS) = true)
  | .readlinkat dir name _ => 0 ≤ dir ∧ name = []
  | .fstatat dir name flags =>
      flags = STAT_FLAGS ∧
      ((0 ≤ dir ∧ (single name ∨ isProcProbe name)) ∨ (dir = AT_FDCWD ∧ startsWith name b!"/proc/"))
  | .statx dir name flags _ => 0 ≤ dir ∧ single name ∧ flags = STAT_FLAGS
  | .fstatfs fd => 0 ≤ fd
  | .accessat dir name _ flags => 0 ≤ dir ∧ single name ∧ flags = AT_SYMLINK_NOFOLLOW
  | .mkdirat dir name _ => 0 ≤ dir ∧ single name
  | .mknodat dir name _ _ => 0 ≤ dir ∧ single name
  | .unlinkat dir name _ => 0 ≤ dir ∧ single name
  | .linkat odir oname ndir nname flags => 0 ≤ odir ∧ 0 ≤ ndir ∧ single oname ∧ single nname ∧ flags = 0
  | .symlinkat _ dir name => 0 ≤ dir ∧ single name
  | .renameat odir oname ndir nname => 0 ≤ odir ∧ 0 ≤ ndir ∧ single oname ∧ single nname
  | .renameat2 odir oname ndir nname _ => 0 ≤ odir ∧ 0 ≤ ndir ∧ single oname ∧ single nname
  | .dup _ min => min = 3
  | .close _ => True
  | .dirOpen fd => 0 ≤ fd
  | .dirNext fd => 0 ≤ fd
  | .gettid => True
  | .geteuid => True
  | .fsopen fstype flags => fstype = b!"proc" ∧ hasAll flags FSOPEN_CLOEXEC = true
  | .fsconfigSetString fd _ _ => 0 ≤ fd
  | .fsconfigCreate fd => 0 ≤ fd
  | .fsmount fd flags _ => 0 ≤ fd ∧ hasAll flags FSMOUNT_CLOEXEC = true
  | .openTree dir path flags => dir = AT_FDCWD ∧ path = b!"/proc" ∧ hasAll flags OPEN_TREE_CLOEXEC = true
  | .readlinkAbs path => startsWith path b!"/proc/"
  | .readLine fd => 0 ≤ fd
  | .random => True

instance (b : Bool) (c : Call) : Decidable (Disc b c) := by
  cases c <;> simp only [Disc, startsWith, isProcProbe] <;> infer_instance

