import Pathrs.Basic

/-! # Constants of the Linux x86_64 ABI used by the code -/

namespace K

def AT_FDCWD : Fd := -100

def O_RDONLY : Nat := 0
def O_WRONLY : Nat := 0o1
def O_RDWR : Nat := 0o2
def O_ACCMODE : Nat := 0o3
def O_CREAT : Nat := 0o100
def O_EXCL : Nat := 0o200
def O_NOCTTY : Nat := 0o400
def O_TRUNC : Nat := 0o1000
def O_APPEND : Nat := 0o2000
def O_NONBLOCK : Nat := 0o4000
def O_DSYNC : Nat := 0o10000
def O_DIRECT : Nat := 0o40000
def O_LARGEFILE : Nat := 0o100000
def O_DIRECTORY : Nat := 0o200000
def O_NOFOLLOW : Nat := 0o400000
def O_NOATIME : Nat := 0o1000000
def O_CLOEXEC : Nat := 0o2000000
def O_SYNC : Nat := 0o4010000
def O_PATH : Nat := 0o10000000
def O_TMPFILE : Nat := 0o20200000

def AT_SYMLINK_NOFOLLOW : Nat := 0x100
def AT_REMOVEDIR : Nat := 0x200
def AT_NO_AUTOMOUNT : Nat := 0x800
def AT_EMPTY_PATH : Nat := 0x1000
/-- flags forced by the `fstatat`/`statx` wrappers -/
def STAT_FLAGS : Nat := 0x1900

def RESOLVE_NO_XDEV : Nat := 0x01
def RESOLVE_NO_MAGICLINKS : Nat := 0x02
def RESOLVE_NO_SYMLINKS : Nat := 0x04
def RESOLVE_BENEATH : Nat := 0x08
def RESOLVE_IN_ROOT : Nat := 0x10

def EPERM : Nat := 1
def ENOENT : Nat := 2
def EINTR : Nat := 4
def EIO : Nat := 5
def EBADF : Nat := 9
def EAGAIN : Nat := 11
def ENOMEM : Nat := 12
def EACCES : Nat := 13
def EBUSY : Nat := 16
def EEXIST : Nat := 17
def EXDEV : Nat := 18
def ENOTDIR : Nat := 20
def EISDIR : Nat := 21
def EINVAL : Nat := 22
def ENFILE : Nat := 23
def EMFILE : Nat := 24
def ENAMETOOLONG : Nat := 36
def ENOSYS : Nat := 38
def ENOTEMPTY : Nat := 39
def ELOOP : Nat := 40

def S_IFMT : Nat := 0o170000
def S_IFSOCK : Nat := 0o140000
def S_IFLNK : Nat := 0o120000
def S_IFREG : Nat := 0o100000
def S_IFBLK : Nat := 0o060000
def S_IFDIR : Nat := 0o040000
def S_IFCHR : Nat := 0o020000
def S_IFIFO : Nat := 0o010000
def S_ISVTX : Nat := 0o1000
def S_IWOTH : Nat := 0o2

def PROC_SUPER_MAGIC : Nat := 0x9fa0
def APPARMORFS_MAGIC : Nat := 0x5a3c69f0
def PROC_ROOT_INO : Nat := 1

def STATX_MNT_ID : Nat := 0x1000
def STATX_MNT_ID_UNIQUE : Nat := 0x4000
def STATX_WANT : Nat := 0x5000

def FSOPEN_CLOEXEC : Nat := 1
def FSMOUNT_CLOEXEC : Nat := 1
def MOUNT_ATTRS : Nat := 14
def OPEN_TREE_CLONE : Nat := 1
def OPEN_TREE_CLOEXEC : Nat := 0o2000000
def AT_RECURSIVE : Nat := 0x8000

def OPEN_HOW_SIZE : Nat := 24
def READLINK_BUF : Nat := 131072
def MAX_SYMLINK_TRAVERSALS : Nat := 128
def F_OK : Nat := 0

end K

/-- `flags.contains(mask)` -/
def hasAll (flags mask : Nat) : Bool := flags &&& mask = mask
/-- `flags.intersects(mask)` -/
def hasAny (flags mask : Nat) : Bool := flags &&& mask ≠ 0
/-- `flags.remove(mask)` -/
def clearBits (flags mask : Nat) : Nat := flags &&& (flags ^^^ mask) 
