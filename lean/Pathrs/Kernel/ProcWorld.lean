import Pathrs.Kernel.World

/-!
# A procfs instance with mounts on top of it, as far as procfs lookups see it (trusted specification)

`PWorld` is an immutable tree of procfs objects — directories, ordinary symlinks (`self`, `thread-self`, `net`,
`mounts`: relative bodies), magic-links (`exe`, `cwd`, `fd/N`, `ns/*`) and other files — in which every object
carries the id of the mount it is on: an entry that has been over-mounted leads to the root of the other mount.
A magic-link has a `target` (what following it yields).
`PWorld.answer` is the kernel's answer to every call the emulated procfs resolver makes, and `presolve` is the
specification of `openat2(base, path, oflags, RESOLVE_BENEATH|RESOLVE_NO_XDEV|RESOLVE_NO_MAGICLINKS[|NO_SYMLINKS])`.
Descriptors are identified with objects, as in `World`.
-/

open K

inductive PKind where
  | dir | lnk | magic | other
deriving DecidableEq, Repr

structure PWorld where
  /-- the directory the lookup starts from -/
  base : Fd
  kind : Fd → PKind
  child : Fd → Bytes → Option Fd
  parent : Fd → Fd
  body : Fd → Bytes
  /-- the mount an object is on -/
  mnt : Fd → Nat
  /-- the object a magic-link leads to when the kernel follows it (`fd/N`: the open file of descriptor `N`; `exe`,
  `cwd`, `ns/*`); such objects need not lie on procfs at all -/
  target : Fd → Option Fd := fun _ => none
  /-- what the kernel's own, unconfined walk of an *ordinary* link's body arrives at when an `open(2)` follows the link
  as a trailing component (left uninterpreted: the library never lets the kernel do that on an unverified link) -/
  follow : Fd → Except Nat Fd := fun _ => .error ELOOP
  /-- the kernel's bound on followed links -/
  kernelLinks : Nat

namespace PWorld

def isLink (k : PKind) : Bool := k = .lnk || k = .magic

def modeOf : PKind → Nat
  | .dir => S_IFDIR ||| 0o555
  | .lnk => S_IFLNK ||| 0o777
  | .magic => S_IFLNK ||| 0o777
  | .other => S_IFREG ||| 0o444

/-- `open(2)` of the object a lookup ended at (a link is the final object only of a no-follow lookup) -/
def openKind (k : PKind) (flags : Nat) : Except Nat Unit :=
  match k with
  | .lnk | .magic =>
    if hasAll flags O_DIRECTORY then .error ENOTDIR else if hasAll flags O_PATH then .ok () else .error ELOOP
  | .dir => if !hasAll flags O_PATH && World.accWrite flags then .error EISDIR else .ok ()
  | .other => if hasAll flags O_DIRECTORY then .error ENOTDIR else .ok ()

/-- one component relative to a directory descriptor, never following (`O_NOFOLLOW` is always set by the wrapper) -/
def lookup (w : PWorld) (d : Fd) (n : Bytes) : Except Nat Fd :=
  if w.kind d ≠ .dir then .error ENOTDIR
  else if n = Path.dot then .ok d
  else if n = Path.dotdot then .ok (w.parent d)
  else match w.child d n with
    | some c => .ok c
    | none => .error ENOENT

structure PCfg where
  oflags : Nat
  noSymlinks : Bool
  maxLinks : Nat

/-- `openat2(base, path, oflags, RESOLVE_BENEATH|RESOLVE_NO_XDEV|RESOLVE_NO_MAGICLINKS[|RESOLVE_NO_SYMLINKS])` over raw
components: every step stays on the mount of the directory it starts from (`EXDEV` otherwise), `..` cannot leave the
starting directory, a trailing link is followed unless `O_NOFOLLOW` is given, a magic-link is never followed (`ELOOP`), an
absolute link body leaves the starting directory (`EXDEV`), the number of followed links is bounded, and the last object
is opened with the flags (`openKind`). -/
def presolve (w : PWorld) (c : PCfg) (cur : Fd) (rem : List Bytes) (links : Nat) : Except Nat Fd :=
  match rem with
  | [] => .ok cur
  | x :: rest =>
    if w.kind cur ≠ .dir then .error ENOTDIR
    else if x = [] ∨ x = Path.dot then
      (if rest = [] then (match openKind .dir c.oflags with | .ok () => .ok cur | .error e => .error e)
       else presolve w c cur rest links)
    else if x = Path.dotdot then
      (if cur = w.base then .error EXDEV
       else if w.mnt (w.parent cur) ≠ w.mnt cur then .error EXDEV
       else if rest = [] then (match openKind .dir c.oflags with | .ok () => .ok (w.parent cur) | .error e => .error e)
       else presolve w c (w.parent cur) rest links)
    else match w.child cur x with
      | none => .error ENOENT
      | some nxt =>
        if w.mnt nxt ≠ w.mnt cur then .error EXDEV
        else if isLink (w.kind nxt) then
          if rest = [] ∧ hasAll c.oflags O_NOFOLLOW then
            (match openKind (w.kind nxt) c.oflags with | .ok () => .ok nxt | .error e => .error e)
          else if c.noSymlinks then .error ELOOP
          else if w.kind nxt = .magic then .error ELOOP
          else if links + 1 ≥ c.maxLinks then .error ELOOP
          else if Path.isAbsolute (w.body nxt) then .error EXDEV
          else presolve w c cur (Path.rawComponents (w.body nxt) ++ rest) (links + 1)
        else if rest = [] then
          (match openKind (w.kind nxt) c.oflags with | .ok () => .ok nxt | .error e => .error e)
        else presolve w c nxt rest links
termination_by (c.maxLinks - links, rem.length)
decreasing_by
  all_goals simp_wf
  · right; omega
  · right; omega
  · left; omega
  · right; omega

/-- the whole lookup: absolute paths leave the starting directory -/
def resolveBeneath (w : PWorld) (c : PCfg) (path : Bytes) : Except Nat Fd :=
  if path = [] then .error ENOENT
  else if Path.isAbsolute path then .error EXDEV
  else presolve w c w.base (Path.rawComponents path) 0

/-- how the kernel answers on this world -/
def answer (w : PWorld) : Call → Resp
  | .dup fd _ => .fd fd
  | .close _ => .unit
  | .gettid => .nums [1]
  | .geteuid => .nums [0]
  | .openat d n fl _ =>
      -- one component, then `open(2)` of what it names; a link is followed only when `O_NOFOLLOW` is absent (the one
      -- such call of the library is the last step of `open_follow`)
      match w.lookup d n with
      | .ok c =>
        if hasAll fl O_NOFOLLOW || !isLink (w.kind c) then
          (match openKind (w.kind c) fl with | .ok () => .fd c | .error e => .err e)
        else
          (match (if w.kind c = .magic then (match w.target c with | some t => .ok t | none => .error ENOENT)
                  else w.follow c) with
           | .ok t => (match openKind (w.kind t) fl with | .ok () => .fd t | .error e => .err e)
           | .error e => .err e)
      | .error e => .err e
  | .fstatat d n _ =>
      if d = AT_FDCWD then .nums [S_IFLNK ||| 0o777, 0, 3, 5]     -- the diagnostic probes of /proc
      else if n = [] then .nums [modeOf (w.kind d), 0, d.toNat, 1]
      else if Path.containsSlash n then .err ENOENT                -- (only the `thread-self` existence probe walks a path)
      else (match w.lookup d n with                                -- one component, never followed
            | .ok c => .nums [modeOf (w.kind c), 0, c.toNat, 1]
            | .error e => .err e)
  | .readlinkat d n _ =>
      if n ≠ [] then .err ENOENT
      else if isLink (w.kind d) then .bytes (w.body d)
      else .err EINVAL
  | .fstatfs _ => .nums [PROC_SUPER_MAGIC]
  | .statx d n _ _ =>
      -- `AT_EMPTY_PATH|AT_SYMLINK_NOFOLLOW`: the descriptor itself, or one component never followed
      if n = [] then .nums [STATX_WANT, w.mnt d]
      else (match w.lookup d n with
            | .ok c => .nums [STATX_WANT, w.mnt c]
            | .error e => .err e)
  | .readlinkAbs _ => .bytes b!"/"
  | .openat2 d path flags _ resolve _ =>
      -- the confined lookup, started at the directory the call names
      if hasAll resolve (RESOLVE_BENEATH ||| RESOLVE_NO_XDEV ||| RESOLVE_NO_MAGICLINKS) then
        match resolveBeneath { w with base := d } { oflags := flags, noSymlinks := hasAll resolve RESOLVE_NO_SYMLINKS,
                                                    maxLinks := w.kernelLinks } path with
        | .ok c => .fd c
        | .error e => .err e
      else .err ENOSYS
  | _ => .err ENOSYS

end PWorld

/-- run a program against the (stateless) procfs world -/
def Prog.prun (w : PWorld) : Prog α → α
  | .ret a => a
  | .call c k => Prog.prun w (k (w.answer c))
