import Pathrs.Root

/-!
# The kernel, as far as the properties mention it (trusted specification)

`World` is an abstract, immutable Linux directory tree together with the procfs
views libpathrs uses to read the path of its own descriptors.  `World.answer` says
how the kernel answers each system call on it, and `kresolve` is the specification
of in-root resolution (`openat2(RESOLVE_IN_ROOT|RESOLVE_NO_MAGICLINKS)`).

Descriptors are identified with the objects they refer to (an `openat` returns the
object's id as the descriptor number, `close` does nothing): the behaviour of the
library does not depend on descriptor numbers except through `thread-self/fd/<n>`,
which this world resolves back to object `n`.  Tree objects are the even numbers
`≥ 4`; `0` is libpathrs' procfs root, `2` its `thread-self` directory and `n + 1`
the magic-link `thread-self/fd/n` of tree object `n`.
-/

open K

inductive Kind where
  | dir | lnk | other
deriving DecidableEq, Repr

structure World where
  /-- the directory the `Root` was opened on -/
  root : Fd
  kind : Fd → Kind
  /-- directory entries -/
  child : Fd → Bytes → Option Fd
  /-- `..` of a directory -/
  parent : Fd → Fd
  /-- body of a symlink -/
  body : Fd → Bytes
  /-- components of the path of an object below the root, as `d_path` would print them
  (`none`: not below the root / unlinked) -/
  dpath : Fd → Option (List Bytes)
  /-- components of the absolute path of the root itself -/
  rootComps : List Bytes
  /-- mount id of libpathrs' procfs -/
  procMnt : Nat
  /-- the kernel's own bound on followed links (`MAXSYMLINKS`, 40 on Linux) -/
  kernelLinks : Nat
  /-- how this moment's kernel answers a *mutating* call (`mkdirat`, `mknodat`, `unlinkat`, `symlinkat`, `linkat`,
  `renameat`, `renameat2`).  A `World` is immutable, so the effect of such a call is not part of it: runs against one
  world never see it (the default refuses them), `KEffect.exec` takes the treatment of mutating calls as a parameter,
  and in a sequence of worlds (`Attack.runSeq`) the effect is whatever the later worlds look like. -/
  mutAns : Call → Resp := fun _ => .err ENOSYS

namespace World

def procRoot : Fd := 0
def threadSelf : Fd := 2
def isTree (fd : Fd) : Prop := 4 ≤ fd ∧ fd % 2 = 0
def magic (fd : Fd) : Fd := fd + 1
/-- the directory `thread-self/fd` of libpathrs' procfs -/
def fdDir : Fd := 3

/-- a proper file name: non-empty, no '/', not `.` or `..` -/
def ProperComp (n : Bytes) : Prop :=
  n ≠ [] ∧ Path.containsSlash n = false ∧ n ≠ Path.dot ∧ n ≠ Path.dotdot ∧ ¬ n.contains 0

/-- the absolute path of an object, as the kernel prints it for `/proc/thread-self/fd/n` -/
def render (w : World) (comps : List Bytes) : Bytes :=
  Path.slash :: Path.joinSlash (w.rootComps ++ comps)

structure WF (w : World) : Prop where
  root_tree : isTree w.root
  root_dir : w.kind w.root = .dir
  root_path : w.dpath w.root = some []
  child_tree : ∀ d n c, w.child d n = some c → isTree c
  parent_tree : ∀ d, isTree d → isTree (w.parent d)
  child_dir : ∀ d n c, w.child d n = some c → w.kind d = .dir
  child_path : ∀ d n c p, w.child d n = some c → w.dpath d = some p → w.dpath c = some (p ++ [n])
  parent_path : ∀ d p n, w.kind d = .dir → w.dpath d = some (p ++ [n]) →
      w.dpath (w.parent d) = some p ∧ w.kind (w.parent d) = .dir
  path_inj : ∀ a b p, w.dpath a = some p → w.dpath b = some p → a = b
  names : ∀ d n c, w.child d n = some c → ProperComp n
  root_comps : ∀ n ∈ w.rootComps, ProperComp n
  /-- every component of a printed path is a proper name -/
  path_proper : ∀ d p, w.dpath d = some p → ∀ c ∈ p, ProperComp c
  /-- printed paths fit the buffer libpathrs reads them into -/
  path_short : ∀ d p, w.dpath d = some p → (w.render p).length < READLINK_BUF
  /-- objects with a path are tree objects -/
  path_tree : ∀ d p, w.dpath d = some p → isTree d
  /-- symlink bodies are non-empty and NUL-free (the kernel refuses to create others) -/
  body_ok : ∀ l, w.kind l = .lnk → w.body l ≠ [] ∧ ¬ (w.body l).contains 0 ∧ (w.body l).length < READLINK_BUF

def modeOf : Kind → Nat
  | .dir => S_IFDIR ||| 0o755
  | .lnk => S_IFLNK ||| 0o777
  | .other => S_IFREG ||| 0o644

/-- single-component lookup relative to a tree object (`O_PATH|O_NOFOLLOW`) -/
def lookup (w : World) (d : Fd) (n : Bytes) : Except Nat Fd :=
  if w.kind d ≠ .dir then .error ENOTDIR
  else if n = Path.dot then .ok d
  else if n = Path.dotdot then .ok (w.parent d)
  else match w.child d n with
    | some c => .ok c
    | none => .error ENOENT

/-! ## The specification of in-root resolution -/

structure Cfg where
  nofollow : Bool
  noSymlinks : Bool
  maxLinks : Nat

/-- `openat2(root, path, O_PATH[|O_NOFOLLOW], RESOLVE_IN_ROOT|RESOLVE_NO_MAGICLINKS[|NO_SYMLINKS])`
over raw components (`""` behaves like `.`): the current object must be a directory for every
component, `..` is the parent clamped at the root, a symlink is followed unless it is the last
component of a no-follow lookup, an absolute body restarts at the root, and the number of
followed links is bounded. -/
def kresolve (w : World) (cfg : Cfg) (cur : Fd) (rem : List Bytes) (links : Nat) : Except Nat Fd :=
  match rem with
  | [] => .ok cur
  | c :: rest =>
    if w.kind cur ≠ .dir then .error ENOTDIR
    else if c = [] ∨ c = Path.dot then kresolve w cfg cur rest links
    else if c = Path.dotdot then
      kresolve w cfg (if cur = w.root then w.root else w.parent cur) rest links
    else match w.child cur c with
      | none => .error ENOENT
      | some nxt =>
        if w.kind nxt = .lnk then
          if rest = [] ∧ cfg.nofollow then .ok nxt
          else if cfg.noSymlinks then .error ELOOP
          else if links + 1 ≥ cfg.maxLinks then .error ELOOP
          else
            kresolve w cfg (if Path.isAbsolute (w.body nxt) then w.root else cur)
              (Path.rawComponents (w.body nxt) ++ rest) (links + 1)
        else kresolve w cfg nxt rest links
termination_by (cfg.maxLinks - links, rem.length)
decreasing_by
  all_goals simp_wf
  · right; omega
  · right; omega
  · left; omega
  · right; omega

/-- the whole lookup: the empty path is `ENOENT` -/
def resolveInRoot (w : World) (cfg : Cfg) (path : Bytes) : Except Nat Fd :=
  if path = [] then .error ENOENT
  else kresolve w cfg w.root (Path.rawComponents path) 0

def parseDigits (b : Bytes) : Nat := b.foldl (fun acc c => acc * 10 + (c.toNat - 48)) 0

/-- the open asks for write access: the access mode, or `O_TRUNC` (`build_open_flags` adds `MAY_WRITE` for it) -/
def accWrite (flags : Nat) : Bool := flags &&& O_ACCMODE ≠ O_RDONLY || hasAll flags O_TRUNC

/-- What `open(2)` says about the object the lookup ended at, by kind.  A symlink is the final object
only of a no-follow lookup: it can be opened with `O_PATH` alone, `O_DIRECTORY` makes it `ENOTDIR`,
anything else `ELOOP`.  A directory cannot be opened for writing; `O_DIRECTORY` on anything else is
`ENOTDIR`. -/
def openKind (k : Kind) (flags : Nat) : Except Nat Unit :=
  match k with
  | .lnk => if hasAll flags O_DIRECTORY then .error ENOTDIR else if hasAll flags O_PATH then .ok () else .error ELOOP
  | .dir => if !hasAll flags O_PATH && accWrite flags then .error EISDIR else .ok ()
  | .other => if hasAll flags O_DIRECTORY then .error ENOTDIR else .ok ()

/-- how the kernel answers on this world -/
def answer (w : World) : Call → Resp
  | .dup fd _ => .fd fd
  | .close _ => .unit
  | .gettid => .nums [1]
  | .geteuid => .nums [0]
  | .openat d n fl _ =>
      if d = fdDir then
        -- `thread-self/fd/<n>`: the magic-link itself (no-follow), or the object it leads to
        if hasAll fl O_NOFOLLOW then (if hasAll fl O_PATH then .fd (magic (parseDigits n)) else .err ELOOP)
        else match openKind (w.kind (parseDigits n)) fl with
          | .ok () => .fd (parseDigits n)
          | .error e => .err e
      else
      match w.lookup d n with
      | .ok c => .fd c
      | .error e => .err e
  | .fstatat d n _ =>
      if d = AT_FDCWD then .nums [S_IFLNK ||| 0o777, 0, 3, 5]     -- the diagnostic probes of /proc
      else if d = procRoot then (if n = b!"thread-self" then .nums [S_IFLNK ||| 0o777, 0, 3, 5] else .err ENOENT)
      else if n = [] then .nums [modeOf (w.kind d), 0, d.toNat, 1]
      else .err ENOENT
  | .readlinkat d n _ =>
      if n ≠ [] then .err ENOENT
      else if d % 2 = 1 then
        -- a magic-link `thread-self/fd/<d-1>`
        match w.dpath (d - 1) with
        | some p => .bytes (w.render p)
        | none => .bytes [0]   -- some path that is not below the root (never equal to a path of proper components)
      else if w.kind d = .lnk then .bytes (w.body d)
      else .err EINVAL
  | .fstatfs d => if d = threadSelf ∨ d = procRoot ∨ d % 2 = 1 then .nums [PROC_SUPER_MAGIC] else .nums [0xEF53]
  | .statx d _ _ _ =>
      if d = threadSelf ∨ d = procRoot ∨ d % 2 = 1 then .nums [STATX_WANT, w.procMnt] else .nums [STATX_WANT, 7]
  | .openat2 d path flags _ resolve _ =>
      if d = procRoot then (if path = b!"thread-self" then .fd threadSelf else .err ENOENT)
      else if d = threadSelf then
        (if (b!"fd/").isPrefixOf path then .fd (magic (parseDigits (path.drop 3)))
         else if path = b!"fd" then .fd fdDir else .err ENOENT)
      else if d = w.root ∧ hasAll resolve (RESOLVE_IN_ROOT ||| RESOLVE_NO_MAGICLINKS) then
        -- the kernel's own in-root resolution, then `open(2)` of the object found
        match resolveInRoot w { nofollow := hasAll flags O_NOFOLLOW,
                                noSymlinks := hasAll resolve RESOLVE_NO_SYMLINKS,
                                maxLinks := w.kernelLinks } path with
        | .ok c =>
          match openKind (w.kind c) flags with
          | .ok () => .fd c
          | .error e => .err e
        | .error e => .err e
      else .err ENOSYS
  | .mkdirat d n m => w.mutAns (.mkdirat d n m)
  | .mknodat d n m dev => w.mutAns (.mknodat d n m dev)
  | .unlinkat d n f => w.mutAns (.unlinkat d n f)
  | .symlinkat t d n => w.mutAns (.symlinkat t d n)
  | .linkat od on nd nn f => w.mutAns (.linkat od on nd nn f)
  | .renameat od on nd nn => w.mutAns (.renameat od on nd nn)
  | .renameat2 od on nd nn f => w.mutAns (.renameat2 od on nd nn f)
  | _ => .err ENOSYS

end World

/-- run a program against the (stateless) world -/
def Prog.run (w : World) : Prog α → α
  | .ret a => a
  | .call c k => Prog.run w (k (w.answer c))
