import Pathrs.Root

/-!
# The descriptor ledger of a stretch of history (C11)

`ledger own l` walks through the recorded calls of `l`: a call that hands out a descriptor adds it to the
owned list, a `close` removes it — and is `none` if the program closes a descriptor it does not own (one of
the caller's, or one it closed already).  `Fresh ext own l` is the kernel's side of the contract: a descriptor
number it hands out is not negative and not open at that moment (neither one of the caller's `ext` nor one the
program still owns).
-/

open K

namespace Ledger

/-- the descriptor a call handed out, if any -/
def produced : Call → Resp → Option Fd
  | .openat .., .fd n => some n
  | .openat2 .., .fd n => some n
  | .dup .., .fd n => some n
  | .fsopen .., .fd n => some n
  | .fsmount .., .fd n => some n
  | .openTree .., .fd n => some n
  | _, _ => none

def step (own : List Fd) (c : Call) (r : Resp) : Option (List Fd) :=
  match c with
  | .close n => if n ∈ own then some (own.erase n) else none
  | _ => match produced c r with
    | some n => some (n :: own)
    | none => some own

def ledger (own : List Fd) : Hist → Option (List Fd)
  | [] => some own
  | (c, r) :: t => match step own c r with
    | some own' => ledger own' t
    | none => none

/-- the kernel hands out only descriptor numbers that are not open -/
def Fresh (ext : List Fd) (own : List Fd) : Hist → Prop
  | [] => True
  | (c, r) :: t =>
    (∀ n, produced c r = some n → 0 ≤ n ∧ n ∉ ext ∧ n ∉ own) ∧
    (match step own c r with
     | some own' => Fresh ext own' t
     | none => True)

end Ledger
