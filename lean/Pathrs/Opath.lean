import Pathrs.Procfs
import Pathrs.SymlinkStack

/-!
# The emulated in-root resolver (`src/resolvers/opath/imp.rs`)
-/

open K

inductive Lookup (H : Type) where
  | complete (h : H)
  | part (h : H) (remaining : Bytes) (err : Err)
deriving Repr

namespace Opath

/-- `check_current` -/
def checkCurrent (env : Env) (cur root : Fd) (expected : List Bytes) : M Unit := do
  let rootPath ← Procfs.asUnsafePath env root
  let fullPath := Path.expectedFullPath rootPath expected
  let curPath ← Procfs.asUnsafePath env cur
  if !Path.pathEq curPath fullPath then throw .safetyViolation else
  let newRootPath ← Procfs.asUnsafePath env root
  if !Path.pathEq rootPath newRootPath then throw .safetyViolation

def STICKY_WRITABLE : Nat := S_ISVTX ||| S_IWOTH

/-- the decision of `may_follow_link` -/
def mayFollowDecision (sysctl fsuid linkUid dirMode dirUid : Nat) : Bool :=
  sysctl = 0 || linkUid = fsuid || dirMode &&& STICKY_WRITABLE ≠ STICKY_WRITABLE || linkUid = dirUid

/-- `may_follow_link` -/
def mayFollowLink (env : Env) (dir link : Fd) : M Unit := do
  let fsuid ← (Sys.geteuid : Prog Nat)
  let dirMeta ← Sys.fstatat dir []
  let linkMeta ← Sys.fstatat link []
  if mayFollowDecision env.protectedSymlinks fsuid linkMeta.uid dirMeta.mode dirMeta.uid then pure ()
  else throw (.os EACCES)

structure WalkCfg where
  /-- the walk's own duplicate of the root descriptor -/
  root : Fd
  rflags : Nat
  nofollow : Bool
  useStack : Bool
deriving Repr

structure WalkSt where
  expected : List Bytes
  cur : Fd
  rem : List Bytes
  links : Nat
  stack : SStack
deriving Repr

/-- close every candidate that no remaining holder refers to -/
def releaseMany (cands held : List Fd) : Prog Unit :=
  Sys.closeAll (cands.filter fun fd => !held.contains fd)

def stackOp (cfg : WalkCfg) (s : SStack) (f : SStack → Except SErr SStack) : Except Err SStack :=
  if cfg.useStack then
    match f s with
    | .ok s' => .ok s'
    | .error _ => .error .internalError
  else .ok s

/-- everything the walk owns -/
def owned (cfg : WalkCfg) (st : WalkSt) : List Fd := st.cur :: cfg.root :: st.stack.dirs

/-- leave with a partial result: the root duplicate is dropped -/
def exitPartial (cfg : WalkCfg) (st : WalkSt) (extra : List Fd) (remaining : Bytes) (e : Err) :
    M (Lookup Fd × SStack) :=
  M.bind' (M.lift (releaseMany (cfg.root :: extra) (st.cur :: st.stack.dirs))) fun _ =>
  pure (.part st.cur remaining e, st.stack)

/-- the loop of `do_resolve` -/
def walk (env : Env) (cfg : WalkCfg) (st : WalkSt) : M (Lookup Fd × SStack) :=
  match hrem : st.rem with
  | [] =>
    M.bind' ((checkCurrent env st.cur cfg.root st.expected).onErr (Sys.closeAll (owned cfg st))) fun _ =>
    -- at the root itself: return a fresh O_PATH handle, not the duplicate of the caller's descriptor
    M.bind' (if st.cur = cfg.root then
        (Sys.openat cfg.root Path.dot (O_PATH ||| O_NOFOLLOW) 0).onErr (Sys.closeAll (owned cfg st))
      else pure st.cur) fun res =>
    M.bind' (M.lift (releaseMany [cfg.root] (res :: st.stack.dirs))) fun _ =>
    pure (.complete res, st.stack)
  | part0 :: rest =>
    let remaining := Path.joinSlash (part0 :: rest)
    if hroot : part0 = Path.dotdot ∧ st.expected = [] then
      -- ".." at the root: stay at the root
      match stackOp cfg st.stack (·.popPart part0) with
      | .error e => M.bind' (M.lift (Sys.closeAll (owned cfg st))) fun _ => throw e
      | .ok stack' =>
        M.bind' (M.lift (releaseMany (st.cur :: st.stack.dirs) (cfg.root :: stack'.dirs))) fun _ =>
        walk env cfg { st with cur := cfg.root, rem := rest, stack := stack' }
    else
      let part := if part0 = [] then Path.dot else part0
      let expected' :=
        if part = Path.dot then st.expected
        else if part = Path.dotdot then st.expected.dropLast
        else st.expected ++ [part]
      M.bind' (M.try' (Sys.openat st.cur part (O_PATH ||| O_NOFOLLOW) 0)) fun r =>
      match r with
      | .error e => exitPartial cfg st [] remaining e
      | .ok next =>
        let fail : Prog Unit := Sys.closeAll (next :: owned cfg st)
        M.bind' ((if part = Path.dotdot then checkCurrent env next cfg.root expected' else pure ()).onErr fail) fun _ =>
        M.bind' ((Sys.fstatat next []).onErr fail) fun md =>
        if !md.isSymlink then
          match stackOp cfg st.stack (·.popPart part) with
          | .error e => M.bind' (M.lift fail) fun _ => throw e
          | .ok stack' =>
            M.bind' (M.lift (releaseMany (st.cur :: st.stack.dirs) (next :: cfg.root :: stack'.dirs))) fun _ =>
            walk env cfg { st with expected := expected', cur := next, rem := rest, stack := stack' }
        else if rest = [] ∧ cfg.nofollow then
          -- trailing symlink that must not be followed: it is the result
          M.bind' (M.lift (releaseMany [st.cur] (next :: cfg.root :: st.stack.dirs))) fun _ =>
          let st' : WalkSt := { st with expected := expected', cur := next, rem := [] }
          M.bind' ((checkCurrent env next cfg.root expected').onErr (Sys.closeAll (owned cfg st'))) fun _ =>
          M.bind' (M.lift (releaseMany [cfg.root] (next :: st.stack.dirs))) fun _ =>
          pure (.complete next, st.stack)
        else if hasAll cfg.rflags RESOLVE_NO_SYMLINKS then
          exitPartial cfg st [next] remaining (.os ELOOP)
        else
          M.bind' ((mayFollowLink env st.cur next).onErr fail) fun _ =>
          if hlim : st.links + 1 ≥ MAX_SYMLINK_TRAVERSALS then
            exitPartial cfg st [next] remaining (.os ELOOP)
          else
            M.bind' ((Sys.readlinkat next []).onErr fail) fun target =>
            M.bind' ((if Path.isAbsolute target then Procfs.isMagiclinkFilesystem next else pure false).onErr fail) fun magic =>
            if magic then M.bind' (M.lift fail) fun _ => throw (.os ELOOP)
            else
              match stackOp cfg st.stack (·.swapLink part st.cur remaining target) with
              | .error e => M.bind' (M.lift fail) fun _ => throw e
              | .ok stack' =>
                let abs := Path.isAbsolute target
                let cur' := if abs then cfg.root else st.cur
                M.bind' (M.lift (releaseMany (next :: st.cur :: st.stack.dirs) (cur' :: cfg.root :: stack'.dirs))) fun _ =>
                walk env cfg
                  { expected := if abs then [] else expected'.dropLast,
                    cur := cur',
                    rem := Path.rawComponents target ++ rest,
                    links := st.links + 1,
                    stack := stack' }
termination_by (MAX_SYMLINK_TRAVERSALS - st.links, st.rem.length)
decreasing_by
  all_goals simp_wf
  all_goals simp only [hrem]
  all_goals first
    | (left; omega)
    | (right; simp)

/-- `do_resolve` -/
def doResolve (env : Env) (root : Fd) (path : Bytes) (rflags : Nat) (nofollow useStack : Bool) :
    M (Lookup Fd × SStack) := do
  let rootDup ← Sys.dup root
  if path = [] then pure (.part rootDup [] (.os ENOENT), []) else
  walk env { root := rootDup, rflags, nofollow, useStack }
    { expected := [], cur := rootDup, rem := Path.rawComponents path, links := 0, stack := [] }

/-- `opath::resolve`: a partial result is its error -/
def resolve (env : Env) (root : Fd) (path : Bytes) (rflags : Nat) (nofollow : Bool) : M Fd := do
  let (res, _) ← doResolve env root path rflags nofollow false
  match res with
  | .complete h => pure h
  | .part h _ e =>
    (Sys.close h : Prog Unit)
    throw e

/-- `opath::resolve_partial` -/
def resolvePartial (env : Env) (root : Fd) (path : Bytes) (rflags : Nat) (nofollow : Bool) :
    M (Lookup Fd) := do
  let (res, stack) ← doResolve env root path rflags nofollow true
  match res with
  | .complete h =>
    (releaseMany stack.dirs [h] : Prog Unit)
    pure (.complete h)
  | .part h rem e =>
    match stack.popTopSymlink with
    | (some (h2, rem2), rest) =>
      (releaseMany (h :: rest.dirs) [h2] : Prog Unit)
      pure (.part h2 rem2 e)
    | (none, _) => pure (.part h rem e)

end Opath
