import Pathrs.Basic

/-!
# Pure path helpers (`src/utils/path.rs`, the parts of `std::path` the code relies on)
-/

open Lean in
/-- byte-string literal: `b!"a/b" = [97, 47, 98]` (expanded at elaboration time, so
that proofs never have to reduce `String` operations) -/
macro:max "b!" s:str : term => do
  let bytes := s.getString.toUTF8.toList
  let elems ← bytes.toArray.mapM fun b => `(($(quote b.toNat) : UInt8))
  `(([$elems,*] : List UInt8))

namespace Path

def slash : UInt8 := 47
def dot : Bytes := [46]
def dotdot : Bytes := [46, 46]

/-- split at every '/', keeping empty pieces: `raw_components` -/
def splitSlash : Bytes → List Bytes
  | [] => [[]]
  | c :: rest =>
    if c = slash then [] :: splitSlash rest
    else match splitSlash rest with
      | [] => [[c]]
      | x :: xs => (c :: x) :: xs

/-- `RawComponents`: all pieces between slashes, including empty ones. -/
def rawComponents (p : Bytes) : List Bytes := splitSlash p

/-- join with '/' (what `Itertools::intersperse(.., "/")` builds) -/
def joinSlash : List Bytes → Bytes
  | [] => []
  | [x] => x
  | x :: xs => x ++ slash :: joinSlash xs

def containsSlash (b : Bytes) : Bool := b.contains slash

/-- index of the last '/' in `l` -/
def rposSlash (l : Bytes) : Option Nat :=
  let idxs := (l.zipIdx.filter fun (c, _) => c = slash).map (·.2)
  idxs.getLast?

/-- `Ancestors` iterator of `partial_ancestors`; `limit = none` is the start state. -/
def ancestorsAux (inner : Bytes) : Nat → Option Nat → List (Bytes × Option Bytes)
  | 0, _ => []
  | fuel + 1, limit =>
    let hay := match limit with
      | none => inner
      | some idx => inner.take idx
    match rposSlash hay with
    | none => [(dot, if inner.isEmpty then none else some inner)]
    | some idx =>
      let dir := inner.take idx
      let base := inner.drop idx
      let (anc, rem) : Bytes × Option Bytes :=
        if base = [slash] then (if dir = [] then ([slash], none) else (dir, none))
        else (if dir = [] then ([slash], some (base.drop 1)) else (dir, some (base.drop 1)))
      if anc = [] ∨ anc = dot ∨ anc = [slash] then [(anc, rem)]
      else (anc, rem) :: ancestorsAux inner fuel (some idx)

def partialAncestors (p : Bytes) : List (Bytes × Option Bytes) :=
  ancestorsAux p (p.length + 2) none

/-- `path_split`: (parent, final name); a trailing slash gives `none`. -/
def pathSplit (p : Bytes) : Except Err (Bytes × Option Bytes) :=
  match partialAncestors p with
  | [] => .error (.panic "partial_ancestors iterator must return at least one entry")
  | (dir, base) :: _ =>
    match base with
    | none => .ok (dir, none)
    | some b =>
      if b = [] then .error .safetyViolation
      else if containsSlash b then .error .safetyViolation
      else .ok (dir, some b)

/-- `path_strip_trailing_slash` -/
def stripTrailingSlash (p : Bytes) : Bytes × Bool :=
  let stripped := (p.reverse.dropWhile (· = slash)).reverse
  if stripped = [] then
    if p.length > 1 then ([slash], true) else (p, false)
  else if stripped.length = p.length then (p, false)
  else (stripped, true)

/-- `to_c_string`: everything before the first NUL -/
def toCString (p : Bytes) : Bytes := p.takeWhile (· ≠ 0)

def isAbsolute (p : Bytes) : Bool := p.head? = some slash

/-- `Path::components()` as far as `==` is concerned -/
inductive Comp where
  | root | cur | parent | normal (b : Bytes)
deriving DecidableEq, Repr

def components (p : Bytes) : List Comp :=
  let abs := isAbsolute p
  let parts := (splitSlash p).zipIdx
  (if abs then [Comp.root] else []) ++
    parts.filterMap fun (c, i) =>
      if c = [] then none
      else if c = dot then (if !abs && i = 0 then some .cur else none)
      else if c = dotdot then some .parent
      else some (.normal c)

/-- Rust's `Path == Path` -/
def pathEq (a b : Bytes) : Bool := components a = components b

/-- `PathBuf::push` / `Path::join` -/
def push (a b : Bytes) : Bytes :=
  if isAbsolute b then b
  else if a = [] then b
  else if a.getLast? = some slash then a ++ b
  else a ++ slash :: b

/-- The path `check_current` expects: `root_path.join("." + components of "/"+expected)` -/
def expectedFullPath (rootPath : Bytes) (expected : List Bytes) : Bytes :=
  -- `expected_path` is "/" ++ expected joined by "/": its raw components are "" :: expected
  -- (for the bare "/" they are ["", ""]); pushing "" onto "." gives "./".
  let rel := (([] : Bytes) :: (if expected = [] then [[]] else expected)).foldl push dot
  push rootPath rel

/-- decimal digits of a natural number -/
def natToDigits : Nat → Nat → List UInt8
  | 0, _ => []
  | fuel + 1, n => if n < 10 then [(48 + n).toUInt8] else natToDigits fuel (n / 10) ++ [(48 + n % 10).toUInt8]

def decimal (n : Nat) : Bytes := natToDigits (n + 1) n

end Path
