import Pathrs.SysWrap

/-!
# procfs handles (`src/procfs.rs`, `src/resolvers/procfs.rs`, `src/utils/fd.rs`)
-/

open K

def Err.isFatal : Err → Bool
  | .panic _ | .badResp _ | .outOfFuel _ => true
  | _ => false

namespace M

/-- `match p { Ok(..) => .., Err(..) => .. }`: library errors become values,
panics (and model-level aborts) keep propagating. -/
def try' (p : M α) : M (Except Err α) :=
  Prog.bind p fun
    | .ok a => Prog.ret (.ok (.ok a))
    | .error e => if e.isFatal then Prog.ret (.error e) else Prog.ret (.ok (.error e))

/-- `p.is_ok()` -/
def isOk (p : M α) : M Bool := do
  match ← try' p with
  | .ok _ => pure true
  | .error _ => pure false

end M

namespace Procfs

inductive Base where
  | root | self | threadSelf
deriving DecidableEq, Repr, Inhabited

/-- `ProcfsBase::into_path(Some(proc_root))`.  For `ProcThreadSelf` the candidate spellings
are probed with `exists_at`, which builds no error value when a candidate is missing (so a
missing candidate costs exactly one `fstatat`), and when none of them exists the first
spelling `thread-self` is returned instead of panicking: the lookup that follows then
reports the missing directory as an ordinary error (repair of finding F26).  The function
therefore never fails. -/
def intoPath (base : Base) (procRoot : Fd) : M Bytes :=
  match base with
  | .root => pure Path.dot
  | .self => pure b!"self"
  | .threadSelf => do
    let tid ← (Sys.gettid : Prog Nat)
    let rec probe : List Bytes → M Bytes
      | [] => pure b!"thread-self"
      | cand :: rest => do
        if ← (Sys.existsAt procRoot cand : Prog Bool) then pure cand else probe rest
    probe (Sys.threadSelfCandidates tid)

/-- `fetch_mnt_id` -/
def fetchMntId (dir : Fd) (path : Bytes) : M (Option Nat) := do
  match ← M.try' (Sys.statx dir path STATX_WANT) with
  | .ok (mask, id) => pure (if hasAny mask STATX_WANT then some id else none)
  | .error (.os e) => if e = ENOSYS ∨ e = EINVAL then pure none else throw (.os e)
  | .error e => throw e

/-- `verify_same_mnt` -/
def verifySameMnt (rootMnt : Option Nat) (dir : Fd) (path : Bytes) : M Unit := do
  let id ← fetchMntId dir path
  if rootMnt ≠ id then throw (.os EXDEV)

/-- `verify_is_procfs` -/
def verifyIsProcfs (fd : Fd) : M Unit := do
  let t ← Sys.fstatfs fd
  if t ≠ PROC_SUPER_MAGIC then throw (.os EXDEV)

/-- kernel resolver of `ProcfsResolver` -/
def openat2Resolve (env : Env) (root : Fd) (path : Bytes) (oflags rflags : Nat) : M Fd :=
  if !env.openat2 then throw .notSupported
  else Sys.openat2 root path oflags
    (RESOLVE_BENEATH ||| RESOLVE_NO_MAGICLINKS ||| RESOLVE_NO_XDEV ||| rflags)

/-- what the emulated resolver does with the last component when the flags
are not a plain `O_PATH` -/
def opathFinal (rootMnt : Option Nat) (oflags : Nat) (cur next : Fd) (part : Bytes)
    (isLink : Bool) : M (Option Fd) := do
  match ← M.try' (Sys.openat cur part (oflags ||| O_NOFOLLOW) 0) with
  | .ok fin =>
    (verifySameMnt rootMnt fin []).onErr (Sys.closeAll [fin, next, cur])
    (Sys.closeAll [next, cur] : Prog Unit)
    pure (some fin)
  | .error e =>
    if hasAll oflags O_NOFOLLOW || !hasAll oflags O_DIRECTORY || e != .os ENOTDIR || !isLink then
      (Sys.closeAll [next, cur] : Prog Unit)
      throw e
    else pure none

/-- the walk of `opath_resolve` -/
def opathLoop (rootMnt : Option Nat) (oflags rflags : Nat) (cur : Fd) (rem : List Bytes)
    (links : Nat) : M Fd :=
  match rem with
  | [] => pure cur
  | part0 :: rest =>
    let part := if part0 = [] then Path.dot else part0
    if part = Path.dotdot then
      M.bind' (M.lift (Sys.close cur)) fun _ => throw (.os EXDEV)
    else
      M.bind' ((Sys.openat cur part (O_PATH ||| O_NOFOLLOW) 0).onErr (Sys.close cur)) fun next =>
      M.bind' ((verifySameMnt rootMnt next []).onErr (Sys.closeAll [next, cur])) fun _ =>
      M.bind' ((Sys.fstatat next []).onErr (Sys.closeAll [next, cur])) fun st =>
      M.bind'
        (if rest = [] ∧ (oflags &&& (O_PATH ||| O_NOFOLLOW ||| O_DIRECTORY)) ≠ O_PATH then
          opathFinal rootMnt oflags cur next part st.isSymlink
        else pure none) fun fin =>
      match fin with
      | some fd => pure fd
      | none =>
        if !st.isSymlink then
          M.bind' (M.lift (Sys.close cur)) fun _ =>
          opathLoop rootMnt oflags rflags next rest links
        else if hasAll rflags RESOLVE_NO_SYMLINKS then
          M.bind' (M.lift (Sys.closeAll [next, cur])) fun _ => throw (.os ELOOP)
        else if hlim : links + 1 ≥ MAX_SYMLINK_TRAVERSALS then
          M.bind' (M.lift (Sys.closeAll [next, cur])) fun _ => throw (.os ELOOP)
        else
          M.bind' ((Sys.readlinkat next []).onErr (Sys.closeAll [next, cur])) fun target =>
          if Path.isAbsolute target then
            M.bind' (M.lift (Sys.closeAll [next, cur])) fun _ => throw (.os ELOOP)
          else
            M.bind' (M.lift (Sys.close next)) fun _ =>
            opathLoop rootMnt oflags rflags cur (Path.rawComponents target ++ rest) (links + 1)
termination_by (MAX_SYMLINK_TRAVERSALS - links, rem.length)
decreasing_by
  all_goals simp_wf
  · right; simp
  · left; omega

/-- emulated resolver of `ProcfsResolver` -/
def opathResolve (root : Fd) (path : Bytes) (oflags rflags : Nat) : M Fd :=
  -- `RESOLVE_BENEATH` refuses absolute paths outright
  if Path.isAbsolute path then throw (.os EXDEV) else do
  let rootMnt ← fetchMntId root []
  let cur ← Sys.dup root
  opathLoop rootMnt oflags rflags cur (Path.rawComponents path) 0

/-- `ProcfsResolver::resolve` -/
def resolve (env : Env) (emulated : Bool) (root : Fd) (path : Bytes) (oflags rflags : Nat) :
    M Fd :=
  if hasAny oflags (O_CREAT ||| O_EXCL) || hasAll oflags O_TMPFILE then throw .invalidArgument
  else if emulated then opathResolve root path oflags rflags
  else openat2Resolve env root path oflags rflags

def verifySameProcfsMnt (h : ProcH) (fd : Fd) : M Unit := do
  verifySameMnt h.mntId fd []
  verifyIsProcfs fd

/-- `inner.metadata()?` (a failing `fstat` is an ordinary error; the handle is dropped) -/
def fstatOrPanic (inner : Fd) : M Sys.Stat :=
  (Sys.fstatat inner []).onErr (Sys.close inner)

/-- `accessat(inner, name, F_OK, AT_SYMLINK_NOFOLLOW).is_err()` -/
def missing (inner : Fd) (name : Bytes) : M Bool := do
  match ← M.call (.accessat inner name F_OK AT_SYMLINK_NOFOLLOW) with
  | .unit => pure false
  | .err _ => pure true
  | _ => throw (.badResp "accessat")

/-- is `stat` (subset=pid) or `1` (hidepid) invisible? -/
def probeSubset (inner : Fd) : M Bool := do
  let m1 ← missing inner b!"stat"
  if m1 then pure true else missing inner b!"1"

/-- `ProcfsHandle::try_from_fd` -/
def tryFromFd (env : Env) (inner : Fd) : M ProcH := do
  (verifyIsProcfs inner).onErr (Sys.close inner)
  let st ← fstatOrPanic inner
  if st.ino ≠ PROC_ROOT_INO then
    (Sys.close inner : Prog Unit)
    throw .safetyViolation
  else
  let mntId ← (fetchMntId inner []).onErr (Sys.close inner)
  let isSubset ← probeSubset inner
  pure { fd := inner, mntId, isSubset, emulated := !env.openat2 }

/-- `ProcfsHandle::new_fsopen` -/
def setSubsetOptions (sfd : Fd) (subset : Bool) : M Unit :=
  if subset then do
    let _ ← M.try' (Sys.fsconfigSetString sfd b!"hidepid" b!"ptraceable")
    let _ ← M.try' (Sys.fsconfigSetString sfd b!"subset" b!"pid")
    pure ()
  else pure ()

def newFsopen (env : Env) (subset : Bool) : M ProcH := do
  let sfd ← Sys.fsopen b!"proc" FSOPEN_CLOEXEC
  setSubsetOptions sfd subset
  (Sys.fsconfigCreate sfd).onErr (Sys.close sfd)
  let mnt ← (Sys.fsmount sfd FSMOUNT_CLOEXEC MOUNT_ATTRS).onErr (Sys.close sfd)
  let h ← (tryFromFd env mnt).onErr (Sys.close sfd)
  (Sys.close sfd : Prog Unit)
  pure h

/-- `ProcfsHandle::new_open_tree` -/
def newOpenTree (env : Env) (flags : Nat) : M ProcH := do
  let fd ← Sys.openTree AT_FDCWD b!"/proc" (OPEN_TREE_CLONE ||| OPEN_TREE_CLOEXEC ||| flags)
  tryFromFd env fd

/-- `ProcfsHandle::new_unsafe_open` -/
def newUnsafeOpen (env : Env) : M ProcH := do
  let fd ← Sys.openat AT_FDCWD b!"/proc" (O_PATH ||| O_DIRECTORY) 0
  tryFromFd env fd

def orElse (p q : M α) : M α := do
  match ← M.try' p with
  | .ok a => pure a
  | .error _ => q

/-- `ProcfsHandle::new` -/
def new (env : Env) : M ProcH :=
  orElse (newFsopen env true) (orElse (newOpenTree env AT_RECURSIVE) (newUnsafeOpen env))

/-- `ProcfsHandle::new_unmasked` -/
def newUnmasked (env : Env) : M ProcH :=
  orElse (newFsopen env false) (orElse (newOpenTree env 0) (newUnsafeOpen env))

/-- `ProcfsHandle::open_base` -/
def openBase (env : Env) (h : ProcH) (base : Base) : M Fd := do
  let path ← intoPath base h.fd
  let fd ← resolve env h.emulated h.fd path (O_PATH ||| O_DIRECTORY) 0
  (verifySameProcfsMnt h fd).onErr (Sys.close fd)
  pure fd

/-- the lookup below an opened base directory, verified on the resulting descriptor -/
def lookupVerified (env : Env) (h : ProcH) (basedir : Fd) (subpath : Bytes) (oflags : Nat) : M Fd := do
  let fd ← resolve env h.emulated basedir subpath oflags 0
  (verifySameProcfsMnt h fd).onErr (Sys.close fd)
  pure fd

/-- the `ENOENT` retry of `ProcfsHandle::open`: build an unmasked handle and, unless it is
still masked, look the path up on it with `again` (the recursive call) -/
def retryUnmasked (env : Env) (again : ProcH → M Fd) (basedir : Fd) (e : Err) : M Fd := do
  match ← M.try' (newUnmasked env) with
  | .error _ =>
    (Sys.close basedir : Prog Unit)
    throw e
  | .ok h2 =>
    if h2.isSubset then
      -- still masked: it cannot tell more than this handle did
      (Sys.closeAll [h2.fd, basedir] : Prog Unit)
      throw e
    else
      let r ← M.try' (again h2)
      (Sys.closeAll [h2.fd, basedir] : Prog Unit)
      M.ofExcept r

/-- one level of `ProcfsHandle::open`, with the recursive call abstracted as `again` -/
def openStep (env : Env) (again : ProcH → Nat → M Fd) (h : ProcH) (base : Base) (subpath : Bytes)
    (oflags : Nat) : M Fd := do
  let oflags := oflags ||| O_NOFOLLOW
  let basedir ← openBase env h base
  let first ← M.try' (lookupVerified env h basedir subpath oflags)
  match first with
  | .ok fd =>
    (Sys.close basedir : Prog Unit)
    pure fd
  | .error e =>
    if h.isSubset ∧ e = .os ENOENT then
      retryUnmasked env (fun h2 => again h2 oflags) basedir e
    else
      (Sys.close basedir : Prog Unit)
      throw e

/-- `ProcfsHandle::open`.  The `ENOENT` retry on a fresh unmasked handle calls
`open` again on that handle.  Since the repair of finding F3 the retry happens
only on a handle that is not itself masked, so the recursion has depth one; the
model keeps the fuel parameter and `Props/C08.lean` proves it is irrelevant. -/
def openH (env : Env) : Nat → ProcH → Base → Bytes → Nat → M Fd
  | 0, _, _, _, _ => throw (.outOfFuel "ProcfsHandle::open ENOENT retry")
  | fuel + 1, h, base, subpath, oflags =>
    openStep env (fun h2 fl => openH env fuel h2 base subpath fl) h base subpath oflags

def retryFuel : Nat := 64

/-- `ProcfsHandle::readlink` -/
def readlinkH (env : Env) (h : ProcH) (base : Base) (subpath : Bytes) : M Bytes := do
  let link ← openH env retryFuel h base subpath O_PATH
  let r ← M.try' (Sys.readlinkat link [])
  (Sys.close link : Prog Unit)
  M.ofExcept r

/-- the following half of `open_follow`: the final component is a symlink; open its parent without following,
check that nothing is mounted on the link, and let the kernel follow this one link -/
def openFollowTail (env : Env) (h : ProcH) (base : Base) (subpath : Bytes) (oflags : Nat) : M Fd := do
  let (parent, trailing) ← (Path.pathSplit subpath : Except Err _)
  match trailing with
  | none => throw .invalidArgument
  | some trailing =>
    let parent ← openH env retryFuel h base parent (O_PATH ||| O_DIRECTORY)
    let parentMnt ← (fetchMntId parent []).onErr (Sys.close parent)
    (verifySameMnt parentMnt parent trailing).onErr (Sys.close parent)
    let r ← M.try' (Sys.openatFollow parent trailing oflags 0)
    (Sys.close parent : Prog Unit)
    M.ofExcept r

/-- `ProcfsHandle::open_follow` -/
def openFollowH (env : Env) (h : ProcH) (base : Base) (subpath : Bytes) (oflags : Nat) : M Fd :=
  -- the trailing slash first: it adds `O_DIRECTORY`, which can complete `O_TMPFILE`
  let oflags := if (Path.stripTrailingSlash subpath).2 then oflags ||| O_DIRECTORY else oflags
  let subpath := (Path.stripTrailingSlash subpath).1
  if hasAny oflags (O_CREAT ||| O_EXCL) || hasAll oflags O_TMPFILE then throw .invalidArgument else do
  -- only "not a symlink" (`EINVAL`, or `ENOENT` for the empty path of a non-symlink) and "no such
  -- file" make the no-follow open the right thing; `ENAMETOOLONG` is a magic-link whose target path
  -- cannot be printed (finding F25): still a symlink; any other failure of the probe is the answer
  -- (finding F22, repaired)
  match ← M.try' (readlinkH env h base subpath) with
  | .error e =>
    if e = .os EINVAL ∨ e = .os ENOENT then openH env retryFuel h base subpath oflags
    else if e = .os ENAMETOOLONG then openFollowTail env h base subpath oflags
    else throw e
  | .ok _ => openFollowTail env h base subpath oflags

/-- `FdExt::as_unsafe_path` (through the global handle) -/
def asUnsafePath (env : Env) (fd : Fd) : M Bytes := do
  let sub ← (Sys.procSubpath fd : Except Err _)
  readlinkH env env.proc .threadSelf sub

/-- `FdExt::reopen` (through the global handle) -/
def reopen (env : Env) (fd : Fd) (flags : Nat) : M Fd :=
  if hasAny flags (O_CREAT ||| O_EXCL) || hasAll flags O_TMPFILE then throw .invalidArgument
  else do
  let st ← Sys.fstatat fd []
  if st.isSymlink then throw (.os ELOOP) else
  let flags := clearBits flags O_NOFOLLOW
  let sub ← (Sys.procSubpath fd : Except Err _)
  openFollowH env env.proc .threadSelf sub flags

/-- `FdExt::is_magiclink_filesystem` -/
def isMagiclinkFilesystem (fd : Fd) : M Bool := do
  let t ← Sys.fstatfs fd
  pure (t = PROC_SUPER_MAGIC || t = APPARMORFS_MAGIC)

end Procfs
