import Pathrs.Proofs.Props.C05
import Pathrs.Proofs.Props.C15
import Pathrs.Proofs.Props.C16
import Pathrs.Proofs.Props.C17
import Pathrs.Proofs.Props.C18
