import Pathrs.Proofs.Props.C05
