import Pathrs.Proofs.KPath

/-!
# `partial_ancestors` by component count

`Path.partialAncestors` (the model of `Ancestors` in `src/utils/path.rs`) works on byte offsets.
`ancSpec` describes the same list in terms of the raw components of the path; the probing of
the kernel backend's partial lookup is analysed on `ancSpec`.
-/

open Path

namespace Ancestors

/-- the ancestors of a path with raw components `comps`, starting with a haystack of `k` components -/
def ancSpec (comps : List Bytes) : Nat → List (Bytes × Option Bytes)
  | 0 => []
  | 1 => [(Path.dot, if joinSlash comps = [] then none else some (joinSlash comps))]
  | k + 2 =>
    let dir := joinSlash (comps.take (k + 1))
    let tail := joinSlash (comps.drop (k + 1))
    let anc := if dir = [] then [slash] else dir
    let rem := if tail = [] then none else some tail
    if anc = Path.dot ∨ anc = [slash] then [(anc, rem)] else (anc, rem) :: ancSpec comps (k + 1)

/-! ## `joinSlash` -/

theorem joinSlash_cons (x : Bytes) {l : List Bytes} (hl : l ≠ []) :
    joinSlash (x :: l) = x ++ slash :: joinSlash l := by
  cases l with
  | nil => exact absurd rfl hl
  | cons y ys => rfl

theorem joinSlash_cons_cons (c : UInt8) (y : Bytes) (ys : List Bytes) :
    joinSlash ((c :: y) :: ys) = c :: joinSlash (y :: ys) := by
  cases ys with
  | nil => rfl
  | cons z zs => rfl

/-- round trip: joining the raw components gives the path back -/
theorem joinSlash_splitSlash (p : Bytes) : joinSlash (splitSlash p) = p := by
  induction p with
  | nil => rfl
  | cons c rest ih =>
    by_cases hc : c = slash
    · subst hc
      rw [KPath.splitSlash_cons_slash, joinSlash_cons _ (KPath.splitSlash_ne_nil rest), ih]
      rfl
    · obtain ⟨y, ys, hy, hcy⟩ := KPath.splitSlash_cons_noslash c rest hc
      rw [hcy, joinSlash_cons_cons, ← hy, ih]

theorem joinSlash_append {a b : List Bytes} (ha : a ≠ []) (hb : b ≠ []) :
    joinSlash (a ++ b) = joinSlash a ++ slash :: joinSlash b := by
  induction a with
  | nil => exact absurd rfl ha
  | cons x rest ih =>
    cases rest with
    | nil => exact joinSlash_cons x hb
    | cons y ys =>
      have h1 : (y :: ys) ++ b ≠ [] := by simp
      rw [List.cons_append, joinSlash_cons x h1, ih (by simp), joinSlash_cons x (by simp)]
      simp

theorem joinSlash_noslash (l : List Bytes) (hl : ∀ c ∈ l, containsSlash c = false)
    (h1 : l.length ≤ 1) : containsSlash (joinSlash l) = false := by
  match l, h1 with
  | [], _ => rfl
  | [x], _ => exact hl x List.mem_cons_self

/-! ## `rposSlash` -/

theorem filter_zipIdx_noslash (b : Bytes) (hb : containsSlash b = false) (k : Nat) :
    (b.zipIdx k).filter (fun (c, _) => c = slash) = [] := by
  induction b generalizing k with
  | nil => rfl
  | cons c rest ih =>
    have hc : c ≠ slash := by
      intro he; subst he; simp [containsSlash] at hb
    have hr : containsSlash rest = false := by
      simp [containsSlash] at hb ⊢; exact hb.2
    rw [List.zipIdx_cons, List.filter_cons]
    simp [hc, ih hr]

theorem rposSlash_noslash (b : Bytes) (hb : containsSlash b = false) : rposSlash b = none := by
  unfold rposSlash
  simp only [filter_zipIdx_noslash b hb 0]
  rfl

theorem rposSlash_append (a b : Bytes) (hb : containsSlash b = false) :
    rposSlash (a ++ slash :: b) = some a.length := by
  unfold rposSlash
  simp only [List.zipIdx_append, List.zipIdx_cons, List.filter_append, List.filter_cons,
    filter_zipIdx_noslash b hb]
  simp

/-! ## one step of the iterator -/

/-- the haystack of the iterator state `limit` -/
def hayOf (inner : Bytes) : Option Nat → Bytes
  | none => inner
  | some idx => inner.take idx

theorem ancestorsAux_succ (inner : Bytes) (fuel : Nat) (limit : Option Nat) :
    ancestorsAux inner (fuel + 1) limit =
      match rposSlash (hayOf inner limit) with
      | none => [(dot, if inner.isEmpty then none else some inner)]
      | some idx =>
        let dir := inner.take idx
        let base := inner.drop idx
        let (anc, rem) : Bytes × Option Bytes :=
          if base = [slash] then (if dir = [] then ([slash], none) else (dir, none))
          else (if dir = [] then ([slash], some (base.drop 1)) else (dir, some (base.drop 1)))
        if anc = [] ∨ anc = dot ∨ anc = [slash] then [(anc, rem)]
        else (anc, rem) :: ancestorsAux inner fuel (some idx) := by
  cases limit <;> rfl

theorem ancestorsAux_none (inner : Bytes) (fuel : Nat) (limit : Option Nat)
    (h : rposSlash (hayOf inner limit) = none) :
    ancestorsAux inner (fuel + 1) limit = [(dot, if inner = [] then none else some inner)] := by
  rw [ancestorsAux_succ, h]
  cases inner <;> simp

theorem ancestorsAux_some (inner : Bytes) (fuel : Nat) (limit : Option Nat) (idx : Nat)
    (dir tail : Bytes)
    (h : rposSlash (hayOf inner limit) = some idx)
    (hdir : inner.take idx = dir) (htail : inner.drop idx = slash :: tail) :
    ancestorsAux inner (fuel + 1) limit =
      (let anc := if dir = [] then [slash] else dir
       let rem := if tail = [] then none else some tail
       if anc = dot ∨ anc = [slash] then [(anc, rem)]
       else (anc, rem) :: ancestorsAux inner fuel (some idx)) := by
  rw [ancestorsAux_succ, h]
  simp only [hdir, htail]
  by_cases hd : dir = [] <;> by_cases ht : tail = [] <;> simp [hd, ht, dot]

/-! ## the iterator by component count -/

theorem ancestorsAux_eq (comps : List Bytes) (hl : ∀ c ∈ comps, containsSlash c = false) :
    ∀ (k fuel : Nat) (limit : Option Nat), 1 ≤ k → k ≤ comps.length → k ≤ fuel →
      hayOf (joinSlash comps) limit = joinSlash (comps.take k) →
      ancestorsAux (joinSlash comps) fuel limit = ancSpec comps k := by
  intro k
  induction k with
  | zero => intro fuel limit h1; omega
  | succ k ih =>
    intro fuel limit _ hk hf hhay
    obtain ⟨fuel, rfl⟩ : ∃ f, fuel = f + 1 := ⟨fuel - 1, by omega⟩
    cases k with
    | zero =>
      have hns : containsSlash (joinSlash (comps.take 1)) = false :=
        joinSlash_noslash _ (fun c hc => hl c (List.mem_of_mem_take hc)) (by simp; omega)
      rw [ancestorsAux_none _ _ _ (by rw [hhay]; exact rposSlash_noslash _ hns)]
      rfl
    | succ k =>
      have hlt : k + 1 < comps.length := by omega
      have htake : comps.take (k + 1 + 1) = comps.take (k + 1) ++ [comps[k + 1]] :=
        (List.take_append_getElem hlt).symm
      have hne1 : comps.take (k + 1) ≠ [] := by
        intro h; have := congrArg List.length h
        simp only [List.length_take, List.length_nil] at this; omega
      have hne2 : comps.drop (k + 1) ≠ [] := by
        intro h; have := congrArg List.length h
        simp only [List.length_drop, List.length_nil] at this; omega
      have hhay' : joinSlash (comps.take (k + 1 + 1)) =
          joinSlash (comps.take (k + 1)) ++ slash :: comps[k + 1] := by
        rw [htake, joinSlash_append hne1 (by simp)]; rfl
      have hinner : joinSlash comps =
          joinSlash (comps.take (k + 1)) ++ slash :: joinSlash (comps.drop (k + 1)) := by
        rw [← joinSlash_append hne1 hne2, List.take_append_drop]
      have hrpos := rposSlash_append (joinSlash (comps.take (k + 1))) comps[k + 1]
        (hl _ (List.getElem_mem hlt))
      have hdir : (joinSlash comps).take (joinSlash (comps.take (k + 1))).length =
          joinSlash (comps.take (k + 1)) := by
        conv => lhs; rw [hinner]
        exact List.take_left' rfl
      have htail : (joinSlash comps).drop (joinSlash (comps.take (k + 1))).length =
          slash :: joinSlash (comps.drop (k + 1)) := by
        conv => lhs; rw [hinner]
        exact List.drop_left' rfl
      rw [ancestorsAux_some _ _ _ _ _ _ (by rw [hhay, hhay']; exact hrpos) hdir htail]
      rw [ih fuel (some _) (by omega) (by omega) (by omega) hdir]
      rfl

theorem rawComponents_length_le (p : Bytes) : (rawComponents p).length ≤ p.length + 1 := by
  unfold rawComponents
  induction p with
  | nil => simp [splitSlash]
  | cons c rest ih =>
    by_cases hc : c = slash
    · subst hc
      rw [KPath.splitSlash_cons_slash]; simp; omega
    · obtain ⟨y, ys, hy, hcy⟩ := KPath.splitSlash_cons_noslash c rest hc
      rw [hcy]; rw [hy] at ih; simp at ih ⊢; omega

theorem partialAncestors_eq (p : Bytes) :
    Path.partialAncestors p = ancSpec (Path.rawComponents p) (Path.rawComponents p).length := by
  have hne : rawComponents p ≠ [] := KPath.splitSlash_ne_nil p
  have hlen : 1 ≤ (rawComponents p).length := by
    cases h : rawComponents p with
    | nil => exact absurd h hne
    | cons x xs => simp
  have hjoin : joinSlash (rawComponents p) = p := joinSlash_splitSlash p
  have := ancestorsAux_eq (rawComponents p) (rawComponents_single p)
    (rawComponents p).length (p.length + 2) none hlen (Nat.le_refl _)
    (by have := rawComponents_length_le p; omega) (by simp [hayOf])
  rw [hjoin] at this
  exact this

end Ancestors
