import Pathrs.Proofs.C02Runs
import Pathrs.Proofs.Props.C06
import Pathrs.Proofs.KRun

/-!
# The emulated lookup against an attacker who rearranges the tree between any two system calls

`Prog.run w` answers every call from one immutable world.  Here every system call is answered by the world *of its
moment*: `ws i` is the state of the machine when the `i`-th call is made, and nothing relates the trees of
different moments — the attacker may rename, exchange, replace, remove, move out of and into the root whatever it
likes, as often as it likes, between any two calls (`Attacker` only says that the root directory itself stays where it
is, and that libpathrs' own `thread-self` directory is not a symlink; the numbering of the procfs objects is fixed by
`World.answer`).

`emulated_resolve_under_attack`: if the emulated lookup nevertheless returns a descriptor, then at some moment during
the call the kernel's `d_path` placed that object below the root (`(ws i).dpath fd = some p`): the object was inside
the root's tree at that moment.  What it never returns is an object that was outside the tree at every moment of the call.

This composes the environment-universal theorem `C02_emulated_checked` (a successful lookup ends with a passed
`check_current` on the descriptor it returns) with the kernel's answers of `World.answer` — in particular the statement
`DPathSound` that `readlink(/proc/thread-self/fd/N)` prints where the open file is *at that moment*.

The proof never evaluates the lookup: `runSeq` is a `Runs` whose `k`-th answer is the one of moment `i0 + k`
(`runSeq_runs`), the theorems of C02/C06 invert that run down to the individual calls of the last `check_current`
(`asUnsafePath_inv`, `openH_inv`), and only those few answers are read off the worlds of their moments (`ans_at`,
`asUnsafePath_seq`).
-/

open K World KRun

namespace Attack

/-- every system call is answered by the world of its moment; returns the result and the index of the next moment -/
def runSeq {α : Type} (ws : Nat → World) : Nat → Prog α → α × Nat
  | i, .ret a => (a, i)
  | i, .call c k => runSeq ws (i + 1) (k ((ws i).answer c))

/-! ## `runSeq` basics -/

theorem runSeq_bind {α β : Type} (ws : Nat → World) (p : Prog α) (f : α → Prog β) (i : Nat) :
    runSeq ws i (Prog.bind p f) = runSeq ws (runSeq ws i p).2 (f (runSeq ws i p).1) := by
  induction p generalizing i with
  | ret a => rfl
  | call c k ih => exact ih _ _

/-- the `k`-th entry of the history was answered by the world of moment `i0 + k` -/
def AnsSeq (ws : Nat → World) (i0 : Nat) (H : Hist) : Prop :=
  ∀ k (hk : k < H.length), (H[k]).2 = (ws (i0 + k)).answer (H[k]).1

/-- `runSeq` is a run (in the sense of `Runs`) whose `k`-th new answer is the one of moment `i + k` -/
theorem runSeq_runs {α : Type} (ws : Nat → World) (p : Prog α) (i : Nat) (h : Hist) :
    ∃ l : Hist, Runs p h (h ++ l) (runSeq ws i p).1 ∧ (runSeq ws i p).2 = i + l.length ∧ AnsSeq ws i l := by
  induction p generalizing i h with
  | ret a =>
    refine ⟨[], ?_, rfl, fun k hk => by cases hk⟩
    rw [List.append_nil]; exact Runs.ret a h
  | call c k ih =>
    obtain ⟨l, hr, hn, ha⟩ := ih ((ws i).answer c) (i + 1) (h ++ [(c, (ws i).answer c)])
    refine ⟨(c, (ws i).answer c) :: l, ?_, ?_, ?_⟩
    · refine Runs.call c k ((ws i).answer c) h _ _ ?_
      have e : h ++ (c, (ws i).answer c) :: l = h ++ [(c, (ws i).answer c)] ++ l := by simp
      rw [e]; exact hr
    · show (runSeq ws (i + 1) (k ((ws i).answer c))).2 = _
      rw [hn]; simp only [List.length_cons]; omega
    · intro j hj
      cases j with
      | zero => rfl
      | succ j =>
        have := ha j (by simpa using hj)
        simpa [Nat.add_assoc, Nat.add_comm 1 j] using this

/-- reading one entry off a history answered by the moments -/
theorem ans_at {ws : Nat → World} {i0 : Nat} {H : Hist} (hans : AnsSeq ws i0 H) {pre hX : Hist} {c : Call} {r : Resp}
    (he : hX = pre ++ [(c, r)]) (hp : hX <+: H) :
    r = (ws (i0 + pre.length)).answer c ∧ pre.length < H.length := by
  obtain ⟨t, rfl⟩ := hp
  subst he
  have hlen : pre.length < (pre ++ [(c, r)] ++ t).length := by simp
  have h1 := hans pre.length hlen
  have h2 : (pre ++ [(c, r)] ++ t)[pre.length] = (c, r) :=
    List.getElem_of_append (l₂ := t) (by simp) rfl
  simp only [h2] at h1
  exact ⟨h1, hlen⟩

/-! ## What the answers of a world (any world) say about libpathrs' own procfs -/

theorem answer_openat2_proc (w : World) (p : Bytes) (fl md rs sz : Nat) (fd : Fd)
    (h : Resp.fd fd = w.answer (.openat2 procRoot p fl md rs sz)) : fd = threadSelf := by
  simp only [World.answer, ↓reduceIte] at h
  split at h
  · cases h; rfl
  · cases h

theorem answer_openat2_ts (w : World) (p : Bytes) (fl md rs sz : Nat) (fd : Fd)
    (h : Resp.fd fd = w.answer (.openat2 threadSelf p fl md rs sz)) :
    ((b!"fd/").isPrefixOf p = true ∧ fd = magic (parseDigits (p.drop 3))) ∨ (p = b!"fd" ∧ fd = fdDir) := by
  have hne : threadSelf ≠ procRoot := by decide
  simp only [World.answer, hne, ↓reduceIte] at h
  split at h
  · rename_i hp; cases h; exact Or.inl ⟨hp, rfl⟩
  · split at h
    · rename_i hp; cases h; exact Or.inr ⟨hp, rfl⟩
    · cases h

theorem answer_fstatfs_proc (w : World) (d : Fd) (h : Resp.nums [PROC_SUPER_MAGIC] = w.answer (.fstatfs d)) :
    d = threadSelf ∨ d = procRoot ∨ d % 2 = 1 := by
  simp only [World.answer] at h
  split at h
  · assumption
  · exact absurd h (by decide)

theorem answer_readlinkat (w : World) (d : Fd) (n : Nat) (b : Bytes)
    (h : Resp.bytes b = w.answer (.readlinkat d [] n)) :
    (d % 2 = 1 ∧ b = match w.dpath (d - 1) with | some p => w.render p | none => [0]) ∨
    (¬ d % 2 = 1 ∧ w.kind d = .lnk) := by
  simp only [World.answer, ne_eq, not_true_eq_false, ↓reduceIte] at h
  split at h
  · rename_i hodd
    left
    refine ⟨hodd, ?_⟩
    split at h
    · rename_i p he; cases h; rw [he]
    · rename_i he; cases h; rw [he]
  · rename_i hodd
    right
    split at h
    · rename_i hk; exact ⟨hodd, hk⟩
    · cases h

theorem int_link_cases (f : Int) (h0 : 0 ≤ f) (h : f + 1 = 2 ∨ f + 1 = 0 ∨ (f + 1) % 2 = 1) :
    f = 1 ∨ (f % 2 = 0 ∧ f + 1 - 1 = f ∧ (f + 1) % 2 = 1) := by omega

theorem answer_openat_dot (w : World) (d : Fd) (hd : d ≠ fdDir) (fl md : Nat) (fd : Fd)
    (h : Resp.fd fd = w.answer (.openat d Path.dot fl md)) : fd = d := by
  simp only [World.answer, hd, ↓reduceIte, World.lookup] at h
  by_cases hk : w.kind d = .dir
  · simp only [hk, ne_eq, not_true_eq_false, ↓reduceIte] at h
    cases h; rfl
  · simp only [hk, ne_eq, not_false_eq_true, ↓reduceIte] at h
    cases h

theorem components_nul : Path.components [0] = [Path.Comp.normal [0]] := by decide

theorem render_abs (w : World) (p : List Bytes) : Path.isAbsolute (w.render p) = true := rfl

/-- What is assumed about the sequence of worlds.  Nothing relates the trees of different moments, and none of them
has to be well-formed (`World.WF`): directory entries may lead anywhere (also to odd numbers and to procfs objects),
parents, kinds and link bodies are arbitrary and change from call to call.

Only three things are used by the proof.  `rc` (the absolute path of the root) and `m` (the mount id of libpathrs'
procfs) stay parameters so that the statement reads as before, but the theorem needs nothing about them: a successful
lookup is analysed through the answers it actually received, and these determine the outcome whatever `rootComps`,
`procMnt` and `root` of the worlds are (if they do not fit, the lookup just fails).  Dropped with respect to the first
draft of this structure, because the proof does not use them:
`root_eq`, `rootComps_eq`, `procMnt_eq` (see above); `rc_proper`, `path_proper` (a printed path of the root is
absolute whatever its components are, and the bytes `[0]` printed for an object outside the root are not: Rust's
`Path ==` already tells them apart at the first component); `path_short` (a path that does not fit the buffer makes
the lookup fail with `ENAMETOOLONG`); `path_tree` (which object a read of `thread-self/fd/<f>` is about is fixed by the
descriptor numbering of `World.answer`, not by `dpath`); `proc_mnt_ne` (an even object `≥ 4` that is returned by the
procfs lookup fails `fstatfs = PROC_SUPER_MAGIC` even if its mount id happens to be the handle's). -/
structure Attacker (ws : Nat → World) (root : Fd) (rc : List Bytes) (m : Nat) : Prop where
  /-- the root is a tree object (an even number `≥ 4`): its path is read through the magic-link `root + 1` -/
  root_tree : isTree root
  /-- the root directory itself is not moved: the attacker works inside the tree -/
  root_path : ∀ i, (ws i).dpath root = some []
  /-- libpathrs' `thread-self` directory (object 2) is never a symlink.  This is what is left of the draft's
  `kind_nontree : ∀ i d, ¬ isTree d → (ws i).kind d ≠ .lnk`; only the instance `d = threadSelf` is used.  It cannot be
  dropped, because the worlds need not be well-formed: let every `ws i` be the world with `root = 4`, `kind 4 = dir`,
  `child 4 "a" = some 1`, `dpath 4 = some []`, `dpath _ = none` otherwise, `rootComps = []`, `kind 2 = lnk`,
  `body 2 = "/a"`.  The lookup of `a` walks to object 1 (odd, never below the root: `dpath 1 = none` at every moment);
  `check_current` looks up `thread-self/fd/1`, which `World.answer` resolves to object `magic 1 = 2` — the thread-self
  directory, which passes the `statx`/`fstatfs` checks of the procfs lookup — and `readlinkat(2, "")` answers `body 2 =
  "/a"`, exactly the expected path: the lookup returns 1.  (For every other odd `f` the object `f + 1` is an even number
  `≥ 4`, which fails `fstatfs = PROC_SUPER_MAGIC`.)  This world is `badWorld` at the end of the file, where the run is
  evaluated. -/
  threadSelf_kind : ∀ i, (ws i).kind threadSelf ≠ .lnk

/-- the environment of the library in these worlds (it depends on the procfs mount id only) -/
def aenv (m : Nat) : Env :=
  { proc := { fd := procRoot, mntId := some m, isSubset := false, emulated := false },
    openat2 := true, protectedSymlinks := 0 }

/-! ## A successful procfs lookup, whatever the answers -/

open Runs in
theorem resolve_kernel_inv (m : Nat) (d : Fd) (p : Bytes) (fl : Nat) {h h' : Hist} {fd : Fd}
    (hfl : (hasAny fl (O_CREAT ||| O_EXCL) || hasAll fl O_TMPFILE) = false)
    (hr : Runs (Procfs.resolve (aenv m) (aenv m).proc.emulated d p fl 0) h h' (.ok fd)) :
    ∃ fl' rs, h' = h ++ [(Call.openat2 d (Path.toCString p) fl' 0 rs OPEN_HOW_SIZE, Resp.fd fd)] := by
  unfold Procfs.resolve Procfs.openat2Resolve at hr
  have hemu : (aenv m).proc.emulated = false := rfl
  have ho2 : (aenv m).openat2 = true := rfl
  simp only [hfl, hemu, ho2, Bool.false_eq_true, ↓reduceIte, Bool.not_true] at hr
  exact ⟨_, _, openat2_ok_last hr⟩

open Runs in
/-- a successful lookup of `thread-self/<sub>` through the (unmasked, kernel-resolver) handle: the base directory is
the answer of an `openat2` on the procfs root, the result the answer of an `openat2` on the base directory, and the
result passed `fstatfs = PROC_SUPER_MAGIC` -/
theorem openH_inv (m : Nat) (sub : Bytes) {hA hm : Hist} {link : Fd}
    (hr : Runs (Procfs.openH (aenv m) Procfs.retryFuel (aenv m).proc .threadSelf sub O_PATH) hA hm (.ok link)) :
    ∃ basedir path h1 h2 h3 fl1 rs1 fl2 rs2,
      (h1 ++ [(Call.openat2 procRoot path fl1 0 rs1 OPEN_HOW_SIZE, Resp.fd basedir)]) <+: hm ∧
      (h2 ++ [(Call.openat2 basedir (Path.toCString sub) fl2 0 rs2 OPEN_HOW_SIZE, Resp.fd link)]) <+: hm ∧
      (h3 ++ [(Call.fstatfs link, Resp.nums [PROC_SUPER_MAGIC])]) <+: hm := by
  have hfuel : Procfs.retryFuel = 63 + 1 := rfl
  rw [hfuel, Procfs.openH] at hr
  unfold Procfs.openStep at hr
  simp only [M.bind_def] at hr
  obtain ⟨hb, basedir, hbase, hr⟩ := mbind_ok hr
  obtain ⟨hl, first, htry, hr⟩ := mbind_ok hr
  obtain ⟨y, hy, hcase⟩ := try_inv htry
  have hpl : hl <+: hm := Runs.isPrefix hr
  have hpb : hb <+: hl := Runs.isPrefix htry
  rcases hcase with ⟨a, rfl, hfa⟩ | ⟨e, rfl, hfe⟩
  · cases hfa
    dsimp only at hr
    obtain ⟨_, _, _, hr⟩ := mbind_ok hr
    obtain ⟨_, he⟩ := ret_inv hr
    cases he
    -- the base directory
    unfold Procfs.openBase at hbase
    simp only [M.bind_def] at hbase
    obtain ⟨hb0, path, _, hbase⟩ := mbind_ok hbase
    obtain ⟨hb1, fd', hres, hbase⟩ := mbind_ok hbase
    have hpb1 : hb1 <+: hb := Runs.isPrefix hbase
    obtain ⟨_, _, _, hbase⟩ := mbind_ok hbase
    obtain ⟨_, he⟩ := ret_inv hbase
    cases he
    obtain ⟨fl1, rs1, e1⟩ := resolve_kernel_inv m _ _ _ (by decide) hres
    -- the lookup below it
    obtain ⟨_, pre, e3⟩ := C06_lookup_verified _ _ _ _ _ _ _ _ hy
    unfold Procfs.lookupVerified at hy
    simp only [M.bind_def] at hy
    obtain ⟨hl1, fd'', hres2, hy⟩ := mbind_ok hy
    have hpl1 : hl1 <+: hl := Runs.isPrefix hy
    obtain ⟨_, _, _, hy⟩ := mbind_ok hy
    obtain ⟨_, he⟩ := ret_inv hy
    cases he
    obtain ⟨fl2, rs2, e2⟩ := resolve_kernel_inv m _ _ _ (by decide) hres2
    have e1' : hb1 = hb0 ++ [(Call.openat2 procRoot (Path.toCString path) fl1 0 rs1 OPEN_HOW_SIZE, Resp.fd basedir)] := e1
    refine ⟨basedir, Path.toCString path, hb0, hb, pre, fl1, rs1, fl2, rs2, ?_, ?_, ?_⟩
    · rw [← e1']; exact hpb1.trans (hpb.trans hpl)
    · rw [← e2]; exact hpl1.trans hpl
    · rw [← e3]; exact hpl
  · have hsub : (aenv m).proc.isSubset = false := rfl
    rcases hfe with ⟨_, he⟩ | ⟨_, he⟩
    · cases he
    · cases he
      simp only [hsub, Bool.false_eq_true, false_and, ↓reduceIte] at hr
      obtain ⟨_, _, _, hr⟩ := mbind_ok hr
      obtain ⟨_, he⟩ := ret_inv hr
      cases he

/-- **What `as_unsafe_path` read**, when every call of the run is answered by the world of its moment: the descriptor
is an even number (the procfs lookup of `thread-self/fd/<f>` returns object `f + 1`, which passes
`fstatfs = PROC_SUPER_MAGIC` only if it is odd or the thread-self directory, and the latter cannot be read as a link),
and the bytes are what `d_path` printed for it at the moment `t` of the `readlinkat`. -/
theorem asUnsafePath_seq' {ws : Nat → World} {i0 : Nat} {H : Hist} (hans : AnsSeq ws i0 H)
    (hk : ∀ i, (ws i).kind threadSelf ≠ .lnk) (m : Nat) {f : Fd} {hA hB : Hist} {b : Bytes}
    (hr : Runs (Procfs.asUnsafePath (aenv m) f) hA hB (.ok b)) (hpre : hB <+: H) :
    ∃ t, i0 ≤ t ∧ t < i0 + H.length ∧ 0 ≤ f ∧ f % 2 = 0 ∧
      b = match (ws t).dpath f with
          | some p => (ws t).render p
          | none => [0] := by
  obtain ⟨sub, link, hm, r, hsub, hopen, hBe⟩ := asUnsafePath_inv hr
  have hpm : hm ++ [(Call.readlinkat link [] READLINK_BUF, Resp.bytes b)] <+: H :=
    List.IsPrefix.trans ⟨[(Call.close link, r)], by rw [hBe]; simp⟩ hpre
  obtain ⟨hrl, hlt⟩ := ans_at hans rfl hpm
  have hpmH : hm <+: H := (List.prefix_append _ _).trans hpm
  obtain ⟨basedir, path, h1, h2, h3, fl1, rs1, fl2, rs2, p1, p2, p3⟩ := openH_inv m sub hopen
  have hbd : basedir = threadSelf := answer_openat2_proc _ _ _ _ _ _ _ (ans_at hans rfl (p1.trans hpmH)).1
  subst hbd
  have hlk := answer_openat2_ts _ _ _ _ _ _ _ (ans_at hans rfl (p2.trans hpmH)).1
  have hfs := answer_fstatfs_proc _ _ (ans_at hans rfl (p3.trans hpmH)).1
  have hlink : 0 ≤ f ∧ link = f + 1 := by
    unfold Sys.procSubpath at hsub
    split at hsub
    · cases hsub
      rcases hlk with ⟨hp, _⟩ | ⟨hp, _⟩
      · exact absurd hp (by decide)
      · exact absurd hp (by decide)
    · split at hsub
      · rename_i h0
        cases hsub
        rw [toCString_id _ (fdpath_no_nul _)] at hlk
        rcases hlk with ⟨_, hl⟩ | ⟨hp, _⟩
        · have hdrop : (b!"fd/" ++ Path.decimal f.toNat).drop 3 = Path.decimal f.toNat := by simp
          rw [hdrop, KPath.parse_decimal] at hl
          have hnn : (f.toNat : Int) = f := Int.toNat_of_nonneg h0
          refine ⟨h0, ?_⟩
          rw [hl, magic, hnn]
        · have := congrArg List.length hp
          simp at this
      · cases hsub
  obtain ⟨h0, rfl⟩ := hlink
  rcases int_link_cases f h0 hfs with rfl | ⟨hev, hsub1, hodd⟩
  · rcases answer_readlinkat _ _ _ _ hrl with ⟨ho, _⟩ | ⟨_, hkk⟩
    · exact absurd ho (by decide)
    · exact absurd hkk (hk _)
  · rcases answer_readlinkat _ _ _ _ hrl with ⟨_, hb⟩ | ⟨hno, _⟩
    · rw [hsub1] at hb
      exact ⟨i0 + hm.length, by omega, by omega, h0, hev, hb⟩
    · exact absurd hodd hno

/-- `asUnsafePath_seq'` without the sign of the descriptor -/
theorem asUnsafePath_seq {ws : Nat → World} {i0 : Nat} {H : Hist} (hans : AnsSeq ws i0 H)
    (hk : ∀ i, (ws i).kind threadSelf ≠ .lnk) (m : Nat) {f : Fd} {hA hB : Hist} {b : Bytes}
    (hr : Runs (Procfs.asUnsafePath (aenv m) f) hA hB (.ok b)) (hpre : hB <+: H) :
    ∃ t, i0 ≤ t ∧ t < i0 + H.length ∧ f % 2 = 0 ∧
      b = match (ws t).dpath f with
          | some p => (ws t).render p
          | none => [0] := by
  obtain ⟨t, a, b, _, c, d⟩ := asUnsafePath_seq' hans hk m hr hpre
  exact ⟨t, a, b, c, d⟩

/-- a prefix of a history answered by the moments is answered by the moments -/
theorem AnsSeq.of_prefix {ws : Nat → World} {i0 : Nat} {H hm : Hist} (hans : AnsSeq ws i0 H) (hpre : hm <+: H) :
    AnsSeq ws i0 hm := by
  intro k hk
  obtain ⟨t, rfl⟩ := hpre
  have h2 := hans k (by rw [List.length_append]; omega)
  simp only [List.getElem_append_left hk] at h2
  exact h2

/-- **The emulated lookup as a sub-run of a history answered by the moments** (`hm`: everything up to and including the
lookup, the first entry answered at moment `i0`; the lookup itself starts after `h`): a descriptor it returns refers to
an object that was below the root at one of the moments of `hm`. -/
theorem emulated_resolve_sub' (ws : Nat → World) (root : Fd) (rc : List Bytes) (m : Nat)
    (ha : Attacker ws root rc m) (path : Bytes) (rflags : Nat) (nofollow : Bool) (i0 : Nat) {h hm : Hist} {fd : Fd}
    (hans : AnsSeq ws i0 hm) (hruns : Runs (Opath.resolve (aenv m) root path rflags nofollow) h hm (.ok fd)) :
    (0 ≤ fd ∧ fd % 2 = 0) ∧ ∃ i p, i0 ≤ i ∧ i < i0 + hm.length ∧ (ws i).dpath fd = some p := by
  obtain ⟨rd, hdup, hwf⟩ := emulated_checked _ _ _ _ _ hruns
  -- the walk's duplicate of the root is the root
  have hrd : rd = root := by
    have h1 := (ans_at hans (pre := h) rfl hdup).1
    simp only [World.answer] at h1
    cases h1; rfl
  subst hrd
  obtain ⟨exp, h0, h1, tail, hgood, _, hH, hcase⟩ := hwf
  have hp1 : h1 <+: hm := ⟨tail, hH.symm⟩
  rcases hcase with ⟨hc, _⟩ | ⟨hc, t2, htail, _⟩
  · -- the last check was on the descriptor returned
    obtain ⟨rootPath, curPath, rootPath2, hA, hB, r1, r2, r3, _, hcomp⟩ := checked_below_root hc hgood
    have pB : hB <+: hm := (Runs.isPrefix r3).trans hp1
    have pA : hA <+: hm := (Runs.isPrefix r2).trans pB
    obtain ⟨t1, _, _, _, e1⟩ := asUnsafePath_seq hans ha.threadSelf_kind m r1 pA
    rw [ha.root_path] at e1
    dsimp only at e1
    obtain ⟨t, hta, htb, hnn, hev, e2⟩ := asUnsafePath_seq' hans ha.threadSelf_kind m r2 pB
    refine ⟨⟨hnn, hev⟩, ?_⟩
    cases hd : (ws t).dpath fd with
    | some p => exact ⟨t, p, hta, htb, hd⟩
    | none =>
      rw [hd] at e2
      dsimp only at e2
      subst e1 e2
      have hcmp := hcomp (render_abs _ _)
      rw [components_nul, KPath.components_abs _ (render_abs _ _)] at hcmp
      simp at hcmp
  · -- the walk ended on its root duplicate: the result is `openat(root, ".")`, the root itself
    have hopen : h1 ++ [(Call.openat rd Path.dot (O_PATH ||| O_NOFOLLOW ||| O_NOFOLLOW ||| O_CLOEXEC ||| O_NOCTTY) 0,
        Resp.fd fd)] <+: hm := ⟨t2, by rw [hH, htail]; simp⟩
    obtain ⟨hresp, hlt⟩ := ans_at hans rfl hopen
    have hfd : fd = rd := answer_openat_dot _ _ (tree_ne_fdDir ha.root_tree) _ _ _ hresp
    exact ⟨by rw [hfd]; exact ⟨tree_nonneg ha.root_tree, ha.root_tree.2⟩,
      i0 + h1.length, [], by omega, by omega, by rw [hfd]; exact ha.root_path _⟩

/-- `emulated_resolve_sub'` without the parity of the descriptor -/
theorem emulated_resolve_sub (ws : Nat → World) (root : Fd) (rc : List Bytes) (m : Nat)
    (ha : Attacker ws root rc m) (path : Bytes) (rflags : Nat) (nofollow : Bool) (i0 : Nat) {h hm : Hist} {fd : Fd}
    (hans : AnsSeq ws i0 hm) (hruns : Runs (Opath.resolve (aenv m) root path rflags nofollow) h hm (.ok fd)) :
    ∃ i p, i0 ≤ i ∧ i < i0 + hm.length ∧ (ws i).dpath fd = some p :=
  (emulated_resolve_sub' ws root rc m ha path rflags nofollow i0 hans hruns).2

/-- **The emulated lookup under an arbitrary attacker**: a descriptor it returns refers to an object that was below
the root at some moment during the call. -/
theorem emulated_resolve_under_attack (ws : Nat → World) (root : Fd) (rc : List Bytes) (m : Nat)
    (ha : Attacker ws root rc m) (path : Bytes) (rflags : Nat) (nofollow : Bool) (i0 : Nat) (fd : Fd)
    (h : (runSeq ws i0 (Opath.resolve (aenv m) root path rflags nofollow)).1 = .ok fd) :
    ∃ i p, i0 ≤ i ∧ i < (runSeq ws i0 (Opath.resolve (aenv m) root path rflags nofollow)).2 ∧
      (ws i).dpath fd = some p := by
  obtain ⟨H, hruns, hlen, hans⟩ := runSeq_runs ws (Opath.resolve (aenv m) root path rflags nofollow) i0 []
  rw [h] at hruns
  rw [hlen]
  simp only [List.nil_append] at hruns
  exact emulated_resolve_sub ws root rc m ha path rflags nofollow i0 hans hruns

/-- non-vacuity of the attacker model: the constant sequence of a well-formed world is an attack (by nobody).  (`World.WF`
says nothing about the kinds of the procfs objects, hence `hts`.) -/
theorem attacker_const (w : World) (hw : w.WF) (hts : w.kind threadSelf ≠ .lnk) :
    Attacker (fun _ => w) w.root w.rootComps w.procMnt :=
  ⟨hw.root_tree, fun _ => hw.root_path, fun _ => hts⟩

/-- … and on it `runSeq` is `Prog.run` -/
theorem runSeq_const {α : Type} (w : World) (p : Prog α) (i : Nat) : (runSeq (fun _ => w) i p).1 = Prog.run w p := by
  induction p generalizing i with
  | ret a => rfl
  | call c k ih => exact ih _ _

/-- on the example world of C01, held still, the no-follow lookup of `a` returns object 6 -/
theorem ex_run : (runSeq (fun _ => exWorld) 0 (Opath.resolve (aenv exWorld.procMnt) exWorld.root b!"a" 0 true)).1 = .ok 6 := by
  refine (runSeq_const exWorld _ 0).trans ?_
  show Prog.run exWorld (Opath.resolve (KRun.kenv exWorld) exWorld.root b!"a" 0 true) = .ok 6
  rw [KSpec.run_opath_resolve exWorld_wf]
  unfold World.resolveInRoot
  rw [if_neg (by decide)]
  have hc : Path.rawComponents b!"a" = [b!"a"] := by decide
  rw [hc]
  show KSim.toOut (exWorld.kresolve _ 4 [b!"a"] 0) = _
  rw [KSim.k_name _ _ _ _ _ (by rfl) (by decide) (by decide) (by decide)]
  rfl

/-- non-vacuity of the theorem: its hypotheses are met by an actual successful run (`attacker_const`, `ex_run`), and it
says that the object returned was below the root at one of the moments of the call -/
example : ∃ i p, 0 ≤ i ∧
    i < (runSeq (fun _ => exWorld) 0 (Opath.resolve (aenv exWorld.procMnt) exWorld.root b!"a" 0 true)).2 ∧
    exWorld.dpath 6 = some p :=
  emulated_resolve_under_attack (fun _ => exWorld) exWorld.root exWorld.rootComps exWorld.procMnt
    (attacker_const exWorld exWorld_wf (by decide)) b!"a" 0 true 0 6 ex_run

/-! ### `Attacker.threadSelf_kind` cannot be dropped

The world of the comment at that field: everything of `Attacker` but `threadSelf_kind` holds of its constant sequence,
the lookup of `a` returns object 1, and object 1 is not below the root at any moment.  (The run is evaluated, not
proved: `#guard` is a build-time test and contributes nothing to the theorems above.) -/

/-- a world in which libpathrs' `thread-self` directory claims to be a symlink with body `/a` -/
def badWorld : World :=
  { root := 4
    kind := fun d => if d = 4 then .dir else if d = 2 then .lnk else .other
    child := fun d n => if d = 4 ∧ n = b!"a" then some 1 else none
    parent := fun _ => 4
    body := fun _ => b!"/a"
    dpath := fun d => if d = 4 then some [] else none
    rootComps := []
    procMnt := 22
    kernelLinks := 40 }

example : isTree badWorld.root ∧ badWorld.dpath badWorld.root = some [] ∧ badWorld.dpath 1 = none ∧
    badWorld.kind threadSelf = .lnk := by
  refine ⟨?_, rfl, rfl, rfl⟩
  show isTree 4
  unfold isTree; decide

#guard
  match (runSeq (fun _ => badWorld) 0 (Opath.resolve (aenv badWorld.procMnt) badWorld.root b!"a" 0 true)).1 with
  | .ok 1 => true
  | _ => false

end Attack
