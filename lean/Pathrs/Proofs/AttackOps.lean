import Pathrs.Proofs.Attack
import Pathrs.Proofs.Props.C14

/-!
# The mutating single-entry operations against an attacker who rearranges the tree between any two system calls

Same attacker as `Attack.lean` (`runSeq`: the `i`-th system call is answered by the world of moment `i`; the worlds of
different moments are unrelated).  For the operations of a `Root` that uses the emulated resolver: if the operation
succeeds, its run is — parent lookup(s), then exactly one mutating call on (parent descriptor, final name), then the
close(s) (`C14_*_shape`) — and every parent descriptor that mutating call names refers to a directory that the kernel's
`d_path` placed below the root at some moment *before* the mutating call was made.  (What the kernel then does with a
call relative to a descriptor is its fd-relative semantics; a directory that was inside the tree when it was verified can
only have been moved by the attacker afterwards.)

Caveat (see the last section): `World.answer` answers every mutating call `ENOSYS`, so under `runSeq` only `create_file`
(whose call is an `openat`) can succeed; for `remove`, `create` and `rename` the success hypothesis is unsatisfiable in
this kernel model (`remove_never_ok`, `create_never_ok`, `rename_never_ok`).
-/

open K World KRun Attack

namespace AttackOps

/-- a `Root` on descriptor `root` that uses the emulated resolver -/
def eroot (root : Fd) (rflags : Nat) : Root := { fd := root, resolver := { emulated := true, rflags := rflags } }

/-- a successful emulated lookup anywhere inside a history whose answers come from the worlds of their moments -/
theorem resolve_sub_under_attack (ws : Nat → World) (root : Fd) (rc : List Bytes) (m : Nat) (ha : Attacker ws root rc m)
    (path : Bytes) (rflags : Nat) (nofollow : Bool) (i0 : Nat) (H : Hist) (hans : AnsSeq ws i0 H)
    {h hm : Hist} {fd : Fd} (hr : Runs (Opath.resolve (aenv m) root path rflags nofollow) h hm (.ok fd))
    (hpre : hm <+: H) :
    ∃ i p, i0 ≤ i ∧ i < i0 + hm.length ∧ (ws i).dpath fd = some p := by
  exact emulated_resolve_sub ws root rc m ha path rflags nofollow i0 (hans.of_prefix hpre) hr

/-- **remove_file / remove_dir under attack** -/
theorem remove_under_attack (ws : Nat → World) (root : Fd) (rc : List Bytes) (m : Nat) (ha : Attacker ws root rc m)
    (path : Bytes) (rflags : Nat) (isDir : Bool) (i0 : Nat)
    (h : (runSeq ws i0 (Root.removeInode (aenv m) (eroot root rflags) path isDir)).1 = .ok ()) :
    ∃ parent name dir pre rcl H,
      Path.pathSplit path = .ok (parent, some name) ∧
      Runs (Root.removeInode (aenv m) (eroot root rflags) path isDir) [] H (.ok ()) ∧ AnsSeq ws i0 H ∧
      H = pre ++ [(Call.unlinkat dir name (if isDir then AT_REMOVEDIR else 0), Resp.unit), (Call.close dir, rcl)] ∧
      ∃ i p, i0 ≤ i ∧ i < i0 + pre.length ∧ (ws i).dpath dir = some p := by
  obtain ⟨H, hruns, _, hans⟩ := runSeq_runs ws (Root.removeInode (aenv m) (eroot root rflags) path isDir) i0 []
  rw [h] at hruns
  simp only [List.nil_append] at hruns
  obtain ⟨parent, name, dir, hm, rcl, hsplit, hres, hH⟩ := C14_remove_shape _ _ _ _ hruns
  have hres' : Runs (Opath.resolve (aenv m) root parent rflags false) [] hm (.ok dir) := hres
  exact ⟨parent, name, dir, hm, rcl, H, hsplit, hruns, hans, hH,
    resolve_sub_under_attack ws root rc m ha parent rflags false i0 H hans hres' ⟨_, hH.symm⟩⟩

/-- **create_file under attack** -/
theorem createFile_under_attack (ws : Nat → World) (root : Fd) (rc : List Bytes) (m : Nat) (ha : Attacker ws root rc m)
    (path : Bytes) (rflags flags perm : Nat) (i0 : Nat) (fd : Fd)
    (h : (runSeq ws i0 (Root.createFile (aenv m) (eroot root rflags) path flags perm)).1 = .ok fd) :
    ∃ parent name dir pre rcl H,
      Path.pathSplit path = .ok (parent, some name) ∧ name ≠ Path.dot ∧ name ≠ Path.dotdot ∧
      Runs (Root.createFile (aenv m) (eroot root rflags) path flags perm) [] H (.ok fd) ∧ AnsSeq ws i0 H ∧
      H = pre ++ [(Call.openat dir name (flags ||| O_CREAT ||| O_NOFOLLOW ||| O_CLOEXEC ||| O_NOCTTY) perm, Resp.fd fd),
                  (Call.close dir, rcl)] ∧
      ∃ i p, i0 ≤ i ∧ i < i0 + pre.length ∧ (ws i).dpath dir = some p := by
  obtain ⟨H, hruns, _, hans⟩ := runSeq_runs ws (Root.createFile (aenv m) (eroot root rflags) path flags perm) i0 []
  rw [h] at hruns
  simp only [List.nil_append] at hruns
  obtain ⟨parent, name, dir, hm, rcl, hsplit, hdot, hdd, hres, hH⟩ := C14_createFile_shape _ _ _ _ _ hruns
  have hres' : Runs (Opath.resolve (aenv m) root parent rflags false) [] hm (.ok dir) := hres
  exact ⟨parent, name, dir, hm, rcl, H, hsplit, hdot, hdd, hruns, hans, hH,
    resolve_sub_under_attack ws root rc m ha parent rflags false i0 H hans hres' ⟨_, hH.symm⟩⟩

/-- **create (every inode type but hard links) under attack** -/
theorem create_under_attack (ws : Nat → World) (root : Fd) (rc : List Bytes) (m : Nat) (ha : Attacker ws root rc m)
    (path : Bytes) (rflags : Nat) (ty : InodeType) (hty : ∀ t, ty ≠ .hardlink t) (i0 : Nat)
    (h : (runSeq ws i0 (Root.create (aenv m) (eroot root rflags) path ty)).1 = .ok ()) :
    ∃ parent name dir pre c rcl H,
      Path.pathSplit path = .ok (parent, some name) ∧
      Runs (Root.create (aenv m) (eroot root rflags) path ty) [] H (.ok ()) ∧ AnsSeq ws i0 H ∧
      isMutating c = true ∧ H = pre ++ [(c, Resp.unit), (Call.close dir, rcl)] ∧
      ∃ i p, i0 ≤ i ∧ i < i0 + pre.length ∧ (ws i).dpath dir = some p := by
  obtain ⟨H, hruns, _, hans⟩ := runSeq_runs ws (Root.create (aenv m) (eroot root rflags) path ty) i0 []
  rw [h] at hruns
  simp only [List.nil_append] at hruns
  obtain ⟨parent, name, dir, hm, c, rcl, hsplit, hres, hc, hH⟩ := C14_create_shape _ _ _ _ hty hruns
  have hres' : Runs (Opath.resolve (aenv m) root parent rflags false) [] hm (.ok dir) := hres
  exact ⟨parent, name, dir, hm, c, rcl, H, hsplit, hruns, hans, hc, hH,
    resolve_sub_under_attack ws root rc m ha parent rflags false i0 H hans hres' ⟨_, hH.symm⟩⟩

/-- **rename under attack**: both parents -/
theorem rename_under_attack (ws : Nat → World) (root : Fd) (rc : List Bytes) (m : Nat) (ha : Attacker ws root rc m)
    (src dst : Bytes) (rflags rnflags : Nat) (i0 : Nat)
    (h : (runSeq ws i0 (Root.rename (aenv m) (eroot root rflags) src dst rnflags)).1 = .ok ()) :
    ∃ sparent sname sdir dparent dname ddir pre c rc1 rc2 H,
      Path.pathSplit src = .ok (sparent, some sname) ∧ Path.pathSplit dst = .ok (dparent, some dname) ∧
      Runs (Root.rename (aenv m) (eroot root rflags) src dst rnflags) [] H (.ok ()) ∧ AnsSeq ws i0 H ∧
      isMutating c = true ∧ H = pre ++ [(c, Resp.unit), (Call.close sdir, rc1), (Call.close ddir, rc2)] ∧
      (∃ i p, i0 ≤ i ∧ i < i0 + pre.length ∧ (ws i).dpath sdir = some p) ∧
      (∃ i p, i0 ≤ i ∧ i < i0 + pre.length ∧ (ws i).dpath ddir = some p) := by
  obtain ⟨H, hruns, _, hans⟩ := runSeq_runs ws (Root.rename (aenv m) (eroot root rflags) src dst rnflags) i0 []
  rw [h] at hruns
  simp only [List.nil_append] at hruns
  obtain ⟨sparent, sname, sdir, dparent, dname, ddir, h1, h2, c, rc1, rc2, hs1, hs2, hres1, hres2, hc, hH⟩ :=
    C14_rename_shape _ _ _ _ _ hruns
  have hres1' : Runs (Opath.resolve (aenv m) root sparent rflags false) [] h1 (.ok sdir) := hres1
  have hres2' : Runs (Opath.resolve (aenv m) root dparent rflags false) h1 h2 (.ok ddir) := hres2
  have hp2 : h2 <+: H := ⟨_, hH.symm⟩
  have hp12 : h1 <+: h2 := Runs.isPrefix hres2
  obtain ⟨i, p, hi0, hi1, hp⟩ :=
    resolve_sub_under_attack ws root rc m ha sparent rflags false i0 H hans hres1' (hp12.trans hp2)
  have hle := hp12.length_le
  exact ⟨sparent, sname, sdir, dparent, dname, ddir, h2, c, rc1, rc2, H, hs1, hs2, hruns, hans, hc, hH,
    ⟨i, p, hi0, by omega, hp⟩,
    resolve_sub_under_attack ws root rc m ha dparent rflags false i0 H hans hres2' hp2⟩

/-! ## Non-vacuity, and what is vacuous

`runSeq` answers every call with `World.answer` of the world of its moment, and `World.answer` does not implement the
mutating calls: it answers each of them `ENOSYS` (`answer_mutating`).  An operation whose success requires an
acknowledged mutating call therefore never succeeds under `runSeq` (`remove_never_ok`, `create_never_ok`,
`rename_never_ok`): in *this* model of the kernel the hypothesis `h` of `remove_under_attack`, `create_under_attack`
and `rename_under_attack` is unsatisfiable and the three theorems hold vacuously.  Their content is in the proofs, which
nowhere use that fact: they go through `resolve_sub_under_attack`, for histories `H` with `AnsSeq ws i0 H` up to the
mutating call only (`pre`), and would go through unchanged for a `runSeq` over worlds that do answer mutating calls.

`create_file`'s call is an `openat`, which `World.answer` does answer (as a lookup): `createFile_under_attack` has
instances (`ex_createFile`), and so has `resolve_sub_under_attack` (`ex_run` of `Attack.lean`). -/

theorem answer_mutating (w : World) (c : Call) (hc : isMutating c = true) : w.answer c = .err ENOSYS := by
  cases c <;> first | rfl | cases hc

/-- no mutating call is acknowledged in a history answered by `World.answer` -/
theorem no_ack_mutating {ws : Nat → World} {i0 : Nat} {H pre t : Hist} {c : Call} (hans : AnsSeq ws i0 H)
    (hc : isMutating c = true) (hH : H = pre ++ (c, Resp.unit) :: t) : False := by
  have hp : pre ++ [(c, Resp.unit)] <+: H := ⟨t, by rw [hH]; simp⟩
  have h1 := (ans_at hans rfl hp).1
  rw [answer_mutating _ _ hc] at h1
  cases h1

theorem remove_never_ok (ws : Nat → World) (env : Env) (root : Root) (path : Bytes) (isDir : Bool) (i0 : Nat) :
    (runSeq ws i0 (Root.removeInode env root path isDir)).1 ≠ .ok () := by
  intro h
  obtain ⟨H, hruns, _, hans⟩ := runSeq_runs ws (Root.removeInode env root path isDir) i0 []
  rw [h] at hruns
  obtain ⟨_, _, _, _, _, _, _, hH⟩ := C14_remove_shape _ _ _ _ hruns
  exact no_ack_mutating hans rfl hH

theorem create_never_ok (ws : Nat → World) (env : Env) (root : Root) (path : Bytes) (ty : InodeType)
    (hty : ∀ t, ty ≠ .hardlink t) (i0 : Nat) : (runSeq ws i0 (Root.create env root path ty)).1 ≠ .ok () := by
  intro h
  obtain ⟨H, hruns, _, hans⟩ := runSeq_runs ws (Root.create env root path ty) i0 []
  rw [h] at hruns
  obtain ⟨_, _, _, _, _, _, _, _, hc, hH⟩ := C14_create_shape _ _ _ _ hty hruns
  exact no_ack_mutating hans hc hH

theorem rename_never_ok (ws : Nat → World) (env : Env) (root : Root) (src dst : Bytes) (rnflags : Nat) (i0 : Nat) :
    (runSeq ws i0 (Root.rename env root src dst rnflags)).1 ≠ .ok () := by
  intro h
  obtain ⟨H, hruns, _, hans⟩ := runSeq_runs ws (Root.rename env root src dst rnflags) i0 []
  rw [h] at hruns
  obtain ⟨_, _, _, _, _, _, _, _, _, _, _, _, _, _, _, hc, hH⟩ := C14_rename_shape _ _ _ _ _ hruns
  exact no_ack_mutating hans hc hH

/-- non-vacuity of `resolve_sub_under_attack`: the run `ex_run` of `Attack.lean` as a `Runs` (`runSeq_runs`), taken as
the sub-run that is the whole history -/
example : ∃ H : Hist, ∃ i p, 0 ≤ i ∧ i < 0 + H.length ∧ exWorld.dpath 6 = some p := by
  obtain ⟨H, hruns, _, hans⟩ :=
    runSeq_runs (fun _ => exWorld) (Opath.resolve (aenv exWorld.procMnt) exWorld.root b!"a" 0 true) 0 []
  rw [ex_run] at hruns
  simp only [List.nil_append] at hruns
  exact ⟨H, resolve_sub_under_attack (fun _ => exWorld) exWorld.root exWorld.rootComps exWorld.procMnt
    (attacker_const exWorld exWorld_wf (by decide)) b!"a" 0 true 0 H hans hruns (List.prefix_refl _)⟩

/-- on the example world of C01, held still: the parent `.` of the path `a` is the root, object 4 … -/
theorem ex_parent : Prog.run exWorld (Opath.resolve (aenv exWorld.procMnt) exWorld.root b!"." 0 false) = .ok 4 := by
  show Prog.run exWorld (Opath.resolve (KRun.kenv exWorld) exWorld.root b!"." 0 false) = .ok 4
  rw [KSpec.run_opath_resolve exWorld_wf]
  unfold World.resolveInRoot
  rw [if_neg (by decide)]
  have hc : Path.rawComponents b!"." = [b!"."] := by decide
  rw [hc]
  show KSim.toOut (exWorld.kresolve _ 4 [Path.dot] 0) = _
  rw [KSim.k_dot _ _ _ _ _ (by rfl) (Or.inr rfl), KSim.k_nil]
  rfl

/-- … and the `openat(4, "a", O_CREAT|…)` is answered with the existing object 6 -/
theorem ex_open : Prog.run exWorld (Root.createFileOpen 4 b!"a" 0 0) = .ok 6 := by
  unfold Root.createFileOpen
  rw [if_neg (by decide), run_openat 4 (by unfold isTree; decide)]
  rfl

/-- a successful operation under `runSeq`: `create_file("a")` on the example world returns object 6 -/
theorem ex_createFile :
    (runSeq (fun _ => exWorld) 0 (Root.createFile (aenv exWorld.procMnt) (eroot exWorld.root 0) b!"a" 0 0)).1 = .ok 6 := by
  refine (runSeq_const exWorld _ 0).trans ?_
  have hs : Path.pathSplit b!"a" = .ok (b!".", some b!"a") := by rfl
  unfold Root.createFile Root.resolveParent
  simp only [hs, Resolver.resolve, eroot, ↓reduceIte, M.bind_def, run_bind'_simp, run_do_liftE, ex_parent, run_do_pure,
    run_try_simp, ex_open, run_do_liftP, run_ofExcept_simp]

/-- non-vacuity of `createFile_under_attack`: its hypotheses are met by an actual successful run -/
example : ∃ parent name dir pre rcl H,
    Path.pathSplit b!"a" = .ok (parent, some name) ∧ name ≠ Path.dot ∧ name ≠ Path.dotdot ∧
    Runs (Root.createFile (aenv exWorld.procMnt) (eroot exWorld.root 0) b!"a" 0 0) [] H (.ok 6) ∧
    AnsSeq (fun _ => exWorld) 0 H ∧
    H = pre ++ [(Call.openat dir name (0 ||| O_CREAT ||| O_NOFOLLOW ||| O_CLOEXEC ||| O_NOCTTY) 0, Resp.fd 6),
                (Call.close dir, rcl)] ∧
    ∃ i p, 0 ≤ i ∧ i < 0 + pre.length ∧ exWorld.dpath dir = some p :=
  createFile_under_attack (fun _ => exWorld) exWorld.root exWorld.rootComps exWorld.procMnt
    (attacker_const exWorld exWorld_wf (by decide)) b!"a" 0 0 0 0 6 ex_createFile

end AttackOps
