import Pathrs.Proofs.Attack
import Pathrs.Proofs.Props.C14

/-!
# The mutating single-entry operations against an attacker who rearranges the tree between any two system calls

Same attacker as `Attack.lean` (`runSeq`: the `i`-th system call is answered by the world of moment `i`; the worlds of
different moments are unrelated).  For the operations of a `Root` that uses the emulated resolver: if the operation
succeeds, its run is — parent lookup(s), then exactly one mutating call on (parent descriptor, final name), then the
close(s) (`C14_*_shape`) — and every parent descriptor that mutating call names refers to a directory that the kernel's
`d_path` placed below the root at some moment *before* the mutating call was made.  (What the kernel then does with a
call relative to a descriptor is its fd-relative semantics; a directory that was inside the tree when it was verified can
only have been moved by the attacker afterwards.)

`World.mutAns` says how the kernel of a moment answers a mutating call (arbitrary; its effect is whatever the later
worlds look like), so all four operations can succeed under `runSeq` (examples at the end).

The two reading operations that do more than a lookup: `readlink_under_attack` (the bytes are the kernel's answer to
`readlinkat` on a descriptor whose object was below the root at an earlier moment of the call) and
`openSubpath_under_attack` (the emulated one-shot open: lookup, `fstat`, re-open through `thread-self/fd/<n>`).  For the
latter the re-open is not inverted call by call but bounded from above: `Post Kern p Q` says that `Q` holds of the result
of `p` whenever every call is answered by *some* world (a different one each time), and `post_reopen` shows, rule by
rule, that `Procfs.reopen` of an even non-negative descriptor `f` can only return `f` — in particular its readlink probe
never reports "not a symlink" (`EINVAL`/`ENOENT`), so the no-follow fallback, which would return the magic-link
`f + 1` itself, is never taken.
-/

open K World KRun Attack Runs

namespace AttackOps

/-- a `Root` on descriptor `root` that uses the emulated resolver -/
def eroot (root : Fd) (rflags : Nat) : Root := { fd := root, resolver := { emulated := true, rflags := rflags } }

/-- a successful emulated lookup anywhere inside a history whose answers come from the worlds of their moments -/
theorem resolve_sub_under_attack (ws : Nat → World) (root : Fd) (rc : List Bytes) (m : Nat) (ha : Attacker ws root rc m)
    (path : Bytes) (rflags : Nat) (nofollow : Bool) (i0 : Nat) (H : Hist) (hans : AnsSeq ws i0 H)
    {h hm : Hist} {fd : Fd} (hr : Runs (Opath.resolve (aenv m) root path rflags nofollow) h hm (.ok fd))
    (hpre : hm <+: H) :
    ∃ i p, i0 ≤ i ∧ i < i0 + hm.length ∧ (ws i).dpath fd = some p := by
  exact emulated_resolve_sub ws root rc m ha path rflags nofollow i0 (hans.of_prefix hpre) hr

/-- **remove_file / remove_dir under attack** -/
theorem remove_under_attack (ws : Nat → World) (root : Fd) (rc : List Bytes) (m : Nat) (ha : Attacker ws root rc m)
    (path : Bytes) (rflags : Nat) (isDir : Bool) (i0 : Nat)
    (h : (runSeq ws i0 (Root.removeInode (aenv m) (eroot root rflags) path isDir)).1 = .ok ()) :
    ∃ parent name dir pre rcl H,
      Path.pathSplit path = .ok (parent, some name) ∧
      Runs (Root.removeInode (aenv m) (eroot root rflags) path isDir) [] H (.ok ()) ∧ AnsSeq ws i0 H ∧
      H = pre ++ [(Call.unlinkat dir name (if isDir then AT_REMOVEDIR else 0), Resp.unit), (Call.close dir, rcl)] ∧
      ∃ i p, i0 ≤ i ∧ i < i0 + pre.length ∧ (ws i).dpath dir = some p := by
  obtain ⟨H, hruns, _, hans⟩ := runSeq_runs ws (Root.removeInode (aenv m) (eroot root rflags) path isDir) i0 []
  rw [h] at hruns
  simp only [List.nil_append] at hruns
  obtain ⟨parent, name, dir, hm, rcl, hsplit, hres, hH⟩ := C14_remove_shape _ _ _ _ hruns
  have hres' : Runs (Opath.resolve (aenv m) root parent rflags false) [] hm (.ok dir) := hres
  exact ⟨parent, name, dir, hm, rcl, H, hsplit, hruns, hans, hH,
    resolve_sub_under_attack ws root rc m ha parent rflags false i0 H hans hres' ⟨_, hH.symm⟩⟩

/-- **create_file under attack** -/
theorem createFile_under_attack (ws : Nat → World) (root : Fd) (rc : List Bytes) (m : Nat) (ha : Attacker ws root rc m)
    (path : Bytes) (rflags flags perm : Nat) (i0 : Nat) (fd : Fd)
    (h : (runSeq ws i0 (Root.createFile (aenv m) (eroot root rflags) path flags perm)).1 = .ok fd) :
    ∃ parent name dir pre rcl H,
      Path.pathSplit path = .ok (parent, some name) ∧ name ≠ Path.dot ∧ name ≠ Path.dotdot ∧
      Runs (Root.createFile (aenv m) (eroot root rflags) path flags perm) [] H (.ok fd) ∧ AnsSeq ws i0 H ∧
      H = pre ++ [(Call.openat dir name (flags ||| O_CREAT ||| O_NOFOLLOW ||| O_CLOEXEC ||| O_NOCTTY) perm, Resp.fd fd),
                  (Call.close dir, rcl)] ∧
      ∃ i p, i0 ≤ i ∧ i < i0 + pre.length ∧ (ws i).dpath dir = some p := by
  obtain ⟨H, hruns, _, hans⟩ := runSeq_runs ws (Root.createFile (aenv m) (eroot root rflags) path flags perm) i0 []
  rw [h] at hruns
  simp only [List.nil_append] at hruns
  obtain ⟨parent, name, dir, hm, rcl, hsplit, hdot, hdd, hres, hH⟩ := C14_createFile_shape _ _ _ _ _ hruns
  have hres' : Runs (Opath.resolve (aenv m) root parent rflags false) [] hm (.ok dir) := hres
  exact ⟨parent, name, dir, hm, rcl, H, hsplit, hdot, hdd, hruns, hans, hH,
    resolve_sub_under_attack ws root rc m ha parent rflags false i0 H hans hres' ⟨_, hH.symm⟩⟩

/-- **create (every inode type but hard links) under attack** -/
theorem create_under_attack (ws : Nat → World) (root : Fd) (rc : List Bytes) (m : Nat) (ha : Attacker ws root rc m)
    (path : Bytes) (rflags : Nat) (ty : InodeType) (hty : ∀ t, ty ≠ .hardlink t) (i0 : Nat)
    (h : (runSeq ws i0 (Root.create (aenv m) (eroot root rflags) path ty)).1 = .ok ()) :
    ∃ parent name dir pre c rcl H,
      Path.pathSplit path = .ok (parent, some name) ∧
      Runs (Root.create (aenv m) (eroot root rflags) path ty) [] H (.ok ()) ∧ AnsSeq ws i0 H ∧
      isMutating c = true ∧ H = pre ++ [(c, Resp.unit), (Call.close dir, rcl)] ∧
      ∃ i p, i0 ≤ i ∧ i < i0 + pre.length ∧ (ws i).dpath dir = some p := by
  obtain ⟨H, hruns, _, hans⟩ := runSeq_runs ws (Root.create (aenv m) (eroot root rflags) path ty) i0 []
  rw [h] at hruns
  simp only [List.nil_append] at hruns
  obtain ⟨parent, name, dir, hm, c, rcl, hsplit, hres, hc, hH⟩ := C14_create_shape _ _ _ _ hty hruns
  have hres' : Runs (Opath.resolve (aenv m) root parent rflags false) [] hm (.ok dir) := hres
  exact ⟨parent, name, dir, hm, c, rcl, H, hsplit, hruns, hans, hc, hH,
    resolve_sub_under_attack ws root rc m ha parent rflags false i0 H hans hres' ⟨_, hH.symm⟩⟩

/-- **rename under attack**: both parents -/
theorem rename_under_attack (ws : Nat → World) (root : Fd) (rc : List Bytes) (m : Nat) (ha : Attacker ws root rc m)
    (src dst : Bytes) (rflags rnflags : Nat) (i0 : Nat)
    (h : (runSeq ws i0 (Root.rename (aenv m) (eroot root rflags) src dst rnflags)).1 = .ok ()) :
    ∃ sparent sname sdir dparent dname ddir pre c rc1 rc2 H,
      Path.pathSplit src = .ok (sparent, some sname) ∧ Path.pathSplit dst = .ok (dparent, some dname) ∧
      Runs (Root.rename (aenv m) (eroot root rflags) src dst rnflags) [] H (.ok ()) ∧ AnsSeq ws i0 H ∧
      isMutating c = true ∧ H = pre ++ [(c, Resp.unit), (Call.close sdir, rc1), (Call.close ddir, rc2)] ∧
      (∃ i p, i0 ≤ i ∧ i < i0 + pre.length ∧ (ws i).dpath sdir = some p) ∧
      (∃ i p, i0 ≤ i ∧ i < i0 + pre.length ∧ (ws i).dpath ddir = some p) := by
  obtain ⟨H, hruns, _, hans⟩ := runSeq_runs ws (Root.rename (aenv m) (eroot root rflags) src dst rnflags) i0 []
  rw [h] at hruns
  simp only [List.nil_append] at hruns
  obtain ⟨sparent, sname, sdir, dparent, dname, ddir, h1, h2, c, rc1, rc2, hs1, hs2, hres1, hres2, hc, hH⟩ :=
    C14_rename_shape _ _ _ _ _ hruns
  have hres1' : Runs (Opath.resolve (aenv m) root sparent rflags false) [] h1 (.ok sdir) := hres1
  have hres2' : Runs (Opath.resolve (aenv m) root dparent rflags false) h1 h2 (.ok ddir) := hres2
  have hp2 : h2 <+: H := ⟨_, hH.symm⟩
  have hp12 : h1 <+: h2 := Runs.isPrefix hres2
  obtain ⟨i, p, hi0, hi1, hp⟩ :=
    resolve_sub_under_attack ws root rc m ha sparent rflags false i0 H hans hres1' (hp12.trans hp2)
  have hle := hp12.length_le
  exact ⟨sparent, sname, sdir, dparent, dname, ddir, h2, c, rc1, rc2, H, hs1, hs2, hruns, hans, hc, hH,
    ⟨i, p, hi0, by omega, hp⟩,
    resolve_sub_under_attack ws root rc m ha dparent rflags false i0 H hans hres2' hp2⟩

/-! ## `readlink` -/

/-- **readlink under attack**: the bytes returned are the kernel's answer, at some moment of the call, to `readlinkat` on
a descriptor of an object that was below the root at some (earlier) moment of the call -/
theorem readlink_under_attack (ws : Nat → World) (root : Fd) (rc : List Bytes) (m : Nat) (ha : Attacker ws root rc m)
    (path : Bytes) (rflags : Nat) (i0 : Nat) (body : Bytes)
    (h : (runSeq ws i0 (Root.readlink (aenv m) (eroot root rflags) path)).1 = .ok body) :
    ∃ link i p j, i0 ≤ i ∧ i < j ∧ j < (runSeq ws i0 (Root.readlink (aenv m) (eroot root rflags) path)).2 ∧
      (ws i).dpath link = some p ∧ (ws j).answer (.readlinkat link [] READLINK_BUF) = .bytes body := by
  obtain ⟨H, hruns, hlen, hans⟩ := runSeq_runs ws (Root.readlink (aenv m) (eroot root rflags) path) i0 []
  rw [h] at hruns
  rw [hlen]
  simp only [List.nil_append] at hruns
  unfold Root.readlink at hruns
  simp only [M.bind_def] at hruns
  obtain ⟨hm, link, hres, hr2⟩ := mbind_ok hruns
  obtain ⟨hm2, x, htry, hr3⟩ := mbind_ok hr2
  obtain ⟨y, hy, hcase⟩ := try_inv htry
  obtain ⟨hm3, _, hcl, hr4⟩ := mbind_ok hr3
  obtain ⟨_, hx⟩ := ofExcept_inv hr4
  subst hx
  have hp2 : hm2 <+: H := (Runs.isPrefix hr3)
  rcases hcase with ⟨a, rfl, hxa⟩ | ⟨e, rfl, hfe⟩
  · cases hxa
    have hrl := readlinkat_ok_inv hy
    have hres' : Runs (Opath.resolve (aenv m) root path rflags true) [] hm (.ok link) := hres
    obtain ⟨i, p, hi0, hi1, hp⟩ :=
      resolve_sub_under_attack ws root rc m ha path rflags true i0 H hans hres' ((Runs.isPrefix htry).trans hp2)
    obtain ⟨hresp, hlt⟩ := ans_at hans hrl hp2
    exact ⟨link, i, p, i0 + hm.length, hi0, hi1, by omega, hp, hresp.symm⟩
  · rcases hfe with ⟨_, hxe⟩ | ⟨_, hxe⟩ <;> cases hxe

/-! ## What a program can return when every call is answered by some world

`Post A p Q`: along every sequence of answers that satisfy `A` (call by call), the result of `p` satisfies `Q`. -/

/-- every answer `r` to a call `c` that satisfies `A c r` leads to a result satisfying `Q` -/
def Post (A : Call → Resp → Prop) {α : Type} : Prog α → (α → Prop) → Prop
  | .ret a, Q => Q a
  | .call c k, Q => ∀ r, A c r → Post A (k r) Q

namespace Post
variable {A : Call → Resp → Prop}

theorem mono {α : Type} {p : Prog α} {Q Q' : α → Prop} (hp : Post A p Q) (hq : ∀ a, Q a → Q' a) : Post A p Q' := by
  induction p with
  | ret a => exact hq a hp
  | call c k ih => exact fun r hr => ih r (hp r hr)

theorem any {α : Type} (p : Prog α) : Post A p (fun _ => True) := by
  induction p with
  | ret a => trivial
  | call c k ih => exact fun r _ => ih r

theorem bind {α β : Type} {p : Prog α} {f : α → Prog β} {Q' : α → Prop} {Q : β → Prop}
    (hp : Post A p Q') (hf : ∀ a, Q' a → Post A (f a) Q) : Post A (Prog.bind p f) Q := by
  induction p with
  | ret a => exact hf a hp
  | call c k ih => exact fun r hr => ih r (hp r hr)

theorem mbind {α β : Type} {p : M α} {f : α → M β} {Q' : Except Err α → Prop} {Q : Except Err β → Prop}
    (hp : Post A p Q') (hf : ∀ a, Q' (.ok a) → Post A (f a) Q) (he : ∀ e, Q' (.error e) → Q (.error e)) :
    Post A (M.bind' p f) Q := by
  unfold M.bind'
  refine bind hp ?_
  intro x hx
  cases x with
  | ok a => exact hf a hx
  | error e => exact he e hx

theorem mcall {β : Type} {c : Call} {f : Resp → M β} {Q : Except Err β → Prop}
    (h : ∀ r, A c r → Post A (f r) Q) : Post A (M.bind' (M.call c) f) Q := h

theorem lift {α : Type} {p : Prog α} {Q : Except Err α → Prop} (hp : Post A p (fun a => Q (.ok a))) :
    Post A (M.lift p) Q := by
  unfold M.lift
  exact bind hp (fun a ha => ha)

theorem onErr {α : Type} {p : M α} {c : Prog Unit} {Q : Except Err α → Prop} (hp : Post A p Q) :
    Post A (M.onErr p c) Q := by
  unfold M.onErr
  refine bind hp ?_
  intro x hx
  cases x with
  | ok a => exact hx
  | error e => exact bind (any c) (fun _ _ => hx)

theorem try' {α : Type} {p : M α} {Q : Except Err (Except Err α) → Prop}
    (hp : Post A p (fun x => match x with
      | .ok a => Q (.ok (.ok a))
      | .error e => (e.isFatal = true → Q (.error e)) ∧ (e.isFatal = false → Q (.ok (.error e))))) :
    Post A (M.try' p) Q := by
  unfold M.try'
  refine bind hp ?_
  intro x hx
  cases x with
  | ok a => exact hx
  | error e =>
    by_cases hf : e.isFatal = true
    · simp only [hf, ↓reduceIte]; exact hx.1 hf
    · simp only [hf]; exact hx.2 (by simpa using hf)

/-- the bridge to runs -/
theorem of_runs {α : Type} {p : Prog α} {Q : α → Prop} (hp : Post A p Q) {h h' : Hist} {a : α} (hr : Runs p h h' a)
    (hA : ∀ l, h' = h ++ l → ∀ x ∈ l, A x.1 x.2) : Q a := by
  induction hr with
  | ret a h => exact hp
  | call c k r h h' a hk ih =>
    obtain ⟨t, ht⟩ := Runs.isPrefix hk
    have hr : A c r := hA ((c, r) :: t) (by rw [← ht]; simp) (c, r) List.mem_cons_self
    refine ih (hp r hr) ?_
    intro l hl x hx
    exact hA ((c, r) :: l) (by rw [hl]; simp) x (List.mem_cons_of_mem _ hx)

end Post

/-! ## the answers of *some* world -/

/-- `r` is the answer of some world (any tree, any moment) to `c` -/
def Kern (c : Call) (r : Resp) : Prop := ∃ w : World, r = w.answer c

theorem kern_of_ansSeq {ws : Nat → World} {i0 : Nat} {H : Hist} (hans : AnsSeq ws i0 H) {h h' : Hist} (hp : h' <+: H) :
    ∀ l, h' = h ++ l → ∀ x ∈ l, Kern x.1 x.2 := by
  intro l hl x hx
  have hxH : x ∈ H := hp.subset (by rw [hl]; exact List.mem_append_right _ hx)
  obtain ⟨k, hk, rfl⟩ := List.getElem_of_mem hxH
  exact ⟨ws (i0 + k), hans k hk⟩

theorem post_failWith {α : Type} (fds : List Fd) (e : Nat) (Q : Except Err α → Prop)
    (h1 : Q (.error (.os e))) : Post Kern (Sys.failWith (α := α) fds e) Q := by
  unfold Sys.failWith
  induction fds with
  | nil => exact h1
  | cons fd rest ih =>
    unfold Sys.failWith.go
    refine Post.bind (Post.any _) ?_
    intro _ _
    exact ih

theorem post_statx (d : Fd) (hd : 0 ≤ d) (n : Bytes) :
    Post Kern (Sys.statx d n STATX_WANT) (fun x => ∃ id, x = .ok (STATX_WANT, id)) := by
  unfold Sys.statx
  simp only [M.bind_def, M.liftM_except, hotfix_tree hd, M.ofExcept_ok, M.bind_ok]
  refine Post.mcall ?_
  rintro r ⟨w, rfl⟩
  simp only [World.answer]
  by_cases hc : d = threadSelf ∨ d = procRoot ∨ d % 2 = 1 <;> simp only [hc, ↓reduceIte] <;> exact ⟨_, rfl⟩

theorem post_fetchMntId (d : Fd) (hd : 0 ≤ d) (n : Bytes) :
    Post Kern (Procfs.fetchMntId d n) (fun x => ∃ id, x = .ok (some id)) := by
  unfold Procfs.fetchMntId
  simp only [M.bind_def]
  refine Post.mbind (Q' := fun x => ∃ id, x = .ok (.ok (STATX_WANT, id))) (Post.try' ?_) ?_ ?_
  · refine (post_statx d hd n).mono ?_
    rintro _ ⟨id, rfl⟩
    exact ⟨id, rfl⟩
  · rintro _ ⟨id, he⟩
    cases he
    have : hasAny STATX_WANT STATX_WANT = true := by decide
    simp only [this, ↓reduceIte]
    exact ⟨id, rfl⟩
  · rintro _ ⟨_, he⟩; cases he

/-- the outcomes of the procfs checks: passed, or `EXDEV` -/
def OkOrXdev {α : Type} (a : α) (x : Except Err α) : Prop := x = .ok a ∨ x = .error (.os EXDEV)

theorem post_verifySameMnt (m : Nat) (d : Fd) (hd : 0 ≤ d) (n : Bytes) :
    Post Kern (Procfs.verifySameMnt (some m) d n) (OkOrXdev ()) := by
  unfold Procfs.verifySameMnt
  simp only [M.bind_def]
  refine Post.mbind (post_fetchMntId d hd n) ?_ ?_
  · rintro _ ⟨id, he⟩
    cases he
    split
    · exact Or.inr rfl
    · exact Or.inl rfl
  · rintro _ ⟨_, he⟩; cases he

theorem post_fstatfs (d : Fd) (hd : 0 ≤ d) : Post Kern (Sys.fstatfs d) (fun x => ∃ t, x = .ok t) := by
  unfold Sys.fstatfs
  simp only [M.bind_def, M.liftM_except, hotfix_tree hd, M.ofExcept_ok, M.bind_ok]
  refine Post.mcall ?_
  rintro r ⟨w, rfl⟩
  simp only [World.answer]
  by_cases hc : d = threadSelf ∨ d = procRoot ∨ d % 2 = 1 <;> simp only [hc, ↓reduceIte] <;> exact ⟨_, rfl⟩

theorem post_verifyIsProcfs (d : Fd) (hd : 0 ≤ d) : Post Kern (Procfs.verifyIsProcfs d) (OkOrXdev ()) := by
  unfold Procfs.verifyIsProcfs
  simp only [M.bind_def]
  refine Post.mbind (post_fstatfs d hd) ?_ ?_
  · rintro _ ⟨t, he⟩
    cases he
    split
    · exact Or.inr rfl
    · exact Or.inl rfl
  · rintro _ ⟨_, he⟩; cases he

theorem post_verifyProc (m : Nat) (d : Fd) (hd : 0 ≤ d) :
    Post Kern (Procfs.verifySameProcfsMnt (aenv m).proc d) (OkOrXdev ()) := by
  unfold Procfs.verifySameProcfsMnt
  simp only [M.bind_def]
  refine Post.mbind (post_verifySameMnt m d hd []) ?_ ?_
  · intro _ _; exact post_verifyIsProcfs d hd
  · rintro e (he | he)
    · cases he
    · exact Or.inr he

theorem post_intoPath : Post Kern (Procfs.intoPath .threadSelf procRoot) (fun x => x = .ok b!"thread-self") := by
  unfold Procfs.intoPath
  simp only [M.bind_def]
  refine Post.mbind (Q' := fun x => ∃ t, x = .ok t) ?_ ?_ ?_
  · show Post Kern (M.lift Sys.gettid) _
    exact Post.lift ((Post.any _).mono (fun a _ => ⟨a, rfl⟩))
  · intro tid _
    unfold Sys.threadSelfCandidates
    rw [Procfs.intoPath.probe]
    simp only [M.bind_def]
    refine Post.mbind (Q' := fun x => x = .ok true) ?_ ?_ ?_
    · show Post Kern (M.lift (Sys.existsAt procRoot b!"thread-self")) _
      refine Post.lift ?_
      unfold Sys.existsAt
      have h0 : Sys.hotfix procRoot = .ok () := hotfix_tree (by decide)
      rw [h0]
      rintro r ⟨w, rfl⟩
      have ha : w.answer (.fstatat procRoot b!"thread-self" STAT_FLAGS) = .nums [S_IFLNK ||| 0o777, 0, 3, 5] := by
        simp [World.answer, AT_FDCWD, procRoot]
      rw [ha]
      rfl
    · intro b hb; cases hb; rfl
    · intro _ he; cases he
  · rintro _ ⟨_, he⟩; cases he

/-- an `openat2` that every world answers with the same descriptor -/
theorem post_openat2 (d : Fd) (hd : 0 ≤ d) (p : Bytes) (hp : p.contains 0 = false) (fl rs : Nat) (L : Fd)
    (hL : ∀ w : World, w.answer (.openat2 d p (fl ||| O_CLOEXEC) 0 rs OPEN_HOW_SIZE) = .fd L) :
    Post Kern (Sys.openat2 d p fl rs) (fun x => x = .ok L) := by
  unfold Sys.openat2
  rw [if_neg (by rw [hp]; simp), toCString_id _ hp]
  simp only [M.bind_def, M.liftM_except, hotfix_tree hd, M.ofExcept_ok, M.bind_ok]
  refine Post.mcall ?_
  rintro r ⟨w, rfl⟩
  rw [hL w]
  rfl

theorem post_resolve (m : Nat) (d : Fd) (hd : 0 ≤ d) (p : Bytes) (hp : p.contains 0 = false) (fl : Nat) (L : Fd)
    (hfl : (hasAny fl (O_CREAT ||| O_EXCL) || hasAll fl O_TMPFILE) = false)
    (hL : ∀ (w : World) (fl rs : Nat), w.answer (.openat2 d p fl 0 rs OPEN_HOW_SIZE) = .fd L) :
    Post Kern (Procfs.resolve (aenv m) (aenv m).proc.emulated d p fl 0) (fun x => x = .ok L) := by
  unfold Procfs.resolve Procfs.openat2Resolve
  have hemu : (aenv m).proc.emulated = false := rfl
  have ho2 : (aenv m).openat2 = true := rfl
  simp only [hfl, hemu, ho2, Bool.false_eq_true, ↓reduceIte, Bool.not_true]
  exact post_openat2 d hd p hp _ _ L (fun w => hL w _ _)

theorem answer_proc_ts (w : World) (fl rs : Nat) :
    w.answer (.openat2 procRoot b!"thread-self" fl 0 rs OPEN_HOW_SIZE) = .fd threadSelf := by
  simp only [World.answer, ↓reduceIte]

theorem post_openBase (m : Nat) :
    Post Kern (Procfs.openBase (aenv m) (aenv m).proc .threadSelf) (OkOrXdev threadSelf) := by
  unfold Procfs.openBase
  simp only [M.bind_def]
  refine Post.mbind (post_intoPath) ?_ ?_
  · intro path hpath
    cases hpath
    refine Post.mbind (post_resolve m procRoot (by decide) b!"thread-self" (by decide) _ threadSelf (by decide)
      answer_proc_ts) ?_ ?_
    · intro fd hfd
      cases hfd
      refine Post.mbind (Post.onErr (post_verifyProc m threadSelf (by decide))) ?_ ?_
      · intro _ _; exact Or.inl rfl
      · rintro e (he | he)
        · cases he
        · cases he; exact Or.inr rfl
    · intro _ he; cases he
  · intro _ he; cases he

theorem post_lookupVerified (m : Nat) (sub : Bytes) (hsub : sub.contains 0 = false) (fl : Nat) (L : Fd) (hL0 : 0 ≤ L)
    (hfl : (hasAny fl (O_CREAT ||| O_EXCL) || hasAll fl O_TMPFILE) = false)
    (hL : ∀ (w : World) (fl rs : Nat), w.answer (.openat2 threadSelf sub fl 0 rs OPEN_HOW_SIZE) = .fd L) :
    Post Kern (Procfs.lookupVerified (aenv m) (aenv m).proc threadSelf sub fl) (OkOrXdev L) := by
  unfold Procfs.lookupVerified
  simp only [M.bind_def]
  refine Post.mbind (post_resolve m threadSelf (by decide) sub hsub fl L hfl hL) ?_ ?_
  · intro fd hfd
    cases hfd
    refine Post.mbind (Post.onErr (post_verifyProc m L hL0)) ?_ ?_
    · intro _ _; exact Or.inl rfl
    · rintro e (he | he)
      · cases he
      · cases he; exact Or.inr rfl
  · intro _ he; cases he

/-- `ProcfsHandle::open(thread-self, sub)` when every world answers the lookup of `sub` with `L`: `L`, or `EXDEV` -/
theorem post_openH (m : Nat) (sub : Bytes) (hsub : sub.contains 0 = false) (fl : Nat) (L : Fd) (hL0 : 0 ≤ L)
    (hfl : (hasAny (fl ||| O_NOFOLLOW) (O_CREAT ||| O_EXCL) || hasAll (fl ||| O_NOFOLLOW) O_TMPFILE) = false)
    (hL : ∀ (w : World) (fl rs : Nat), w.answer (.openat2 threadSelf sub fl 0 rs OPEN_HOW_SIZE) = .fd L) :
    Post Kern (Procfs.openH (aenv m) Procfs.retryFuel (aenv m).proc .threadSelf sub fl) (OkOrXdev L) := by
  have hfuel : Procfs.retryFuel = 63 + 1 := rfl
  rw [hfuel, Procfs.openH]
  unfold Procfs.openStep
  simp only [M.bind_def]
  refine Post.mbind (post_openBase m) ?_ ?_
  · intro basedir hb
    have hb' : basedir = threadSelf := by
      rcases hb with hb | hb <;> cases hb; rfl
    subst hb'
    refine Post.mbind (Q' := fun x => x = .ok (.ok L) ∨ x = .ok (.error (.os EXDEV))) (Post.try' ?_) ?_ ?_
    · refine (post_lookupVerified m sub hsub _ L hL0 hfl hL).mono ?_
      rintro x (rfl | rfl)
      · exact Or.inl rfl
      · exact ⟨fun hf => absurd hf (by decide), fun _ => Or.inr rfl⟩
    · rintro first (he | he)
      · cases he
        refine Post.mbind (Q' := fun x => x = .ok ()) ?_ ?_ ?_
        · show Post Kern (M.lift (Sys.close threadSelf)) _
          exact Post.lift ((Post.any _).mono (fun _ _ => rfl))
        · intro _ _; exact Or.inl rfl
        · intro _ he; cases he
      · cases he
        have hsub' : (aenv m).proc.isSubset = false := rfl
        simp only [hsub', Bool.false_eq_true, false_and, ↓reduceIte]
        refine Post.mbind (Q' := fun x => x = .ok ()) ?_ ?_ ?_
        · show Post Kern (M.lift (Sys.close threadSelf)) _
          exact Post.lift ((Post.any _).mono (fun _ _ => rfl))
        · intro _ _; exact Or.inr rfl
        · intro _ he; cases he
    · rintro _ (he | he) <;> cases he
  · rintro e (he | he)
    · cases he
    · cases he; exact Or.inr rfl

theorem int_even_magic (f : Int) (h0 : 0 ≤ f) (h2 : f % 2 = 0) : 0 ≤ f + 1 ∧ (f + 1) % 2 = 1 := by omega

theorem answer_ts_fd (f : Fd) (h0 : 0 ≤ f) (w : World) (fl rs : Nat) :
    w.answer (.openat2 threadSelf (b!"fd/" ++ Path.decimal f.toNat) fl 0 rs OPEN_HOW_SIZE) = .fd (magic f) := by
  have hnn : (f.toNat : Int) = f := Int.toNat_of_nonneg h0
  have hne : threadSelf ≠ procRoot := by decide
  have hpre : (b!"fd/").isPrefixOf (b!"fd/" ++ Path.decimal f.toNat) = true := by simp [List.isPrefixOf]
  have hdrop : (b!"fd/" ++ Path.decimal f.toNat).drop 3 = Path.decimal f.toNat := by simp
  simp only [World.answer, hne, hpre, hdrop, KPath.parse_decimal, hnn, ↓reduceIte]

theorem answer_ts_fdDir (w : World) (fl rs : Nat) :
    w.answer (.openat2 threadSelf b!"fd" fl 0 rs OPEN_HOW_SIZE) = .fd fdDir := by
  have hne : threadSelf ≠ procRoot := by decide
  have hpre : (b!"fd/").isPrefixOf b!"fd" = false := by decide
  simp only [World.answer, hne, hpre, ↓reduceIte, Bool.false_eq_true]

/-- what reading a link can say -/
def ReadOut (x : Except Err Bytes) : Prop :=
  (∃ b, x = .ok b) ∨ x = .error (.os EXDEV) ∨ x = .error (.os ENAMETOOLONG)

theorem post_readlinkat_odd (d : Fd) (hd : 0 ≤ d) (hodd : d % 2 = 1) : Post Kern (Sys.readlinkat d []) ReadOut := by
  unfold Sys.readlinkat
  simp only [M.bind_def, M.liftM_except, hotfix_tree hd, M.ofExcept_ok, M.bind_ok]
  refine Post.mcall ?_
  rintro r ⟨w, rfl⟩
  have ha : ∃ b, w.answer (.readlinkat d [] READLINK_BUF) = .bytes b := by
    simp only [World.answer, ne_eq, not_true_eq_false, ↓reduceIte, hodd]
    cases w.dpath (d - 1) <;> exact ⟨_, rfl⟩
  obtain ⟨b, hb⟩ := ha
  rw [hb]
  dsimp only
  split
  · exact post_failWith _ _ _ (Or.inr (Or.inr rfl))
  · exact Or.inl ⟨b, rfl⟩

/-- the probe of `open_follow` on `thread-self/fd/<f>` for an even `f`: it never says "not a symlink" -/
theorem post_readlinkH (m : Nat) (f : Fd) (h0 : 0 ≤ f) (h2 : f % 2 = 0) :
    Post Kern (Procfs.readlinkH (aenv m) (aenv m).proc .threadSelf (b!"fd/" ++ Path.decimal f.toNat)) ReadOut := by
  unfold Procfs.readlinkH
  simp only [M.bind_def]
  have hm := int_even_magic f h0 h2
  refine Post.mbind (post_openH m _ (fdpath_no_nul _) O_PATH (magic f) hm.1 (by decide) (answer_ts_fd f h0)) ?_ ?_
  · intro link hl
    have hl' : link = magic f := by rcases hl with hl | hl <;> cases hl; rfl
    subst hl'
    refine Post.mbind (Q' := fun x => ∃ y, x = .ok y ∧ ReadOut y) (Post.try' ?_) ?_ ?_
    · refine (post_readlinkat_odd (magic f) hm.1 hm.2).mono ?_
      intro x hx
      cases x with
      | ok b => exact ⟨_, rfl, hx⟩
      | error e =>
        refine ⟨fun hf => ?_, fun _ => ⟨_, rfl, hx⟩⟩
        rcases hx with ⟨_, he⟩ | he | he <;> cases he
        · exact absurd hf (by decide)
        · exact absurd hf (by decide)
    · rintro r ⟨y, he, hy⟩
      cases he
      refine Post.mbind (Q' := fun x => x = .ok ()) ?_ ?_ ?_
      · show Post Kern (M.lift (Sys.close (magic f))) _
        exact Post.lift ((Post.any _).mono (fun _ _ => rfl))
      · intro _ _
        cases r with
        | ok b => exact hy
        | error e => exact hy
      · intro _ he; cases he
    · rintro _ ⟨_, he, _⟩
      cases he
  · rintro e (he | he)
    · cases he
    · cases he; exact Or.inr (Or.inl rfl)

/-- the result, if any, is `f` -/
def OnlyFd (f : Fd) (x : Except Err Fd) : Prop := ∀ fd, x = .ok fd → fd = f

theorem post_openatFollow_fdDir (f : Fd) (h0 : 0 ≤ f) (fl : Nat) (hnf : hasAll (fl ||| O_CLOEXEC ||| O_NOCTTY) O_NOFOLLOW = false) :
    Post Kern (Sys.openatFollow fdDir (Path.decimal f.toNat) fl 0) (OnlyFd f) := by
  unfold Sys.openatFollow
  have hd : Sys.hotfix fdDir = .ok () := hotfix_tree (by decide)
  simp only [M.bind_def, M.liftM_except, hd, M.ofExcept_ok, M.bind_ok]
  refine Post.mcall ?_
  rintro r ⟨w, rfl⟩
  have hnn : (f.toNat : Int) = f := Int.toNat_of_nonneg h0
  simp only [World.answer, ↓reduceIte, hnf, Bool.false_eq_true, KPath.parse_decimal, hnn]
  cases openKind (w.kind f) (fl ||| O_CLOEXEC ||| O_NOCTTY) with
  | ok u =>
    intro fd he
    cases he
    rfl
  | error e =>
    exact post_failWith _ _ _ (fun fd he => by cases he)

theorem post_close_then {β : Type} (d : Fd) (f : Unit → M β) (Q : Except Err β → Prop) (h : Post Kern (f ()) Q) :
    Post Kern (M.bind' (liftM (Sys.close d) : M Unit) f) Q := by
  refine Post.mbind (Q' := fun x => x = .ok ()) ?_ ?_ ?_
  · show Post Kern (M.lift (Sys.close d)) _
    exact Post.lift ((Post.any _).mono (fun _ _ => rfl))
  · intro _ _; exact h
  · intro _ he; cases he

theorem post_openFollowTail (m : Nat) (f : Fd) (h0 : 0 ≤ f) (fl : Nat)
    (hnf : hasAll (fl ||| O_CLOEXEC ||| O_NOCTTY) O_NOFOLLOW = false) :
    Post Kern (Procfs.openFollowTail (aenv m) (aenv m).proc .threadSelf (b!"fd/" ++ Path.decimal f.toNat) fl) (OnlyFd f) := by
  unfold Procfs.openFollowTail
  simp only [M.bind_def, M.liftM_except, KOpen.pathSplit_fdpath, M.ofExcept_ok, M.bind_ok]
  have verr : ∀ e : Err, OnlyFd f (.error e) := fun e fd he => by cases he
  refine Post.mbind (post_openH m b!"fd" (by decide) (O_PATH ||| O_DIRECTORY) fdDir (by decide) (by decide) answer_ts_fdDir)
    ?_ (fun e _ => verr e)
  intro parent hp
  have hp' : parent = fdDir := by rcases hp with hp | hp <;> cases hp; rfl
  subst hp'
  refine Post.mbind (Post.onErr (post_fetchMntId fdDir (by decide) [])) ?_ (fun e _ => verr e)
  rintro pm ⟨id, he⟩
  cases he
  refine Post.mbind (Post.onErr (post_verifySameMnt id fdDir (by decide) _)) ?_ (fun e _ => verr e)
  intro _ _
  refine Post.mbind (Q' := fun x => ∀ y, x = .ok y → OnlyFd f y) (Post.try' ?_) ?_ (fun e _ => verr e)
  · refine (post_openatFollow_fdDir f h0 fl hnf).mono ?_
    intro x hx
    cases x with
    | ok a => intro y hy; cases hy; exact hx
    | error e =>
      refine ⟨fun _ y hy => ?_, fun _ y hy => ?_⟩
      · cases hy
      · cases hy; exact verr e
  · intro r hr
    refine post_close_then _ _ _ ?_
    have := hr r rfl
    cases r with
    | ok a => exact this
    | error e => exact this

theorem post_openFollowH (m : Nat) (f : Fd) (h0 : 0 ≤ f) (h2 : f % 2 = 0) (fl : Nat)
    (hnf : hasAll (fl ||| O_CLOEXEC ||| O_NOCTTY) O_NOFOLLOW = false) :
    Post Kern (Procfs.openFollowH (aenv m) (aenv m).proc .threadSelf (b!"fd/" ++ Path.decimal f.toNat) fl) (OnlyFd f) := by
  unfold Procfs.openFollowH
  simp only [KOpen.strip_fdpath, Bool.false_eq_true, ↓reduceIte]
  have verr : ∀ e : Err, OnlyFd f (.error e) := fun e fd he => by cases he
  split
  · exact verr _
  · simp only [M.bind_def]
    refine Post.mbind (Q' := fun x => ∃ y, x = .ok y ∧ ReadOut y) (Post.try' ?_) ?_ ?_
    · refine (post_readlinkH m f h0 h2).mono ?_
      intro x hx
      cases x with
      | ok b => exact ⟨_, rfl, hx⟩
      | error e =>
        refine ⟨fun hf => ?_, fun _ => ⟨_, rfl, hx⟩⟩
        rcases hx with ⟨_, he⟩ | he | he <;> cases he
        · exact absurd hf (by decide)
        · exact absurd hf (by decide)
    · rintro r ⟨y, he, hy⟩
      cases he
      rcases hy with ⟨b, rfl⟩ | rfl | rfl
      · exact post_openFollowTail m f h0 fl hnf
      · dsimp only
        rw [if_neg (by decide), if_neg (by decide)]
        exact verr _
      · dsimp only
        rw [if_neg (by decide), if_pos rfl]
        exact post_openFollowTail m f h0 fl hnf
    · intro e _; exact verr e

/-- **`reopen` of an even descriptor, whatever the worlds of its moments look like**: the result, if any, is the
descriptor's object again -/
theorem post_reopen (m : Nat) (f : Fd) (h0 : 0 ≤ f) (h2 : f % 2 = 0) (flags : Nat) :
    Post Kern (Procfs.reopen (aenv m) f flags) (OnlyFd f) := by
  unfold Procfs.reopen
  have verr : ∀ e : Err, OnlyFd f (.error e) := fun e fd he => by cases he
  split
  · exact verr _
  · simp only [M.bind_def]
    refine Post.mbind (Q' := fun _ => True) (Post.any _) ?_ (fun e _ => verr e)
    intro st _
    split
    · exact verr _
    · simp only [M.liftM_except, KProcReopen.procSubpath_nonneg f h0, M.ofExcept_ok, M.bind_ok]
      exact post_openFollowH m f h0 h2 _ (KOpen.reFlags_nofollow flags)

/-- **open_subpath (emulated one-shot open) under attack**: the descriptor returned refers to an object that was below
the root at some moment of the call (descriptors are identified with objects in `World`: the re-open through
`thread-self/fd/<n>` yields object `n` again) -/
theorem openSubpath_under_attack (ws : Nat → World) (root : Fd) (rc : List Bytes) (m : Nat) (ha : Attacker ws root rc m)
    (path : Bytes) (rflags flags : Nat) (i0 : Nat) (fd : Fd)
    (h : (runSeq ws i0 (Root.openSubpath (aenv m) (eroot root rflags) path flags)).1 = .ok fd) :
    ∃ i p, i0 ≤ i ∧ i < (runSeq ws i0 (Root.openSubpath (aenv m) (eroot root rflags) path flags)).2 ∧
      (ws i).dpath fd = some p := by
  obtain ⟨H, hruns, hlen, hans⟩ := runSeq_runs ws (Root.openSubpath (aenv m) (eroot root rflags) path flags) i0 []
  rw [h] at hruns
  rw [hlen]
  simp only [List.nil_append] at hruns
  unfold Root.openSubpath Resolver.openOnce at hruns
  split at hruns
  · obtain ⟨_, he⟩ := ret_inv hruns; cases he
  · simp only [eroot, Bool.not_true, Bool.false_eq_true, ↓reduceIte, M.bind_def, Resolver.resolve] at hruns
    obtain ⟨hm, handle, hres, hr2⟩ := mbind_ok hruns
    have hpm : hm <+: H := Runs.isPrefix hr2
    obtain ⟨⟨hnn, hev⟩, i, p, hi0, hi1, hp⟩ :=
      emulated_resolve_sub' ws root rc m ha path rflags _ i0 (hans.of_prefix hpm) hres
    have hlen' := hpm.length_le
    obtain ⟨hm2, st, hst, hr3⟩ := mbind_ok hr2
    split at hr3
    · -- the handle is a symlink: it is returned as it is (`O_PATH`), or the call fails
      split at hr3
      · obtain ⟨_, _, _, hr4⟩ := mbind_ok hr3
        obtain ⟨_, he⟩ := ret_inv hr4; cases he
      · split at hr3
        · obtain ⟨_, he⟩ := ret_inv hr3
          cases he
          exact ⟨i, p, hi0, by omega, hp⟩
        · obtain ⟨_, _, _, hr4⟩ := mbind_ok hr3
          obtain ⟨_, he⟩ := ret_inv hr4; cases he
    · -- the re-open through `thread-self/fd/<handle>`
      obtain ⟨hm3, res, htry, hr4⟩ := mbind_ok hr3
      obtain ⟨y, hy, hcase⟩ := try_inv htry
      have hp3 : hm3 <+: H := Runs.isPrefix hr4
      obtain ⟨hm4, _, hcl, hr5⟩ := mbind_ok hr4
      obtain ⟨_, hx⟩ := ofExcept_inv hr5
      subst hx
      rcases hcase with ⟨a, rfl, hxa⟩ | ⟨e, rfl, hfe⟩
      · cases hxa
        have hfd := (post_reopen m handle hnn hev flags).of_runs hy (kern_of_ansSeq hans hp3) fd rfl
        subst hfd
        exact ⟨i, p, hi0, by omega, hp⟩
      · rcases hfe with ⟨_, hxe⟩ | ⟨_, hxe⟩ <;> cases hxe

/-! ## Non-vacuity -/

/-- non-vacuity of `resolve_sub_under_attack`: the run `ex_run` of `Attack.lean` as a `Runs` (`runSeq_runs`), taken as
the sub-run that is the whole history -/
example : ∃ H : Hist, ∃ i p, 0 ≤ i ∧ i < 0 + H.length ∧ exWorld.dpath 6 = some p := by
  obtain ⟨H, hruns, _, hans⟩ :=
    runSeq_runs (fun _ => exWorld) (Opath.resolve (aenv exWorld.procMnt) exWorld.root b!"a" 0 true) 0 []
  rw [ex_run] at hruns
  simp only [List.nil_append] at hruns
  exact ⟨H, resolve_sub_under_attack (fun _ => exWorld) exWorld.root exWorld.rootComps exWorld.procMnt
    (attacker_const exWorld exWorld_wf (by decide)) b!"a" 0 true 0 H hans hruns (List.prefix_refl _)⟩

/-- on the example world of C01, held still: the parent `.` of the path `a` is the root, object 4 … -/
theorem ex_parent : Prog.run exWorld (Opath.resolve (aenv exWorld.procMnt) exWorld.root b!"." 0 false) = .ok 4 := by
  show Prog.run exWorld (Opath.resolve (KRun.kenv exWorld) exWorld.root b!"." 0 false) = .ok 4
  rw [KSpec.run_opath_resolve exWorld_wf]
  unfold World.resolveInRoot
  rw [if_neg (by decide)]
  have hc : Path.rawComponents b!"." = [b!"."] := by decide
  rw [hc]
  show KSim.toOut (exWorld.kresolve _ 4 [Path.dot] 0) = _
  rw [KSim.k_dot _ _ _ _ _ (by rfl) (Or.inr rfl), KSim.k_nil]
  rfl

/-- … and the `openat(4, "a", O_CREAT|…)` is answered with the existing object 6 -/
theorem ex_open : Prog.run exWorld (Root.createFileOpen 4 b!"a" 0 0) = .ok 6 := by
  unfold Root.createFileOpen
  rw [if_neg (by decide), run_openat 4 (by unfold isTree; decide)]
  rfl

/-- a successful operation under `runSeq`: `create_file("a")` on the example world returns object 6 -/
theorem ex_createFile :
    (runSeq (fun _ => exWorld) 0 (Root.createFile (aenv exWorld.procMnt) (eroot exWorld.root 0) b!"a" 0 0)).1 = .ok 6 := by
  refine (runSeq_const exWorld _ 0).trans ?_
  have hs : Path.pathSplit b!"a" = .ok (b!".", some b!"a") := by rfl
  unfold Root.createFile Root.resolveParent
  simp only [hs, Resolver.resolve, eroot, ↓reduceIte, M.bind_def, run_bind'_simp, run_do_liftE, ex_parent, run_do_pure,
    run_try_simp, ex_open, run_do_liftP, run_ofExcept_simp]

/-- non-vacuity of `createFile_under_attack`: its hypotheses are met by an actual successful run -/
example : ∃ parent name dir pre rcl H,
    Path.pathSplit b!"a" = .ok (parent, some name) ∧ name ≠ Path.dot ∧ name ≠ Path.dotdot ∧
    Runs (Root.createFile (aenv exWorld.procMnt) (eroot exWorld.root 0) b!"a" 0 0) [] H (.ok 6) ∧
    AnsSeq (fun _ => exWorld) 0 H ∧
    H = pre ++ [(Call.openat dir name (0 ||| O_CREAT ||| O_NOFOLLOW ||| O_CLOEXEC ||| O_NOCTTY) 0, Resp.fd 6),
                (Call.close dir, rcl)] ∧
    ∃ i p, 0 ≤ i ∧ i < 0 + pre.length ∧ exWorld.dpath dir = some p :=
  createFile_under_attack (fun _ => exWorld) exWorld.root exWorld.rootComps exWorld.procMnt
    (attacker_const exWorld exWorld_wf (by decide)) b!"a" 0 0 0 0 6 ex_createFile

/-- a world sequence on which a mutating call is acknowledged: `exWorld` at every moment, whose kernel answers every
mutating call with success -/
def ackWorld : World := { exWorld with mutAns := fun _ => .unit }

/-- `WF` does not mention `mutAns` -/
theorem ackWorld_wf : ackWorld.WF := { exWorld_wf with }

/-- the parent `.` of the path `a` is the root, object 4, also on `ackWorld` -/
theorem ack_parent : Prog.run ackWorld (Opath.resolve (aenv ackWorld.procMnt) ackWorld.root b!"." 0 false) = .ok 4 := by
  show Prog.run ackWorld (Opath.resolve (KRun.kenv ackWorld) ackWorld.root b!"." 0 false) = .ok 4
  rw [KSpec.run_opath_resolve ackWorld_wf]
  unfold World.resolveInRoot
  rw [if_neg (by decide)]
  have hc : Path.rawComponents b!"." = [b!"."] := by decide
  rw [hc]
  show KSim.toOut (ackWorld.kresolve _ 4 [Path.dot] 0) = _
  rw [KSim.k_dot _ _ _ _ _ (by rfl) (Or.inr rfl), KSim.k_nil]
  rfl

theorem ack_unlink : Prog.run ackWorld (Sys.unlinkat 4 b!"a" 0) = .ok () := by rfl
theorem ack_mkdir : Prog.run ackWorld (Sys.mkdirat 4 b!"a" (Root.clearFmt 0o755)) = .ok () := by rfl
theorem ack_rename : Prog.run ackWorld (Sys.renameat2 4 b!"a" 4 b!"b" 0) = .ok () := by rfl

/-- non-vacuity of `remove_under_attack`: an operation with a mutating call succeeds under `runSeq` -/
theorem ex_remove : (runSeq (fun _ => ackWorld) 0 (Root.removeInode (aenv ackWorld.procMnt) (eroot ackWorld.root 0) b!"a" false)).1 = .ok () := by
  refine (runSeq_const ackWorld _ 0).trans ?_
  have hs : Path.pathSplit b!"a" = .ok (b!".", some b!"a") := by rfl
  unfold Root.removeInode Root.resolveParent
  simp only [hs, Resolver.resolve, eroot, ↓reduceIte, M.bind_def, run_bind'_simp, run_do_liftE, ack_parent, run_do_pure,
    run_try_simp, ack_unlink, run_do_liftP, run_ofExcept_simp, Bool.false_eq_true]

example := remove_under_attack (fun _ => ackWorld) ackWorld.root ackWorld.rootComps ackWorld.procMnt
  (attacker_const ackWorld ackWorld_wf (by decide)) b!"a" 0 false 0 ex_remove

/-- non-vacuity of `create_under_attack`: `mkdir a` -/
theorem ex_create : (runSeq (fun _ => ackWorld) 0 (Root.create (aenv ackWorld.procMnt) (eroot ackWorld.root 0) b!"a" (.directory 0o755))).1 = .ok () := by
  refine (runSeq_const ackWorld _ 0).trans ?_
  have hs : Path.pathSplit b!"a" = .ok (b!".", some b!"a") := by rfl
  unfold Root.create Root.resolveParent
  simp only [hs, Resolver.resolve, eroot, ↓reduceIte, M.bind_def, run_bind'_simp, run_do_liftE, ack_parent, run_do_pure,
    run_try_simp, Root.createCall, ack_mkdir, run_do_liftP, run_ofExcept_simp]

example := create_under_attack (fun _ => ackWorld) ackWorld.root ackWorld.rootComps ackWorld.procMnt
  (attacker_const ackWorld ackWorld_wf (by decide)) b!"a" 0 (.directory 0o755) (fun _ h => by cases h) 0 ex_create

/-- non-vacuity of `rename_under_attack`: `rename a b` -/
theorem ex_rename : (runSeq (fun _ => ackWorld) 0 (Root.rename (aenv ackWorld.procMnt) (eroot ackWorld.root 0) b!"a" b!"b" 0)).1 = .ok () := by
  refine (runSeq_const ackWorld _ 0).trans ?_
  have hs : Path.pathSplit b!"a" = .ok (b!".", some b!"a") := by rfl
  have hs2 : Path.pathSplit b!"b" = .ok (b!".", some b!"b") := by rfl
  unfold Root.rename Root.resolveParent
  simp only [hs, hs2, Resolver.resolve, eroot, ↓reduceIte, M.bind_def, run_bind'_simp, run_do_liftE, ack_parent, run_do_pure,
    run_try_simp, ack_rename, run_do_liftP, run_ofExcept_simp, run_onErr_simp]

example := rename_under_attack (fun _ => ackWorld) ackWorld.root ackWorld.rootComps ackWorld.procMnt
  (attacker_const ackWorld ackWorld_wf (by decide)) b!"a" b!"b" 0 0 0 ex_rename

/-- non-vacuity of `readlink_under_attack`: object 6 of the example world is the symlink `a -> a` -/
theorem ex_readlink :
    (runSeq (fun _ => exWorld) 0 (Root.readlink (aenv exWorld.procMnt) (eroot exWorld.root 0) b!"a")).1 = .ok b!"a" := by
  refine (runSeq_const exWorld _ 0).trans ?_
  have hres : Prog.run exWorld (Opath.resolve (aenv exWorld.procMnt) exWorld.root b!"a" 0 true) = .ok 6 :=
    (runSeq_const exWorld _ 0).symm.trans ex_run
  have hrl : Prog.run exWorld (Sys.readlinkat 6 []) = .ok b!"a" :=
    run_readlinkat_lnk exWorld_wf 6 (by unfold isTree; decide) rfl
  unfold Root.readlink Root.resolve
  simp only [Resolver.resolve, eroot, ↓reduceIte, M.bind_def, run_bind'_simp, hres, run_try_simp, hrl, run_do_liftP,
    run_ofExcept_simp]

/-- non-vacuity of `openSubpath_under_attack`: `open_subpath(".", O_PATH|O_DIRECTORY)` goes through the re-open and returns
the root again -/
theorem ex_openSubpath :
    (runSeq (fun _ => exWorld) 0
      (Root.openSubpath (aenv exWorld.procMnt) (eroot exWorld.root 0) b!"." (O_PATH ||| O_DIRECTORY))).1 = .ok 4 := by
  refine (runSeq_const exWorld _ 0).trans ?_
  show Prog.run exWorld (Resolver.openOnce (kenv exWorld) { emulated := true, rflags := 0 } exWorld.root b!"." _) = _
  rw [KOpen.run_openOnce_emulated exWorld_wf _ _ _ (by decide)]
  have hr : resolveInRoot exWorld (KSpec.ecfg 0 (hasAll (O_PATH ||| O_DIRECTORY) O_NOFOLLOW)) b!"." = .ok 4 := by
    unfold World.resolveInRoot
    rw [if_neg (by decide)]
    have hc : Path.rawComponents b!"." = [b!"."] := by decide
    rw [hc]
    show exWorld.kresolve _ 4 [Path.dot] 0 = _
    rw [KSim.k_dot _ _ _ _ _ (by rfl) (Or.inr rfl), KSim.k_nil]
  unfold KOpen.openSpec
  rw [hr]
  rfl

example := readlink_under_attack (fun _ => exWorld) exWorld.root exWorld.rootComps exWorld.procMnt
  (attacker_const exWorld exWorld_wf (by decide)) b!"a" 0 0 b!"a" ex_readlink

example := openSubpath_under_attack (fun _ => exWorld) exWorld.root exWorld.rootComps exWorld.procMnt
  (attacker_const exWorld exWorld_wf (by decide)) b!"." 0 (O_PATH ||| O_DIRECTORY) 0 4 ex_openSubpath

end AttackOps
