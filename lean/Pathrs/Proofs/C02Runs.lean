import Pathrs.Proofs.Runs
import Pathrs.Proofs.KPath
import Pathrs.Proofs.SafeGen
import Pathrs.Proofs.Props.C01

/-!
# C02 — lookups never escape the root under any concurrent attacker schedule

The theorems are about `Runs`, the relational semantics of the model programs: a statement
`Runs p h h' r → …` holds for *every* sequence of answers, i.e. for every interleaving of
attacker mutations with the library's own system calls (each mutation can only show up as
different answers to later calls).

* `C02_emulated_checked`: a successful emulated lookup ends with a passed `check_current` on the
  very descriptor it returns (`WalkFinal`): the three `/proc/thread-self/fd` reads
  root, fd, root with `Path::eq`-equal results (`CheckPassed`, `checkCurrent_inv`);
* `asUnsafePath_inv`: the bytes compared are the kernel's answers to `readlinkat(link, "")` on the
  descriptor libpathrs' own procfs lookup returned for `thread-self/fd/<n>` (verified on the
  descriptor itself, C06);
* `checked_below_root`: such a passed check means the path the kernel printed for `fd` consists
  of the components of the root's path followed by the expected components, none of which is
  `..`, `.` or empty — the object was below the root at the instant of the read — and the root's
  own path was the same before and after;
* `C02_kernel_confined`: the kernel backend returns only the answer of an
  `openat2(root, …, RESOLVE_IN_ROOT|RESOLVE_NO_MAGICLINKS|…)`, makes at most 16 such calls, and
  never reports `EAGAIN` (after the 16th it is `SafetyViolation`).

What is *not* a theorem (kernel facts, trusted): that the `d_path` output of
`/proc/thread-self/fd/<n>` is a snapshot of where the open file is (`DPathSound`), and that
`RESOLVE_IN_ROOT` confines the kernel's walk.  The attacker-interposition suite of the check
exercises exactly these on the live kernel.
-/

open K Runs KPath Path

/-- what a passing `check_current` has read, whatever the environment did -/
def CheckPassed (env : Env) (cur root : Fd) (exp : List Bytes) (h0 h1 : Hist) : Prop :=
  ∃ rootPath curPath rootPath2 hA hB,
    Runs (Procfs.asUnsafePath env root) h0 hA (.ok rootPath) ∧
    Runs (Procfs.asUnsafePath env cur) hA hB (.ok curPath) ∧
    Runs (Procfs.asUnsafePath env root) hB h1 (.ok rootPath2) ∧
    pathEq curPath (expectedFullPath rootPath exp) = true ∧
    pathEq rootPath rootPath2 = true

theorem checkCurrent_inv {env : Env} {cur root : Fd} {exp : List Bytes} {h0 h1 : Hist}
    (hr : Runs (Opath.checkCurrent env cur root exp) h0 h1 (.ok ())) : CheckPassed env cur root exp h0 h1 := by
  unfold Opath.checkCurrent at hr
  simp only [M.bind_def] at hr
  obtain ⟨hA, rootPath, r1, hr⟩ := mbind_ok hr
  obtain ⟨hB, curPath, r2, hr⟩ := mbind_ok hr
  by_cases hc : pathEq curPath (expectedFullPath rootPath exp) = true
  · simp only [hc, Bool.not_true, Bool.false_eq_true, ↓reduceIte] at hr
    obtain ⟨hC, rootPath2, r3, hr⟩ := mbind_ok hr
    by_cases hc2 : pathEq rootPath rootPath2 = true
    · simp only [hc2, Bool.not_true, Bool.false_eq_true, ↓reduceIte] at hr
      obtain ⟨rfl, _⟩ := ret_inv hr
      exact ⟨rootPath, curPath, rootPath2, hA, hB, r1, r2, r3, hc, hc2⟩
    · simp only [hc2, Bool.not_false, ↓reduceIte] at hr
      obtain ⟨_, he⟩ := ret_inv hr
      cases he
  · simp only [hc, Bool.not_false, ↓reduceIte] at hr
    obtain ⟨_, he⟩ := ret_inv hr
    cases he

def OnlyCloses (t : Hist) : Prop := ∀ x ∈ t, ∃ fd, x.1 = Call.close fd

theorem OnlyCloses.nil : OnlyCloses [] := fun _ hx => by cases hx
theorem OnlyCloses.append {a b : Hist} (ha : OnlyCloses a) (hb : OnlyCloses b) : OnlyCloses (a ++ b) := by
  intro x hx
  rcases List.mem_append.mp hx with h | h
  · exact ha x h
  · exact hb x h

theorem closeList_runs (l : List Fd) {h h' : Hist} {u : Unit} (hr : Runs (Sys.closeList l) h h' u) :
    ∃ t, h' = h ++ t ∧ OnlyCloses t := by
  induction l generalizing h with
  | nil => obtain ⟨rfl, _⟩ := ret_inv hr; exact ⟨[], by simp, OnlyCloses.nil⟩
  | cons fd rest ih =>
    unfold Sys.closeList at hr
    obtain ⟨hm, a, h1, h2⟩ := bind_inv hr
    unfold Sys.close at h1
    obtain ⟨r, h1⟩ := call_inv h1
    obtain ⟨rfl, _⟩ := ret_inv h1
    obtain ⟨t, rfl, ht⟩ := ih h2
    refine ⟨(Call.close fd, r) :: t, by simp, ?_⟩
    intro x hx
    rcases List.mem_cons.mp hx with rfl | hx
    · exact ⟨fd, rfl⟩
    · exact ht x hx

theorem closeAll_runs (l : List Fd) {h h' : Hist} {u : Unit} (hr : Runs (Sys.closeAll l) h h' u) :
    ∃ t, h' = h ++ t ∧ OnlyCloses t := closeList_runs _ hr

theorem releaseMany_runs (a b : List Fd) {h h' : Hist} {u : Unit} (hr : Runs (Opath.releaseMany a b) h h' u) :
    ∃ t, h' = h ++ t ∧ OnlyCloses t := closeAll_runs _ hr

theorem lift_releaseMany_runs (a b : List Fd) {h h' : Hist} {r : Except Err Unit}
    (hr : Runs (M.lift (Opath.releaseMany a b)) h h' r) : ∃ t, h' = h ++ t ∧ OnlyCloses t := by
  obtain ⟨u, h1, _⟩ := lift_inv hr
  exact releaseMany_runs a b h1

theorem failWith_not_ok {α : Type} (fds : List Fd) (e : Nat) {h h' : Hist} {a : α}
    (hr : Runs (Sys.failWith fds e : M α) h h' (.ok a)) : False := by
  unfold Sys.failWith at hr
  induction fds generalizing h with
  | nil => unfold Sys.failWith.go at hr; obtain ⟨_, he⟩ := ret_inv hr; cases he
  | cons fd rest ih =>
    unfold Sys.failWith.go at hr
    obtain ⟨hm, _, _, h2⟩ := bind_inv hr
    exact ih h2

theorem openat_ok_inv {d : Fd} {n : Bytes} {fl m : Nat} {h h' : Hist} {fd : Fd}
    (hr : Runs (Sys.openat d n fl m) h h' (.ok fd)) :
    h' = h ++ [(Call.openat d n (fl ||| O_NOFOLLOW ||| O_CLOEXEC ||| O_NOCTTY) m, Resp.fd fd)] := by
  unfold Sys.openat Sys.openatFollow at hr
  simp only [M.bind_def] at hr
  obtain ⟨hm, _, h1, hr2⟩ := mbind_ok hr
  have h1' : Runs (M.ofExcept (Sys.hotfix d)) h hm (.ok ()) := h1
  obtain ⟨hhm, _⟩ := ofExcept_inv h1'
  obtain ⟨hm2, x, h2, hr3⟩ := mbind_ok hr2
  obtain ⟨r, hh2, hx⟩ := call_ok_inv h2
  cases hx
  rw [hh2, hhm] at hr3
  cases x with
  | fd k => obtain ⟨hh, he⟩ := ret_inv hr3; cases he; exact hh
  | err e => exact (failWith_not_ok _ _ hr3).elim
  | _ => obtain ⟨_, he⟩ := ret_inv hr3; cases he

/-- how a successful complete lookup ends -/
def WalkFinal (env : Env) (root : Fd) (h h' : Hist) (fd : Fd) : Prop :=
  ∃ exp h0 h1 tail, (∀ c ∈ exp, GoodComp c) ∧ h <+: h0 ∧ h' = h1 ++ tail ∧
    ((CheckPassed env fd root exp h0 h1 ∧ OnlyCloses tail) ∨
     (CheckPassed env root root exp h0 h1 ∧
       ∃ t2, tail = (Call.openat root Path.dot (O_PATH ||| O_NOFOLLOW ||| O_NOFOLLOW ||| O_CLOEXEC ||| O_NOCTTY) 0, Resp.fd fd) :: t2 ∧
         OnlyCloses t2))

theorem WalkFinal.mono {env : Env} {root : Fd} {h hm h' : Hist} {fd : Fd} (hp : h <+: hm)
    (hf : WalkFinal env root hm h' fd) : WalkFinal env root h h' fd := by
  obtain ⟨exp, h0, h1, tail, a, b, c, d⟩ := hf
  exact ⟨exp, h0, h1, tail, a, hp.trans b, c, d⟩

theorem good_part {part0 : Bytes} (hs : single part0) (h1 : part0 ≠ []) (h2 : part0 ≠ Path.dot)
    (h3 : part0 ≠ Path.dotdot) : GoodComp part0 := ⟨h1, hs, h2, h3⟩

theorem good_dropLast {l : List Bytes} (h : ∀ c ∈ l, GoodComp c) : ∀ c ∈ l.dropLast, GoodComp c :=
  fun c hc => h c ((List.dropLast_sublist l).subset hc)

theorem walk_complete_checked (env : Env) (cfg : Opath.WalkCfg) (st : Opath.WalkSt)
    (hexp : ∀ c ∈ st.expected, GoodComp c) (hrem : ∀ c ∈ st.rem, single c)
    {h h' : Hist} {fd : Fd} {s : SStack}
    (hr : Runs (Opath.walk env cfg st) h h' (.ok (.complete fd, s))) : WalkFinal env cfg.root h h' fd := by
  fun_induction Opath.walk env cfg st generalizing h with
  | case1 st hrem' =>
    obtain ⟨hA, _, r1, hr2⟩ := mbind_ok hr
    have hc := checkCurrent_inv (onErr_ok r1)
    obtain ⟨hB, res, r2, hr3⟩ := mbind_ok hr2
    obtain ⟨hC, _, r3, hr4⟩ := mbind_ok hr3
    obtain ⟨t, ht, htc⟩ := lift_releaseMany_runs _ _ r3
    obtain ⟨hh, he⟩ := ret_inv hr4
    cases he
    by_cases hcr : st.cur = cfg.root
    · simp only [hcr, ↓reduceIte] at r2
      have ho := openat_ok_inv (onErr_ok r2)
      rw [hcr] at hc
      refine ⟨st.expected, h, hA, (_ :: t), hexp, List.prefix_refl _, ?_, Or.inr ⟨hc, t, rfl, htc⟩⟩
      rw [hh, ht, ho]; simp
    · simp only [hcr, ↓reduceIte] at r2
      obtain ⟨hh2, he⟩ := ret_inv r2
      cases he
      refine ⟨st.expected, h, hA, t, hexp, List.prefix_refl _, ?_, Or.inl ⟨hc, htc⟩⟩
      rw [hh, ht, hh2]
  | case2 st part0 rest hrem' hcond e he =>
    obtain ⟨_, _, _, hr2⟩ := mbind_ok hr
    obtain ⟨_, hx⟩ := ret_inv hr2
    cases hx
  | case3 st part0 rest hrem' hcond stack' hstk ih =>
    obtain ⟨hm, _, r1, hr2⟩ := mbind_ok hr
    have hp := Runs.isPrefix r1
    rw [hrem'] at hrem
    exact (ih hexp (fun c hc => hrem c (List.mem_cons_of_mem _ hc)) hr2).mono hp
  | case4 st part0 rest hrem' remaining hdd part expected' ih1 =>
    rename_i ih2
    simp only [] at ih1 ih2
    rw [hrem'] at hrem
    have hs0 : single part0 := hrem _ List.mem_cons_self
    have hrest : ∀ c ∈ rest, single c := fun c hc => hrem c (List.mem_cons_of_mem _ hc)
    have hexp' : ∀ c ∈ expected', GoodComp c := by
      intro c hc
      by_cases h0 : part0 = []
      · have : expected' = st.expected := by simp [expected', part, h0]
        rw [this] at hc; exact hexp c hc
      · by_cases h1 : part0 = dot
        · have : expected' = st.expected := by
            have e2 : dot ≠ [] := by decide
            simp [expected', part, h1, e2]
          rw [this] at hc; exact hexp c hc
        · by_cases h2 : part0 = dotdot
          · have : expected' = st.expected.dropLast := by
              have e1 : dotdot ≠ dot := by decide
              have e2 : dotdot ≠ [] := by decide
              simp [expected', part, h2, e1, e2]
            rw [this] at hc; exact good_dropLast hexp c hc
          · have : expected' = st.expected ++ [part0] := by simp [expected', part, h0, h1, h2]
            rw [this] at hc
            rcases List.mem_append.mp hc with h3 | h3
            · exact hexp c h3
            · simp only [List.mem_singleton] at h3
              subst h3
              exact good_part hs0 h0 h1 h2
    obtain ⟨hm, r, r1, hr2⟩ := mbind_ok hr
    have hp1 := Runs.isPrefix r1
    cases r with
    | error e =>
      unfold Opath.exitPartial at hr2
      obtain ⟨_, _, _, hr3⟩ := mbind_ok hr2
      obtain ⟨_, he⟩ := ret_inv hr3
      cases he
    | ok next =>
      simp only [] at hr2
      obtain ⟨hm2, _, r2, hr3⟩ := mbind_ok hr2
      have hp2 := Runs.isPrefix r2
      obtain ⟨hm3, md, r3, hr4⟩ := mbind_ok hr3
      have hp3 := Runs.isPrefix r3
      have hp123 := hp1.trans (hp2.trans hp3)
      by_cases hsy : md.isSymlink = true
      · simp only [hsy, Bool.not_true, Bool.false_eq_true, ↓reduceIte] at hr4
        by_cases htr : rest = [] ∧ cfg.nofollow = true
        · simp only [htr, and_self, ↓reduceIte] at hr4
          obtain ⟨hm4, _, r4, hr5⟩ := mbind_ok hr4
          have hp4 := Runs.isPrefix r4
          obtain ⟨hm5, _, r5, hr6⟩ := mbind_ok hr5
          have hc := checkCurrent_inv (onErr_ok r5)
          obtain ⟨hm6, _, r6, hr7⟩ := mbind_ok hr6
          obtain ⟨t, ht, htc⟩ := lift_releaseMany_runs _ _ r6
          obtain ⟨hh, he⟩ := ret_inv hr7
          cases he
          exact ⟨expected', hm4, hm5, t, hexp', hp123.trans hp4, by rw [hh, ht], Or.inl ⟨hc, htc⟩⟩
        · simp only [htr, ↓reduceIte] at hr4
          by_cases hns : hasAll cfg.rflags RESOLVE_NO_SYMLINKS = true
          · simp only [hns, ↓reduceIte] at hr4
            unfold Opath.exitPartial at hr4
            obtain ⟨_, _, _, hr5⟩ := mbind_ok hr4
            obtain ⟨_, he⟩ := ret_inv hr5
            cases he
          · simp only [hns, ↓reduceIte] at hr4
            obtain ⟨hm4, _, r4, hr5⟩ := mbind_ok hr4
            have hp4 := Runs.isPrefix r4
            by_cases hlim : st.links + 1 ≥ MAX_SYMLINK_TRAVERSALS
            · simp only [hlim, ↓reduceDIte] at hr5
              unfold Opath.exitPartial at hr5
              obtain ⟨_, _, _, hr6⟩ := mbind_ok hr5
              obtain ⟨_, he⟩ := ret_inv hr6
              cases he
            · simp only [hlim, ↓reduceDIte] at hr5
              obtain ⟨hm5, target, r5, hr6⟩ := mbind_ok hr5
              have hp5 := Runs.isPrefix r5
              obtain ⟨hm6, magic, r6, hr7⟩ := mbind_ok hr6
              have hp6 := Runs.isPrefix r6
              cases magic with
              | true =>
                simp only [↓reduceIte] at hr7
                obtain ⟨_, _, _, hr8⟩ := mbind_ok hr7
                obtain ⟨_, he⟩ := ret_inv hr8
                cases he
              | false =>
                simp only [Bool.false_eq_true, ↓reduceIte] at hr7
                split at hr7
                · obtain ⟨_, _, _, hr8⟩ := mbind_ok hr7
                  obtain ⟨_, he⟩ := ret_inv hr8
                  cases he
                · rename_i stack' _
                  obtain ⟨hm7, _, r7, hr8⟩ := mbind_ok hr7
                  have hp7 := Runs.isPrefix r7
                  simp only [dite_eq_ite] at ih2
                  refine (ih2 hlim target stack' ?_ ?_ hr8).mono
                    (hp123.trans (hp4.trans (hp5.trans (hp6.trans hp7))))
                  · intro c hc
                    split at hc
                    · cases hc
                    · exact good_dropLast hexp' c hc
                  · intro c hc
                    rcases List.mem_append.mp hc with h1 | h1
                    · exact rawComponents_single target c h1
                    · exact hrest c h1
      · simp only [hsy, Bool.not_false, ↓reduceIte] at hr4
        split at hr4
        · obtain ⟨_, _, _, hr5⟩ := mbind_ok hr4
          obtain ⟨_, he⟩ := ret_inv hr5
          cases he
        · rename_i stack' _
          obtain ⟨hm4, _, r4, hr5⟩ := mbind_ok hr4
          have hp4 := Runs.isPrefix r4
          exact (ih1 next stack' hexp' hrest hr5).mono (hp123.trans hp4)

theorem readlinkat_ok_inv {d : Fd} {h h' : Hist} {b : Bytes}
    (hr : Runs (Sys.readlinkat d []) h h' (.ok b)) :
    h' = h ++ [(Call.readlinkat d [] READLINK_BUF, Resp.bytes b)] := by
  unfold Sys.readlinkat at hr
  simp only [M.bind_def] at hr
  obtain ⟨hm, _, h1, hr2⟩ := mbind_ok hr
  have h1' : Runs (M.ofExcept (Sys.hotfix d)) h hm (.ok ()) := h1
  obtain ⟨hhm, _⟩ := ofExcept_inv h1'
  obtain ⟨hm2, x, h2, hr3⟩ := mbind_ok hr2
  obtain ⟨r, hh2, hx⟩ := call_ok_inv h2
  cases hx
  rw [hh2, hhm] at hr3
  cases x with
  | bytes k =>
    simp only [] at hr3
    split at hr3
    · exact (failWith_not_ok _ _ hr3).elim
    · obtain ⟨hh, he⟩ := ret_inv hr3; cases he; exact hh
  | err e => exact (failWith_not_ok _ _ hr3).elim
  | _ => obtain ⟨_, he⟩ := ret_inv hr3; cases he

/-- the bytes `as_unsafe_path` returns are the kernel's answer to `readlinkat(link, "")` on the
descriptor that libpathrs' own (verified, see C06) procfs lookup of `thread-self/fd/<fd>` returned -/
theorem asUnsafePath_inv {env : Env} {fd : Fd} {h h' : Hist} {b : Bytes}
    (hr : Runs (Procfs.asUnsafePath env fd) h h' (.ok b)) :
    ∃ sub link hm r, Sys.procSubpath fd = .ok sub ∧
      Runs (Procfs.openH env Procfs.retryFuel env.proc .threadSelf sub O_PATH) h hm (.ok link) ∧
      h' = hm ++ [(Call.readlinkat link [] READLINK_BUF, Resp.bytes b), (Call.close link, r)] := by
  unfold Procfs.asUnsafePath at hr
  simp only [M.bind_def] at hr
  obtain ⟨hm0, sub, h0, hr1⟩ := mbind_ok hr
  have h0' : Runs (M.ofExcept (Sys.procSubpath fd)) h hm0 (.ok sub) := h0
  obtain ⟨hh0, hsub⟩ := ofExcept_inv h0'
  unfold Procfs.readlinkH at hr1
  simp only [M.bind_def] at hr1
  obtain ⟨hm, link, h1, hr2⟩ := mbind_ok hr1
  obtain ⟨hm2, x, h2, hr3⟩ := mbind_ok hr2
  obtain ⟨y, hy, hcase⟩ := try_inv h2
  obtain ⟨hm3, _, h3, hr4⟩ := mbind_ok hr3
  have h3' : Runs (M.lift (Sys.close link)) hm2 hm3 (.ok ()) := h3
  obtain ⟨_, h3'', _⟩ := lift_inv h3'
  unfold Sys.close at h3''
  obtain ⟨r, h3c⟩ := call_inv h3''
  obtain ⟨hh3, _⟩ := ret_inv h3c
  obtain ⟨hh4, hx⟩ := ofExcept_inv hr4
  subst hx
  rcases hcase with ⟨a, rfl, hxa⟩ | ⟨e, rfl, hfe⟩
  · cases hxa
    have := readlinkat_ok_inv hy
    refine ⟨sub, link, hm, r, hsub.symm, by rw [← hh0]; exact h1, ?_⟩
    rw [hh4, hh3, this]; simp
  · rcases hfe with ⟨_, hxe⟩ | ⟨_, hxe⟩ <;> cases hxe

/-- the path `check_current` compares with: the root's components followed by exactly the
expected components -/
theorem components_expected (rp : Bytes) (habs : isAbsolute rp = true) (e : List Bytes)
    (he : ∀ c ∈ e, GoodComp c) :
    components (expectedFullPath rp e) = components rp ++ e.map Comp.normal := by
  have hne : rp ≠ [] := by intro h; rw [h] at habs; cases habs
  let es : List Bytes := if e = [] then [[]] else e
  have hes_rel : ∀ c ∈ (([] : Bytes) :: es), isAbsolute c = false := by
    intro c hc
    rcases List.mem_cons.mp hc with rfl | h
    · rfl
    · simp only [es] at h
      split at h
      · simp at h; subst h; rfl
      · exact proper_not_abs (he c h)
  have hes_pieces : ((([] : Bytes) :: es).map pieces).flatten = e.map Comp.normal := by
    simp only [List.map_cons, List.flatten_cons, pieces_nil, List.nil_append, es]
    split
    · rename_i h; subst h; simp [pieces_nil]
    · exact flatten_pieces_proper e he
  obtain ⟨hrel_pieces, hrel_ne, hrel_abs⟩ :=
    pieces_foldl_push (([] : Bytes) :: es) hes_rel dot (by decide)
  have hrel_rel : isAbsolute ((([] : Bytes) :: es).foldl push dot) = false := by
    rw [hrel_abs]; decide
  unfold expectedFullPath
  rw [components_abs _ (push_abs _ _ habs hrel_rel), pieces_push _ _ hne hrel_rel, components_abs _ habs,
    hrel_pieces, pieces_dot, List.nil_append, hes_pieces, List.cons_append]

/-- **what a passed check means**: the kernel printed, for the checked descriptor, a path whose
components are the root's components followed by normal (non-`..`) components: the object
was below the root at that instant, and the root had not moved between the two reads of its path. -/
theorem checked_below_root {env : Env} {cur root : Fd} {exp : List Bytes} {h0 h1 : Hist}
    (hc : CheckPassed env cur root exp h0 h1) (hexp : ∀ c ∈ exp, GoodComp c) :
    ∃ rootPath curPath rootPath2 hA hB,
      Runs (Procfs.asUnsafePath env root) h0 hA (.ok rootPath) ∧
      Runs (Procfs.asUnsafePath env cur) hA hB (.ok curPath) ∧
      Runs (Procfs.asUnsafePath env root) hB h1 (.ok rootPath2) ∧
      components rootPath = components rootPath2 ∧
      (isAbsolute rootPath = true → components curPath = components rootPath ++ exp.map Comp.normal) := by
  obtain ⟨rootPath, curPath, rootPath2, hA, hB, r1, r2, r3, e1, e2⟩ := hc
  refine ⟨rootPath, curPath, rootPath2, hA, hB, r1, r2, r3, ?_, ?_⟩
  · simpa [pathEq] using e2
  · intro habs
    have : components curPath = components (expectedFullPath rootPath exp) := by simpa [pathEq] using e1
    rw [this, components_expected rootPath habs exp hexp]

/-! ### the kernel backend: bounded retries -/

def isO2 : Call → Bool
  | .openat2 .. => true
  | _ => false

def NotO2 (c : Call) : Prop := isO2 c = false

theorem notO2_diag : DiagOk NotO2 where
  gettid := rfl
  geteuid := rfl
  probe := fun _ _ => rfl
  readlinkAbs := fun _ _ => rfl
  close := fun _ => rfl
  dup := fun _ => rfl

/-- bridge from the safety logic to runs -/
theorem Safe.runs {α : Type} {D : Call → Prop} {p : Prog α} {Q : α → Prop} (hp : Safe D p Q) {h h' : Hist} {a : α}
    (hr : Runs p h h' a) : ∃ t, h' = h ++ t ∧ ((∀ x ∈ t, x.2.sane) → ∀ x ∈ t, D x.1) := by
  induction p generalizing h with
  | ret b => obtain ⟨rfl, _⟩ := ret_inv hr; exact ⟨[], by simp, fun _ _ hx => by cases hx⟩
  | call c k ih =>
    obtain ⟨r, hk⟩ := call_inv hr
    by_cases hs : r.sane
    · obtain ⟨t, ht, hD⟩ := ih r (hp.2 r hs) hk
      refine ⟨(c, r) :: t, by rw [ht]; simp, ?_⟩
      intro hsane x hx
      rcases List.mem_cons.mp hx with rfl | hx
      · exact hp.1
      · exact hD (fun y hy => hsane y (List.mem_cons_of_mem _ hy)) x hx
    · have hpre := Runs.isPrefix hk
      obtain ⟨t, ht⟩ := hpre
      refine ⟨(c, r) :: t, by rw [← ht]; simp, ?_⟩
      intro hsane
      exact absurd (hsane (c, r) List.mem_cons_self) hs

def countO2 (t : Hist) : Nat := t.countP fun x => isO2 x.1

theorem countO2_zero {t : Hist} (h : ∀ x ∈ t, NotO2 x.1) : countO2 t = 0 := by
  unfold countO2
  rw [List.countP_eq_zero]
  intro x hx
  have := h x hx
  unfold NotO2 at this
  simp [this]

/-- one `openat2` wrapper call issues exactly one `openat2` -/
theorem openat2_count {d : Fd} {p : Bytes} {fl rs : Nat} {h h' : Hist} {r : Except Err Fd}
    (hr : Runs (Sys.openat2 d p fl rs) h h' r) :
    ∃ t, h' = h ++ t ∧ ((∀ x ∈ t, x.2.sane) → countO2 t ≤ 1) := by
  unfold Sys.openat2 at hr
  split at hr
  · -- NUL in the path: no kernel call
    simp only [M.bind_def] at hr
    have hs : Safe NotO2 (M.bind' (liftM (Sys.hotfix d)) fun _ => (Sys.failWith [d] EINVAL : M Fd)) (fun _ => True) := by
      apply Safe.mbind (Q' := fun _ => True)
      · exact Safe.ofExcept trivial
      · intro _ _; exact G.failWith_safe notO2_diag _ _ _ (fun _ => trivial)
      · intro _ _; exact trivial
    obtain ⟨t, ht, hD⟩ := Safe.runs hs hr
    exact ⟨t, ht, fun hsane => by rw [countO2_zero (hD hsane)]; omega⟩
  · simp only [M.bind_def] at hr
    rcases mbind_inv hr with ⟨hm, _, h1, hr2⟩ | ⟨e, h1, _⟩
    · have h1' : Runs (M.ofExcept (Sys.hotfix d)) h hm (.ok ()) := h1
      obtain ⟨hhm, _⟩ := ofExcept_inv h1'
      subst hhm
      rcases mbind_inv hr2 with ⟨hm2, x, h2, hr3⟩ | ⟨e, h2, _⟩
      · obtain ⟨r', hh2, hx⟩ := call_ok_inv h2
        cases hx
        have key : ∃ t, h' = hm2 ++ t ∧ ((∀ x ∈ t, x.2.sane) → ∀ x ∈ t, NotO2 x.1) := by
          cases x with
          | err e => exact Safe.runs (G.failWith_safe notO2_diag [d] e (fun _ => True) (fun _ => trivial)) hr3
          | _ => obtain ⟨hh, _⟩ := ret_inv hr3; exact ⟨[], by simp [hh], fun _ _ hx => by cases hx⟩
        obtain ⟨t, ht, hD⟩ := key
        refine ⟨(Call.openat2 d (toCString p) (fl ||| O_CLOEXEC) 0 rs OPEN_HOW_SIZE, x) :: t, by rw [ht, hh2]; simp, ?_⟩
        intro hsane
        have := countO2_zero (hD (fun y hy => hsane y (List.mem_cons_of_mem _ hy)))
        unfold countO2 at this ⊢
        rw [List.countP_cons, this]
        split <;> omega
      · obtain ⟨r', hh2, hx⟩ := call_ok_inv h2
        cases hx
    · have h1' : Runs (M.ofExcept (Sys.hotfix d)) h h' (.error e) := h1
      obtain ⟨hhm, _⟩ := ofExcept_inv h1'
      exact ⟨[], by simp [hhm], fun _ => by simp [countO2]⟩

theorem openat2_ok_last {d : Fd} {p : Bytes} {fl rs : Nat} {h h' : Hist} {fd : Fd}
    (hr : Runs (Sys.openat2 d p fl rs) h h' (.ok fd)) :
    h' = h ++ [(Call.openat2 d (toCString p) (fl ||| O_CLOEXEC) 0 rs OPEN_HOW_SIZE, Resp.fd fd)] := by
  unfold Sys.openat2 at hr
  split at hr
  · simp only [M.bind_def] at hr
    obtain ⟨_, _, _, hr2⟩ := mbind_ok hr
    exact (failWith_not_ok _ _ hr2).elim
  · simp only [M.bind_def] at hr
    obtain ⟨hm, _, h1, hr2⟩ := mbind_ok hr
    have h1' : Runs (M.ofExcept (Sys.hotfix d)) h hm (.ok ()) := h1
    obtain ⟨hhm, _⟩ := ofExcept_inv h1'
    obtain ⟨hm2, x, h2, hr3⟩ := mbind_ok hr2
    obtain ⟨r, hh2, hx⟩ := call_ok_inv h2
    cases hx
    rw [hh2, hhm] at hr3
    cases x with
    | fd k => obtain ⟨hh, he⟩ := ret_inv hr3; cases he; exact hh
    | err e => exact (failWith_not_ok _ _ hr3).elim
    | _ => obtain ⟨_, he⟩ := ret_inv hr3; cases he

/-- the retry loop: at most `n` `openat2` calls; a success is the answer of the last one;
`EAGAIN` is never what the caller sees -/
theorem resolveLoop_runs (root : Fd) (path : Bytes) (fl rs : Nat) (n : Nat) {h h' : Hist} {r : Except Err Fd}
    (hr : Runs (Openat2.resolveLoop root path fl rs n) h h' r) :
    (∃ t, h' = h ++ t ∧ ((∀ x ∈ t, x.2.sane) → countO2 t ≤ n)) ∧
    (∀ fd, r = .ok fd → ∃ pre, h' = pre ++
        [(Call.openat2 root (toCString path) (fl ||| O_CLOEXEC) 0 rs OPEN_HOW_SIZE, Resp.fd fd)]) ∧
    r ≠ .error (.os EAGAIN) := by
  induction n generalizing h with
  | zero =>
    unfold Openat2.resolveLoop at hr
    obtain ⟨rfl, rfl⟩ := ret_inv hr
    exact ⟨⟨[], by simp, fun _ => by simp [countO2]⟩, (fun fd he => by cases he), (fun he => by cases he)⟩
  | succ n ih =>
    unfold Openat2.resolveLoop at hr
    simp only [M.bind_def] at hr
    rcases mbind_inv hr with ⟨hm, x, h1, hr2⟩ | ⟨e, h1, he⟩
    · obtain ⟨y, hy, hcase⟩ := try_inv h1
      obtain ⟨t1, ht1, hc1⟩ := openat2_count hy
      rcases hcase with ⟨a, rfl, hxa⟩ | ⟨e, rfl, hfe⟩
      · cases hxa
        obtain ⟨rfl, rfl⟩ := ret_inv hr2
        refine ⟨⟨t1, ht1, fun hs => Nat.le_trans (hc1 hs) (by omega)⟩, ?_, (fun he => by cases he)⟩
        intro fd he; cases he
        exact ⟨h, openat2_ok_last hy⟩
      · rcases hfe with ⟨_, hxe⟩ | ⟨hnf, hxe⟩
        · cases hxe
        · cases hxe
          cases e with
          | os e =>
            simp only [] at hr2
            by_cases h1 : e = ENOSYS
            · simp only [h1, ↓reduceIte] at hr2
              obtain ⟨rfl, rfl⟩ := ret_inv hr2
              exact ⟨⟨t1, ht1, fun hs => Nat.le_trans (hc1 hs) (by omega)⟩, (fun fd he => by cases he),
                (fun he => by cases he)⟩
            · by_cases h2 : e = EAGAIN
              · have h1' : EAGAIN ≠ ENOSYS := by decide
                simp only [h2, h1', ↓reduceIte] at hr2
                obtain ⟨⟨t2, ht2, hc2⟩, hlast, hne⟩ := ih hr2
                refine ⟨⟨t1 ++ t2, by rw [ht2, ht1]; simp, ?_⟩, hlast, hne⟩
                intro hs
                have a1 := hc1 (fun x hx => hs x (List.mem_append_left _ hx))
                have a2 := hc2 (fun x hx => hs x (List.mem_append_right _ hx))
                unfold countO2 at a1 a2 ⊢
                rw [List.countP_append]; omega
              · simp only [h1, h2, ↓reduceIte] at hr2
                obtain ⟨rfl, rfl⟩ := ret_inv hr2
                refine ⟨⟨t1, ht1, fun hs => Nat.le_trans (hc1 hs) (by omega)⟩, (fun fd he => by cases he), ?_⟩
                intro he; cases he; exact h2 rfl
          | _ =>
            obtain ⟨rfl, rfl⟩ := ret_inv hr2
            exact ⟨⟨t1, ht1, fun hs => Nat.le_trans (hc1 hs) (by omega)⟩, (fun fd he => by cases he),
              (fun he => by cases he)⟩
    · subst he
      obtain ⟨y, hy, hcase⟩ := try_inv h1
      obtain ⟨t1, ht1, hc1⟩ := openat2_count hy
      rcases hcase with ⟨a, rfl, hxa⟩ | ⟨e', rfl, hfe⟩
      · cases hxa
      · rcases hfe with ⟨hf, hxe⟩ | ⟨_, hxe⟩
        · cases hxe
          refine ⟨⟨t1, ht1, fun hs => Nat.le_trans (hc1 hs) (by omega)⟩, (fun fd he => by cases he), ?_⟩
          intro he; cases he; simp [Err.isFatal] at hf
        · cases hxe

/-! ## The property theorems -/

/-- **Emulated backend: every successful lookup is a checked descriptor.**  For every
environment (every interleaving of attacker mutations shows up as some sequence of answers):
if `opath::resolve` returns `fd`, then the last thing that happened before the final
bookkeeping closes is a passed `check_current` on `fd` (or on the walk's root duplicate,
followed by the `O_PATH|O_NOFOLLOW` open of `"."` beneath it that produced `fd`). -/
theorem emulated_checked (env : Env) (root : Fd) (path : Bytes) (rflags : Nat) (nofollow : Bool)
    {h h' : Hist} {fd : Fd}
    (hr : Runs (Opath.resolve env root path rflags nofollow) h h' (.ok fd)) :
    ∃ rd, (h ++ [(Call.dup root 3, Resp.fd rd)]) <+: h' ∧ WalkFinal env rd (h ++ [(Call.dup root 3, Resp.fd rd)]) h' fd := by
  unfold Opath.resolve at hr
  simp only [M.bind_def] at hr
  obtain ⟨hm, ⟨res, stk⟩, h1, hr2⟩ := mbind_ok hr
  unfold Opath.doResolve at h1
  simp only [M.bind_def] at h1
  obtain ⟨hd, rd, hdup, h2⟩ := mbind_ok h1
  have hdup' : hd = h ++ [(Call.dup root 3, Resp.fd rd)] := by
    unfold Sys.dup at hdup
    simp only [M.bind_def] at hdup
    obtain ⟨hx, x, hc, hk⟩ := mbind_ok hdup
    obtain ⟨r, hh, hxr⟩ := call_ok_inv hc
    cases hxr
    cases x with
    | fd k => obtain ⟨hh2, he⟩ := ret_inv hk; cases he; rw [hh2, hh]
    | _ => obtain ⟨_, he⟩ := ret_inv hk; cases he
  subst hdup'
  cases res with
  | part hh rem e =>
    simp only [] at hr2
    obtain ⟨_, _, _, hr3⟩ := mbind_ok hr2
    obtain ⟨_, he⟩ := ret_inv hr3
    cases he
  | complete c =>
    simp only [] at hr2
    obtain ⟨hh, he⟩ := ret_inv hr2
    cases he
    subst hh
    by_cases hp : path = []
    · simp only [hp, ↓reduceIte] at h2
      obtain ⟨_, he⟩ := ret_inv h2
      cases he
    · simp only [hp, ↓reduceIte] at h2
      refine ⟨rd, Runs.isPrefix h2, ?_⟩
      exact walk_complete_checked env _ _ (fun c hc => by cases hc) (rawComponents_single path) h2

/-- **Kernel backend: a result is the kernel's own confined answer.**  If `openat2::resolve`
returns `fd`, the last call of the run is `openat2(root, path, …, RESOLVE_IN_ROOT|
RESOLVE_NO_MAGICLINKS|rflags)` answered with `fd`; at most 16 `openat2` calls were made;
`EAGAIN` never reaches the caller (after 16 tries the error is `SafetyViolation`). -/
theorem kernel_confined (env : Env) (root : Fd) (path : Bytes) (rflags : Nat) (nofollow : Bool)
    {h h' : Hist} {r : Except Err Fd}
    (hr : Runs (Openat2.resolve env root path rflags nofollow) h h' r) :
    (∃ t, h' = h ++ t ∧ ((∀ x ∈ t, x.2.sane) → countO2 t ≤ 16)) ∧
    (∀ fd, r = .ok fd → ∃ pre fl, h' = pre ++
        [(Call.openat2 root (toCString path) fl 0 (RESOLVE_IN_ROOT ||| RESOLVE_NO_MAGICLINKS ||| rflags) OPEN_HOW_SIZE,
          Resp.fd fd)]) ∧
    r ≠ .error (.os EAGAIN) := by
  unfold Openat2.resolve at hr
  split at hr
  · obtain ⟨rfl, rfl⟩ := ret_inv hr
    exact ⟨⟨[], by simp, fun _ => by simp [countO2]⟩, (fun fd he => by cases he), (fun he => by cases he)⟩
  · obtain ⟨a, b, c⟩ := resolveLoop_runs _ _ _ _ _ hr
    refine ⟨a, ?_, c⟩
    intro fd he
    obtain ⟨pre, hp⟩ := b fd he
    exact ⟨pre, _, hp⟩

/-- the limit is real: with no tries left the loop is `SafetyViolation` -/
theorem eagain_exhausted (root : Fd) (path : Bytes) (fl rs : Nat) :
    Openat2.resolveLoop root path fl rs 0 = throw .safetyViolation := rfl


/-! ## Non-vacuity: the hypotheses are met by real runs -/

theorem trace_eq_run (w : World) {α : Type} (p : Prog α) (h : Hist) :
    (p.trace (fun _ c => w.answer c) h).2 = Prog.run w p := by
  induction p generalizing h with
  | ret a => rfl
  | call c k ih => exact ih _ _

/-- on the example world of C01 the no-follow lookup of `a` succeeds, so `C02_emulated_checked`
applies to an actual run -/
example : ∃ h' fd, Runs (Opath.resolve (KRun.kenv exWorld) exWorld.root b!"a" 0 true) [] h' (.ok fd) := by
  have hr := Runs.of_trace (Opath.resolve (KRun.kenv exWorld) exWorld.root b!"a" 0 true)
    (fun _ c => exWorld.answer c) []
  have hv : Prog.run exWorld (Opath.resolve (KRun.kenv exWorld) exWorld.root b!"a" 0 true) = .ok 6 := by
    rw [KSpec.run_opath_resolve exWorld_wf]
    unfold World.resolveInRoot
    rw [if_neg (by decide)]
    have hc : Path.rawComponents b!"a" = [b!"a"] := by decide
    rw [hc]
    show KSim.toOut (exWorld.kresolve _ 4 [b!"a"] 0) = _
    rw [KSim.k_name _ _ _ _ _ (by rfl) (by decide) (by decide) (by decide)]
    rfl
  have e : (Prog.trace (fun _ c => exWorld.answer c)
      (Opath.resolve (KRun.kenv exWorld) exWorld.root b!"a" 0 true) []).2 = .ok 6 :=
    (trace_eq_run exWorld _ []).trans hv
  exact ⟨_, 6, e ▸ hr⟩
