import Pathrs.Proofs.Safe
import Pathrs.Discipline

/-! # Basic facts about the discipline predicate -/

open K

theorem Disc.weaken {c : Call} (h : Disc false c) : Disc true c := by
  cases c <;> simp_all [Disc]
  rcases h with h | h
  · exact Or.inl h
  · exact Or.inr (Or.inr h)

/-! ## bit facts used below -/

theorem hasAll_or_left (f m : Nat) : hasAll (f ||| m) m = true := by
  simp [hasAll]
  apply Nat.eq_of_testBit_eq
  intro i
  simp [Nat.testBit_and, Nat.testBit_or]
  intro hm; exact Or.inr hm

theorem hasAll_or_mono (f m k : Nat) (h : hasAll f m = true) : hasAll (f ||| k) m = true := by
  simp [hasAll] at *
  apply Nat.eq_of_testBit_eq
  intro i
  have := congrArg (fun x => x.testBit i) h
  simp [Nat.testBit_and, Nat.testBit_or] at this ⊢
  intro hm
  exact Or.inl (this hm)

theorem hasAll_sub (f m k : Nat) (h : hasAll f m = true) (hk : hasAll m k = true) :
    hasAll f k = true := by
  simp [hasAll] at *
  apply Nat.eq_of_testBit_eq
  intro i
  have h1 := congrArg (fun x => x.testBit i) h
  have h2 := congrArg (fun x => x.testBit i) hk
  simp [Nat.testBit_and] at h1 h2 ⊢
  intro hki
  exact h1 (h2 hki)
