import Pathrs.Proofs.Props.C06

/-!
# The following half of `open_follow` (the heart of `reopen`): what every successful run looks like

For every environment (attackers, faults, any kernel): the only `openat` *without* `O_NOFOLLOW` the library ever
makes is made on (a directory `ProcfsHandle::open` returned — hence verified to be on the handle's procfs mount,
`C06_lookup_verified` —, one single component), and only after `statx` of the directory and `statx` of that
component stood for the same mount: nothing was mounted on the link when it was checked.  The descriptor the call
returns is the kernel's answer to that one call.
-/

open K Procfs

/-- a successful following `openat` wrapper call is exactly one answered call -/
theorem openatFollow_ok_inv {d : Fd} {n : Bytes} {fl m : Nat} {h h' : Hist} {fd : Fd}
    (hr : Runs (Sys.openatFollow d n fl m) h h' (.ok fd)) :
    h' = h ++ [(Call.openat d n (fl ||| O_CLOEXEC ||| O_NOCTTY) m, Resp.fd fd)] := by
  unfold Sys.openatFollow at hr
  simp only [M.bind_def] at hr
  obtain ⟨hm, _, h1, hr2⟩ := Runs.mbind_ok hr
  have h1' : Runs (M.ofExcept (Sys.hotfix d)) h hm (.ok ()) := h1
  obtain ⟨hhm, _⟩ := Runs.ofExcept_inv h1'
  obtain ⟨hm2, x, h2, hr3⟩ := Runs.mbind_ok hr2
  obtain ⟨r, hh2, hx⟩ := Runs.call_ok_inv h2
  cases hx
  rw [hh2, hhm] at hr3
  cases x with
  | fd k => obtain ⟨hh, he⟩ := Runs.ret_inv hr3; cases he; exact hh
  | err e => exact (failWith_never_ok _ _ _ _ _ hr3).elim
  | _ => obtain ⟨_, he⟩ := Runs.ret_inv hr3; cases he

/-- a lifted `close` is exactly one answered `close` call -/
private theorem follow_lift_close_runs {fd : Fd} {h h' : Hist} {x : Except Err Unit}
    (hr : Runs (liftM (Sys.close fd) : M Unit) h h' x) : ∃ r, h' = h ++ [(Call.close fd, r)] := by
  have hr' : Runs (M.lift (Sys.close fd)) h h' x := hr
  obtain ⟨_, h1, _⟩ := Runs.lift_inv hr'
  unfold Sys.close at h1
  obtain ⟨r, hk⟩ := Runs.call_inv h1
  obtain ⟨hh, _⟩ := Runs.ret_inv hk
  exact ⟨r, hh⟩

/-- **The one followed open is made only after its link was seen on its directory's own mount.** -/
theorem follow_verified (env : Env) (hd : ProcH) (base : Base) (sub : Bytes) (fl : Nat) {h h' : Hist} {fd : Fd}
    (hr : Runs (Procfs.openFollowTail env hd base sub fl) h h' (.ok fd)) :
    ∃ parent trailing pfd h1 h2 h3 rdir rlink rc,
      Path.pathSplit sub = .ok (parent, some trailing) ∧
      Runs (Procfs.openH env Procfs.retryFuel hd base parent (O_PATH ||| O_DIRECTORY)) h h1 (.ok pfd) ∧
      (h1 ++ [(.statx pfd [] STAT_FLAGS STATX_WANT, rdir)]) <+: h2 ∧
      (h2 ++ [(.statx pfd trailing STAT_FLAGS STATX_WANT, rlink)]) <+: h3 ∧
      mntOf rdir = mntOf rlink ∧
      h' = h3 ++ [(Call.openat pfd trailing (fl ||| O_CLOEXEC ||| O_NOCTTY) 0, Resp.fd fd), (Call.close pfd, rc)] := by
  unfold Procfs.openFollowTail at hr
  simp only [M.bind_def] at hr
  obtain ⟨hm, ⟨parent, tr⟩, h1, hr2⟩ := Runs.mbind_ok hr
  have h1' : Runs (M.ofExcept (Path.pathSplit sub)) h hm (.ok (parent, tr)) := h1
  obtain ⟨hh, hs⟩ := Runs.ofExcept_inv h1'
  subst hh
  cases tr with
  | none =>
    simp only [] at hr2
    obtain ⟨_, he⟩ := Runs.ret_inv hr2; cases he
  | some trailing =>
    simp only [] at hr2
    obtain ⟨hA, pfd, hopen, hr3⟩ := Runs.mbind_ok hr2
    obtain ⟨hB, pm, hfetch, hr4⟩ := Runs.mbind_ok hr3
    obtain ⟨rdir, hpre1, hmnt1⟩ := fetchMntId_inv (Runs.onErr_ok hfetch)
    obtain ⟨hC, _, hver, hr5⟩ := Runs.mbind_ok hr4
    have hver' := Runs.onErr_ok hver
    unfold verifySameMnt at hver'
    simp only [M.bind_def] at hver'
    obtain ⟨hk, id, hf2, hif⟩ := Runs.mbind_ok hver'
    obtain ⟨rlink, hpre2, hmnt2⟩ := fetchMntId_inv hf2
    have hid : pm = id ∧ hC = hk := by
      split at hif
      · obtain ⟨_, he⟩ := Runs.ret_inv hif; cases he
      · rename_i hne
        obtain ⟨hh, _⟩ := Runs.ret_inv hif
        exact ⟨by simpa using hne, hh⟩
    obtain ⟨hD, x, htry, hr6⟩ := Runs.mbind_ok hr5
    obtain ⟨y, hy, hcase⟩ := Runs.try_inv htry
    obtain ⟨hE, _, hcl, hr7⟩ := Runs.mbind_ok hr6
    obtain ⟨rc, hclose⟩ := follow_lift_close_runs hcl
    obtain ⟨hh7, hx⟩ := Runs.ofExcept_inv hr7
    subst hx
    rcases hcase with ⟨a, rfl, hxa⟩ | ⟨e, rfl, hfe⟩
    · cases hxa
      have hu := openatFollow_ok_inv hy
      refine ⟨parent, trailing, pfd, hA, hB, hC, rdir, rlink, rc, hs.symm, hopen, hpre1, ?_, ?_, ?_⟩
      · rw [hid.2]; exact hpre2
      · rw [hmnt1, hmnt2, hid.1]
      · rw [hh7, hclose, hu]; simp
    · rcases hfe with ⟨_, hxe⟩ | ⟨_, hxe⟩ <;> cases hxe
