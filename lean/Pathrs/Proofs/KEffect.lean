import Pathrs.Proofs.Props.C01

/-!
# Single-entry operations have exactly the effect of one `*at` call on (in-root parent, final name)

`exec μ w p` runs a program against a world that mutating calls *change*: what the kernel does with a
mutating call — its answer and the tree afterwards — is a parameter `μ : MutK` (the theorems hold for every such
kernel); every other call is answered by the (then current) world as in `Prog.run`.
-/

open K KRun World KSim KSpec

namespace KEffect

/-- calls that change the tree -/
def mutates : Call → Bool
  | .mkdirat .. | .mknodat .. | .unlinkat .. | .symlinkat .. | .linkat .. | .renameat .. | .renameat2 .. => true
  | .openat _ _ fl _ => hasAll fl O_CREAT
  | _ => false

/-- the kernel's treatment of mutating calls -/
structure MutK where
  ans : World → Call → Resp
  eff : World → Call → World

def exec {α : Type} (μ : MutK) (w : World) : Prog α → World × α
  | .ret a => (w, a)
  | .call c k => if mutates c then exec μ (μ.eff w c) (k (μ.ans w c)) else exec μ w (k (w.answer c))

/-- the result of a wrapper whose call the kernel answered with `r` -/
def unitOut (r : Resp) (site : String) : Except Err Unit :=
  match r with
  | .unit => .ok ()
  | .err e => .error (.os e)
  | _ => .error (.badResp site)

/-! ## Part 1: a program without mutating calls runs as on the immutable world -/

/-- `p` never makes a mutating call, whatever it is answered -/
abbrev NM {α : Type} (p : Prog α) : Prop := Prog.AllCalls' (fun c => mutates c = false) p

theorem exec_of_allCalls {α : Type} (μ : MutK) (w : World) (p : Prog α)
    (h : Prog.AllCalls' (fun c => mutates c = false) p) : exec μ w p = (w, p.run w) := by
  induction p with
  | ret a => rfl
  | call c k ih =>
    have hc : mutates c = false := h.1
    simp only [exec, hc, Bool.false_eq_true, ↓reduceIte, Prog.run]
    exact ih _ (h.2 _)

namespace NM

theorem bind {α β : Type} {p : Prog α} {f : α → Prog β} (hp : NM p) (hf : ∀ a, NM (f a)) :
    NM (Prog.bind p f) := Prog.allCalls'_bind _ p f hp hf

theorem call {α : Type} {c : Call} {k : Resp → Prog α} (hc : mutates c = false) (hk : ∀ r, NM (k r)) :
    NM (Prog.call c k) := ⟨hc, hk⟩

theorem mbind {α β : Type} {p : M α} {f : α → M β} (hp : NM p) (hf : ∀ a, NM (f a)) :
    NM (M.bind' p f) := by
  unfold M.bind'
  apply bind hp
  intro r
  cases r with
  | ok a => exact hf a
  | error e => exact trivial

theorem lift {α : Type} {p : Prog α} (hp : NM p) : NM (M.lift p) := by
  unfold M.lift
  exact bind hp (fun _ => trivial)

theorem mcall {c : Call} (hc : mutates c = false) : NM (M.call c) := by
  unfold M.call Prog.perform
  exact lift ⟨hc, fun _ => trivial⟩

theorem ofExcept {α : Type} (x : Except Err α) : NM (M.ofExcept x) := by
  cases x <;> exact trivial

theorem onErr {α : Type} {p : M α} {c : Prog Unit} (hp : NM p) (hc : NM c) : NM (M.onErr p c) := by
  unfold M.onErr
  apply bind hp
  intro r
  cases r with
  | ok a => exact trivial
  | error e => exact bind hc (fun _ => trivial)

theorem try' {α : Type} {p : M α} (hp : NM p) : NM (M.try' p) := by
  unfold M.try'
  apply bind hp
  intro r
  cases r with
  | ok a => exact trivial
  | error e => dsimp only; split <;> exact trivial

theorem isOk {α : Type} {p : M α} (hp : NM p) : NM (M.isOk p) := by
  unfold M.isOk
  apply mbind (try' hp)
  intro r
  cases r <;> exact trivial

end NM

namespace NM

theorem pure {α : Type} (a : α) : NM (Pure.pure a : M α) := trivial
theorem throw {α : Type} (e : Err) : NM (MonadExcept.throw e : M α) := trivial
theorem ret {α : Type} (a : α) : NM (Prog.ret a) := trivial

end NM

theorem liftM_prog {α : Type} (p : Prog α) : (liftM p : M α) = M.lift p := rfl
theorem monadLift_prog {α : Type} (p : Prog α) : (monadLift p : M α) = M.lift p := rfl

/-- extensible: the lemmas about the programs of the library -/
syntax "nm_lemma" : tactic
macro_rules | `(tactic| nm_lemma) => `(tactic| assumption)

/-- one structural step (syntactic: nothing is unfolded) -/
macro "nm_step" : tactic => `(tactic| first
  | with_reducible exact NM.pure _
  | with_reducible exact NM.throw _
  | with_reducible exact NM.ret _
  | with_reducible exact NM.ofExcept _
  | nm_lemma
  | with_reducible apply NM.mbind
  | with_reducible apply NM.onErr
  | with_reducible apply NM.try'
  | with_reducible apply NM.isOk
  | with_reducible apply NM.lift
  | ((with_reducible refine NM.mcall ?_); (first | exact rfl | assumption))
  | intro _
  | dsimp only
  | split)

macro "nm_norm" : tactic =>
  `(tactic| try simp only [M.bind_def, M.liftM_except, M.monadLift_except, liftM_prog, monadLift_prog])

syntax "nm" (" [" term,* "]")? : tactic
macro_rules
  | `(tactic| nm) => `(tactic| (nm_norm; repeat nm_step))
  | `(tactic| nm [$ts,*]) => do
      let alts ← ts.getElems.mapM fun t => `(tactic| with_reducible apply $t)
      let alts := alts.push (← `(tactic| nm_step))
      `(tactic| (nm_norm; repeat (first $[| $alts:tactic]*)))

/-! ### the wrappers -/

theorem gettid_nm : NM Sys.gettid := by
  unfold Sys.gettid
  refine ⟨rfl, fun r => ?_⟩
  dsimp only
  split <;> exact trivial

theorem geteuid_nm : NM Sys.geteuid := by
  unfold Sys.geteuid
  refine ⟨rfl, fun r => ?_⟩
  dsimp only
  split <;> exact trivial

theorem freeze_probe_nm : ∀ cands, NM (Sys.freeze.probe cands) := by
  intro cands
  induction cands with
  | nil => rw [Sys.freeze.probe.eq_1]; exact trivial
  | cons cand rest ih =>
    rw [Sys.freeze.probe.eq_2]
    refine ⟨rfl, fun r => ?_⟩
    dsimp only
    split
    · exact ih
    · exact trivial

theorem freeze_nm (fd : Fd) : NM (Sys.freeze fd) := by
  unfold Sys.freeze
  apply NM.bind gettid_nm
  intro tid
  apply NM.bind (freeze_probe_nm _)
  intro x
  split
  · exact trivial
  · exact ⟨rfl, fun _ => trivial⟩

theorem failWith_go_nm {α : Type} (e : Nat) : ∀ fds, NM (Sys.failWith.go (α := α) e fds) := by
  intro fds
  induction fds with
  | nil => unfold Sys.failWith.go; exact trivial
  | cons fd rest ih =>
    unfold Sys.failWith.go
    apply NM.bind (freeze_nm fd)
    intro _
    exact ih

theorem failWith_nm {α : Type} (fds : List Fd) (e : Nat) : NM (Sys.failWith (α := α) fds e) := by
  unfold Sys.failWith
  exact failWith_go_nm e fds

macro_rules | `(tactic| nm_lemma) => `(tactic| with_reducible exact failWith_nm _ _)
macro_rules | `(tactic| nm_lemma) => `(tactic| with_reducible exact freeze_nm _)
macro_rules | `(tactic| nm_lemma) => `(tactic| with_reducible exact gettid_nm)
macro_rules | `(tactic| nm_lemma) => `(tactic| with_reducible exact geteuid_nm)

/-! `O_CREAT` is a single bit -/

theorem hasAll_creat (x : Nat) : hasAll x O_CREAT = x.testBit 6 := by
  have h : O_CREAT = 2 ^ 6 := rfl
  have key : (x &&& 2 ^ 6 = 2 ^ 6) ↔ x.testBit 6 = true := by
    constructor
    · intro he
      have : (x &&& 2 ^ 6).testBit 6 = (2 ^ 6).testBit 6 := by rw [he]
      rw [Nat.testBit_and, Nat.testBit_two_pow] at this
      simpa using this
    · intro ht
      apply Nat.eq_of_testBit_eq
      intro i
      rw [Nat.testBit_and, Nat.testBit_two_pow]
      by_cases hi : 6 = i
      · subst hi; simp [ht]
      · simp [hi]
  simp only [hasAll, h]
  cases hb : x.testBit 6
  · simp only [decide_eq_false_iff_not]; intro he; rw [key.mp he] at hb; cases hb
  · simp only [decide_eq_true_eq]; exact key.mpr hb

theorem hasAll_creat_or (a b : Nat) : hasAll (a ||| b) O_CREAT = (hasAll a O_CREAT || hasAll b O_CREAT) := by
  simp only [hasAll_creat, Nat.testBit_or]

theorem noCreat_of_guard (fl : Nat) (h : (hasAny fl (O_CREAT ||| O_EXCL) || hasAll fl O_TMPFILE) = false) :
    hasAll fl O_CREAT = false := by
  rw [Bool.or_eq_false_iff] at h
  have h1 := h.1
  simp only [hasAny, ne_eq, decide_not, Bool.not_eq_eq_eq_not, Bool.not_false, decide_eq_true_eq] at h1
  rw [hasAll_creat]
  have := congrArg (fun n => Nat.testBit n 6) h1
  simp only [Nat.testBit_and, Nat.zero_testBit] at this
  have h6 : (O_CREAT ||| O_EXCL).testBit 6 = true := by decide
  rw [h6, Bool.and_true] at this
  exact this

theorem openatFollow_nm (dir : Fd) (name : Bytes) (flags mode : Nat) (h : hasAll flags O_CREAT = false) :
    NM (Sys.openatFollow dir name flags mode) := by
  unfold Sys.openatFollow
  have hc : mutates (.openat dir name (flags ||| O_CLOEXEC ||| O_NOCTTY) mode) = false := by
    show hasAll (flags ||| O_CLOEXEC ||| O_NOCTTY) O_CREAT = false
    rw [hasAll_creat_or, hasAll_creat_or, h]; decide
  nm

theorem openat_nm (dir : Fd) (name : Bytes) (flags mode : Nat) (h : hasAll flags O_CREAT = false) :
    NM (Sys.openat dir name flags mode) := by
  unfold Sys.openat
  apply openatFollow_nm
  rw [hasAll_creat_or, h]; decide

theorem openat2_nm (dir : Fd) (path : Bytes) (flags resolve : Nat) : NM (Sys.openat2 dir path flags resolve) := by
  unfold Sys.openat2
  nm

theorem readlinkat_nm (dir : Fd) (name : Bytes) : NM (Sys.readlinkat dir name) := by
  unfold Sys.readlinkat
  nm

theorem fstatat_nm (dir : Fd) (name : Bytes) : NM (Sys.fstatat dir name) := by
  unfold Sys.fstatat
  nm

theorem existsAt_nm (dir : Fd) (name : Bytes) : NM (Sys.existsAt dir name) := by
  unfold Sys.existsAt
  split
  · exact trivial
  · refine ⟨rfl, fun r => ?_⟩
    dsimp only
    split <;> exact trivial

theorem statx_nm (dir : Fd) (name : Bytes) (mask : Nat) : NM (Sys.statx dir name mask) := by
  unfold Sys.statx
  nm

theorem fstatfs_nm (fd : Fd) : NM (Sys.fstatfs fd) := by
  unfold Sys.fstatfs
  nm

theorem unitCall_nm (c : Call) (fds : List Fd) (site : String) (hc : mutates c = false) :
    NM (Sys.unitCall c fds site) := by
  unfold Sys.unitCall
  nm

theorem close_nm (fd : Fd) : NM (Sys.close fd) := ⟨rfl, fun _ => trivial⟩

theorem closeAll_nm (fds : List Fd) : NM (Sys.closeAll fds) := by
  unfold Sys.closeAll
  generalize fds.eraseDups = l
  induction l with
  | nil => exact trivial
  | cons fd rest ih => exact NM.bind (close_nm fd) (fun _ => ih)

theorem dup_nm (fd : Fd) : NM (Sys.dup fd) := by
  unfold Sys.dup
  nm

theorem fsopen_nm (t : Bytes) (f : Nat) : NM (Sys.fsopen t f) := by
  unfold Sys.fsopen
  nm

theorem fsconfigSetString_nm (fd : Fd) (k v : Bytes) : NM (Sys.fsconfigSetString fd k v) := by
  unfold Sys.fsconfigSetString
  have := unitCall_nm (.fsconfigSetString fd k v) [fd] "fsconfig_set_string" rfl
  nm

theorem fsconfigCreate_nm (fd : Fd) : NM (Sys.fsconfigCreate fd) := by
  unfold Sys.fsconfigCreate
  have := unitCall_nm (.fsconfigCreate fd) [fd] "fsconfig_create" rfl
  nm

theorem fsmount_nm (fd : Fd) (f a : Nat) : NM (Sys.fsmount fd f a) := by
  unfold Sys.fsmount
  nm

theorem openTree_nm (dir : Fd) (path : Bytes) (flags : Nat) : NM (Sys.openTree dir path flags) := by
  unfold Sys.openTree
  nm

theorem releaseMany_nm (a b : List Fd) : NM (Opath.releaseMany a b) := by
  unfold Opath.releaseMany
  exact closeAll_nm _

macro_rules | `(tactic| nm_lemma) => `(tactic| with_reducible exact openat2_nm _ _ _ _)
macro_rules | `(tactic| nm_lemma) => `(tactic| with_reducible exact readlinkat_nm _ _)
macro_rules | `(tactic| nm_lemma) => `(tactic| with_reducible exact fstatat_nm _ _)
macro_rules | `(tactic| nm_lemma) => `(tactic| with_reducible exact existsAt_nm _ _)
macro_rules | `(tactic| nm_lemma) => `(tactic| with_reducible exact statx_nm _ _ _)
macro_rules | `(tactic| nm_lemma) => `(tactic| with_reducible exact fstatfs_nm _)
macro_rules | `(tactic| nm_lemma) => `(tactic| with_reducible exact close_nm _)
macro_rules | `(tactic| nm_lemma) => `(tactic| with_reducible exact closeAll_nm _)
macro_rules | `(tactic| nm_lemma) => `(tactic| with_reducible exact releaseMany_nm _ _)
macro_rules | `(tactic| nm_lemma) => `(tactic| with_reducible exact dup_nm _)
macro_rules | `(tactic| nm_lemma) => `(tactic| with_reducible exact fsopen_nm _ _)
macro_rules | `(tactic| nm_lemma) => `(tactic| with_reducible exact fsconfigSetString_nm _ _ _)
macro_rules | `(tactic| nm_lemma) => `(tactic| with_reducible exact fsconfigCreate_nm _)
macro_rules | `(tactic| nm_lemma) => `(tactic| with_reducible exact fsmount_nm _ _ _)
macro_rules | `(tactic| nm_lemma) => `(tactic| with_reducible exact openTree_nm _ _ _)

/-! ### the procfs layer -/

theorem intoPath_probe_nm (root : Fd) (cands : List Bytes) : NM (Procfs.intoPath.probe root cands) := by
  induction cands with
  | nil => unfold Procfs.intoPath.probe; exact trivial
  | cons c rest ih =>
    unfold Procfs.intoPath.probe
    nm [ih]

theorem intoPath_nm (base : Procfs.Base) (root : Fd) : NM (Procfs.intoPath base root) := by
  unfold Procfs.intoPath
  nm [intoPath_probe_nm]

theorem fetchMntId_nm (dir : Fd) (path : Bytes) : NM (Procfs.fetchMntId dir path) := by
  unfold Procfs.fetchMntId
  nm

macro_rules | `(tactic| nm_lemma) => `(tactic| with_reducible exact intoPath_nm _ _)
macro_rules | `(tactic| nm_lemma) => `(tactic| with_reducible exact fetchMntId_nm _ _)

theorem verifySameMnt_nm (m : Option Nat) (dir : Fd) (path : Bytes) : NM (Procfs.verifySameMnt m dir path) := by
  unfold Procfs.verifySameMnt
  nm

theorem verifyIsProcfs_nm (fd : Fd) : NM (Procfs.verifyIsProcfs fd) := by
  unfold Procfs.verifyIsProcfs
  nm

macro_rules | `(tactic| nm_lemma) => `(tactic| with_reducible exact verifySameMnt_nm _ _ _)
macro_rules | `(tactic| nm_lemma) => `(tactic| with_reducible exact verifyIsProcfs_nm _)

theorem verifySameProcfsMnt_nm (h : ProcH) (fd : Fd) : NM (Procfs.verifySameProcfsMnt h fd) := by
  unfold Procfs.verifySameProcfsMnt
  nm

macro_rules | `(tactic| nm_lemma) => `(tactic| with_reducible exact verifySameProcfsMnt_nm _ _)

theorem openat2Resolve_nm (env : Env) (root : Fd) (path : Bytes) (oflags rflags : Nat) :
    NM (Procfs.openat2Resolve env root path oflags rflags) := by
  unfold Procfs.openat2Resolve
  nm

theorem opathFinal_nm (m : Option Nat) (oflags : Nat) (cur next : Fd) (part : Bytes) (isLink : Bool)
    (hfl : hasAll oflags O_CREAT = false) : NM (Procfs.opathFinal m oflags cur next part isLink) := by
  unfold Procfs.opathFinal
  have hop : NM (Sys.openat cur part (oflags ||| O_NOFOLLOW) 0) :=
    openat_nm _ _ _ _ (by rw [hasAll_creat_or, hfl]; decide)
  nm

theorem opathLoop_nm (m : Option Nat) (oflags rflags : Nat) (cur : Fd) (rem : List Bytes) (links : Nat)
    (hfl : hasAll oflags O_CREAT = false) : NM (Procfs.opathLoop m oflags rflags cur rem links) := by
  have hop : ∀ d n, NM (Sys.openat d n (O_PATH ||| O_NOFOLLOW) 0) :=
    fun d n => openat_nm _ _ _ _ (by decide)
  have hfin := fun cur next part isLink => opathFinal_nm m oflags cur next part isLink hfl
  fun_induction Procfs.opathLoop m oflags rflags cur rem links with
  | case1 cur links => exact trivial
  | case2 cur links part0 rest part hdd => nm
  | case3 cur links part0 rest part hdd ih1 ih2 =>
    nm [hop, hfin, ih1, ih2]

theorem opathResolve_nm (root : Fd) (path : Bytes) (oflags rflags : Nat) (hfl : hasAll oflags O_CREAT = false) :
    NM (Procfs.opathResolve root path oflags rflags) := by
  unfold Procfs.opathResolve
  have := fun m cur rem links => opathLoop_nm m oflags rflags cur rem links hfl
  nm [this]

theorem procfs_resolve_nm (env : Env) (emulated : Bool) (root : Fd) (path : Bytes) (oflags rflags : Nat) :
    NM (Procfs.resolve env emulated root path oflags rflags) := by
  unfold Procfs.resolve
  split
  · exact trivial
  · rename_i hg
    have hfl : hasAll oflags O_CREAT = false := noCreat_of_guard oflags (by simpa using hg)
    split
    · exact opathResolve_nm root path oflags rflags hfl
    · exact openat2Resolve_nm env root path oflags rflags

macro_rules | `(tactic| nm_lemma) => `(tactic| with_reducible exact procfs_resolve_nm _ _ _ _ _ _)

theorem fstatOrPanic_nm (inner : Fd) : NM (Procfs.fstatOrPanic inner) := by
  unfold Procfs.fstatOrPanic
  nm

theorem missing_nm (inner : Fd) (name : Bytes) : NM (Procfs.missing inner name) := by
  unfold Procfs.missing
  nm

theorem probeSubset_nm (inner : Fd) : NM (Procfs.probeSubset inner) := by
  unfold Procfs.probeSubset
  nm [missing_nm]

macro_rules | `(tactic| nm_lemma) => `(tactic| with_reducible exact fstatOrPanic_nm _)
macro_rules | `(tactic| nm_lemma) => `(tactic| with_reducible exact probeSubset_nm _)

theorem tryFromFd_nm (env : Env) (inner : Fd) : NM (Procfs.tryFromFd env inner) := by
  unfold Procfs.tryFromFd
  nm

macro_rules | `(tactic| nm_lemma) => `(tactic| with_reducible exact tryFromFd_nm _ _)

theorem setSubsetOptions_nm (sfd : Fd) (subset : Bool) : NM (Procfs.setSubsetOptions sfd subset) := by
  unfold Procfs.setSubsetOptions
  nm

macro_rules | `(tactic| nm_lemma) => `(tactic| with_reducible exact setSubsetOptions_nm _ _)

theorem newFsopen_nm (env : Env) (subset : Bool) : NM (Procfs.newFsopen env subset) := by
  unfold Procfs.newFsopen
  nm

theorem newOpenTree_nm (env : Env) (flags : Nat) : NM (Procfs.newOpenTree env flags) := by
  unfold Procfs.newOpenTree
  nm

theorem newUnsafeOpen_nm (env : Env) : NM (Procfs.newUnsafeOpen env) := by
  unfold Procfs.newUnsafeOpen
  have hop : NM (Sys.openat AT_FDCWD b!"/proc" (O_PATH ||| O_DIRECTORY) 0) := openat_nm _ _ _ _ (by decide)
  nm

theorem orElse_nm {α : Type} {p q : M α} (hp : NM p) (hq : NM q) : NM (Procfs.orElse p q) := by
  unfold Procfs.orElse
  nm

theorem newUnmasked_nm (env : Env) : NM (Procfs.newUnmasked env) := by
  unfold Procfs.newUnmasked
  exact orElse_nm (newFsopen_nm env false) (orElse_nm (newOpenTree_nm env _) (newUnsafeOpen_nm env))

theorem new_nm (env : Env) : NM (Procfs.new env) := by
  unfold Procfs.new
  exact orElse_nm (newFsopen_nm env true) (orElse_nm (newOpenTree_nm env _) (newUnsafeOpen_nm env))

macro_rules | `(tactic| nm_lemma) => `(tactic| with_reducible exact newUnmasked_nm _)

theorem openBase_nm (env : Env) (h : ProcH) (base : Procfs.Base) : NM (Procfs.openBase env h base) := by
  unfold Procfs.openBase
  nm

theorem lookupVerified_nm (env : Env) (h : ProcH) (basedir : Fd) (subpath : Bytes) (oflags : Nat) :
    NM (Procfs.lookupVerified env h basedir subpath oflags) := by
  unfold Procfs.lookupVerified
  nm

macro_rules | `(tactic| nm_lemma) => `(tactic| with_reducible exact openBase_nm _ _ _)
macro_rules | `(tactic| nm_lemma) => `(tactic| with_reducible exact lookupVerified_nm _ _ _ _ _)

theorem retryUnmasked_nm (env : Env) (again : ProcH → M Fd) (basedir : Fd) (e : Err)
    (hagain : ∀ h2, NM (again h2)) : NM (Procfs.retryUnmasked env again basedir e) := by
  unfold Procfs.retryUnmasked
  nm [hagain]

theorem openStep_nm (env : Env) (again : ProcH → Nat → M Fd) (h : ProcH) (base : Procfs.Base)
    (subpath : Bytes) (oflags : Nat) (hagain : ∀ h2 fl, NM (again h2 fl)) :
    NM (Procfs.openStep env again h base subpath oflags) := by
  unfold Procfs.openStep
  nm [retryUnmasked_nm, hagain]

theorem openH_nm (env : Env) (fuel : Nat) : ∀ (h : ProcH) (base : Procfs.Base) (subpath : Bytes) (oflags : Nat),
    NM (Procfs.openH env fuel h base subpath oflags) := by
  induction fuel with
  | zero => intro h base subpath oflags; unfold Procfs.openH; exact trivial
  | succ n ih =>
    intro h base subpath oflags
    unfold Procfs.openH
    exact openStep_nm env _ h base subpath oflags (fun h2 fl => ih h2 base subpath fl)

macro_rules | `(tactic| nm_lemma) => `(tactic| with_reducible exact openH_nm _ _ _ _ _ _)

theorem readlinkH_nm (env : Env) (h : ProcH) (base : Procfs.Base) (subpath : Bytes) :
    NM (Procfs.readlinkH env h base subpath) := by
  unfold Procfs.readlinkH
  nm

theorem asUnsafePath_nm (env : Env) (fd : Fd) : NM (Procfs.asUnsafePath env fd) := by
  unfold Procfs.asUnsafePath
  nm [readlinkH_nm]

theorem isMagiclinkFilesystem_nm (fd : Fd) : NM (Procfs.isMagiclinkFilesystem fd) := by
  unfold Procfs.isMagiclinkFilesystem
  nm

macro_rules | `(tactic| nm_lemma) => `(tactic| with_reducible exact asUnsafePath_nm _ _)
macro_rules | `(tactic| nm_lemma) => `(tactic| with_reducible exact isMagiclinkFilesystem_nm _)

/-! ### the emulated resolver -/

theorem checkCurrent_nm (env : Env) (cur root : Fd) (expected : List Bytes) :
    NM (Opath.checkCurrent env cur root expected) := by
  unfold Opath.checkCurrent
  nm

theorem mayFollowLink_nm (env : Env) (dir link : Fd) : NM (Opath.mayFollowLink env dir link) := by
  unfold Opath.mayFollowLink
  nm

macro_rules | `(tactic| nm_lemma) => `(tactic| with_reducible exact checkCurrent_nm _ _ _ _)
macro_rules | `(tactic| nm_lemma) => `(tactic| with_reducible exact mayFollowLink_nm _ _ _)

theorem exitPartial_nm (cfg : Opath.WalkCfg) (st : Opath.WalkSt) (extra : List Fd) (rem : Bytes) (e : Err) :
    NM (Opath.exitPartial cfg st extra rem e) := by
  unfold Opath.exitPartial
  nm

macro_rules | `(tactic| nm_lemma) => `(tactic| with_reducible exact exitPartial_nm _ _ _ _ _)

theorem walk_nm (env : Env) (cfg : Opath.WalkCfg) (st : Opath.WalkSt) : NM (Opath.walk env cfg st) := by
  have hop : ∀ d n, NM (Sys.openat d n (O_PATH ||| O_NOFOLLOW) 0) :=
    fun d n => openat_nm _ _ _ _ (by decide)
  fun_induction Opath.walk env cfg st with
  | case1 st hrem' => nm [hop]
  | case2 => nm
  | case3 st part0 rest hrem' remaining hdd stack' ih => nm [ih]
  | case4 st part0 rest hrem' remaining hdd part expected' ih1 ih2 =>
    simp only [dite_eq_ite] at ih2
    nm [hop, ih1, ih2]

theorem doResolve_nm (env : Env) (root : Fd) (path : Bytes) (rflags : Nat) (nofollow useStack : Bool) :
    NM (Opath.doResolve env root path rflags nofollow useStack) := by
  unfold Opath.doResolve
  nm [walk_nm]

theorem opath_resolve_nm (env : Env) (root : Fd) (path : Bytes) (rflags : Nat) (nofollow : Bool) :
    NM (Opath.resolve env root path rflags nofollow) := by
  unfold Opath.resolve
  have := doResolve_nm env root path rflags nofollow false
  nm

/-! ### the kernel resolver -/

theorem resolveLoop_nm (root : Fd) (path : Bytes) (oflags resolve : Nat) (n : Nat) :
    NM (Openat2.resolveLoop root path oflags resolve n) := by
  induction n with
  | zero => unfold Openat2.resolveLoop; exact trivial
  | succ n ih =>
    unfold Openat2.resolveLoop
    nm [ih]

theorem openat2_resolve_nm (env : Env) (root : Fd) (path : Bytes) (rflags : Nat) (nofollow : Bool) :
    NM (Openat2.resolve env root path rflags nofollow) := by
  unfold Openat2.resolve
  nm [resolveLoop_nm]

/-- Part 2: `Root::resolve`, on either backend, never makes a mutating call. -/
theorem resolve_noMut (env : Env) (r : Resolver) (root : Fd) (path : Bytes) (nofollow : Bool) :
    Prog.AllCalls' (fun c => mutates c = false) (Resolver.resolve env r root path nofollow) := by
  unfold Resolver.resolve
  split
  · exact opath_resolve_nm env root path r.rflags nofollow
  · exact openat2_resolve_nm env root path r.rflags nofollow

/-! ## `exec` through the combinators -/

section ExecLemmas

variable {α β : Type} (μ : MutK) (w : World)

theorem exec_nm {p : Prog α} (hp : NM p) : exec μ w p = (w, p.run w) := exec_of_allCalls μ w p hp

theorem exec_bind (p : Prog α) (f : α → Prog β) :
    exec μ w (Prog.bind p f) = exec μ (exec μ w p).1 (f (exec μ w p).2) := by
  induction p generalizing w with
  | ret a => rfl
  | call c k ih =>
    simp only [Prog.bind, exec]
    split
    · exact ih _ _
    · exact ih _ _

theorem exec_mbind_ok {p : M α} {f : α → M β} {w' : World} {a : α} (h : exec μ w p = (w', .ok a)) :
    exec μ w (M.bind' p f) = exec μ w' (f a) := by
  have key : ∀ q : Prog (Except Err α), exec μ w q = (w', .ok a) → exec μ w (M.bind' q f) = exec μ w' (f a) := by
    intro q hq
    unfold M.bind'
    rw [exec_bind, hq]
  exact key p h

theorem exec_mbind_err {p : M α} {f : α → M β} {w' : World} {e : Err} (h : exec μ w p = (w', .error e)) :
    exec μ w (M.bind' p f) = (w', .error e) := by
  have key : ∀ q : Prog (Except Err α), exec μ w q = (w', .error e) →
      exec μ w (M.bind' q f) = (w', .error e) := by
    intro q hq
    unfold M.bind'
    rw [exec_bind, hq]
    rfl
  exact key p h

theorem exec_onErr_ok {p : M α} {c : Prog Unit} {w' : World} {a : α} (h : exec μ w p = (w', .ok a)) :
    exec μ w (M.onErr p c) = (w', .ok a) := by
  have key : ∀ q : Prog (Except Err α), exec μ w q = (w', .ok a) → exec μ w (M.onErr q c) = (w', .ok a) := by
    intro q hq
    unfold M.onErr
    rw [exec_bind, hq]
    rfl
  exact key p h

theorem exec_onErr_err {p : M α} {c : Prog Unit} {w' : World} {e : Err} (h : exec μ w p = (w', .error e))
    (hc : NM c) : exec μ w (M.onErr p c) = (w', .error e) := by
  have key : ∀ q : Prog (Except Err α), exec μ w q = (w', .error e) →
      exec μ w (M.onErr q c) = (w', .error e) := by
    intro q hq
    unfold M.onErr
    rw [exec_bind, hq]
    show exec μ w' (Prog.bind c _) = _
    rw [exec_bind, exec_nm μ w' hc]
    rfl
  exact key p h

/-- `let r ← try' q; fin r` where `fin` only cleans up and re-raises: the effect and result of `q` -/
theorem exec_try_then (q : M α) (fin : Except Err α → M α) (hfin : ∀ w' r, exec μ w' (fin r) = (w', r)) :
    exec μ w (M.bind' (M.try' q) fin) = exec μ w q := by
  have key : ∀ q : Prog (Except Err α), exec μ w (M.bind' (M.try' q) fin) = exec μ w q := by
    intro q
    unfold M.bind' M.try'
    rw [exec_bind, exec_bind]
    generalize exec μ w q = x
    obtain ⟨w1, r1⟩ := x
    cases r1 with
    | ok a => exact hfin w1 (.ok a)
    | error e =>
      dsimp only
      by_cases hf : e.isFatal = true
      · simp only [hf, ↓reduceIte]; rfl
      · simp only [hf, Bool.false_eq_true, ↓reduceIte]; exact hfin w1 (.error e)
  exact key q

theorem exec_close_then (fd : Fd) (p : M α) :
    exec μ w (M.bind' (M.lift (Sys.close fd)) fun _ => p) = exec μ w p := rfl

theorem exec_closeAll_then (fds : List Fd) (p : M α) :
    exec μ w (M.bind' (M.lift (Sys.closeAll fds)) fun _ => p) = exec μ w p := by
  have h : exec μ w (M.lift (Sys.closeAll fds)) = (w, .ok ()) := by
    rw [exec_nm μ w (NM.lift (closeAll_nm fds)), run_lift]
  exact exec_mbind_ok μ w h

theorem exec_ofExcept (r : Except Err α) : exec μ w (M.ofExcept r) = (w, r) := by
  cases r <;> rfl

/-- a mutating call, then its continuation on the new world -/
theorem exec_mcall_mut (c : Call) (hc : mutates c = true) (k : Resp → M α) :
    exec μ w (M.bind' (M.call c) k) = exec μ (μ.eff w c) (k (μ.ans w c)) := by
  show exec μ w (Prog.call c fun r => _) = _
  rw [exec, if_pos hc]
  rfl

theorem exec_failWith (fds : List Fd) (e : Nat) :
    exec μ w (Sys.failWith (α := α) fds e) = (w, .error (.os e)) := by
  rw [exec_nm μ w (failWith_nm fds e), run_failWith]

theorem exec_unitCall (c : Call) (hc : mutates c = true) (fds : List Fd) (site : String) :
    exec μ w (Sys.unitCall c fds site) = (μ.eff w c, unitOut (μ.ans w c) site) := by
  unfold Sys.unitCall
  rw [M.bind_def, exec_mcall_mut μ w c hc]
  cases μ.ans w c with
  | unit => rfl
  | err e => exact exec_failWith μ _ fds e
  | fd n => rfl
  | bytes b => rfl
  | nums l => rfl
  | fin => rfl

end ExecLemmas

/-! ## The effect theorems

`removeInode_effect`, `create_effect` (+ `create_hardlink_effect`), `createFile_effect`, `rename_effect`: when the
path splits into `(parent, some name)` and the specification resolves `parent` to `d` on `w`, running the operation
against the mutable world makes exactly one mutating call `c` on `(d, name)`: the final world is `μ.eff w c` and the
result the wrapper's translation of `μ.ans w c`.  The `*_frame_*` theorems: when the parent lookup fails, the path
has a trailing slash, or `pathSplit` fails, the world is unchanged and the result is the corresponding error.
-/

/-! ## Part 3: the parent lookup, and `remove_file`/`remove_dir` -/

theorem resolveParent_nm (env : Env) (root : Root) (path : Bytes) : NM (Root.resolveParent env root path) := by
  unfold Root.resolveParent
  nm [resolve_noMut]

variable {w : World}

theorem resolved_nonneg (hw : w.WF) {c : World.Cfg} {path : Bytes} {d : Fd}
    (h : resolveInRoot w c path = .ok d) : 0 ≤ d := by
  obtain ⟨p, hp⟩ := C01_inside_root hw c path d h
  exact tree_nonneg (hw.path_tree d p hp)

theorem exec_resolveParent_ok (μ : MutK) (hw : w.WF) (r : Resolver) (path parent : Bytes) (name : Option Bytes)
    (hnul : parent.contains 0 = false) (d : Fd)
    (hsplit : Path.pathSplit path = .ok (parent, name))
    (hres : resolveInRoot w (if r.emulated then ecfg r.rflags false else kcfgK w r.rflags false) parent = .ok d) :
    exec μ w (Root.resolveParent (kenv w) { fd := w.root, resolver := r } path) = (w, .ok (d, name)) := by
  rw [exec_nm μ w (resolveParent_nm _ _ _)]
  unfold Root.resolveParent
  have hr := C01_any_backend hw r parent hnul false
  rw [hres] at hr
  simp only [M.bind_def, run_bind'_simp, run_do_liftE, hsplit, hr, toOut, run_do_pure]

theorem exec_resolveParent_err (μ : MutK) (hw : w.WF) (r : Resolver) (path parent : Bytes) (name : Option Bytes)
    (hnul : parent.contains 0 = false) (e : Nat)
    (hsplit : Path.pathSplit path = .ok (parent, name))
    (hres : resolveInRoot w (if r.emulated then ecfg r.rflags false else kcfgK w r.rflags false) parent = .error e) :
    exec μ w (Root.resolveParent (kenv w) { fd := w.root, resolver := r } path) = (w, .error (.os e)) := by
  rw [exec_nm μ w (resolveParent_nm _ _ _)]
  unfold Root.resolveParent
  have hr := C01_any_backend hw r parent hnul false
  rw [hres] at hr
  simp only [M.bind_def, run_bind'_simp, run_do_liftE, hsplit, hr, toOut]

theorem exec_resolveParent_split (μ : MutK) (env : Env) (root : Root) (path : Bytes) (e : Err)
    (hsplit : Path.pathSplit path = .error e) :
    exec μ w (Root.resolveParent env root path) = (w, .error e) := by
  rw [exec_nm μ w (resolveParent_nm _ _ _)]
  unfold Root.resolveParent
  simp only [M.bind_def, run_bind'_simp, run_do_liftE, hsplit]


/-- the cleanup after the one mutating call: close the parent, re-raise -/
theorem exec_close_ofExcept {α : Type} (μ : MutK) (fd : Fd) (w' : World) (r : Except Err α) :
    exec μ w' (M.bind' (M.lift (Sys.close fd)) fun _ => M.ofExcept r) = (w', r) := by
  rw [exec_close_then, exec_ofExcept]

theorem exec_unlinkat (μ : MutK) (d : Fd) (hd : 0 ≤ d) (name : Bytes) (fl : Nat) :
    exec μ w (Sys.unlinkat d name fl) =
      (μ.eff w (.unlinkat d name fl), unitOut (μ.ans w (.unlinkat d name fl)) "unlinkat") := by
  unfold Sys.unlinkat
  rw [hotfix_tree hd]
  exact exec_unitCall μ w _ rfl _ _

theorem removeInode_effect (μ : MutK) (hw : w.WF) (r : Resolver) (path parent name : Bytes)
    (hnul : parent.contains 0 = false) (isDir : Bool) (d : Fd)
    (hsplit : Path.pathSplit path = .ok (parent, some name))
    (hres : resolveInRoot w (if r.emulated then ecfg r.rflags false else kcfgK w r.rflags false) parent = .ok d) :
    exec μ w (Root.removeInode (kenv w) { fd := w.root, resolver := r } path isDir) =
      (μ.eff w (.unlinkat d name (if isDir then AT_REMOVEDIR else 0)),
       unitOut (μ.ans w (.unlinkat d name (if isDir then AT_REMOVEDIR else 0))) "unlinkat") := by
  unfold Root.removeInode
  simp only [M.bind_def, liftM_prog]
  rw [exec_mbind_ok μ w (exec_resolveParent_ok μ hw r path parent (some name) hnul d hsplit hres)]
  dsimp only
  rw [exec_try_then μ w _ _ (exec_close_ofExcept μ d)]
  exact exec_unlinkat μ d (resolved_nonneg hw hres) name _

/-- frame: the parent lookup fails -/
theorem removeInode_frame_lookup (μ : MutK) (hw : w.WF) (r : Resolver) (path parent : Bytes) (name : Option Bytes)
    (hnul : parent.contains 0 = false) (isDir : Bool) (e : Nat)
    (hsplit : Path.pathSplit path = .ok (parent, name))
    (hres : resolveInRoot w (if r.emulated then ecfg r.rflags false else kcfgK w r.rflags false) parent = .error e) :
    exec μ w (Root.removeInode (kenv w) { fd := w.root, resolver := r } path isDir) = (w, .error (.os e)) := by
  unfold Root.removeInode
  simp only [M.bind_def, liftM_prog]
  exact exec_mbind_err μ w (exec_resolveParent_err μ hw r path parent name hnul e hsplit hres)

/-- frame: trailing slash -/
theorem removeInode_frame_slash (μ : MutK) (hw : w.WF) (r : Resolver) (path parent : Bytes)
    (hnul : parent.contains 0 = false) (isDir : Bool) (d : Fd)
    (hsplit : Path.pathSplit path = .ok (parent, none))
    (hres : resolveInRoot w (if r.emulated then ecfg r.rflags false else kcfgK w r.rflags false) parent = .ok d) :
    exec μ w (Root.removeInode (kenv w) { fd := w.root, resolver := r } path isDir) = (w, .error .invalidArgument) := by
  unfold Root.removeInode
  simp only [M.bind_def, liftM_prog]
  rw [exec_mbind_ok μ w (exec_resolveParent_ok μ hw r path parent none hnul d hsplit hres)]
  rfl

/-- frame: the path cannot be split -/
theorem removeInode_frame_split (μ : MutK) (env : Env) (root : Root) (path : Bytes) (isDir : Bool) (e : Err)
    (hsplit : Path.pathSplit path = .error e) :
    exec μ w (Root.removeInode env root path isDir) = (w, .error e) := by
  unfold Root.removeInode
  simp only [M.bind_def, liftM_prog]
  exact exec_mbind_err μ w (exec_resolveParent_split μ env root path e hsplit)


/-! ## Part 4: `create`, `create_file`, `rename` -/

/-- the one mutating call of `Root::create` on `(d, name)` and the wrapper that makes it, for the inode
types that need no second lookup (`Root.createCall`) -/
def createSysCall (d : Fd) (name : Bytes) : InodeType → Option (Call × String)
  | .file perm => some (.mknodat d name (S_IFREG ||| Root.clearFmt perm) 0, "mknodat")
  | .directory perm => some (.mkdirat d name (Root.clearFmt perm), "mkdirat")
  | .symlink target => some (.symlinkat target d name, "symlinkat")
  | .hardlink _ => none
  | .fifo perm => some (.mknodat d name (S_IFIFO ||| Root.clearFmt perm) 0, "mknodat")
  | .charDev perm dev => some (.mknodat d name (S_IFCHR ||| Root.clearFmt perm) dev, "mknodat")
  | .blockDev perm dev => some (.mknodat d name (S_IFBLK ||| Root.clearFmt perm) dev, "mknodat")

theorem exec_mknodat (μ : MutK) (d : Fd) (hd : 0 ≤ d) (name : Bytes) (mode dev : Nat) :
    exec μ w (Sys.mknodat d name mode dev) =
      (μ.eff w (.mknodat d name mode dev), unitOut (μ.ans w (.mknodat d name mode dev)) "mknodat") := by
  unfold Sys.mknodat
  rw [hotfix_tree hd]
  exact exec_unitCall μ w _ rfl _ _

theorem exec_mkdirat (μ : MutK) (d : Fd) (hd : 0 ≤ d) (name : Bytes) (mode : Nat) :
    exec μ w (Sys.mkdirat d name mode) =
      (μ.eff w (.mkdirat d name mode), unitOut (μ.ans w (.mkdirat d name mode)) "mkdirat") := by
  unfold Sys.mkdirat
  rw [hotfix_tree hd]
  exact exec_unitCall μ w _ rfl _ _

theorem exec_symlinkat (μ : MutK) (d : Fd) (hd : 0 ≤ d) (target name : Bytes) :
    exec μ w (Sys.symlinkat target d name) =
      (μ.eff w (.symlinkat target d name), unitOut (μ.ans w (.symlinkat target d name)) "symlinkat") := by
  unfold Sys.symlinkat
  rw [hotfix_tree hd]
  exact exec_unitCall μ w _ rfl _ _

theorem exec_createCall (μ : MutK) (env : Env) (root : Root) (d : Fd) (hd : 0 ≤ d) (name : Bytes)
    (ty : InodeType) (c : Call) (site : String) (hc : createSysCall d name ty = some (c, site)) :
    exec μ w (Root.createCall env root d name ty) = (μ.eff w c, unitOut (μ.ans w c) site) := by
  cases ty <;> simp only [createSysCall, Option.some.injEq, Prod.mk.injEq, reduceCtorEq] at hc <;>
    obtain ⟨rfl, rfl⟩ := hc <;> unfold Root.createCall
  · exact exec_mknodat μ d hd name _ _
  · exact exec_mkdirat μ d hd name _
  · exact exec_symlinkat μ d hd _ name
  · exact exec_mknodat μ d hd name _ _
  · exact exec_mknodat μ d hd name _ _
  · exact exec_mknodat μ d hd name _ _

/-- `Root::create` of anything but a hard link: exactly the one `mknodat`/`mkdirat`/`symlinkat` on
(in-root parent, final name) -/
theorem create_effect (μ : MutK) (hw : w.WF) (r : Resolver) (path parent name : Bytes)
    (hnul : parent.contains 0 = false) (ty : InodeType) (d : Fd) (c : Call) (site : String)
    (hsplit : Path.pathSplit path = .ok (parent, some name))
    (hres : resolveInRoot w (if r.emulated then ecfg r.rflags false else kcfgK w r.rflags false) parent = .ok d)
    (hc : createSysCall d name ty = some (c, site)) :
    exec μ w (Root.create (kenv w) { fd := w.root, resolver := r } path ty) =
      (μ.eff w c, unitOut (μ.ans w c) site) := by
  unfold Root.create
  simp only [M.bind_def, liftM_prog]
  rw [exec_mbind_ok μ w (exec_resolveParent_ok μ hw r path parent (some name) hnul d hsplit hres)]
  dsimp only
  rw [exec_try_then μ w _ _ (exec_close_ofExcept μ d)]
  exact exec_createCall μ _ _ d (resolved_nonneg hw hres) name ty c site hc

theorem create_frame_lookup (μ : MutK) (hw : w.WF) (r : Resolver) (path parent : Bytes) (name : Option Bytes)
    (hnul : parent.contains 0 = false) (ty : InodeType) (e : Nat)
    (hsplit : Path.pathSplit path = .ok (parent, name))
    (hres : resolveInRoot w (if r.emulated then ecfg r.rflags false else kcfgK w r.rflags false) parent = .error e) :
    exec μ w (Root.create (kenv w) { fd := w.root, resolver := r } path ty) = (w, .error (.os e)) := by
  unfold Root.create
  simp only [M.bind_def, liftM_prog]
  exact exec_mbind_err μ w (exec_resolveParent_err μ hw r path parent name hnul e hsplit hres)

theorem create_frame_slash (μ : MutK) (hw : w.WF) (r : Resolver) (path parent : Bytes)
    (hnul : parent.contains 0 = false) (ty : InodeType) (d : Fd)
    (hsplit : Path.pathSplit path = .ok (parent, none))
    (hres : resolveInRoot w (if r.emulated then ecfg r.rflags false else kcfgK w r.rflags false) parent = .ok d) :
    exec μ w (Root.create (kenv w) { fd := w.root, resolver := r } path ty) = (w, .error .invalidArgument) := by
  unfold Root.create
  simp only [M.bind_def, liftM_prog]
  rw [exec_mbind_ok μ w (exec_resolveParent_ok μ hw r path parent none hnul d hsplit hres)]
  rfl

theorem create_frame_split (μ : MutK) (env : Env) (root : Root) (path : Bytes) (ty : InodeType) (e : Err)
    (hsplit : Path.pathSplit path = .error e) :
    exec μ w (Root.create env root path ty) = (w, .error e) := by
  unfold Root.create
  simp only [M.bind_def, liftM_prog]
  exact exec_mbind_err μ w (exec_resolveParent_split μ env root path e hsplit)

/-! ### `create_file` -/

/-- the result of a descriptor-returning wrapper whose call the kernel answered with `r` -/
def fdOut (r : Resp) (site : String) : Except Err Fd :=
  match r with
  | .fd n => .ok n
  | .err e => .error (.os e)
  | _ => .error (.badResp site)

/-- what `Sys.openat` really passes for `create_file` -/
def createFileCall (d : Fd) (name : Bytes) (flags perm : Nat) : Call :=
  .openat d name (flags ||| O_CREAT ||| O_NOFOLLOW ||| O_CLOEXEC ||| O_NOCTTY) perm

theorem createFileCall_mutates (d : Fd) (name : Bytes) (flags perm : Nat) :
    mutates (createFileCall d name flags perm) = true := by
  show hasAll (flags ||| O_CREAT ||| O_NOFOLLOW ||| O_CLOEXEC ||| O_NOCTTY) O_CREAT = true
  simp only [hasAll_creat_or]
  have : hasAll O_CREAT O_CREAT = true := by decide
  simp only [this, Bool.or_true, Bool.true_or]

theorem exec_openat_creat (μ : MutK) (d : Fd) (hd : 0 ≤ d) (name : Bytes) (flags perm : Nat) :
    exec μ w (Sys.openat d name (flags ||| O_CREAT) perm) =
      (μ.eff w (createFileCall d name flags perm), fdOut (μ.ans w (createFileCall d name flags perm)) "openat") := by
  unfold Sys.openat Sys.openatFollow
  rw [hotfix_tree hd]
  simp only [M.bind_def]
  show exec μ w (M.bind' (M.call (createFileCall d name flags perm)) _) = _
  rw [exec_mcall_mut μ w _ (createFileCall_mutates d name flags perm)]
  cases μ.ans w (createFileCall d name flags perm) with
  | fd n => rfl
  | err e => exact exec_failWith μ _ [d] e
  | unit => rfl
  | bytes b => rfl
  | nums l => rfl
  | fin => rfl

/-- `Root::create_file`: exactly one `openat(parent, name, flags|O_CREAT|O_NOFOLLOW|O_CLOEXEC|O_NOCTTY, perm)` -/
theorem createFile_effect (μ : MutK) (hw : w.WF) (r : Resolver) (path parent name : Bytes)
    (hnul : parent.contains 0 = false) (flags perm : Nat) (d : Fd)
    (hsplit : Path.pathSplit path = .ok (parent, some name))
    (hname : ¬ (name = Path.dot ∨ name = Path.dotdot))
    (hres : resolveInRoot w (if r.emulated then ecfg r.rflags false else kcfgK w r.rflags false) parent = .ok d) :
    exec μ w (Root.createFile (kenv w) { fd := w.root, resolver := r } path flags perm) =
      (μ.eff w (createFileCall d name flags perm), fdOut (μ.ans w (createFileCall d name flags perm)) "openat") := by
  unfold Root.createFile
  simp only [M.bind_def, liftM_prog]
  rw [exec_mbind_ok μ w (exec_resolveParent_ok μ hw r path parent (some name) hnul d hsplit hres)]
  dsimp only
  rw [exec_try_then μ w _ _ (exec_close_ofExcept μ d)]
  unfold Root.createFileOpen
  rw [if_neg hname]
  exact exec_openat_creat μ d (resolved_nonneg hw hres) name flags perm

/-- `Root::create_file` on a path whose final component is `.` or `..`: refused with `EISDIR` before any call on the
parent — whatever the open flags (with `O_PATH` the kernel would ignore `O_CREAT` and look `..` up) -/
theorem createFile_frame_dots (μ : MutK) (hw : w.WF) (r : Resolver) (path parent name : Bytes)
    (hnul : parent.contains 0 = false) (flags perm : Nat) (d : Fd)
    (hsplit : Path.pathSplit path = .ok (parent, some name))
    (hname : name = Path.dot ∨ name = Path.dotdot)
    (hres : resolveInRoot w (if r.emulated then ecfg r.rflags false else kcfgK w r.rflags false) parent = .ok d) :
    exec μ w (Root.createFile (kenv w) { fd := w.root, resolver := r } path flags perm) =
      (w, .error (.os EISDIR)) := by
  unfold Root.createFile
  simp only [M.bind_def, liftM_prog]
  rw [exec_mbind_ok μ w (exec_resolveParent_ok μ hw r path parent (some name) hnul d hsplit hres)]
  dsimp only
  rw [exec_try_then μ w _ _ (exec_close_ofExcept μ d)]
  unfold Root.createFileOpen
  rw [if_pos hname]
  rfl

theorem createFile_frame_lookup (μ : MutK) (hw : w.WF) (r : Resolver) (path parent : Bytes) (name : Option Bytes)
    (hnul : parent.contains 0 = false) (flags perm : Nat) (e : Nat)
    (hsplit : Path.pathSplit path = .ok (parent, name))
    (hres : resolveInRoot w (if r.emulated then ecfg r.rflags false else kcfgK w r.rflags false) parent = .error e) :
    exec μ w (Root.createFile (kenv w) { fd := w.root, resolver := r } path flags perm) = (w, .error (.os e)) := by
  unfold Root.createFile
  simp only [M.bind_def, liftM_prog]
  exact exec_mbind_err μ w (exec_resolveParent_err μ hw r path parent name hnul e hsplit hres)

theorem createFile_frame_slash (μ : MutK) (hw : w.WF) (r : Resolver) (path parent : Bytes)
    (hnul : parent.contains 0 = false) (flags perm : Nat) (d : Fd)
    (hsplit : Path.pathSplit path = .ok (parent, none))
    (hres : resolveInRoot w (if r.emulated then ecfg r.rflags false else kcfgK w r.rflags false) parent = .ok d) :
    exec μ w (Root.createFile (kenv w) { fd := w.root, resolver := r } path flags perm) =
      (w, .error .invalidArgument) := by
  unfold Root.createFile
  simp only [M.bind_def, liftM_prog]
  rw [exec_mbind_ok μ w (exec_resolveParent_ok μ hw r path parent none hnul d hsplit hres)]
  rfl

theorem createFile_frame_split (μ : MutK) (env : Env) (root : Root) (path : Bytes) (flags perm : Nat) (e : Err)
    (hsplit : Path.pathSplit path = .error e) :
    exec μ w (Root.createFile env root path flags perm) = (w, .error e) := by
  unfold Root.createFile
  simp only [M.bind_def, liftM_prog]
  exact exec_mbind_err μ w (exec_resolveParent_split μ env root path e hsplit)


/-! ### `rename` -/

/-- the one mutating call of `Root::rename`: `Sys.renameat2` makes a plain `renameat` when no flags are given -/
def renameSysCall (d1 : Fd) (n1 : Bytes) (d2 : Fd) (n2 : Bytes) (flags : Nat) : Call :=
  if flags = 0 then .renameat d1 n1 d2 n2 else .renameat2 d1 n1 d2 n2 flags

def renameSite (flags : Nat) : String := if flags = 0 then "renameat" else "renameat2"

theorem exec_renameat2 (μ : MutK) (d1 d2 : Fd) (h1 : 0 ≤ d1) (h2 : 0 ≤ d2) (n1 n2 : Bytes) (flags : Nat) :
    exec μ w (Sys.renameat2 d1 n1 d2 n2 flags) =
      (μ.eff w (renameSysCall d1 n1 d2 n2 flags),
       unitOut (μ.ans w (renameSysCall d1 n1 d2 n2 flags)) (renameSite flags)) := by
  unfold Sys.renameat2 renameSysCall renameSite
  split
  · unfold Sys.renameat
    rw [hotfix_tree h1, hotfix_tree h2]
    exact exec_unitCall μ w _ rfl _ _
  · rw [hotfix_tree h1, hotfix_tree h2]
    exact exec_unitCall μ w _ rfl _ _

theorem exec_close2_ofExcept {α : Type} (μ : MutK) (a b : Fd) (w' : World) (r : Except Err α) :
    exec μ w' (M.bind' (M.lift (Sys.close a)) fun _ => M.bind' (M.lift (Sys.close b)) fun _ => M.ofExcept r)
      = (w', r) := by
  rw [exec_close_then, exec_close_then, exec_ofExcept]

/-- `Root::rename`: two parent lookups on the same (unchanged) world, then exactly one
`renameat`/`renameat2` on (source parent, source name, destination parent, destination name) -/
theorem rename_effect (μ : MutK) (hw : w.WF) (r : Resolver) (src dst p1 n1 p2 n2 : Bytes)
    (hnul1 : p1.contains 0 = false) (hnul2 : p2.contains 0 = false) (flags : Nat) (d1 d2 : Fd)
    (hsplit1 : Path.pathSplit src = .ok (p1, some n1))
    (hres1 : resolveInRoot w (if r.emulated then ecfg r.rflags false else kcfgK w r.rflags false) p1 = .ok d1)
    (hsplit2 : Path.pathSplit dst = .ok (p2, some n2))
    (hres2 : resolveInRoot w (if r.emulated then ecfg r.rflags false else kcfgK w r.rflags false) p2 = .ok d2) :
    exec μ w (Root.rename (kenv w) { fd := w.root, resolver := r } src dst flags) =
      (μ.eff w (renameSysCall d1 n1 d2 n2 flags),
       unitOut (μ.ans w (renameSysCall d1 n1 d2 n2 flags)) (renameSite flags)) := by
  unfold Root.rename
  simp only [M.bind_def, liftM_prog]
  rw [exec_mbind_ok μ w (exec_resolveParent_ok μ hw r src p1 (some n1) hnul1 d1 hsplit1 hres1)]
  dsimp only
  rw [exec_mbind_ok μ w (exec_onErr_ok μ w (exec_resolveParent_ok μ hw r dst p2 (some n2) hnul2 d2 hsplit2 hres2))]
  dsimp only
  rw [exec_try_then μ w _ _ (exec_close2_ofExcept μ d1 d2)]
  exact exec_renameat2 μ d1 d2 (resolved_nonneg hw hres1) (resolved_nonneg hw hres2) n1 n2 flags

theorem rename_frame_src_split (μ : MutK) (env : Env) (root : Root) (src dst : Bytes) (flags : Nat) (e : Err)
    (hsplit1 : Path.pathSplit src = .error e) :
    exec μ w (Root.rename env root src dst flags) = (w, .error e) := by
  unfold Root.rename
  simp only [M.bind_def, liftM_prog]
  exact exec_mbind_err μ w (exec_resolveParent_split μ env root src e hsplit1)

theorem rename_frame_src_lookup (μ : MutK) (hw : w.WF) (r : Resolver) (src dst p1 : Bytes) (n1 : Option Bytes)
    (hnul1 : p1.contains 0 = false) (flags : Nat) (e : Nat)
    (hsplit1 : Path.pathSplit src = .ok (p1, n1))
    (hres1 : resolveInRoot w (if r.emulated then ecfg r.rflags false else kcfgK w r.rflags false) p1 = .error e) :
    exec μ w (Root.rename (kenv w) { fd := w.root, resolver := r } src dst flags) = (w, .error (.os e)) := by
  unfold Root.rename
  simp only [M.bind_def, liftM_prog]
  exact exec_mbind_err μ w (exec_resolveParent_err μ hw r src p1 n1 hnul1 e hsplit1 hres1)

theorem rename_frame_src_slash (μ : MutK) (hw : w.WF) (r : Resolver) (src dst p1 : Bytes)
    (hnul1 : p1.contains 0 = false) (flags : Nat) (d1 : Fd)
    (hsplit1 : Path.pathSplit src = .ok (p1, none))
    (hres1 : resolveInRoot w (if r.emulated then ecfg r.rflags false else kcfgK w r.rflags false) p1 = .ok d1) :
    exec μ w (Root.rename (kenv w) { fd := w.root, resolver := r } src dst flags) = (w, .error .invalidArgument) := by
  unfold Root.rename
  simp only [M.bind_def, liftM_prog]
  rw [exec_mbind_ok μ w (exec_resolveParent_ok μ hw r src p1 none hnul1 d1 hsplit1 hres1)]
  rfl

theorem rename_frame_dst_split (μ : MutK) (hw : w.WF) (r : Resolver) (src dst p1 n1 : Bytes)
    (hnul1 : p1.contains 0 = false) (flags : Nat) (d1 : Fd) (e : Err)
    (hsplit1 : Path.pathSplit src = .ok (p1, some n1))
    (hres1 : resolveInRoot w (if r.emulated then ecfg r.rflags false else kcfgK w r.rflags false) p1 = .ok d1)
    (hsplit2 : Path.pathSplit dst = .error e) :
    exec μ w (Root.rename (kenv w) { fd := w.root, resolver := r } src dst flags) = (w, .error e) := by
  unfold Root.rename
  simp only [M.bind_def, liftM_prog]
  rw [exec_mbind_ok μ w (exec_resolveParent_ok μ hw r src p1 (some n1) hnul1 d1 hsplit1 hres1)]
  dsimp only
  exact exec_mbind_err μ w (exec_onErr_err μ w (exec_resolveParent_split μ _ _ dst e hsplit2) (close_nm d1))

theorem rename_frame_dst_lookup (μ : MutK) (hw : w.WF) (r : Resolver) (src dst p1 n1 p2 : Bytes) (n2 : Option Bytes)
    (hnul1 : p1.contains 0 = false) (hnul2 : p2.contains 0 = false) (flags : Nat) (d1 : Fd) (e : Nat)
    (hsplit1 : Path.pathSplit src = .ok (p1, some n1))
    (hres1 : resolveInRoot w (if r.emulated then ecfg r.rflags false else kcfgK w r.rflags false) p1 = .ok d1)
    (hsplit2 : Path.pathSplit dst = .ok (p2, n2))
    (hres2 : resolveInRoot w (if r.emulated then ecfg r.rflags false else kcfgK w r.rflags false) p2 = .error e) :
    exec μ w (Root.rename (kenv w) { fd := w.root, resolver := r } src dst flags) = (w, .error (.os e)) := by
  unfold Root.rename
  simp only [M.bind_def, liftM_prog]
  rw [exec_mbind_ok μ w (exec_resolveParent_ok μ hw r src p1 (some n1) hnul1 d1 hsplit1 hres1)]
  dsimp only
  exact exec_mbind_err μ w
    (exec_onErr_err μ w (exec_resolveParent_err μ hw r dst p2 n2 hnul2 e hsplit2 hres2) (close_nm d1))

theorem rename_frame_dst_slash (μ : MutK) (hw : w.WF) (r : Resolver) (src dst p1 n1 p2 : Bytes)
    (hnul1 : p1.contains 0 = false) (hnul2 : p2.contains 0 = false) (flags : Nat) (d1 d2 : Fd)
    (hsplit1 : Path.pathSplit src = .ok (p1, some n1))
    (hres1 : resolveInRoot w (if r.emulated then ecfg r.rflags false else kcfgK w r.rflags false) p1 = .ok d1)
    (hsplit2 : Path.pathSplit dst = .ok (p2, none))
    (hres2 : resolveInRoot w (if r.emulated then ecfg r.rflags false else kcfgK w r.rflags false) p2 = .ok d2) :
    exec μ w (Root.rename (kenv w) { fd := w.root, resolver := r } src dst flags) = (w, .error .invalidArgument) := by
  unfold Root.rename
  simp only [M.bind_def, liftM_prog]
  rw [exec_mbind_ok μ w (exec_resolveParent_ok μ hw r src p1 (some n1) hnul1 d1 hsplit1 hres1)]
  dsimp only
  rw [exec_mbind_ok μ w (exec_onErr_ok μ w (exec_resolveParent_ok μ hw r dst p2 none hnul2 d2 hsplit2 hres2))]
  dsimp only
  rw [exec_closeAll_then]
  rfl

/-! ### `create` of a hard link: a second parent lookup (of the link target), then one `linkat` -/

theorem exec_linkat (μ : MutK) (d1 d2 : Fd) (h1 : 0 ≤ d1) (h2 : 0 ≤ d2) (n1 n2 : Bytes) (flags : Nat) :
    exec μ w (Sys.linkat d1 n1 d2 n2 flags) =
      (μ.eff w (.linkat d1 n1 d2 n2 flags), unitOut (μ.ans w (.linkat d1 n1 d2 n2 flags)) "linkat") := by
  unfold Sys.linkat
  rw [hotfix_tree h1, hotfix_tree h2]
  exact exec_unitCall μ w _ rfl _ _

theorem create_hardlink_effect (μ : MutK) (hw : w.WF) (r : Resolver) (path parent name target tparent tname : Bytes)
    (hnul : parent.contains 0 = false) (hnult : tparent.contains 0 = false) (d dt : Fd)
    (hsplit : Path.pathSplit path = .ok (parent, some name))
    (hres : resolveInRoot w (if r.emulated then ecfg r.rflags false else kcfgK w r.rflags false) parent = .ok d)
    (hsplitt : Path.pathSplit target = .ok (tparent, some tname))
    (hrest : resolveInRoot w (if r.emulated then ecfg r.rflags false else kcfgK w r.rflags false) tparent = .ok dt) :
    exec μ w (Root.create (kenv w) { fd := w.root, resolver := r } path (.hardlink target)) =
      (μ.eff w (.linkat dt tname d name 0), unitOut (μ.ans w (.linkat dt tname d name 0)) "linkat") := by
  unfold Root.create
  simp only [M.bind_def, liftM_prog]
  rw [exec_mbind_ok μ w (exec_resolveParent_ok μ hw r path parent (some name) hnul d hsplit hres)]
  dsimp only
  rw [exec_try_then μ w _ _ (exec_close_ofExcept μ d)]
  unfold Root.createCall
  simp only [M.bind_def, liftM_prog]
  rw [exec_mbind_ok μ w (exec_resolveParent_ok μ hw r target tparent (some tname) hnult dt hsplitt hrest)]
  dsimp only
  rw [exec_try_then μ w _ _ (exec_close_ofExcept μ dt)]
  exact exec_linkat μ dt d (resolved_nonneg hw hrest) (resolved_nonneg hw hres) tname name 0

/-- frame for the hard link: whatever happens to the lookup of the link target's parent, if it does not
yield `(dt, some tname)` the world is unchanged -/
theorem create_hardlink_frame (μ : MutK) (hw : w.WF) (r : Resolver) (path parent name target : Bytes)
    (hnul : parent.contains 0 = false) (d : Fd) (e : Err)
    (hsplit : Path.pathSplit path = .ok (parent, some name))
    (hres : resolveInRoot w (if r.emulated then ecfg r.rflags false else kcfgK w r.rflags false) parent = .ok d)
    (ht : (∃ tparent tname e', Path.pathSplit target = .ok (tparent, tname) ∧ tparent.contains 0 = false ∧
            resolveInRoot w (if r.emulated then ecfg r.rflags false else kcfgK w r.rflags false) tparent = .error e' ∧
            e = .os e') ∨
          (∃ tparent dt, Path.pathSplit target = .ok (tparent, none) ∧ tparent.contains 0 = false ∧
            resolveInRoot w (if r.emulated then ecfg r.rflags false else kcfgK w r.rflags false) tparent = .ok dt ∧
            e = .invalidArgument) ∨
          Path.pathSplit target = .error e) :
    exec μ w (Root.create (kenv w) { fd := w.root, resolver := r } path (.hardlink target)) = (w, .error e) := by
  unfold Root.create
  simp only [M.bind_def, liftM_prog]
  rw [exec_mbind_ok μ w (exec_resolveParent_ok μ hw r path parent (some name) hnul d hsplit hres)]
  dsimp only
  rw [exec_try_then μ w _ _ (exec_close_ofExcept μ d)]
  unfold Root.createCall
  simp only [M.bind_def, liftM_prog]
  rcases ht with ⟨tp, tn, e', hs, hn, hr, rfl⟩ | ⟨tp, dt, hs, hn, hr, rfl⟩ | hs
  · exact exec_mbind_err μ w (exec_resolveParent_err μ hw r target tp tn hn e' hs hr)
  · rw [exec_mbind_ok μ w (exec_resolveParent_ok μ hw r target tp none hn dt hs hr)]
    rfl
  · exact exec_mbind_err μ w (exec_resolveParent_split μ _ _ target e hs)

end KEffect
