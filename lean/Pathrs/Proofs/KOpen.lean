import Pathrs.Proofs.KProbe

/-!
# The one-shot open (`Root::open_subpath`, `Resolver::open`) on a world

Both backends compute: in-root resolution of the path (no-follow iff `O_NOFOLLOW` is among the
flags), then `open(2)` of the object found (`World.openKind`).  The kernel backend does it with one
`openat2`; the emulated backend resolves, looks at the handle and re-opens it through
`/proc/thread-self/fd/<n>` (`Procfs.reopen`).
-/

open K KRun World KSim KSpec

namespace KOpen

variable {w : World}

/-! ## flag arithmetic -/

theorem clearBits_and (f n m : Nat) (h : m &&& n = 0) : clearBits f n &&& m = f &&& m := by
  unfold clearBits
  apply Nat.eq_of_testBit_eq
  intro i
  have := congrArg (fun x => x.testBit i) h
  simp only [Nat.testBit_and, Nat.testBit_xor, Nat.zero_testBit] at this ⊢
  cases hf : f.testBit i <;> cases hn : n.testBit i <;> cases hmi : m.testBit i <;> simp_all

theorem clearBits_and_self (f n : Nat) : clearBits f n &&& n = 0 := by
  unfold clearBits
  apply Nat.eq_of_testBit_eq
  intro i
  simp only [Nat.testBit_and, Nat.testBit_xor, Nat.zero_testBit]
  cases f.testBit i <;> cases n.testBit i <;> rfl

theorem or_and_disj (x y m : Nat) (h : y &&& m = 0) : (x ||| y) &&& m = x &&& m := by
  simp [Nat.and_or_distrib_right, h]

/-- the flags the final `openat` of a reopen carries -/
def reFlags (flags : Nat) : Nat := clearBits flags O_NOFOLLOW ||| O_CLOEXEC ||| O_NOCTTY

theorem reFlags_and (flags m : Nat) (h1 : m &&& O_NOFOLLOW = 0) (h2 : O_CLOEXEC &&& m = 0) (h3 : O_NOCTTY &&& m = 0) :
    reFlags flags &&& m = flags &&& m := by
  unfold reFlags
  rw [or_and_disj _ _ _ h3, or_and_disj _ _ _ h2, clearBits_and _ _ _ h1]

theorem reFlags_nofollow (flags : Nat) : hasAll (reFlags flags) O_NOFOLLOW = false := by
  unfold reFlags hasAll
  rw [or_and_disj _ _ _ (by decide), or_and_disj _ _ _ (by decide), clearBits_and_self]
  decide

theorem openKind_congr (k : Kind) (a b : Nat)
    (h1 : a &&& O_PATH = b &&& O_PATH) (h2 : a &&& O_DIRECTORY = b &&& O_DIRECTORY)
    (h3 : a &&& O_ACCMODE = b &&& O_ACCMODE) (h4 : a &&& O_TRUNC = b &&& O_TRUNC) : openKind k a = openKind k b := by
  have e1 : hasAll a O_PATH = hasAll b O_PATH := by unfold hasAll; rw [h1]
  have e2 : hasAll a O_DIRECTORY = hasAll b O_DIRECTORY := by unfold hasAll; rw [h2]
  have e3 : accWrite a = accWrite b := by unfold accWrite hasAll; rw [h3, h4]
  cases k with
  | lnk => simp only [openKind, e1, e2]
  | dir => simp only [openKind, e1, e3]
  | other => simp only [openKind, e2]

theorem openKind_reFlags (k : Kind) (flags : Nat) : openKind k (reFlags flags) = openKind k flags :=
  openKind_congr k _ _ (reFlags_and _ _ (by decide) (by decide) (by decide))
    (reFlags_and _ _ (by decide) (by decide) (by decide)) (reFlags_and _ _ (by decide) (by decide) (by decide))
    (reFlags_and _ _ (by decide) (by decide) (by decide))

theorem creation_clearBits (flags : Nat) :
    (hasAny (clearBits flags O_NOFOLLOW) (O_CREAT ||| O_EXCL) || hasAll (clearBits flags O_NOFOLLOW) O_TMPFILE) =
      (hasAny flags (O_CREAT ||| O_EXCL) || hasAll flags O_TMPFILE) := by
  unfold hasAny hasAll
  rw [clearBits_and _ _ _ (by decide), clearBits_and _ _ _ (by decide)]

/-- the flags the kernel backend's `openat2` carries -/
def kFlags (flags : Nat) : Nat := (if hasAll flags O_PATH then flags else flags ||| O_NOCTTY) ||| O_CLOEXEC

theorem kFlags_and (flags m : Nat) (h2 : O_CLOEXEC &&& m = 0) (h3 : O_NOCTTY &&& m = 0) :
    kFlags flags &&& m = flags &&& m := by
  unfold kFlags
  rw [or_and_disj _ _ _ h2]
  split
  · rfl
  · exact or_and_disj _ _ _ h3

theorem kFlags_nofollow (flags : Nat) : hasAll (kFlags flags) O_NOFOLLOW = hasAll flags O_NOFOLLOW := by
  unfold hasAll
  rw [kFlags_and _ _ (by decide) (by decide)]

theorem openKind_kFlags (k : Kind) (flags : Nat) : openKind k (kFlags flags) = openKind k flags :=
  openKind_congr k _ _ (kFlags_and _ _ (by decide) (by decide)) (kFlags_and _ _ (by decide) (by decide))
    (kFlags_and _ _ (by decide) (by decide)) (kFlags_and _ _ (by decide) (by decide))

/-! ## the path `fd/<n>` -/

theorem decimal_mem (n : Nat) (c : UInt8) (h : c ∈ Path.decimal n) : 48 ≤ c ∧ c ≤ 57 := by
  have h' := decimal_allDigits n
  simp only [allDigits, List.all_eq_true, Bool.and_eq_true, decide_eq_true_eq] at h'
  exact h' c h

theorem decimal_noslash (n : Nat) : Path.containsSlash (Path.decimal n) = false := by
  simp only [Path.containsSlash, List.contains_eq_mem, decide_eq_false_iff_not]
  intro hm
  exact absurd (decimal_mem n _ hm).1 (by decide)

theorem decimal_snoc (n : Nat) : ∃ q c, Path.decimal n = q ++ [c] := by
  unfold Path.decimal
  rw [Path.natToDigits]
  split
  · exact ⟨[], _, rfl⟩
  · exact ⟨_, _, rfl⟩

theorem decimal_ne_nil (n : Nat) : Path.decimal n ≠ [] := by
  obtain ⟨q, c, h⟩ := decimal_snoc n
  rw [h]; simp

theorem strip_snoc (q : Bytes) (c : UInt8) (hc : c ≠ Path.slash) :
    Path.stripTrailingSlash (q ++ [c]) = (q ++ [c], false) := by
  unfold Path.stripTrailingSlash
  have : ((q ++ [c]).reverse.dropWhile (· = Path.slash)).reverse = q ++ [c] := by
    simp [hc]
  simp only [this]
  simp

theorem strip_fdpath (n : Nat) :
    Path.stripTrailingSlash (b!"fd/" ++ Path.decimal n) = (b!"fd/" ++ Path.decimal n, false) := by
  obtain ⟨q, c, h⟩ := decimal_snoc n
  have hc : c ≠ Path.slash := by
    intro he
    have := (decimal_mem n c (by rw [h]; simp)).1
    rw [he] at this
    exact absurd this (by decide)
  rw [h, ← List.append_assoc]
  exact strip_snoc _ _ hc

theorem raw_fdpath (n : Nat) : Path.rawComponents (b!"fd/" ++ Path.decimal n) = [b!"fd", Path.decimal n] := by
  have : b!"fd/" ++ Path.decimal n = b!"fd" ++ Path.slash :: Path.decimal n := rfl
  unfold Path.rawComponents
  rw [this, KPath.splitSlash_append_noslash _ _ (by decide), KPath.splitSlash_single_piece _ (decimal_noslash n)]

theorem pathSplit_fdpath (n : Nat) :
    Path.pathSplit (b!"fd/" ++ Path.decimal n) = .ok (b!"fd", some (Path.decimal n)) := by
  unfold Path.pathSplit
  rw [Ancestors.partialAncestors_eq, raw_fdpath]
  have h1 : ([b!"fd", Path.decimal n] : List Bytes).length = 0 + 2 := rfl
  rw [h1, Ancestors.ancSpec]
  have hj : Path.joinSlash (List.drop (0 + 1) [b!"fd", Path.decimal n]) = Path.decimal n := rfl
  have hd : Path.joinSlash (List.take (0 + 1) [b!"fd", Path.decimal n]) = b!"fd" := rfl
  simp only [hj, hd, decimal_ne_nil n]
  simp [Path.dot, Path.slash, decimal_ne_nil n, decimal_noslash n]

/-! ## run lemmas for the pieces of `open_follow` -/

theorem fdDir_onProc : onProc fdDir := Or.inr ⟨by decide, by decide⟩

theorem run_openat2_fdDir (fl rs : Nat) :
    Prog.run w (Sys.openat2 threadSelf b!"fd" fl rs) = .ok fdDir := by
  unfold Sys.openat2
  have h0 : Sys.hotfix threadSelf = .ok () := hotfix_tree (by decide)
  have hne : threadSelf ≠ procRoot := by decide
  have hnul : (b!"fd").contains 0 = false := by decide
  have hpre : (b!"fd/").isPrefixOf b!"fd" = false := by decide
  rw [if_neg (by rw [hnul]; simp)]
  rw [toCString_id _ hnul]
  simp only [M.bind_def, run_bind'_simp, run_do_liftE, h0, run_mcall_simp, World.answer,
    hne, hpre, ↓reduceIte, run_do_pure, Bool.false_eq_true]

theorem run_lookup_fdDir :
    Prog.run w (Procfs.lookupVerified (kenv w) (kenv w).proc threadSelf b!"fd"
      (O_PATH ||| O_DIRECTORY ||| O_NOFOLLOW)) = .ok fdDir := by
  unfold Procfs.lookupVerified Procfs.resolve Procfs.openat2Resolve
  have h1 : (hasAny (O_PATH ||| O_DIRECTORY ||| O_NOFOLLOW) (O_CREAT ||| O_EXCL) ||
      hasAll (O_PATH ||| O_DIRECTORY ||| O_NOFOLLOW) O_TMPFILE) = false := by decide
  have hv := run_verify_proc (w := w) fdDir fdDir_onProc
  have ho := run_openat2_fdDir (w := w) (O_PATH ||| O_DIRECTORY ||| O_NOFOLLOW)
    (RESOLVE_BENEATH ||| RESOLVE_NO_MAGICLINKS ||| RESOLVE_NO_XDEV ||| 0)
  have hemu : (kenv w).proc.emulated = false := rfl
  have ho2 : (kenv w).openat2 = true := rfl
  simp only [h1, hemu, ho2, Bool.false_eq_true, ↓reduceIte, Bool.not_true, M.bind_def, run_bind'_simp, ho,
    run_onErr_simp, hv, run_do_pure]

theorem run_openH_fdDir (fuel : Nat) :
    Prog.run w (Procfs.openH (kenv w) (fuel + 1) (kenv w).proc .threadSelf b!"fd" (O_PATH ||| O_DIRECTORY))
      = .ok fdDir := by
  rw [Procfs.openH]
  unfold Procfs.openStep
  have hb := run_openBase_ts (w := w)
  have hl := run_lookup_fdDir (w := w)
  simp only [M.bind_def, run_bind'_simp, hb, run_try_simp, hl, run_do_liftP, run_do_pure]

theorem run_statx_proc_name (d : Fd) (hd : onProc d) (name : Bytes) :
    Prog.run w (Sys.statx d name STATX_WANT) = .ok (STATX_WANT, w.procMnt) := by
  unfold Sys.statx
  simp [hotfix_tree (onProc_nonneg hd), World.answer, onProc_cases hd]

theorem run_fetchMntId_proc (d : Fd) (hd : onProc d) (name : Bytes) :
    Prog.run w (Procfs.fetchMntId d name) = .ok (some w.procMnt) := by
  unfold Procfs.fetchMntId
  have : hasAny STATX_WANT STATX_WANT = true := by decide
  simp [run_statx_proc_name d hd name, this]

theorem run_verifySameMnt_proc (d : Fd) (hd : onProc d) (name : Bytes) :
    Prog.run w (Procfs.verifySameMnt (some w.procMnt) d name) = .ok () := by
  unfold Procfs.verifySameMnt
  simp [run_fetchMntId_proc d hd name]

theorem run_openatFollow_fd (f : Fd) (hf : isTree f) (flags : Nat) :
    Prog.run w (Sys.openatFollow fdDir (Path.decimal f.toNat) (clearBits flags O_NOFOLLOW) 0) =
      match openKind (w.kind f) flags with
      | .ok () => .ok f
      | .error e => .error (.os e) := by
  unfold Sys.openatFollow
  have h0 : Sys.hotfix fdDir = .ok () := hotfix_tree (by decide)
  have hnn : (f.toNat : Int) = f := Int.toNat_of_nonneg (tree_nonneg hf)
  have hfl : clearBits flags O_NOFOLLOW ||| O_CLOEXEC ||| O_NOCTTY = reFlags flags := rfl
  simp only [M.bind_def, run_bind'_simp, run_do_liftE, h0, run_mcall_simp, World.answer,
    hfl, reFlags_nofollow, KPath.parse_decimal, hnn, ↓reduceIte, Bool.false_eq_true, openKind_reFlags]
  cases openKind (w.kind f) flags <;> simp

/-- what a one-shot open returns, in terms of the specification -/
def openSpec (w : World) (c : World.Cfg) (path : Bytes) (flags : Nat) : Except Err Fd :=
  match resolveInRoot w c path with
  | .ok o =>
    match openKind (w.kind o) flags with
    | .ok () => .ok o
    | .error e => .error (.os e)
  | .error e => .error (.os e)

/-- `ProcfsHandle::open_follow` of `thread-self/fd/<f>` on a world -/
theorem run_openFollowH_fd (hw : w.WF) (f : Fd) (p : List Bytes) (hp : w.dpath f = some p)
    (flags : Nat) (hcf : (hasAny flags (O_CREAT ||| O_EXCL) || hasAll flags O_TMPFILE) = false) :
    Prog.run w (Procfs.openFollowH (kenv w) (kenv w).proc .threadSelf (b!"fd/" ++ Path.decimal f.toNat)
        (clearBits flags O_NOFOLLOW)) =
      match openKind (w.kind f) flags with
      | .ok () => .ok f
      | .error e => .error (.os e) := by
  have hf : isTree f := hw.path_tree f p hp
  unfold Procfs.openFollowH
  have hcf' := (creation_clearBits flags).trans hcf
  have hrl : Prog.run w (Procfs.readlinkH (kenv w) (kenv w).proc .threadSelf (b!"fd/" ++ Path.decimal f.toNat)) =
      .ok (w.render p) := by
    unfold Procfs.readlinkH
    have ho := run_openH_fd (w := w) f hf 63
    have hr := run_readlinkat_magic hw f hf p hp
    have hfuel : Procfs.retryFuel = 63 + 1 := rfl
    simp only [M.bind_def, run_bind'_simp, hfuel, ho, run_try_simp, hr, run_do_liftP, run_ofExcept_simp]
  have hfuel : Procfs.retryFuel = 63 + 1 := rfl
  have hop := run_openH_fdDir (w := w) 63
  have hm := run_fetchMntId_proc (w := w) fdDir fdDir_onProc []
  have hv := run_verifySameMnt_proc (w := w) fdDir fdDir_onProc (Path.decimal f.toNat)
  have hfin := run_openatFollow_fd (w := w) f hf flags
  simp only [strip_fdpath, Bool.false_eq_true, ↓reduceIte, hcf', M.bind_def, run_bind'_simp, run_try_simp, hrl]
  unfold Procfs.openFollowTail
  simp only [M.bind_def, run_bind'_simp, run_try_simp,
    pathSplit_fdpath, run_do_liftE, hfuel, hop, run_onErr_simp, hm, hv, hfin, run_do_liftP,
    run_ofExcept_simp]
  cases openKind (w.kind f) flags <;> rfl

/-- `Handle::reopen` on a world: the handle's object, opened with the flags (a symlink handle is refused) -/
theorem run_reopen (hw : w.WF) (f : Fd) (p : List Bytes) (hp : w.dpath f = some p) (hk : w.kind f ≠ .lnk) (flags : Nat)
    (hcf : (hasAny flags (O_CREAT ||| O_EXCL) || hasAll flags O_TMPFILE) = false) :
    Prog.run w (Procfs.reopen (kenv w) f flags) =
      match openKind (w.kind f) flags with
      | .ok () => .ok f
      | .error e => .error (.os e) := by
  have hf : isTree f := hw.path_tree f p hp
  unfold Procfs.reopen
  have hst := run_fstatat_tree (w := w) f hf
  have hsy := not_symlink (w.kind f) 0 f.toNat hk
  have hsub : Sys.procSubpath f = .ok (b!"fd/" ++ Path.decimal f.toNat) := by
    unfold Sys.procSubpath
    simp [tree_ne_cwd hf, tree_nonneg hf]
  have hof := run_openFollowH_fd hw f p hp flags hcf
  simp only [hcf, Bool.false_eq_true, ↓reduceIte, M.bind_def, run_bind'_simp, hst, hsy, run_do_liftE, hsub, hof]

/-- the kernel backend's one-shot open -/
theorem run_openOnce_kernel (hw : w.WF) (path : Bytes) (hnul : path.contains 0 = false) (rflags flags : Nat)
    (hcf : (hasAny flags (O_CREAT ||| O_EXCL) || hasAll flags O_TMPFILE) = false) :
    Prog.run w (Resolver.openOnce (kenv w) { emulated := false, rflags } w.root path flags) =
      openSpec w (kcfgK w rflags (hasAll flags O_NOFOLLOW)) path flags := by
  unfold Resolver.openOnce Openat2.openOnce Sys.openat2 openSpec
  have h0 := hotfix_tree (tree_nonneg hw.root_tree)
  have h1 : hasAll (RESOLVE_IN_ROOT ||| RESOLVE_NO_MAGICLINKS ||| rflags) (RESOLVE_IN_ROOT ||| RESOLVE_NO_MAGICLINKS) = true :=
    hasAll_or_left _ _
  have h2 : hasAll (RESOLVE_IN_ROOT ||| RESOLVE_NO_MAGICLINKS ||| rflags) RESOLVE_NO_SYMLINKS = hasAll rflags RESOLVE_NO_SYMLINKS :=
    hasAll_or_disj _ _ _ (by decide)
  have hk : (kenv w).openat2 = true := rfl
  have hfl : (if hasAll flags O_PATH then flags else flags ||| O_NOCTTY) ||| O_CLOEXEC = kFlags flags := rfl
  simp only [hcf, hk, Bool.not_true, Bool.not_false, Bool.false_eq_true, ↓reduceIte, hnul, M.bind_def, run_bind'_simp,
    run_do_liftE, h0, run_mcall_simp, World.answer, tree_ne_proc hw.root_tree, tree_ne_ts hw.root_tree,
    toCString_id path hnul, h1, h2, hfl, kFlags_nofollow, openKind_kFlags, and_self, kcfgK]
  cases resolveInRoot w _ path with
  | error e => simp
  | ok c =>
    cases ho : openKind (w.kind c) flags with
    | error e => simp [ho]
    | ok u => simp [ho]

/-- the emulated backend's one-shot open -/
theorem run_openOnce_emulated (hw : w.WF) (path : Bytes) (rflags flags : Nat)
    (hcf : (hasAny flags (O_CREAT ||| O_EXCL) || hasAll flags O_TMPFILE) = false) :
    Prog.run w (Resolver.openOnce (kenv w) { emulated := true, rflags } w.root path flags) =
      openSpec w (ecfg rflags (hasAll flags O_NOFOLLOW)) path flags := by
  unfold Resolver.openOnce Resolver.resolve openSpec
  have hres := run_opath_resolve hw path rflags (hasAll flags O_NOFOLLOW)
  cases hr : resolveInRoot w (ecfg rflags (hasAll flags O_NOFOLLOW)) path with
  | error e =>
    rw [hr] at hres
    simp only [hcf, Bool.not_true, Bool.false_eq_true, ↓reduceIte, M.bind_def, run_bind'_simp, hres, toOut]
  | ok c =>
    rw [hr] at hres
    obtain ⟨p, hp⟩ : ∃ p, w.dpath c = some p := by
      unfold resolveInRoot at hr
      split at hr
      · cases hr
      · exact kresolve_inside hw _ _ _ _ _ ⟨[], hw.root_path⟩ hr
    have hc : isTree c := hw.path_tree c p hp
    have hst := run_fstatat_tree (w := w) c hc
    by_cases hk : w.kind c = .lnk
    · have hsy : ({ mode := modeOf .lnk, uid := 0, ino := c.toNat } : Sys.Stat).isSymlink = true :=
        (isSymlink_modeOf _ _ _).2 rfl
      rw [hk] at hst
      simp only [hcf, Bool.not_true, Bool.false_eq_true, ↓reduceIte, M.bind_def, run_bind'_simp, hres, toOut,
        run_onErr_simp, hst, hsy, hk, openKind]
      by_cases hd : hasAll flags O_DIRECTORY = true
      · simp [hd]
      · by_cases hpth : hasAll flags O_PATH = true
        · simp [hd, hpth]
        · simp [hd, hpth]
    · have hsy := not_symlink (w.kind c) 0 c.toNat hk
      have hre := run_reopen hw c p hp hk flags hcf
      simp only [hcf, Bool.not_true, Bool.false_eq_true, ↓reduceIte, M.bind_def, run_bind'_simp, hres, toOut,
        run_onErr_simp, hst, hsy, run_try_simp, hre]
      cases openKind (w.kind c) flags <;> simp [Err.isFatal]

/-- creation flags are refused by both -/
theorem run_openOnce_creation (r : Resolver) (path : Bytes) (flags : Nat)
    (hcf : (hasAny flags (O_CREAT ||| O_EXCL) || hasAll flags O_TMPFILE) = true) :
    Prog.run w (Resolver.openOnce (kenv w) r w.root path flags) = .error .invalidArgument := by
  unfold Resolver.openOnce
  simp only [hcf, ↓reduceIte, run_do_throw]

end KOpen
