import Pathrs.Proofs.KSpec
import Pathrs.Proofs.StackLemmas

/-!
# Partial lookups at the level of the kernel specification

`kres2` is `kresolve` that also returns the number of links followed; it composes over `++`
(for following lookups), which is what relates the two partial lookups of libpathrs: the emulated
walk that remembers the outermost symlink in progress (symlink stack) and the kernel backend's
probing of ever shorter prefixes of the path.
-/

open K KRun World KSim KSpec

namespace KPartial

variable {w : World}

/-- `kresolve` that also returns the number of links followed so far -/
def kres2 (w : World) (cfg : World.Cfg) (cur : Fd) (rem : List Bytes) (links : Nat) : Except Nat (Fd × Nat) :=
  match rem with
  | [] => .ok (cur, links)
  | c :: rest =>
    if w.kind cur ≠ .dir then .error ENOTDIR
    else if c = [] ∨ c = Path.dot then kres2 w cfg cur rest links
    else if c = Path.dotdot then
      kres2 w cfg (if cur = w.root then w.root else w.parent cur) rest links
    else match w.child cur c with
      | none => .error ENOENT
      | some nxt =>
        if w.kind nxt = .lnk then
          if rest = [] ∧ cfg.nofollow then .ok (nxt, links)
          else if cfg.noSymlinks then .error ELOOP
          else if links + 1 ≥ cfg.maxLinks then .error ELOOP
          else
            kres2 w cfg (if Path.isAbsolute (w.body nxt) then w.root else cur)
              (Path.rawComponents (w.body nxt) ++ rest) (links + 1)
        else kres2 w cfg nxt rest links
termination_by (cfg.maxLinks - links, rem.length)
decreasing_by
  all_goals simp_wf
  · right; omega
  · right; omega
  · left; omega
  · right; omega

def fstOut : Except Nat (Fd × Nat) → Except Nat Fd
  | .ok r => .ok r.1
  | .error e => .error e

theorem kresolve_eq_kres2 (cfg : World.Cfg) (cur : Fd) (rem : List Bytes) (links : Nat) :
    kresolve w cfg cur rem links = fstOut (kres2 w cfg cur rem links) := by
  fun_induction kres2 w cfg cur rem links <;> rw [kresolve.eq_def] <;> simp_all [fstOut]
  rename_i h0 h1 h2 h3
  rw [if_neg (by intro ⟨a, b⟩; rw [h0 a] at b; cases b), if_neg (by omega)]

/-- sequential composition of two lookups -/
def andThen (r : Except Nat (Fd × Nat)) (f : Fd → Nat → Except Nat (Fd × Nat)) : Except Nat (Fd × Nat) :=
  match r with
  | .ok (m, l) => f m l
  | .error e => .error e

/-- following lookups compose over `++` -/
theorem kres2_append (cfg : World.Cfg) (hnf : cfg.nofollow = false) (cur : Fd) (a b : List Bytes) (links : Nat) :
    kres2 w cfg cur (a ++ b) links = andThen (kres2 w cfg cur a links) fun m l => kres2 w cfg m b l := by
  fun_induction kres2 w cfg cur a links with
  | case1 cur links => simp [andThen]
  | case2 cur links c rest hk => rw [List.cons_append, kres2]; simp [hk, andThen]
  | case3 cur links c rest hk hc ih => rw [List.cons_append, kres2]; simp [hk, hc]; exact ih
  | case4 cur links rest hk hc ih => rw [List.cons_append, kres2]; simp [hk, hc]; exact ih
  | case5 cur links c rest hk hc hdd hch => rw [List.cons_append, kres2]; simp [hk, hc, hdd, hch, andThen]
  | case6 cur links c rest hk hc hdd nxt hch hl hr => simp [hnf] at hr
  | case7 cur links c rest hk hc hdd nxt hch hl hr hns => rw [List.cons_append, kres2]; simp [hk, hc, hdd, hch, hl, hnf, hns, andThen]
  | case8 cur links c rest hk hc hdd nxt hch hl hr hns hlim => rw [List.cons_append, kres2]; simp [hk, hc, hdd, hch, hl, hnf, hns, hlim, andThen]
  | case9 cur links c rest hk hc hdd nxt hch hl hr hns hlim ih =>
    rw [List.cons_append, kres2]; simp [hk, hc, hdd, hch, hl, hnf, hns, hlim]
    rw [← List.append_assoc]; exact ih
  | case10 cur links c rest hk hc hdd nxt hch hl ih => rw [List.cons_append, kres2]; simp [hk, hc, hdd, hch, hl]; exact ih

open SStack

/-- what `resolve_partial` reports: the outermost symlink in progress, if any -/
def adjust (s : SStack) (h : Fd) (r : Bytes) : Fd × Bytes :=
  match s with
  | [] => (h, r)
  | e :: _ => (e.dir, e.remaining)

theorem adjust_of_bot {s : SStack} {d : Fd} {rm : Bytes} (h : botOf s = some (d, rm)) (h0 : Fd) (r0 : Bytes) :
    adjust s h0 r0 = (d, rm) := by
  cases s with
  | nil => simp [botOf] at h
  | cons e t => simp [botOf] at h; simp [adjust, h.1, h.2]

theorem adjust_bot_eq {s s' : SStack} (hs : s ≠ []) (hs' : s' ≠ []) (h : botOf s' = botOf s) (h0 : Fd) (r0 : Bytes) :
    adjust s' h0 r0 = adjust s h0 r0 := by
  cases s with
  | nil => exact absurd rfl hs
  | cons e t =>
    cases s' with
    | nil => exact absurd rfl hs'
    | cons e' t' => simp [botOf] at h; simp [adjust, h.1, h.2]

/-- The position a partial lookup reports when a component does not exist, in terms of the
specification: `pre` is the pending expansion of symlink bodies, `T` the remaining components of the
path as the caller wrote it.  Either the failure is inside the pending expansion and the stack's
bottom entry (the outermost link in progress) is still the one of the state, or the expansion
completed at `m` and the result is `(object after T.take j, T.drop j)` where component `j` is the
first of `T` that fails. -/
def Claim (w : World) (c : World.Cfg) (cur : Fd) (links : Nat) (stack : SStack) (pre T : List Bytes)
    (l : Lookup Fd) (s' : SStack) : Prop :=
  ∀ h r, l = .part h r (.os ENOENT) →
    (stack ≠ [] ∧ s' ≠ [] ∧ botOf s' = botOf stack ∧ kresolve w c cur pre links = .error ENOENT)
    ∨ (∃ m l' j x, kres2 w c cur pre links = .ok (m, l') ∧ j < T.length ∧
        kres2 w c m (T.take j) l' = .ok ((adjust s' h r).1, x) ∧
        (adjust s' h r).2 = Path.joinSlash (T.drop j) ∧
        kresolve w c m (T.take (j + 1)) l' = .error ENOENT)

theorem kres2_nil (c : World.Cfg) (cur : Fd) (links : Nat) : kres2 w c cur [] links = .ok (cur, links) := by
  rw [kres2]

theorem kresolve_of_kres2_eq (c : World.Cfg) {cur cur' : Fd} {a b : List Bytes} {l l' : Nat}
    (h : kres2 w c cur a l = kres2 w c cur' b l') : kresolve w c cur a l = kresolve w c cur' b l' := by
  rw [kresolve_eq_kres2, kresolve_eq_kres2, h]

/-- a step that is not a symlink, outside every expansion -/
theorem claim_nonlink_top (c : World.Cfg) (cur nxt : Fd) (links : Nat) (x : Bytes) (rest : List Bytes)
    (hstep : ∀ X, kres2 w c cur (x :: X) links = kres2 w c nxt X links) (l : Lookup Fd) (s' : SStack)
    (h : Claim w c nxt links [] [] rest l s') : Claim w c cur links [] [] (x :: rest) l s' := by
  intro hh r hl
  rcases h hh r hl with ⟨h0, _⟩ | ⟨m, l', j, y, h1, h2, h3, h4, h5⟩
  · exact absurd rfl h0
  · rw [kres2_nil] at h1
    cases h1
    right
    refine ⟨cur, links, j + 1, y, kres2_nil _ _ _, by simp; omega, ?_, ?_, ?_⟩
    · rw [List.take_succ_cons, hstep]; exact h3
    · rw [List.drop_succ_cons]; exact h4
    · rw [List.take_succ_cons, kresolve_of_kres2_eq c (hstep _)]; exact h5

/-- a step that is not a symlink, inside an expansion -/
theorem claim_nonlink_in (c : World.Cfg) (cur nxt : Fd) (links : Nat) (x : Bytes) (pre0 T : List Bytes)
    (hstep : ∀ X, kres2 w c cur (x :: X) links = kres2 w c nxt X links) (stack stack'' : SStack)
    (hb : stack'' = [] ∨ botOf stack'' = botOf stack) (hne : stack = [] → stack'' = [])
    (l : Lookup Fd) (s' : SStack)
    (h : Claim w c nxt links stack'' pre0 T l s') : Claim w c cur links stack (x :: pre0) T l s' := by
  intro hh r hl
  rcases h hh r hl with ⟨h0, h1, h2, h3⟩ | ⟨m, l', j, y, h1, h2, h3, h4, h5⟩
  · left
    refine ⟨fun hs => h0 (hne hs), h1, ?_, ?_⟩
    · rcases hb with hb | hb
      · exact absurd hb h0
      · rw [h2, hb]
    · rw [kresolve_of_kres2_eq c (hstep _)]; exact h3
  · right
    exact ⟨m, l', j, y, by rw [hstep]; exact h1, h2, h3, h4, h5⟩

/-- following a symlink outside every expansion: it becomes the outermost link in progress -/
theorem claim_link_top (c : World.Cfg) (hnf : c.nofollow = false) (cur cur' : Fd) (links : Nat) (x : Bytes)
    (B rest : List Bytes)
    (hstep : ∀ X, kres2 w c cur (x :: X) links = kres2 w c cur' (B ++ X) (links + 1)) (stack'' : SStack)
    (hb : botOf stack'' = some (cur, Path.joinSlash (x :: rest))) (l : Lookup Fd) (s' : SStack)
    (h : Claim w c cur' (links + 1) stack'' B rest l s') : Claim w c cur links [] [] (x :: rest) l s' := by
  intro hh r hl
  right
  rcases h hh r hl with ⟨_, h1, h2, h3⟩ | ⟨m, l', j, y, h1, h2, h3, h4, h5⟩
  · rw [hb] at h2
    have ha := adjust_of_bot h2 hh r
    refine ⟨cur, links, 0, links, kres2_nil _ _ _, by simp, ?_, ?_, ?_⟩
    · rw [ha]; exact kres2_nil _ _ _
    · rw [ha]; rfl
    · show kresolve w c cur [x] links = _
      rw [kresolve_of_kres2_eq c (hstep [])]; simpa using h3
  · refine ⟨cur, links, j + 1, y, kres2_nil _ _ _, by simp; omega, ?_, ?_, ?_⟩
    · rw [List.take_succ_cons, hstep, kres2_append c hnf, h1]; exact h3
    · rw [List.drop_succ_cons]; exact h4
    · rw [List.take_succ_cons, kresolve_eq_kres2, hstep, kres2_append c hnf, h1]
      show fstOut (kres2 w c m _ l') = _
      rw [← kresolve_eq_kres2]; exact h5

/-- following a symlink inside an expansion -/
theorem claim_link_in (c : World.Cfg) (cur cur' : Fd) (links : Nat) (x : Bytes) (B pre0 T : List Bytes)
    (hstep : ∀ X, kres2 w c cur (x :: X) links = kres2 w c cur' (B ++ X) (links + 1)) (stack stack'' : SStack)
    (hne : stack ≠ []) (hb : botOf stack'' = botOf stack) (l : Lookup Fd) (s' : SStack)
    (h : Claim w c cur' (links + 1) stack'' (B ++ pre0) T l s') : Claim w c cur links stack (x :: pre0) T l s' := by
  intro hh r hl
  rcases h hh r hl with ⟨_, h1, h2, h3⟩ | ⟨m, l', j, y, h1, h2, h3, h4, h5⟩
  · left
    exact ⟨hne, h1, by rw [h2, hb], by rw [kresolve_of_kres2_eq c (hstep _)]; exact h3⟩
  · right
    exact ⟨m, l', j, y, by rw [hstep]; exact h1, h2, h3, h4, h5⟩

/-- a result that is not "no such file" claims nothing -/
theorem claim_other (c : World.Cfg) (cur : Fd) (links : Nat) (stack : SStack) (pre T : List Bytes) (h0 : Fd)
    (r0 : Bytes) (e : Err) (he : e ≠ .os ENOENT) (s' : SStack) :
    Claim w c cur links stack pre T (.part h0 r0 e) s' := by
  intro hh r hl
  cases hl
  exact absurd rfl he

theorem claim_complete (c : World.Cfg) (cur : Fd) (links : Nat) (stack : SStack) (pre T : List Bytes) (h0 : Fd)
    (s' : SStack) : Claim w c cur links stack pre T (.complete h0) s' := by
  intro hh r hl
  cases hl

/-- the component itself does not exist -/
theorem claim_enoent_top (c : World.Cfg) (cur : Fd) (links : Nat) (x : Bytes) (rest : List Bytes)
    (hk : kresolve w c cur [x] links = .error ENOENT) :
    Claim w c cur links [] [] (x :: rest) (.part cur (Path.joinSlash (x :: rest)) (.os ENOENT)) [] := by
  intro hh r hl
  cases hl
  right
  exact ⟨cur, links, 0, links, kres2_nil _ _ _, by simp, kres2_nil _ _ _, rfl, hk⟩

theorem claim_enoent_in (c : World.Cfg) (cur : Fd) (links : Nat) (stack : SStack) (pre T : List Bytes)
    (hne : stack ≠ []) (h0 : Fd) (r0 : Bytes) (hk : kresolve w c cur pre links = .error ENOENT) :
    Claim w c cur links stack pre T (.part h0 r0 (.os ENOENT)) stack := by
  intro hh r hl
  left
  exact ⟨hne, hne, rfl, hk⟩

end KPartial
