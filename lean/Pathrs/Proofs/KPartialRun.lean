import Pathrs.Proofs.KSimStack

/-!
# The two partial lookups, run on a world
-/

open K KRun World KSim KSpec KPartial SStack KSimStack

namespace KPartialRun

variable {w : World}

/-- where a following partial lookup with configuration `c` stops when component `j` of `comps` is the
first that does not exist: the handle is the object after `j` components -/
def StopsAt (w : World) (c : World.Cfg) (comps : List Bytes) (h : Fd) (j : Nat) : Prop :=
  j < comps.length ∧ (∃ x, kres2 w c w.root (comps.take j) 0 = .ok (h, x)) ∧
    kresolve w c w.root (comps.take (j + 1)) 0 = .error ENOENT

/-- `opath::resolve_partial` (emulated backend) -/
theorem run_opath_resolvePartial (hw : w.WF) (path : Bytes) (hp : path ≠ []) (rflags : Nat) :
    ∃ l, Prog.run w (Opath.resolvePartial (kenv w) w.root path rflags false) = .ok l ∧
      lookupOut l = toOut (kresolve w (ecfg rflags false) w.root (Path.rawComponents path) 0) ∧
      ∀ h r, l = .part h r (.os ENOENT) →
        ∃ j, StopsAt w (ecfg rflags false) (Path.rawComponents path) h j ∧
          r = Path.joinSlash ((Path.rawComponents path).drop j) := by
  obtain ⟨l, s', h1, h2, h3⟩ := walk_sim_stack hw { root := w.root, rflags, nofollow := false, useStack := true } rfl rfl rfl
    { expected := [], cur := w.root, rem := Path.rawComponents path, links := 0, stack := [] } hw.root_path
    [] (Path.rawComponents path) rfl inv_nil
  have hk : kcfg { root := w.root, rflags, nofollow := false, useStack := true } = ecfg rflags false := rfl
  rw [hk] at h2 h3
  simp only at h2 h3
  cases l with
  | complete h =>
    refine ⟨.complete h, ?_, h2, fun _ _ hh => by cases hh⟩
    simp only [Opath.resolvePartial, Opath.doResolve, M.bind_def, run_bind'_simp, run_dup, hp, ↓reduceIte, h1,
      run_do_liftP, run_do_pure]
  | part h r e =>
    cases hs : s' with
    | nil =>
      refine ⟨.part h r e, ?_, h2, ?_⟩
      · simp only [Opath.resolvePartial, Opath.doResolve, M.bind_def, run_bind'_simp, run_dup, hp, ↓reduceIte, h1,
          hs, SStack.popTopSymlink, run_do_pure]
      · intro h' r' hh
        cases hh
        rcases h3 h r rfl with ⟨h0, _⟩ | ⟨m, l', j, x, g1, g2, g3, g4, g5⟩
        · exact absurd rfl h0
        · rw [kres2_nil] at g1
          cases g1
          rw [hs] at g3 g4
          exact ⟨j, ⟨g2, ⟨x, g3⟩, g5⟩, g4⟩
    | cons en rest =>
      refine ⟨.part en.dir en.remaining e, ?_, h2, ?_⟩
      · simp only [Opath.resolvePartial, Opath.doResolve, M.bind_def, run_bind'_simp, run_dup, hp, ↓reduceIte, h1,
          hs, SStack.popTopSymlink, run_do_liftP, run_do_pure]
      · intro h' r' hh
        cases hh
        rcases h3 h r rfl with ⟨h0, _⟩ | ⟨m, l', j, x, g1, g2, g3, g4, g5⟩
        · exact absurd rfl h0
        · rw [kres2_nil] at g1
          cases g1
          rw [hs] at g3 g4
          exact ⟨j, ⟨g2, ⟨x, g3⟩, g5⟩, g4⟩

end KPartialRun
