import Pathrs.Kernel.World
import Pathrs.Proofs.PathLemmas

/-!
# Path facts needed to run `check_current` on a `World`
-/

open K

namespace KPath

open Path

/-- the interesting pieces of a path: what `Path::components` keeps after the root -/
def keep (c : Bytes) : Option Comp :=
  if c = [] then none
  else if c = dot then none
  else if c = dotdot then some .parent
  else some (.normal c)

/-- a component the walk may push onto its expected path: non-empty, slash-free, not `.`/`..` -/
def GoodComp (n : Bytes) : Prop :=
  n ≠ [] ∧ containsSlash n = false ∧ n ≠ dot ∧ n ≠ dotdot

theorem _root_.World.ProperComp.good {n : Bytes} (h : World.ProperComp n) : GoodComp n :=
  ⟨h.1, h.2.1, h.2.2.1, h.2.2.2.1⟩

def pieces (p : Bytes) : List Comp := (splitSlash p).filterMap keep

theorem splitSlash_cons_slash (x : Bytes) : splitSlash (slash :: x) = [] :: splitSlash x := by
  simp [splitSlash]

theorem splitSlash_ne_nil (p : Bytes) : splitSlash p ≠ [] := by
  induction p with
  | nil => simp [splitSlash]
  | cons c rest ih =>
    unfold splitSlash
    split
    · simp
    · split <;> simp

theorem splitSlash_cons_noslash (c : UInt8) (x : Bytes) (hc : c ≠ slash) :
    ∃ y ys, splitSlash x = y :: ys ∧ splitSlash (c :: x) = (c :: y) :: ys := by
  cases hx : splitSlash x with
  | nil => exact absurd hx (splitSlash_ne_nil x)
  | cons y ys =>
    refine ⟨y, ys, rfl, ?_⟩
    conv => lhs; unfold splitSlash
    simp [hc, hx]

/-- splitting distributes over a slash boundary -/
theorem splitSlash_append (a b : Bytes) :
    splitSlash (a ++ slash :: b) = splitSlash a ++ splitSlash b := by
  induction a with
  | nil => simp [splitSlash]
  | cons c rest ih =>
    by_cases hc : c = slash
    · subst hc
      rw [List.cons_append, splitSlash_cons_slash, ih, splitSlash_cons_slash]
      rfl
    · obtain ⟨y, ys, hy, hcy⟩ := splitSlash_cons_noslash c rest hc
      obtain ⟨y', ys', hy', hcy'⟩ := splitSlash_cons_noslash c (rest ++ slash :: b) hc
      rw [List.cons_append, hcy', hcy]
      rw [ih, hy] at hy'
      simp at hy'
      obtain ⟨h1, h2⟩ := hy'
      subst h1; subst h2
      rfl

/-- a slash-free string is one piece -/
theorem splitSlash_single_piece (x : Bytes) (h : containsSlash x = false) : splitSlash x = [x] := by
  induction x with
  | nil => rfl
  | cons c rest ih =>
    have hc : c ≠ slash := by
      intro he; subst he; simp [containsSlash] at h
    have hr : containsSlash rest = false := by
      simp [containsSlash] at h ⊢; exact h.2
    obtain ⟨y, ys, hy, hcy⟩ := splitSlash_cons_noslash c rest hc
    rw [ih hr] at hy
    cases hy
    exact hcy

theorem splitSlash_append_noslash (a b : Bytes) (ha : containsSlash a = false) :
    splitSlash (a ++ slash :: b) = a :: splitSlash b := by
  rw [splitSlash_append, splitSlash_single_piece a ha]
  rfl

/-- joining slash-free components and splitting again gives them back -/
theorem splitSlash_joinSlash (l : List Bytes) (hl : ∀ c ∈ l, containsSlash c = false) (hne : l ≠ []) :
    splitSlash (joinSlash l) = l := by
  induction l with
  | nil => exact absurd rfl hne
  | cons x rest ih =>
    cases rest with
    | nil => simp [joinSlash]; exact splitSlash_single_piece x (hl x List.mem_cons_self)
    | cons y ys =>
      have : joinSlash (x :: y :: ys) = x ++ slash :: joinSlash (y :: ys) := rfl
      rw [this, splitSlash_append_noslash _ _ (hl x List.mem_cons_self)]
      rw [ih (fun c hc => hl c (List.mem_cons_of_mem _ hc)) (by simp)]

theorem pieces_joinSlash (l : List Bytes) (hl : ∀ c ∈ l, containsSlash c = false) :
    pieces (joinSlash l) = l.filterMap keep := by
  cases l with
  | nil => simp [pieces, joinSlash, splitSlash, keep]
  | cons x rest => unfold pieces; rw [splitSlash_joinSlash _ hl (by simp)]

theorem keep_proper (n : Bytes) (h : GoodComp n) : keep n = some (.normal n) := by
  simp [keep, h.1, h.2.2.1, h.2.2.2]

theorem filterMap_keep_proper (l : List Bytes) (hl : ∀ c ∈ l, GoodComp c) :
    l.filterMap keep = l.map Comp.normal := by
  induction l with
  | nil => rfl
  | cons x rest ih =>
    simp [List.filterMap_cons, keep_proper x (hl x List.mem_cons_self),
      ih (fun c hc => hl c (List.mem_cons_of_mem _ hc))]

/-- `Path::components` of an absolute path -/
theorem components_abs (p : Bytes) (h : isAbsolute p = true) :
    components p = Comp.root :: pieces p := by
  unfold components pieces
  simp only [h, ↓reduceIte, Bool.not_true, Bool.false_and, List.singleton_append, List.cons.injEq, true_and]
  -- the index is irrelevant when the path is absolute
  generalize splitSlash p = l
  have : ∀ (l : List Bytes) (k : Nat),
      (l.zipIdx k).filterMap (fun x : Bytes × Nat =>
        if x.1 = [] then none else if x.1 = dot then (if false = true then some Comp.cur else none)
        else if x.1 = dotdot then some .parent else some (.normal x.1)) = l.filterMap keep := by
    intro l
    induction l with
    | nil => intro k; rfl
    | cons x rest ih =>
      intro k
      simp only [List.zipIdx_cons, List.filterMap_cons, keep]
      rw [ih]
      by_cases h1 : x = [] <;> by_cases h2 : x = dot <;> by_cases h3 : x = dotdot <;> simp [h1, h2, h3]
  simpa using this l 0

theorem pieces_cons_slash (x : Bytes) : pieces (slash :: x) = pieces x := by
  unfold pieces
  rw [splitSlash_cons_slash]
  simp [keep]

theorem pieces_nil : pieces [] = [] := by simp [pieces, splitSlash, keep]

theorem pieces_dot : pieces dot = [] := by decide

theorem pieces_append_slash (a b : Bytes) : pieces (a ++ slash :: b) = pieces a ++ pieces b := by
  unfold pieces
  rw [splitSlash_append, List.filterMap_append]

theorem proper_noslash {n : Bytes} (h : GoodComp n) : containsSlash n = false := h.2.1

theorem pieces_proper (n : Bytes) (h : GoodComp n) : pieces n = [.normal n] := by
  unfold pieces
  rw [splitSlash_single_piece n (proper_noslash h)]
  simp [keep_proper n h]

theorem proper_not_abs {n : Bytes} (h : GoodComp n) : isAbsolute n = false := by
  unfold isAbsolute
  cases n with
  | nil => exact absurd rfl h.1
  | cons c rest =>
    have := h.2.1
    simp [containsSlash] at this
    simp
    intro he; exact this.1 he.symm

/-- `PathBuf::push` of a relative path onto a non-empty one concatenates the pieces -/
theorem pieces_push (a b : Bytes) (ha : a ≠ []) (hb : isAbsolute b = false) :
    pieces (push a b) = pieces a ++ pieces b := by
  unfold push
  simp only [hb, Bool.false_eq_true, ↓reduceIte, ha]
  split
  · rename_i hlast
    -- a = a' ++ [slash]
    obtain ⟨a', rfl⟩ : ∃ a', a = a' ++ [slash] := by
      refine ⟨a.dropLast, ?_⟩
      have h1 := List.dropLast_concat_getLast ha
      rw [List.getLast?_eq_some_getLast ha] at hlast
      have hx : a.getLast ha = slash := by simpa using hlast
      rw [hx] at h1
      exact h1.symm
    rw [List.append_assoc]
    show pieces (a' ++ slash :: b) = pieces (a' ++ slash :: []) ++ pieces b
    rw [pieces_append_slash, pieces_append_slash, pieces_nil, List.append_nil]
  · exact pieces_append_slash a b

theorem push_ne_nil (a b : Bytes) (ha : a ≠ []) (hb : isAbsolute b = false) : push a b ≠ [] := by
  unfold push
  simp only [hb, Bool.false_eq_true, ↓reduceIte, ha]
  split <;> simp [ha]

theorem push_abs (a b : Bytes) (ha : isAbsolute a = true) (hb : isAbsolute b = false) :
    isAbsolute (push a b) = true := by
  have hne : a ≠ [] := by intro h; subst h; simp [isAbsolute] at ha
  unfold push
  simp only [hb, Bool.false_eq_true, ↓reduceIte, hne]
  cases a with
  | nil => exact absurd rfl hne
  | cons c rest => split <;> simpa [isAbsolute] using ha

/-- folding `push` over relative pieces -/
theorem pieces_foldl_push (l : List Bytes) (hl : ∀ c ∈ l, isAbsolute c = false) :
    ∀ acc : Bytes, acc ≠ [] →
      pieces (l.foldl push acc) = pieces acc ++ (l.map pieces).flatten ∧ l.foldl push acc ≠ [] ∧
      (isAbsolute (l.foldl push acc) = isAbsolute acc) := by
  induction l with
  | nil => intro acc h; simp [h]
  | cons x rest ih =>
    intro acc hacc
    have hx := hl x List.mem_cons_self
    have hne := push_ne_nil acc x hacc hx
    obtain ⟨h1, h2, h3⟩ := ih (fun c hc => hl c (List.mem_cons_of_mem _ hc)) (push acc x) hne
    refine ⟨?_, h2, ?_⟩
    · simp only [List.foldl_cons, h1, pieces_push acc x hacc hx, List.map_cons, List.flatten_cons,
        List.append_assoc]
    · simp only [List.foldl_cons, h3]
      unfold push
      simp only [hx, Bool.false_eq_true, ↓reduceIte, hacc]
      cases acc with
      | nil => exact absurd rfl hacc
      | cons c r => split <;> simp [isAbsolute]

theorem flatten_pieces_proper (e : List Bytes) (he : ∀ c ∈ e, GoodComp c) :
    (e.map pieces).flatten = e.map Comp.normal := by
  induction e with
  | nil => rfl
  | cons x rest ih =>
    simp [pieces_proper x (he x List.mem_cons_self), ih (fun c hc => he c (List.mem_cons_of_mem _ hc))]

/-- **the path `check_current` expects is the path the kernel prints** for an object whose
components below the root are `e` -/
theorem expected_eq_render (w : World) (hw : w.WF) (e : List Bytes) (he' : ∀ c ∈ e, World.ProperComp c) :
    pathEq (w.render e) (expectedFullPath (w.render []) e) = true := by
  have he : ∀ c ∈ e, GoodComp c := fun c hc => (he' c hc).good
  have hR : ∀ n ∈ w.rootComps, GoodComp n := fun n hn => (hw.root_comps n hn).good
  have hRe : ∀ c ∈ w.rootComps ++ e, GoodComp c := by
    intro c hc
    rcases List.mem_append.mp hc with h | h
    · exact hR c h
    · exact he c h
  -- left: the rendered path
  have hleft : components (w.render e) = Comp.root :: (w.rootComps ++ e).map Comp.normal := by
    have habs : isAbsolute (w.render e) = true := by simp [World.render, isAbsolute]
    rw [components_abs _ habs]
    unfold World.render
    rw [pieces_cons_slash, pieces_joinSlash _ (fun c hc => proper_noslash (hRe c hc)),
      filterMap_keep_proper _ hRe]
  -- right: root path joined with "./" ++ expected
  have hrp_abs : isAbsolute (w.render []) = true := by simp [World.render, isAbsolute]
  have hrp_ne : w.render [] ≠ [] := by simp [World.render]
  have hrp_pieces : pieces (w.render []) = w.rootComps.map Comp.normal := by
    unfold World.render
    rw [List.append_nil, pieces_cons_slash, pieces_joinSlash _ (fun c hc => proper_noslash (hR c hc)),
      filterMap_keep_proper _ hR]
  let es : List Bytes := if e = [] then [[]] else e
  have hes_rel : ∀ c ∈ (([] : Bytes) :: es), isAbsolute c = false := by
    intro c hc
    rcases List.mem_cons.mp hc with rfl | h
    · rfl
    · simp only [es] at h
      split at h
      · simp at h; subst h; rfl
      · exact proper_not_abs (he c h)
  have hes_pieces : ((([] : Bytes) :: es).map pieces).flatten = e.map Comp.normal := by
    simp only [List.map_cons, List.flatten_cons, pieces_nil, List.nil_append, es]
    split
    · rename_i h; subst h; simp [pieces_nil]
    · exact flatten_pieces_proper e he
  obtain ⟨hrel_pieces, hrel_ne, hrel_abs⟩ :=
    pieces_foldl_push (([] : Bytes) :: es) hes_rel dot (by decide)
  have hrel_rel : isAbsolute ((([] : Bytes) :: es).foldl push dot) = false := by
    rw [hrel_abs]; decide
  have hright : components (expectedFullPath (w.render []) e) =
      Comp.root :: (w.rootComps ++ e).map Comp.normal := by
    unfold expectedFullPath
    rw [components_abs _ (push_abs _ _ hrp_abs hrel_rel), pieces_push _ _ hrp_ne hrel_rel, hrp_pieces,
      hrel_pieces, pieces_dot, List.nil_append, hes_pieces, List.map_append]
  unfold pathEq
  rw [hleft, hright]
  simp

end KPath

namespace KPath

theorem parseDigits_append (xs : Bytes) (d : UInt8) :
    World.parseDigits (xs ++ [d]) = World.parseDigits xs * 10 + (d.toNat - 48) := by
  simp [World.parseDigits, List.foldl_append]

theorem digit_roundtrip : ∀ d, d < 10 → (48 + d) % 256 - 48 = d := by decide

theorem parse_natToDigits (fuel n : Nat) (h : n < 10 ^ fuel) :
    World.parseDigits (Path.natToDigits fuel n) = n := by
  induction fuel generalizing n with
  | zero => simp at h; subst h; simp [Path.natToDigits, World.parseDigits]
  | succ f ih =>
    unfold Path.natToDigits
    split
    · rename_i hlt
      simp [World.parseDigits]
      exact digit_roundtrip n hlt
    · rename_i hge
      rw [parseDigits_append]
      have h10 : n / 10 < 10 ^ f := by
        rw [Nat.pow_succ] at h
        exact Nat.div_lt_of_lt_mul (by omega)
      rw [ih _ h10]
      have hd : ((48 + n % 10).toUInt8).toNat - 48 = n % 10 := by
        simp
        exact digit_roundtrip _ (Nat.mod_lt _ (by decide))
      rw [hd]
      omega

theorem parse_decimal (n : Nat) : World.parseDigits (Path.decimal n) = n := by
  unfold Path.decimal
  apply parse_natToDigits
  calc n < 10 ^ n := Nat.lt_pow_self (by decide)
    _ ≤ 10 ^ (n + 1) := Nat.pow_le_pow_right (by decide) (by omega)

/-- decimal digits contain no NUL byte -/
theorem decimal_no_nul (n : Nat) : (Path.decimal n).contains 0 = false := by
  have h := decimal_allDigits n
  simp only [allDigits, List.all_eq_true, Bool.and_eq_true, decide_eq_true_eq] at h
  simp only [List.contains_eq_mem, decide_eq_false_iff_not]
  intro hm
  have := (h 0 hm).1
  exact absurd this (by decide)

end KPath
