import Pathrs.Proofs.KPartialRun
import Pathrs.Proofs.Ancestors

/-!
# The kernel backend's partial lookup: probing ever shorter prefixes
-/

open K KRun World KSim KSpec KPartial SStack Ancestors

namespace KProbe

variable {w : World}

/-- the probing loop, on the specification -/
def kprobeL (w : World) (c : World.Cfg) : List (Bytes × Option Bytes) → Nat → Except Nat (Fd × Option Bytes × Nat)
  | [], e => .error e
  | (p, rem) :: rest, e =>
    match resolveInRoot w c p with
    | .ok h => .ok (h, rem, e)
    | .error e' => kprobeL w c rest e'

/-- prefix `k` of the components, resolved from the root -/
def pfx (w : World) (c : World.Cfg) (comps : List Bytes) (k : Nat) : Except Nat Fd :=
  kresolve w c w.root (comps.take k) 0

theorem pfx_zero (c : World.Cfg) (comps : List Bytes) : pfx w c comps 0 = .ok w.root := by
  simp [pfx, k_nil]

/-- a failing prefix makes every longer prefix fail with the same error -/
theorem pfx_fail_mono (c : World.Cfg) (hnf : c.nofollow = false) (comps : List Bytes) (k k' : Nat) (e : Nat)
    (h : pfx w c comps k = .error e) (hk : k ≤ k') : pfx w c comps k' = .error e := by
  unfold pfx at *
  have hsplit : comps.take k' = comps.take k ++ (comps.take k').drop k := by
    have := List.take_append_drop k (comps.take k')
    rw [List.take_take, Nat.min_eq_left hk] at this
    exact this.symm
  rw [hsplit, kresolve_eq_kres2, kres2_append c hnf]
  rw [kresolve_eq_kres2] at h
  cases hr : kres2 w c w.root (comps.take k) 0 with
  | ok r => rw [hr] at h; cases h
  | error e' => rw [hr] at h; simp [fstOut] at h; subst h; rfl

/-- a successful prefix makes every shorter prefix succeed -/
theorem pfx_ok_mono (c : World.Cfg) (hnf : c.nofollow = false) (comps : List Bytes) (k k' : Nat) (h : Fd)
    (hok : pfx w c comps k' = .ok h) (hk : k ≤ k') : ∃ h', pfx w c comps k = .ok h' := by
  cases hr : pfx w c comps k with
  | ok h' => exact ⟨h', rfl⟩
  | error e => rw [pfx_fail_mono c hnf comps k k' e hr hk] at hok; cases hok

/-- the longest successful prefix below a failing one -/
theorem exists_stop (c : World.Cfg) (hnf : c.nofollow = false) (comps : List Bytes) (k : Nat) (e : Nat)
    (h : pfx w c comps k = .error e) :
    ∃ j hd, j < k ∧ pfx w c comps j = .ok hd ∧ pfx w c comps (j + 1) = .error e := by
  induction k with
  | zero => rw [pfx_zero] at h; cases h
  | succ k ih =>
    cases hr : pfx w c comps k with
    | ok hd => exact ⟨k, hd, by omega, hr, h⟩
    | error e' =>
      have := pfx_fail_mono c hnf comps k (k + 1) e' hr (by omega)
      rw [this] at h; cases h
      obtain ⟨j, hd, hj, h1, h2⟩ := ih hr
      exact ⟨j, hd, by omega, h1, h2⟩

/-- the stopping position is unique -/
theorem stop_unique (c : World.Cfg) (hnf : c.nofollow = false) (comps : List Bytes) (j j' : Nat) (h h' : Fd) (e e' : Nat)
    (h1 : pfx w c comps j = .ok h) (h2 : pfx w c comps (j + 1) = .error e)
    (h1' : pfx w c comps j' = .ok h') (h2' : pfx w c comps (j' + 1) = .error e') : j = j' ∧ h = h' := by
  have a : j ≤ j' := by
    apply Nat.le_of_not_lt; intro hlt
    rw [pfx_fail_mono c hnf comps (j' + 1) j e' h2' (by omega)] at h1; cases h1
  have b : j' ≤ j := by
    apply Nat.le_of_not_lt; intro hlt
    rw [pfx_fail_mono c hnf comps (j + 1) j' e h2 (by omega)] at h1'; cases h1'
  have : j = j' := by omega
  subst this
  rw [h1] at h1'; cases h1'
  exact ⟨rfl, rfl⟩

/-! ### the ancestors, resolved -/

theorem joinSlash_eq_nil (l : List Bytes) (h : Path.joinSlash l = []) : l = [] ∨ l = [[]] := by
  cases l with
  | nil => left; rfl
  | cons x rest =>
    cases rest with
    | nil => right; simp [Path.joinSlash] at h; rw [h]
    | cons y ys =>
      have : Path.joinSlash (x :: y :: ys) = x ++ Path.slash :: Path.joinSlash (y :: ys) := rfl
      rw [this] at h
      simp at h

theorem remainingParts_eq (r : Option Bytes) :
    Root.remainingParts r = (match r with | none => [] | some b => Path.rawComponents b).filter nd := rfl

/-- the remaining path of an ancestor, as `mkdir_all` reads it -/
theorem rem_parts (l : List Bytes) (hl : ∀ c ∈ l, Path.containsSlash c = false) :
    Root.remainingParts (if Path.joinSlash l = [] then none else some (Path.joinSlash l)) = l.filter nd := by
  rw [remainingParts_eq]
  by_cases h : Path.joinSlash l = []
  · rw [if_pos h]
    rcases joinSlash_eq_nil l h with h0 | h0 <;> rw [h0] <;> rfl
  · rw [if_neg h]
    have hne : l ≠ [] := by intro h0; rw [h0] at h; exact h rfl
    show (Path.splitSlash (Path.joinSlash l)).filter nd = _
    rw [KPath.splitSlash_joinSlash l hl hne]

theorem resolve_dot (hw : w.WF) (c : World.Cfg) : resolveInRoot w c Path.dot = .ok w.root := by
  unfold resolveInRoot
  rw [if_neg (by decide)]
  have : Path.rawComponents Path.dot = [Path.dot] := by decide
  rw [this, k_dot _ _ _ _ _ hw.root_dir (Or.inr rfl), k_nil]

theorem resolve_slash (hw : w.WF) (c : World.Cfg) : resolveInRoot w c [Path.slash] = .ok w.root := by
  unfold resolveInRoot
  rw [if_neg (by decide)]
  have : Path.rawComponents [Path.slash] = [[], []] := by decide
  rw [this, k_dot _ _ _ _ _ hw.root_dir (Or.inl rfl), k_dot _ _ _ _ _ hw.root_dir (Or.inl rfl), k_nil]

/-- the ancestor cut after `k + 1` components resolves like those components -/
theorem anc_resolve (hw : w.WF) (c : World.Cfg) (comps : List Bytes) (hsl : ∀ x ∈ comps, Path.containsSlash x = false)
    (hne : comps ≠ []) (k : Nat) :
    resolveInRoot w c (if Path.joinSlash (comps.take (k + 1)) = [] then [Path.slash] else Path.joinSlash (comps.take (k + 1)))
      = pfx w c comps (k + 1) := by
  have htne : comps.take (k + 1) ≠ [] := by
    cases comps with
    | nil => exact absurd rfl hne
    | cons x xs => simp
  have htsl : ∀ x ∈ comps.take (k + 1), Path.containsSlash x = false :=
    fun x hx => hsl x (List.mem_of_mem_take hx)
  by_cases h : Path.joinSlash (comps.take (k + 1)) = []
  · rw [if_pos h, resolve_slash hw]
    rcases joinSlash_eq_nil _ h with h0 | h0
    · exact absurd h0 htne
    · unfold pfx; rw [h0, k_dot _ _ _ _ _ hw.root_dir (Or.inl rfl), k_nil]
  · rw [if_neg h]
    unfold resolveInRoot pfx
    rw [if_neg h]
    show kresolve w c w.root (Path.splitSlash _) 0 = _
    rw [KPath.splitSlash_joinSlash _ htsl htne]

/-- **Probing finds the stopping position**: started below a failing prefix `k` with that prefix's
error, the loop over the ancestors returns the object after the longest resolvable prefix `j`, the
remaining path after it, and the error of prefix `j + 1`. -/
theorem anc_probe (hw : w.WF) (c : World.Cfg) (hnf : c.nofollow = false) (comps : List Bytes)
    (hsl : ∀ x ∈ comps, Path.containsSlash x = false) (hne : comps ≠ []) (k : Nat) :
    1 ≤ k → ∀ j hd e, j < k → pfx w c comps j = .ok hd → pfx w c comps (j + 1) = .error e →
      ∃ rem, kprobeL w c (ancSpec comps k) e = .ok (hd, rem, e) ∧ Root.remainingParts rem = (comps.drop j).filter nd := by
  induction k with
  | zero => intro h; omega
  | succ k ih =>
    intro _ j hd e hj h1 h2
    cases k with
    | zero =>
      have hj0 : j = 0 := by omega
      subst hj0
      rw [pfx_zero] at h1; cases h1
      refine ⟨_, ?_, rem_parts comps hsl⟩
      show kprobeL w c [(Path.dot, _)] e = _
      simp only [kprobeL, resolve_dot hw]
    | succ k =>
      have hres := anc_resolve hw c comps hsl hne k
      have hdsl : ∀ x ∈ comps.drop (k + 1), Path.containsSlash x = false :=
        fun x hx => hsl x (List.mem_of_mem_drop hx)
      have hspec : ∀ anc rem, ancSpec comps (k + 2) = (if anc = Path.dot ∨ anc = [Path.slash] then [(anc, rem)]
            else (anc, rem) :: ancSpec comps (k + 1)) →
          (∃ tl, ancSpec comps (k + 2) = (anc, rem) :: tl ∧ ((anc = Path.dot ∨ anc = [Path.slash]) ∨ tl = ancSpec comps (k + 1))) := by
        intro anc rem h
        by_cases hstop : anc = Path.dot ∨ anc = [Path.slash]
        · rw [if_pos hstop] at h; exact ⟨[], h, Or.inl hstop⟩
        · rw [if_neg hstop] at h; exact ⟨_, h, Or.inr rfl⟩
      obtain ⟨tl, htl, hcase⟩ := hspec _ _ rfl
      rw [htl]
      by_cases hjk : j = k + 1
      · subst hjk
        rw [h1] at hres
        refine ⟨_, ?_, rem_parts _ hdsl⟩
        simp only [kprobeL, hres]
      · have hfail : pfx w c comps (k + 1) = .error e := pfx_fail_mono c hnf comps (j + 1) (k + 1) e h2 (by omega)
        rw [hfail] at hres
        obtain ⟨rem, hr1, hr2⟩ := ih (by omega) j hd e (by omega) h1 h2
        refine ⟨rem, ?_, hr2⟩
        rcases hcase with hstop | htl2
        · exfalso
          rcases hstop with hs | hs
          · rw [hs, resolve_dot hw] at hres; cases hres
          · rw [hs, resolve_slash hw] at hres; cases hres
        · simp only [kprobeL, hres, htl2]
          exact hr1

/-! ### running the probing loop -/

theorem splitSlash_nonul (p : Bytes) (h : p.contains 0 = false) : ∀ c ∈ Path.splitSlash p, c.contains 0 = false := by
  induction p with
  | nil => intro c hc; simp [Path.splitSlash] at hc; subst hc; rfl
  | cons x rest ih =>
    have hx : (0 : UInt8) ≠ x ∧ rest.contains 0 = false := by
      simp only [List.contains_cons, Bool.or_eq_false_iff, beq_eq_false_iff_ne, ne_eq] at h
      exact h
    intro c hc
    unfold Path.splitSlash at hc
    split at hc
    · rcases List.mem_cons.mp hc with rfl | h'
      · rfl
      · exact ih hx.2 c h'
    · split at hc
      · simp at hc; subst hc
        simp [hx.1]
      · rename_i y ys hsplit
        rcases List.mem_cons.mp hc with rfl | h'
        · have hy := ih hx.2 y (by rw [hsplit]; exact List.mem_cons_self)
          simp only [List.contains_cons, Bool.or_eq_false_iff, beq_eq_false_iff_ne, ne_eq]
          exact ⟨hx.1, hy⟩
        · exact ih hx.2 c (by rw [hsplit]; exact List.mem_cons_of_mem _ h')

theorem contains_append_false (a b : Bytes) (ha : a.contains 0 = false) (hb : b.contains 0 = false) :
    (a ++ b).contains 0 = false := by
  simp only [List.contains_eq_mem, List.mem_append, decide_eq_false_iff_not, not_or] at *
  exact ⟨ha, hb⟩

theorem joinSlash_nonul (l : List Bytes) (hl : ∀ c ∈ l, c.contains 0 = false) : (Path.joinSlash l).contains 0 = false := by
  induction l with
  | nil => rfl
  | cons x rest ih =>
    cases rest with
    | nil => simpa [Path.joinSlash] using hl x List.mem_cons_self
    | cons y ys =>
      have : Path.joinSlash (x :: y :: ys) = x ++ Path.slash :: Path.joinSlash (y :: ys) := rfl
      rw [this]
      apply contains_append_false _ _ (hl x List.mem_cons_self)
      have ih' := ih (fun c hc => hl c (List.mem_cons_of_mem _ hc))
      simp only [List.contains_cons, Bool.or_eq_false_iff, beq_eq_false_iff_ne, ne_eq]
      exact ⟨by decide, ih'⟩

theorem ancSpec_succ_shape (comps : List Bytes) (k : Nat) :
    ∃ tl, ancSpec comps (k + 2) =
        ((if Path.joinSlash (comps.take (k + 1)) = [] then [Path.slash] else Path.joinSlash (comps.take (k + 1))),
         (if Path.joinSlash (comps.drop (k + 1)) = [] then none else some (Path.joinSlash (comps.drop (k + 1))))) :: tl ∧
      (tl = [] ∨ tl = ancSpec comps (k + 1)) := by
  have h : ∀ anc rem, ancSpec comps (k + 2) = (if anc = Path.dot ∨ anc = [Path.slash] then [(anc, rem)]
        else (anc, rem) :: ancSpec comps (k + 1)) →
      ∃ tl, ancSpec comps (k + 2) = (anc, rem) :: tl ∧ (tl = [] ∨ tl = ancSpec comps (k + 1)) := by
    intro anc rem h
    by_cases hstop : anc = Path.dot ∨ anc = [Path.slash]
    · rw [if_pos hstop] at h; exact ⟨[], h, Or.inl rfl⟩
    · rw [if_neg hstop] at h; exact ⟨_, h, Or.inr rfl⟩
  exact h _ _ rfl

theorem ancSpec_nonul (comps : List Bytes) (hl : ∀ c ∈ comps, c.contains 0 = false) (k : Nat) :
    ∀ x ∈ ancSpec comps k, x.1.contains 0 = false := by
  induction k with
  | zero => intro x hx; simp [ancSpec] at hx
  | succ k ih =>
    cases k with
    | zero => intro x hx; simp [ancSpec] at hx; rw [hx]; rfl
    | succ k =>
      intro x hx
      have hanc : (if Path.joinSlash (comps.take (k + 1)) = [] then [Path.slash] else Path.joinSlash (comps.take (k + 1))).contains 0 = false := by
        split
        · rfl
        · exact joinSlash_nonul _ (fun c hc => hl c (List.mem_of_mem_take hc))
      obtain ⟨tl, htl, hcase⟩ := ancSpec_succ_shape comps k
      rw [htl] at hx
      rcases List.mem_cons.mp hx with rfl | h'
      · exact hanc
      · rcases hcase with h0 | h0
        · rw [h0] at h'; simp at h'
        · rw [h0] at h'; exact ih x h'

theorem run_probe (hw : w.WF) (rflags : Nat) (L : List (Bytes × Option Bytes))
    (hnul : ∀ x ∈ L, x.1.contains 0 = false) (e : Nat) (he : e = ENOTDIR ∨ e = ENOENT ∨ e = ELOOP) :
    Prog.run w (Openat2.probe (kenv w) w.root rflags false L (.os e)) =
      match kprobeL w (kcfgK w rflags false) L e with
      | .ok (h, rem, e') => .ok (.part h (rem.getD []) (.os e'))
      | .error e' => .error (.os e') := by
  induction L generalizing e with
  | nil => simp [Openat2.probe, kprobeL]
  | cons x rest ih =>
    obtain ⟨p, rem⟩ := x
    have hsv : Openat2.Err.isSafetyViolation (.os e) = false := by
      rcases he with h | h | h <;> rw [h] <;> decide
    have hr := run_openat2_resolve hw p (hnul (p, rem) List.mem_cons_self) rflags false
    unfold Openat2.probe
    cases hres : resolveInRoot w (kcfgK w rflags false) p with
    | ok h =>
      rw [hres] at hr
      simp only [hsv, Bool.false_eq_true, ↓reduceIte, M.bind_def, run_bind'_simp, run_try_simp, hr, toOut, run_do_pure,
        kprobeL, hres]
    | error e' =>
      rw [hres] at hr
      have he' := resolveInRoot_errors _ _ _ hres
      simp only [hsv, Bool.false_eq_true, ↓reduceIte, M.bind_def, run_bind'_simp, run_try_simp, hr, toOut, Err.isFatal,
        kprobeL, hres]
      exact ih (fun x hx => hnul x (List.mem_cons_of_mem _ hx)) e' he'

theorem pfx_full (c : World.Cfg) (comps : List Bytes) : pfx w c comps comps.length = kresolve w c w.root comps 0 := by
  unfold pfx; rw [List.take_length]

theorem remainingParts_some_nil : Root.remainingParts (some []) = Root.remainingParts none := by decide

theorem remainingParts_getD (rem : Option Bytes) : Root.remainingParts (some (rem.getD [])) = Root.remainingParts rem := by
  cases rem with
  | none => exact remainingParts_some_nil
  | some b => rfl

theorem remainingParts_joinSlash (l : List Bytes) (hl : ∀ c ∈ l, Path.containsSlash c = false) :
    Root.remainingParts (some (Path.joinSlash l)) = l.filter nd := by
  have h := rem_parts l hl
  by_cases h0 : Path.joinSlash l = []
  · rw [if_pos h0] at h; rw [h0, remainingParts_some_nil]; exact h
  · rw [if_neg h0] at h; exact h

/-- `openat2::resolve_partial` (kernel backend): the lookup itself, or the longest resolvable prefix
with the remaining path and the error of the next longer prefix -/
theorem run_openat2_resolvePartial (hw : w.WF) (path : Bytes) (hp : path ≠ []) (hnul : path.contains 0 = false)
    (rflags : Nat) :
    ∃ l, Prog.run w (Openat2.resolvePartial (kenv w) w.root path rflags false) = .ok l ∧
      lookupOut l = toOut (kresolve w (kcfgK w rflags false) w.root (Path.rawComponents path) 0) ∧
      ∀ h r e, l = .part h r e → ∃ j e', e = .os e' ∧
        pfx w (kcfgK w rflags false) (Path.rawComponents path) j = .ok h ∧
        pfx w (kcfgK w rflags false) (Path.rawComponents path) (j + 1) = .error e' ∧
        Root.remainingParts (some r) = ((Path.rawComponents path).drop j).filter nd := by
  have hr := run_openat2_resolve hw path hnul rflags false
  have hfull : resolveInRoot w (kcfgK w rflags false) path
      = kresolve w (kcfgK w rflags false) w.root (Path.rawComponents path) 0 := by
    unfold resolveInRoot; rw [if_neg hp]
  rw [hfull] at hr
  have hsl : ∀ x ∈ Path.rawComponents path, Path.containsSlash x = false := rawComponents_single path
  have hne : Path.rawComponents path ≠ [] := KPath.splitSlash_ne_nil path
  unfold Openat2.resolvePartial
  cases hres : kresolve w (kcfgK w rflags false) w.root (Path.rawComponents path) 0 with
  | ok h =>
    rw [hres] at hr
    refine ⟨.complete h, ?_, rfl, fun _ _ _ hh => by cases hh⟩
    simp only [M.bind_def, run_bind'_simp, run_try_simp, hr, toOut, run_do_pure]
  | error e =>
    rw [hres] at hr
    have he := kresolve_errors _ _ _ _ _ hres
    have hnf : (kcfgK w rflags false).nofollow = false := rfl
    have hlen : 1 ≤ (Path.rawComponents path).length := by
      cases hc : Path.rawComponents path with
      | nil => exact absurd hc hne
      | cons x xs => simp
    obtain ⟨j, hd, hj, h1, h2⟩ := exists_stop (kcfgK w rflags false) hnf (Path.rawComponents path)
      (Path.rawComponents path).length e (by rw [pfx_full]; exact hres)
    obtain ⟨rem, hp1, hp2⟩ := anc_probe hw (kcfgK w rflags false) hnf (Path.rawComponents path) hsl hne
      (Path.rawComponents path).length hlen j hd e hj h1 h2
    have hrp := run_probe hw rflags (ancSpec (Path.rawComponents path) (Path.rawComponents path).length)
      (ancSpec_nonul _ (splitSlash_nonul path hnul) _) e he
    rw [hp1] at hrp
    refine ⟨.part hd (rem.getD []) (.os e), ?_, rfl, ?_⟩
    · simp only [M.bind_def, run_bind'_simp, run_try_simp, hr, toOut, Err.isFatal, Bool.false_eq_true, ↓reduceIte,
        partialAncestors_eq]
      exact hrp
    · intro h r e0 hh
      cases hh
      exact ⟨j, e, rfl, h1, h2, by rw [remainingParts_getD]; exact hp2⟩

end KProbe
