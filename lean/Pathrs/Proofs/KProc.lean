import Pathrs.Kernel.ProcWorld
import Pathrs.Proofs.KRun

/-!
# The emulated procfs resolver computes the kernel's confined lookup (C07), and stays on the mount (C06)
-/

open K PWorld

namespace KProc

variable {w : PWorld}

def toOutP : Except Nat Fd → Except Err Fd
  | .ok c => .ok c
  | .error e => .error (.os e)

/-- a procfs tree: descriptors are not negative, the start is a directory, ordinary symlinks have short non-empty relative
bodies without `..`, magic-links have absolute bodies -/
structure PWF (w : PWorld) : Prop where
  base_nonneg : 0 ≤ w.base
  base_dir : w.kind w.base = .dir
  child_nonneg : ∀ d n c, w.child d n = some c → 0 ≤ c
  lnk_body : ∀ l, w.kind l = .lnk →
    w.body l ≠ [] ∧ Path.isAbsolute (w.body l) = false ∧ (w.body l).length < READLINK_BUF ∧
      Path.dotdot ∉ Path.rawComponents (w.body l)
  magic_body : ∀ l, w.kind l = .magic → Path.isAbsolute (w.body l) = true ∧ (w.body l).length < READLINK_BUF

/-- the flag sets the final-component table of the resolver is written for (every caller in the library: `open` forces
`O_NOFOLLOW`, the base directories are opened `O_PATH|O_DIRECTORY`, `readlink` uses `O_PATH`) -/
def FlagsOk (oflags : Nat) : Prop :=
  hasAll oflags O_NOFOLLOW = true ∨ hasAll oflags O_PATH = true ∨ hasAll oflags O_DIRECTORY = true

/-! ## running programs on a `PWorld`: the building blocks -/

section runlib

variable (w : PWorld)

@[simp] theorem prun_ret {α : Type} (a : α) : (Prog.ret a).prun w = a := rfl
@[simp] theorem prun_call {α : Type} (c : Call) (k : Resp → Prog α) :
    (Prog.call c k).prun w = (k (w.answer c)).prun w := rfl

theorem prun_bind {α β : Type} (p : Prog α) (f : α → Prog β) :
    (Prog.bind p f).prun w = (f (p.prun w)).prun w := by
  induction p with
  | ret a => rfl
  | call c k ih => simp [Prog.bind, ih]

theorem prun_mbind {α β : Type} (p : M α) (f : α → M β) :
    Prog.prun w (M.bind' p f) = match Prog.prun w p with
      | .ok a => Prog.prun w (f a)
      | .error e => .error e := by
  have key : ∀ q : Prog (Except Err α), Prog.prun w (M.bind' q f) = match Prog.prun w q with
      | .ok a => Prog.prun w (f a)
      | .error e => .error e := by
    intro q
    unfold M.bind'
    rw [prun_bind]
    cases Prog.prun w q <;> rfl
  exact key p

theorem prun_lift {α : Type} (p : Prog α) : Prog.prun w (M.lift p) = .ok (p.prun w) := by
  unfold M.lift
  rw [prun_bind]; rfl

theorem prun_mcall (c : Call) : Prog.prun w (M.call c) = .ok (w.answer c) := by
  unfold M.call Prog.perform
  rw [prun_lift]; rfl

theorem prun_ofExcept {α : Type} (x : Except Err α) : Prog.prun w (M.ofExcept x) = x := by
  cases x <;> rfl

theorem prun_onErr {α : Type} (p : M α) (c : Prog Unit) : Prog.prun w (M.onErr p c) = Prog.prun w p := by
  have key : ∀ q : Prog (Except Err α), Prog.prun w (M.onErr q c) = Prog.prun w q := by
    intro q
    unfold M.onErr
    rw [prun_bind]
    cases Prog.prun w q with
    | ok a => rfl
    | error e =>
      show Prog.prun w (Prog.bind c _) = _
      rw [prun_bind]; rfl
  exact key p

theorem prun_try {α : Type} (p : M α) : Prog.prun w (M.try' p) = match Prog.prun w p with
    | .ok a => .ok (.ok a)
    | .error e => if e.isFatal then .error e else .ok (.error e) := by
  have key : ∀ q : Prog (Except Err α), Prog.prun w (M.try' q) = match Prog.prun w q with
      | .ok a => .ok (.ok a)
      | .error e => if e.isFatal then .error e else .ok (.error e) := by
    intro q
    unfold M.try'
    rw [prun_bind]
    cases Prog.prun w q with
    | ok a => rfl
    | error e => by_cases hf : e.isFatal = true <;> simp [hf]
  exact key p

theorem prun_close (fd : Fd) : (Sys.close fd).prun w = () := rfl
theorem prun_closeAll (l : List Fd) : (Sys.closeAll l).prun w = () := rfl

theorem prun_gettid : Sys.gettid.prun w = 1 := rfl

theorem prun_failWith {α : Type} (fds : List Fd) (e : Nat) :
    Prog.prun w (Sys.failWith (α := α) fds e) = .error (.os e) := by
  unfold Sys.failWith
  induction fds with
  | nil => rfl
  | cons fd rest ih =>
    unfold Sys.failWith.go
    rw [prun_bind]
    exact ih

@[simp] theorem prun_bind'_simp {α β : Type} (p : M α) (f : α → M β) :
    Prog.prun w (M.bind' p f) = match Prog.prun w p with
      | .ok a => Prog.prun w (f a)
      | .error e => .error e := prun_mbind w p f

@[simp] theorem prun_do_pure {α : Type} (a : α) : Prog.prun w (pure a : M α) = .ok a := rfl
@[simp] theorem prun_do_throw {α : Type} (e : Err) : Prog.prun w (throw e : M α) = .error e := rfl
@[simp] theorem prun_do_liftE {α : Type} (x : Except Err α) : Prog.prun w (liftM x : M α) = x :=
  prun_ofExcept w x
@[simp] theorem prun_do_liftP {α : Type} (p : Prog α) : Prog.prun w (liftM p : M α) = .ok (p.prun w) :=
  prun_lift w p
@[simp] theorem prun_do_monadLiftE {α : Type} (x : Except Err α) : Prog.prun w (monadLift x : M α) = x :=
  prun_ofExcept w x
@[simp] theorem prun_do_monadLiftP {α : Type} (p : Prog α) : Prog.prun w (monadLift p : M α) = .ok (p.prun w) :=
  prun_lift w p
@[simp] theorem prun_ofExcept_simp {α : Type} (x : Except Err α) : Prog.prun w (M.ofExcept x) = x :=
  prun_ofExcept w x
@[simp] theorem prun_mcall_simp (c : Call) : Prog.prun w (M.call c) = .ok (w.answer c) := prun_mcall w c
@[simp] theorem prun_lift_simp {α : Type} (p : Prog α) : Prog.prun w (M.lift p) = .ok (p.prun w) := prun_lift w p
@[simp] theorem prun_failWith_simp {α : Type} (fds : List Fd) (e : Nat) :
    Prog.prun w (Sys.failWith (α := α) fds e) = .error (.os e) := prun_failWith w fds e
@[simp] theorem prun_close_simp (fd : Fd) : (Sys.close fd).prun w = () := rfl
@[simp] theorem prun_closeAll_simp (l : List Fd) : (Sys.closeAll l).prun w = () := rfl
@[simp] theorem prun_onErr_simp {α : Type} (p : M α) (c : Prog Unit) :
    Prog.prun w (M.onErr p c) = Prog.prun w p := prun_onErr w p c
@[simp] theorem prun_try_simp {α : Type} (p : M α) : Prog.prun w (M.try' p) = match Prog.prun w p with
    | .ok a => .ok (.ok a)
    | .error e => if e.isFatal then .error e else .ok (.error e) := prun_try w p

end runlib

/-! ## the syscall wrappers on a `PWorld` -/

theorem int_nonneg_ne_cwd (x : Int) (h : 0 ≤ x) : x ≠ -100 := by omega

theorem nonneg_ne_cwd {d : Fd} (h : 0 ≤ d) : d ≠ AT_FDCWD := int_nonneg_ne_cwd d h

theorem hasAll_or_left (a b : Nat) : hasAll (a ||| b) a = true := by
  simp only [hasAll, decide_eq_true_eq]
  apply Nat.eq_of_testBit_eq; intro i
  simp only [Nat.testBit_and, Nat.testBit_or]
  cases a.testBit i <;> simp

theorem hasAll_or_right_disj (fl x m : Nat) (h : x &&& m = 0) : hasAll (fl ||| x) m = hasAll fl m := by
  simp [hasAll, Nat.and_or_distrib_right, h]

theorem accWrite_or (fl x : Nat) (h3 : x &&& O_ACCMODE = 0) (h4 : x &&& O_TRUNC = 0) :
    World.accWrite (fl ||| x) = World.accWrite fl := by
  unfold World.accWrite
  rw [hasAll_or_right_disj _ _ _ h4, Nat.and_or_distrib_right, h3, Nat.or_zero]

theorem openKind_or (k : PKind) (fl x : Nat) (h1 : x &&& O_DIRECTORY = 0) (h2 : x &&& O_PATH = 0)
    (h3 : x &&& O_ACCMODE = 0) (h4 : x &&& O_TRUNC = 0) : openKind k (fl ||| x) = openKind k fl := by
  unfold openKind
  rw [hasAll_or_right_disj _ _ _ h1, hasAll_or_right_disj _ _ _ h2, accWrite_or _ _ h3 h4]

/-- the bits the wrappers force do not change what `open(2)` says about the final object -/
theorem openKind_forced (k : PKind) (fl : Nat) :
    openKind k (fl ||| O_NOFOLLOW ||| O_NOFOLLOW ||| O_CLOEXEC ||| O_NOCTTY) = openKind k fl := by
  rw [openKind_or _ _ O_NOCTTY (by decide) (by decide) (by decide) (by decide),
    openKind_or _ _ O_CLOEXEC (by decide) (by decide) (by decide) (by decide),
    openKind_or _ _ O_NOFOLLOW (by decide) (by decide) (by decide) (by decide),
    openKind_or _ _ O_NOFOLLOW (by decide) (by decide) (by decide) (by decide)]

theorem prun_openat (d : Fd) (hd : 0 ≤ d) (n : Bytes) (fl mode : Nat) :
    Prog.prun w (Sys.openat d n fl mode) =
      match w.lookup d n with
      | .ok c => (match openKind (w.kind c) fl with | .ok () => .ok c | .error e => .error (.os e))
      | .error e => .error (.os e) := by
  unfold Sys.openat Sys.openatFollow
  have hk : ∀ k, openKind k (fl ||| O_NOFOLLOW ||| O_CLOEXEC ||| O_NOCTTY) = openKind k fl := by
    intro k
    rw [openKind_or _ _ O_NOCTTY (by decide) (by decide) (by decide) (by decide),
      openKind_or _ _ O_CLOEXEC (by decide) (by decide) (by decide) (by decide),
      openKind_or _ _ O_NOFOLLOW (by decide) (by decide) (by decide) (by decide)]
  have hnf : hasAll (fl ||| O_NOFOLLOW ||| O_CLOEXEC ||| O_NOCTTY) O_NOFOLLOW = true := by
    have h1 : fl ||| O_NOFOLLOW ||| O_CLOEXEC ||| O_NOCTTY = O_NOFOLLOW ||| (fl ||| O_CLOEXEC ||| O_NOCTTY) := by
      apply Nat.eq_of_testBit_eq; intro i
      simp only [Nat.testBit_or]
      cases fl.testBit i <;> cases O_NOFOLLOW.testBit i <;> cases O_CLOEXEC.testBit i <;> cases O_NOCTTY.testBit i <;> rfl
    rw [h1]; exact hasAll_or_left _ _
  simp only [M.bind_def, prun_bind'_simp, prun_do_liftE, KRun.hotfix_tree hd, prun_mcall_simp,
    PWorld.answer, hk, hnf, Bool.true_or, ↓reduceIte]
  cases w.lookup d n with
  | error e => simp
  | ok c =>
    simp only []
    cases openKind (w.kind c) fl with
    | error e => simp
    | ok u => simp

theorem prun_statx (d : Fd) (hd : 0 ≤ d) :
    Prog.prun w (Sys.statx d [] STATX_WANT) = .ok (STATX_WANT, w.mnt d) := by
  unfold Sys.statx
  simp [KRun.hotfix_tree hd, PWorld.answer]

theorem prun_fetchMntId (d : Fd) (hd : 0 ≤ d) : Prog.prun w (Procfs.fetchMntId d []) = .ok (some (w.mnt d)) := by
  unfold Procfs.fetchMntId
  have : hasAny STATX_WANT STATX_WANT = true := by decide
  simp [prun_statx d hd, this]

theorem prun_verifySameMnt (m : Nat) (d : Fd) (hd : 0 ≤ d) :
    Prog.prun w (Procfs.verifySameMnt (some m) d []) = if w.mnt d = m then .ok () else .error (.os EXDEV) := by
  unfold Procfs.verifySameMnt
  simp only [M.bind_def, prun_bind'_simp, prun_fetchMntId d hd]
  by_cases h : w.mnt d = m
  · simp [h]
  · have : ¬ m = w.mnt d := fun e => h e.symm
    simp [h, this]

theorem prun_fstatat (d : Fd) (hd : 0 ≤ d) :
    Prog.prun w (Sys.fstatat d []) = .ok { mode := modeOf (w.kind d), uid := 0, ino := d.toNat } := by
  unfold Sys.fstatat
  simp [KRun.hotfix_tree hd, PWorld.answer, nonneg_ne_cwd hd]

theorem isSymlink_modeOf (k : PKind) (u i : Nat) :
    ({ mode := modeOf k, uid := u, ino := i } : Sys.Stat).isSymlink = isLink k := by
  cases k
  · show decide (modeOf .dir &&& S_IFMT = S_IFLNK) = _
    decide
  · show decide (modeOf .lnk &&& S_IFMT = S_IFLNK) = _
    decide
  · show decide (modeOf .magic &&& S_IFMT = S_IFLNK) = _
    decide
  · show decide (modeOf .other &&& S_IFMT = S_IFLNK) = _
    decide

theorem prun_readlinkat (d : Fd) (hd : 0 ≤ d) (hk : isLink (w.kind d) = true) (hlen : (w.body d).length < READLINK_BUF) :
    Prog.prun w (Sys.readlinkat d []) = .ok (w.body d) := by
  unfold Sys.readlinkat
  have hlen' : ¬ (w.body d).length ≥ READLINK_BUF := by omega
  simp [KRun.hotfix_tree hd, PWorld.answer, hk, hlen']

theorem prun_dup (fd : Fd) : Prog.prun w (Sys.dup fd) = .ok fd := by
  unfold Sys.dup
  simp [PWorld.answer]

/-! ## one-step unfoldings of the specification -/

theorem p_nil (c : PCfg) (cur : Fd) (links : Nat) : presolve w c cur [] links = .ok cur := by
  rw [presolve.eq_def]

theorem p_notdir (c : PCfg) (cur : Fd) (x : Bytes) (rest : List Bytes) (links : Nat)
    (h : w.kind cur ≠ .dir) : presolve w c cur (x :: rest) links = .error ENOTDIR := by
  rw [presolve.eq_def]; simp [h]

theorem p_dot (c : PCfg) (cur : Fd) (x : Bytes) (rest : List Bytes) (links : Nat)
    (h : w.kind cur = .dir) (hx : x = [] ∨ x = Path.dot) :
    presolve w c cur (x :: rest) links =
      if rest = [] then (match openKind .dir c.oflags with | .ok () => .ok cur | .error e => .error e)
      else presolve w c cur rest links := by
  rw [presolve.eq_def]; simp [h, hx]
  rfl

theorem p_name (c : PCfg) (cur : Fd) (x : Bytes) (rest : List Bytes) (links : Nat)
    (h : w.kind cur = .dir) (h1 : x ≠ []) (h2 : x ≠ Path.dot) (h3 : x ≠ Path.dotdot) :
    presolve w c cur (x :: rest) links =
      match w.child cur x with
      | none => .error ENOENT
      | some nxt =>
        if w.mnt nxt ≠ w.mnt cur then .error EXDEV
        else if isLink (w.kind nxt) then
          if rest = [] ∧ hasAll c.oflags O_NOFOLLOW then
            (match openKind (w.kind nxt) c.oflags with | .ok () => .ok nxt | .error e => .error e)
          else if c.noSymlinks then .error ELOOP
          else if w.kind nxt = .magic then .error ELOOP
          else if links + 1 ≥ c.maxLinks then .error ELOOP
          else if Path.isAbsolute (w.body nxt) then .error EXDEV
          else presolve w c cur (Path.rawComponents (w.body nxt) ++ rest) (links + 1)
        else if rest = [] then
          (match openKind (w.kind nxt) c.oflags with | .ok () => .ok nxt | .error e => .error e)
        else presolve w c nxt rest links := by
  rw [presolve.eq_def]; simp [h, h1, h2, h3]
  rfl

/-! ## the last component -/

theorem prun_opathFinal (m : Nat) (oflags : Nat) (cur next nxt : Fd) (part : Bytes) (il : Bool)
    (hc : 0 ≤ cur) (hl : w.lookup cur part = .ok nxt) (hn : 0 ≤ nxt) (hm : w.mnt nxt = m) :
    Prog.prun w (Procfs.opathFinal (some m) oflags cur next part il) =
      match openKind (w.kind nxt) oflags with
      | .ok () => .ok (some nxt)
      | .error e =>
        if (hasAll oflags O_NOFOLLOW || !hasAll oflags O_DIRECTORY || Err.os e != Err.os ENOTDIR || !il) = true
        then .error (.os e) else .ok none := by
  unfold Procfs.opathFinal
  have hk : openKind (w.kind nxt) (oflags ||| O_NOFOLLOW) = openKind (w.kind nxt) oflags :=
    openKind_or _ _ O_NOFOLLOW (by decide) (by decide) (by decide) (by decide)
  simp only [M.bind_def, prun_bind'_simp, prun_try_simp, prun_openat cur hc, hl, hk]
  cases openKind (w.kind nxt) oflags with
  | ok u =>
    simp only [prun_bind'_simp, prun_onErr_simp, prun_verifySameMnt m nxt hn, hm, ↓reduceIte, prun_do_liftP,
      prun_do_pure]
  | error e =>
    simp only [Err.isFatal, Bool.false_eq_true, ↓reduceIte]
    split
    · simp only [prun_bind'_simp, prun_do_liftP, prun_do_throw]
    · rfl

theorem openKind_walk (k : PKind) : openKind k (O_PATH ||| O_NOFOLLOW) = .ok () := by
  cases k <;> rfl

theorem link_body_short (hw : PWF w) (l : Fd) (h : isLink (w.kind l) = true) : (w.body l).length < READLINK_BUF := by
  cases hk : w.kind l with
  | lnk => exact (hw.lnk_body l hk).2.2.1
  | magic => exact (hw.magic_body l hk).2
  | dir => rw [hk] at h; cases h
  | other => rw [hk] at h; cases h

/-- what the loop does with the object `nxt` a component names when it is the last one and the flags are not a plain
`O_PATH`: the result of `opathFinal` (`none`: carry on with the ordinary treatment) -/
def finalOut (w : PWorld) (oflags : Nat) (nxt : Fd) (rest : List Bytes) : Except Err (Option Fd) :=
  if rest = [] ∧ (oflags &&& (O_PATH ||| O_NOFOLLOW ||| O_DIRECTORY)) ≠ O_PATH then
    (match openKind (w.kind nxt) oflags with
     | .ok () => .ok (some nxt)
     | .error e =>
       if (hasAll oflags O_NOFOLLOW || !hasAll oflags O_DIRECTORY || Err.os e != Err.os ENOTDIR ||
           !isLink (w.kind nxt)) = true then .error (.os e) else .ok none)
  else .ok none

/-- one round of the loop, once the component is known to name `nxt` on the starting mount -/
theorem loop_step (hw : PWF w) (oflags rflags : Nat) (cur nxt : Fd) (part0 : Bytes) (rest : List Bytes) (links : Nat)
    (hc0 : 0 ≤ cur) (hn0 : 0 ≤ nxt)
    (hnd : (if part0 = [] then Path.dot else part0) ≠ Path.dotdot)
    (hl : w.lookup cur (if part0 = [] then Path.dot else part0) = .ok nxt)
    (hm : w.mnt nxt = w.mnt w.base) :
    Prog.prun w (Procfs.opathLoop (some (w.mnt w.base)) oflags rflags cur (part0 :: rest) links) =
      match finalOut w oflags nxt rest with
      | .error e => .error e
      | .ok (some fd) => .ok fd
      | .ok none =>
        if isLink (w.kind nxt) = false then
          Prog.prun w (Procfs.opathLoop (some (w.mnt w.base)) oflags rflags nxt rest links)
        else if hasAll rflags RESOLVE_NO_SYMLINKS = true then .error (.os ELOOP)
        else if links + 1 ≥ MAX_SYMLINK_TRAVERSALS then .error (.os ELOOP)
        else if Path.isAbsolute (w.body nxt) = true then .error (.os ELOOP)
        else Prog.prun w (Procfs.opathLoop (some (w.mnt w.base)) oflags rflags cur
              (Path.rawComponents (w.body nxt) ++ rest) (links + 1)) := by
  rw [Procfs.opathLoop]
  simp only [hnd, ↓reduceIte, prun_bind'_simp, prun_onErr_simp, prun_openat cur hc0, hl, openKind_walk,
    prun_verifySameMnt _ nxt hn0, hm, prun_fstatat nxt hn0, isSymlink_modeOf]
  have hF : Prog.prun w
        ((if rest = [] ∧ oflags &&& (O_PATH ||| O_NOFOLLOW ||| O_DIRECTORY) ≠ O_PATH then
          Procfs.opathFinal (some (w.mnt w.base)) oflags cur nxt (if part0 = [] then Path.dot else part0)
            (isLink (w.kind nxt))
        else pure none : M (Option Fd))) = finalOut w oflags nxt rest := by
    unfold finalOut
    split
    · exact prun_opathFinal _ _ _ _ _ _ _ hc0 hl hn0 hm
    · rfl
  rw [hF]
  cases finalOut w oflags nxt rest with
  | error e => rfl
  | ok a =>
    cases a with
    | some fd => rfl
    | none =>
      simp only []
      by_cases hlk : isLink (w.kind nxt) = true
      · simp only [hlk, Bool.not_true, Bool.false_eq_true, Bool.true_eq_false, ↓reduceIte]
        by_cases hns : hasAll rflags RESOLVE_NO_SYMLINKS = true
        · simp only [hns, ↓reduceIte, prun_bind'_simp, prun_lift_simp, prun_do_throw]
        · by_cases hlim : links + 1 ≥ MAX_SYMLINK_TRAVERSALS
          · simp only [hns, hlim, ↓reduceIte, ↓reduceDIte, prun_bind'_simp, prun_lift_simp, prun_do_throw,
              Bool.false_eq_true]
          · have hrl := prun_readlinkat nxt hn0 hlk (link_body_short hw nxt hlk)
            simp only [hns, hlim, ↓reduceIte, ↓reduceDIte, prun_bind'_simp, prun_onErr_simp, hrl, Bool.false_eq_true]
            by_cases habs : Path.isAbsolute (w.body nxt) = true
            · simp only [habs, ↓reduceIte, prun_bind'_simp, prun_lift_simp, prun_do_throw]
            · simp only [habs, Bool.false_eq_true, ↓reduceIte, prun_bind'_simp, prun_lift_simp]
      · have hlk' : isLink (w.kind nxt) = false := by simpa using hlk
        simp only [hlk', Bool.not_false, ↓reduceIte, prun_bind'_simp, prun_lift_simp]

theorem loop_fail (oflags rflags : Nat) (m : Nat) (cur : Fd) (part0 : Bytes) (rest : List Bytes) (links : Nat) (e : Nat)
    (hc0 : 0 ≤ cur) (hnd : (if part0 = [] then Path.dot else part0) ≠ Path.dotdot)
    (hl : w.lookup cur (if part0 = [] then Path.dot else part0) = .error e) :
    Prog.prun w (Procfs.opathLoop (some m) oflags rflags cur (part0 :: rest) links) = .error (.os e) := by
  rw [Procfs.opathLoop]
  simp only [hnd, ↓reduceIte, prun_bind'_simp, prun_onErr_simp, prun_openat cur hc0, hl]

theorem loop_xdev (oflags rflags : Nat) (m : Nat) (cur nxt : Fd) (part0 : Bytes) (rest : List Bytes) (links : Nat)
    (hc0 : 0 ≤ cur) (hn0 : 0 ≤ nxt) (hnd : (if part0 = [] then Path.dot else part0) ≠ Path.dotdot)
    (hl : w.lookup cur (if part0 = [] then Path.dot else part0) = .ok nxt) (hm : ¬ w.mnt nxt = m) :
    Prog.prun w (Procfs.opathLoop (some m) oflags rflags cur (part0 :: rest) links) = .error (.os EXDEV) := by
  rw [Procfs.opathLoop]
  simp only [hnd, ↓reduceIte, prun_bind'_simp, prun_onErr_simp, prun_openat cur hc0, hl, openKind_walk,
    prun_verifySameMnt _ nxt hn0, hm]

/-! ## the flag table of the last component -/

theorem and_two_pow_cases (fl i : Nat) : fl &&& 2 ^ i = 0 ∨ fl &&& 2 ^ i = 2 ^ i := by
  by_cases h : fl.testBit i = true
  · right; apply Nat.eq_of_testBit_eq; intro j
    simp only [Nat.testBit_and, Nat.testBit_two_pow]
    by_cases hj : i = j
    · subst hj; simp [h]
    · simp [hj]
  · left; apply Nat.eq_of_testBit_eq; intro j
    simp only [Nat.testBit_and, Nat.testBit_two_pow, Nat.zero_testBit]
    by_cases hj : i = j
    · subst hj; simp [h]
    · simp [hj]

/-- the flags are a plain `O_PATH` as far as the three bits of the table go -/
theorem plain_iff (fl : Nat) :
    fl &&& (O_PATH ||| O_NOFOLLOW ||| O_DIRECTORY) = O_PATH ↔
      (hasAll fl O_PATH = true ∧ hasAll fl O_NOFOLLOW = false ∧ hasAll fl O_DIRECTORY = false) := by
  have hP : O_PATH = 2 ^ 21 := by decide
  have hN : O_NOFOLLOW = 2 ^ 17 := by decide
  have hD : O_DIRECTORY = 2 ^ 16 := by decide
  rw [Nat.and_or_distrib_left, Nat.and_or_distrib_left]
  simp only [hasAll, hP, hN, hD]
  rcases and_two_pow_cases fl 21 with h1 | h1 <;> rcases and_two_pow_cases fl 17 with h2 | h2 <;>
    rcases and_two_pow_cases fl 16 with h3 | h3 <;> rw [h1, h2, h3] <;> decide

theorem isLink_cases {k : PKind} (h : isLink k = true) : k = .lnk ∨ k = .magic := by
  cases k
  · cases h
  · exact Or.inl rfl
  · exact Or.inr rfl
  · cases h

theorem openKind_plain_nonlink (k : PKind) (fl : Nat) (hnl : isLink k = false) (hP : hasAll fl O_PATH = true)
    (hD : hasAll fl O_DIRECTORY = false) : openKind k fl = .ok () := by
  cases k
  · simp [openKind, hP]
  · cases hnl
  · cases hnl
  · simp [openKind, hD]

theorem nonlink_tail (oflags : Nat) (nxt : Fd) (rest : List Bytes) (X Y : Except Err Fd) (P : Except Nat Fd)
    (hnl : isLink (w.kind nxt) = false) (hX0 : rest = [] → X = .ok nxt) (hX : rest ≠ [] → X = toOutP P) :
    (match finalOut w oflags nxt rest with
      | .error e => .error e
      | .ok (some fd) => .ok fd
      | .ok none => if isLink (w.kind nxt) = false then X else Y) =
    toOutP (if rest = [] then (match openKind (w.kind nxt) oflags with | .ok () => .ok nxt | .error e => .error e)
            else P) := by
  unfold finalOut
  by_cases hr : rest = []
  · by_cases hpl : oflags &&& (O_PATH ||| O_NOFOLLOW ||| O_DIRECTORY) = O_PATH
    · obtain ⟨hP, _, hD⟩ := (plain_iff oflags).1 hpl
      simp only [hr, hpl, ne_eq, not_true_eq_false, and_false, ↓reduceIte, hnl, hX0 hr,
        openKind_plain_nonlink _ _ hnl hP hD]
      rfl
    · simp only [hr, hpl, ne_eq, not_false_eq_true, and_self, ↓reduceIte, hnl, Bool.not_false, Bool.or_true]
      cases openKind (w.kind nxt) oflags <;> rfl
  · simp only [hr, false_and, ↓reduceIte, hnl, hX hr]

theorem link_tail (oflags : Nat) (hfl : FlagsOk oflags) (nxt : Fd) (rest : List Bytes) (X Z : Except Err Fd)
    (hlk : isLink (w.kind nxt) = true) :
    (match finalOut w oflags nxt rest with
      | .error e => .error e
      | .ok (some fd) => .ok fd
      | .ok none => if isLink (w.kind nxt) = false then X else Z) =
    if rest = [] ∧ hasAll oflags O_NOFOLLOW = true then
      toOutP (match openKind (w.kind nxt) oflags with | .ok () => .ok nxt | .error e => .error e)
    else Z := by
  unfold finalOut
  by_cases hr : rest = []
  · by_cases hN : hasAll oflags O_NOFOLLOW = true
    · have hpl : ¬ oflags &&& (O_PATH ||| O_NOFOLLOW ||| O_DIRECTORY) = O_PATH := by
        intro h; have := ((plain_iff oflags).1 h).2.1; rw [hN] at this; cases this
      simp only [hr, hpl, ne_eq, not_false_eq_true, and_self, ↓reduceIte, hN, Bool.true_or]
      cases openKind (w.kind nxt) oflags <;> rfl
    · have hN' : hasAll oflags O_NOFOLLOW = false := by simpa using hN
      by_cases hpl : oflags &&& (O_PATH ||| O_NOFOLLOW ||| O_DIRECTORY) = O_PATH
      · simp only [hr, hpl, ne_eq, not_true_eq_false, and_false, ↓reduceIte, hlk, hN', Bool.false_eq_true,
          Bool.true_eq_false]
      · have hD : hasAll oflags O_DIRECTORY = true := by
          cases hd : hasAll oflags O_DIRECTORY with
          | true => rfl
          | false =>
            exfalso
            rcases hfl with h | h | h
            · rw [hN'] at h; cases h
            · exact hpl ((plain_iff oflags).2 ⟨h, hN', hd⟩)
            · rw [hd] at h; cases h
        have hok : openKind (w.kind nxt) oflags = .error ENOTDIR := by
          rcases isLink_cases hlk with h | h <;> rw [h] <;> simp [openKind, hD]
        simp only [hr, hpl, ne_eq, not_false_eq_true, and_self, ↓reduceIte, hok, hN', hD, hlk, Bool.not_true,
          Bool.or_false, bne_self_eq_false, Bool.false_eq_true, Bool.true_eq_false, and_false]
  · simp only [hr, false_and, ↓reduceIte, hlk, Bool.true_eq_false]

/-! ## the simulation -/

/-- the specification's configuration for the emulated resolver -/
def pcfg (oflags rflags : Nat) : PCfg :=
  { oflags := oflags, noSymlinks := hasAll rflags RESOLVE_NO_SYMLINKS, maxLinks := MAX_SYMLINK_TRAVERSALS }

theorem loop_sim (hw : PWF w) (oflags rflags : Nat) (hfl : FlagsOk oflags) (cur : Fd) (rem : List Bytes) (links : Nat)
    (hc0 : 0 ≤ cur) (hm : w.mnt cur = w.mnt w.base) (hdd : Path.dotdot ∉ rem) :
    Prog.prun w (Procfs.opathLoop (some (w.mnt w.base)) oflags rflags cur rem links) =
      toOutP (presolve w (pcfg oflags rflags) cur rem links) := by
  induction cur, rem, links using Procfs.opathLoop.induct with
  | case1 cur links => rw [p_nil, Procfs.opathLoop]; rfl
  | case2 cur links part0 rest part hd =>
    exfalso
    have hd' : (if part0 = [] then Path.dot else part0) = Path.dotdot := hd
    split at hd'
    · revert hd'; decide
    · exact hdd (hd' ▸ List.mem_cons_self)
  | case3 cur links part0 rest part hnd ih2 ih1 =>
    have hp0 : part0 ≠ Path.dotdot := fun h => hdd (h ▸ List.mem_cons_self)
    have hddr : Path.dotdot ∉ rest := fun h => hdd (List.mem_cons_of_mem _ h)
    have hnd' : (if part0 = [] then Path.dot else part0) ≠ Path.dotdot := by
      split
      · decide
      · exact hp0
    have hnil : ∀ nxt : Fd, Prog.prun w (Procfs.opathLoop (some (w.mnt w.base)) oflags rflags nxt [] links) = .ok nxt := by
      intro nxt; rw [Procfs.opathLoop]; rfl
    by_cases hk : w.kind cur = .dir
    · by_cases hdot : part0 = [] ∨ part0 = Path.dot
      · have hpart : (if part0 = [] then Path.dot else part0) = Path.dot := by
          rcases hdot with h | h <;> simp [h]
        have hl : w.lookup cur (if part0 = [] then Path.dot else part0) = .ok cur := by
          rw [hpart]; simp [PWorld.lookup, hk]
        have hnl : isLink (w.kind cur) = false := by rw [hk]; rfl
        rw [loop_step hw _ _ cur cur part0 rest links hc0 hc0 hnd' hl hm, p_dot _ _ _ _ _ hk hdot]
        exact (nonlink_tail (w := w) oflags cur rest _ _ (presolve w (pcfg oflags rflags) cur rest links) hnl
          (fun hr => by rw [hr]; exact hnil cur) (fun _ => ih2 cur hc0 hm hddr)).trans (by rw [hk]; rfl)
      · have hne : part0 ≠ [] := fun h => hdot (Or.inl h)
        have hnd1 : part0 ≠ Path.dot := fun h => hdot (Or.inr h)
        have hpart : (if part0 = [] then Path.dot else part0) = part0 := if_neg hne
        rw [p_name _ _ _ _ _ hk hne hnd1 hp0]
        cases hch : w.child cur part0 with
        | none =>
          have hl : w.lookup cur (if part0 = [] then Path.dot else part0) = .error ENOENT := by
            rw [hpart]; simp [PWorld.lookup, hk, hnd1, hp0, hch]
          rw [loop_fail _ _ _ cur part0 rest links ENOENT hc0 hnd' hl]
          rfl
        | some nxt =>
          have hl : w.lookup cur (if part0 = [] then Path.dot else part0) = .ok nxt := by
            rw [hpart]; simp [PWorld.lookup, hk, hnd1, hp0, hch]
          have hn0 : 0 ≤ nxt := hw.child_nonneg _ _ _ hch
          by_cases hmn : w.mnt nxt = w.mnt cur
          · have hm' : w.mnt nxt = w.mnt w.base := hmn.trans hm
            rw [loop_step hw _ _ cur nxt part0 rest links hc0 hn0 hnd' hl hm']
            simp only [hmn, ne_eq, not_true_eq_false, ↓reduceIte]
            by_cases hlk : isLink (w.kind nxt) = true
            · rw [link_tail oflags hfl nxt rest _ _ hlk]
              simp only [hlk, ↓reduceIte]
              have e1 : (pcfg oflags rflags).oflags = oflags := rfl
              have e2 : (pcfg oflags rflags).noSymlinks = hasAll rflags RESOLVE_NO_SYMLINKS := rfl
              have e3 : (pcfg oflags rflags).maxLinks = MAX_SYMLINK_TRAVERSALS := rfl
              rw [e1, e2, e3]
              by_cases htr : rest = [] ∧ hasAll oflags O_NOFOLLOW = true
              · rw [if_pos htr, if_pos htr]
              · rw [if_neg htr, if_neg htr]
                by_cases hns : hasAll rflags RESOLVE_NO_SYMLINKS = true
                · rw [if_pos hns, if_pos hns]; rfl
                · rw [if_neg hns, if_neg hns]
                  rcases isLink_cases hlk with hkl | hkm
                  · have hnm : ¬ w.kind nxt = PKind.magic := by rw [hkl]; decide
                    obtain ⟨_, hrel, _, hbdd⟩ := hw.lnk_body nxt hkl
                    rw [if_neg hnm]
                    by_cases hlim : links + 1 ≥ MAX_SYMLINK_TRAVERSALS
                    · rw [if_pos hlim, if_pos hlim]; rfl
                    · have hab : ¬ Path.isAbsolute (w.body nxt) = true := by rw [hrel]; decide
                      rw [if_neg hlim, if_neg hlim, if_neg hab, if_neg hab]
                      apply ih1 hlim (w.body nxt) hc0 hm
                      intro hmem
                      rcases List.mem_append.mp hmem with h | h
                      · exact hbdd h
                      · exact hddr h
                  · rw [if_pos hkm]
                    have hab : Path.isAbsolute (w.body nxt) = true := (hw.magic_body nxt hkm).1
                    by_cases hlim : links + 1 ≥ MAX_SYMLINK_TRAVERSALS
                    · rw [if_pos hlim]; rfl
                    · rw [if_neg hlim, if_pos hab]; rfl
            · have hnl : isLink (w.kind nxt) = false := by simpa using hlk
              refine (nonlink_tail (w := w) oflags nxt rest _ _ (presolve w (pcfg oflags rflags) nxt rest links) hnl
                (fun hr => by rw [hr]; exact hnil nxt) (fun _ => ih2 nxt hn0 hm' hddr)).trans ?_
              simp only [hnl, Bool.false_eq_true, ↓reduceIte]
              rfl
          · have hmn' : ¬ w.mnt nxt = w.mnt w.base := fun h => hmn (h.trans hm.symm)
            rw [loop_xdev _ _ _ cur nxt part0 rest links hc0 hn0 hnd' hl hmn']
            simp only [hmn, ne_eq, not_false_eq_true, ↓reduceIte]
            rfl
    · have hl : w.lookup cur (if part0 = [] then Path.dot else part0) = .error ENOTDIR := by
        simp [PWorld.lookup, hk]
      rw [loop_fail _ _ _ cur part0 rest links ENOTDIR hc0 hnd' hl, p_notdir _ _ _ _ _ hk]
      rfl

theorem presolve_same_mnt (c : PCfg) (cur : Fd) (rem : List Bytes) (links : Nat) (r : Fd)
    (hm : w.mnt cur = w.mnt w.base) (h : presolve w c cur rem links = .ok r) : w.mnt r = w.mnt w.base := by
  fun_induction presolve w c cur rem links <;> simp_all

/-- **C07**: for every procfs tree with any mounts on top of it, every non-empty sub-path without `..` and every flag
set of the table, the emulated resolver returns exactly what the kernel's confined lookup returns: the same object or
the same errno -/
theorem opathResolve_spec (hw : PWF w) (path : Bytes) (hp : path ≠ []) (hdd : Path.dotdot ∉ Path.rawComponents path)
    (oflags rflags : Nat) (hfl : FlagsOk oflags) :
    Prog.prun w (Procfs.opathResolve w.base path oflags rflags) =
      toOutP (resolveBeneath w { oflags := oflags, noSymlinks := hasAll rflags RESOLVE_NO_SYMLINKS,
                                 maxLinks := MAX_SYMLINK_TRAVERSALS } path) := by
  unfold Procfs.opathResolve resolveBeneath
  by_cases habs : Path.isAbsolute path = true
  · simp only [hp, habs, ↓reduceIte]; rfl
  · simp only [hp, habs, ↓reduceIte, Bool.false_eq_true, M.bind_def, prun_bind'_simp,
      prun_fetchMntId _ hw.base_nonneg, prun_dup]
    exact loop_sim hw oflags rflags hfl w.base _ 0 hw.base_nonneg rfl hdd

/-- **C06**: whatever is mounted wherever, the confined lookup only returns objects on the mount it started on -/
theorem resolveBeneath_same_mnt (c : PCfg) (path : Bytes) (r : Fd) (h : resolveBeneath w c path = .ok r) :
    w.mnt r = w.mnt w.base := by
  unfold resolveBeneath at h
  split at h
  · cases h
  · split at h
    · cases h
    · exact presolve_same_mnt c w.base _ 0 r rfl h

/-- … and so does the emulated resolver -/
theorem opathResolve_same_mnt (hw : PWF w) (path : Bytes) (hp : path ≠ []) (hdd : Path.dotdot ∉ Path.rawComponents path)
    (oflags rflags : Nat) (hfl : FlagsOk oflags) (r : Fd)
    (h : Prog.prun w (Procfs.opathResolve w.base path oflags rflags) = .ok r) : w.mnt r = w.mnt w.base := by
  rw [opathResolve_spec hw path hp hdd oflags rflags hfl] at h
  generalize hr : resolveBeneath w _ path = x at h
  cases x with
  | error e => cases h
  | ok r' => cases h; exact resolveBeneath_same_mnt _ _ _ hr

/-- the kernel resolver is one `openat2` with `RESOLVE_BENEATH|RESOLVE_NO_MAGICLINKS|RESOLVE_NO_XDEV` -/
theorem openat2Resolve_spec (hw : PWF w) (env : Env) (henv : env.openat2 = true) (path : Bytes)
    (hnul : path.contains 0 = false) (oflags rflags : Nat) :
    Prog.prun w (Procfs.openat2Resolve env w.base path oflags rflags) =
      toOutP (resolveBeneath w { oflags := oflags ||| O_CLOEXEC,
                                 noSymlinks := hasAll (RESOLVE_BENEATH ||| RESOLVE_NO_MAGICLINKS ||| RESOLVE_NO_XDEV ||| rflags) RESOLVE_NO_SYMLINKS,
                                 maxLinks := w.kernelLinks } path) := by
  unfold Procfs.openat2Resolve Sys.openat2
  have h0 := KRun.hotfix_tree hw.base_nonneg
  have hperm : RESOLVE_BENEATH ||| RESOLVE_NO_MAGICLINKS ||| RESOLVE_NO_XDEV =
      RESOLVE_BENEATH ||| RESOLVE_NO_XDEV ||| RESOLVE_NO_MAGICLINKS := by decide
  have h1 : hasAll (RESOLVE_BENEATH ||| RESOLVE_NO_MAGICLINKS ||| RESOLVE_NO_XDEV ||| rflags)
      (RESOLVE_BENEATH ||| RESOLVE_NO_XDEV ||| RESOLVE_NO_MAGICLINKS) = true := by
    rw [hperm]; exact hasAll_or_left _ _
  simp only [henv, Bool.not_true, Bool.false_eq_true, ↓reduceIte, hnul, M.bind_def, prun_bind'_simp, prun_do_liftE,
    h0, prun_mcall_simp, PWorld.answer, KRun.toCString_id path hnul, h1, and_self]
  cases resolveBeneath w _ path <;> simp [toOutP]

/-! ## the two resolvers agree -/

/-- a larger link budget changes nothing unless the smaller one was exhausted -/
theorem presolve_limit_mono (c c' : PCfg) (hfl : c'.oflags = c.oflags) (hns : c'.noSymlinks = c.noSymlinks)
    (hle : c.maxLinks ≤ c'.maxLinks) (cur : Fd) (rem : List Bytes) (links : Nat)
    (h : presolve w c cur rem links ≠ .error ELOOP) :
    presolve w c' cur rem links = presolve w c cur rem links := by
  fun_induction presolve w c cur rem links <;> rw [presolve.eq_def] <;> simp_all
  all_goals
    split
    · simp_all
    · split
      · omega
      · rfl

theorem resolveBeneath_limit_mono (c c' : PCfg) (hfl : c'.oflags = c.oflags) (hns : c'.noSymlinks = c.noSymlinks)
    (hle : c.maxLinks ≤ c'.maxLinks) (path : Bytes) (h : resolveBeneath w c path ≠ .error ELOOP) :
    resolveBeneath w c' path = resolveBeneath w c path := by
  unfold resolveBeneath at h ⊢
  split
  · rfl
  · rename_i hp
    rw [if_neg hp] at h
    split
    · rfl
    · rename_i ha
      rw [if_neg ha] at h
      exact presolve_limit_mono c c' hfl hns hle _ _ _ h

/-- the specification looks at the open flags only through `O_NOFOLLOW` and `openKind` -/
theorem presolve_oflags_congr (c c' : PCfg) (hns : c'.noSymlinks = c.noSymlinks) (hml : c'.maxLinks = c.maxLinks)
    (hnf : hasAll c'.oflags O_NOFOLLOW = hasAll c.oflags O_NOFOLLOW)
    (hok : ∀ k, openKind k c'.oflags = openKind k c.oflags) (cur : Fd) (rem : List Bytes) (links : Nat) :
    presolve w c' cur rem links = presolve w c cur rem links := by
  fun_induction presolve w c cur rem links <;> rw [presolve.eq_def] <;> simp_all
  all_goals
    split
    · simp_all
    · split
      · omega
      · rfl

theorem resolveBeneath_oflags_congr (c c' : PCfg) (hns : c'.noSymlinks = c.noSymlinks) (hml : c'.maxLinks = c.maxLinks)
    (hnf : hasAll c'.oflags O_NOFOLLOW = hasAll c.oflags O_NOFOLLOW)
    (hok : ∀ k, openKind k c'.oflags = openKind k c.oflags) (path : Bytes) :
    resolveBeneath w c' path = resolveBeneath w c path := by
  unfold resolveBeneath
  rw [presolve_oflags_congr c c' hns hml hnf hok]

theorem hasAll_or_left_disj (c r m : Nat) (h : c &&& m = 0) : hasAll (c ||| r) m = hasAll r m := by
  simp [hasAll, Nat.and_or_distrib_right, h]

/-- **C07, both resolvers**: the emulated procfs resolver and the kernel one (`openat2` with
`RESOLVE_BENEATH|RESOLVE_NO_MAGICLINKS|RESOLVE_NO_XDEV`) return the same object or the same errno, unless the kernel ran
out of its link budget -/
theorem resolvers_agree (hw : PWF w) (env : Env) (henv : env.openat2 = true) (path : Bytes) (hp : path ≠ [])
    (hnul : path.contains 0 = false) (hdd : Path.dotdot ∉ Path.rawComponents path) (oflags rflags : Nat)
    (hfl : FlagsOk oflags) (hlinks : w.kernelLinks ≤ MAX_SYMLINK_TRAVERSALS)
    (h : resolveBeneath w { oflags := oflags, noSymlinks := hasAll rflags RESOLVE_NO_SYMLINKS,
                            maxLinks := w.kernelLinks } path ≠ .error ELOOP) :
    Prog.prun w (Procfs.opathResolve w.base path oflags rflags)
      = Prog.prun w (Procfs.openat2Resolve env w.base path oflags rflags) := by
  rw [opathResolve_spec hw path hp hdd oflags rflags hfl, openat2Resolve_spec hw env henv path hnul oflags rflags]
  have hns : hasAll (RESOLVE_BENEATH ||| RESOLVE_NO_MAGICLINKS ||| RESOLVE_NO_XDEV ||| rflags) RESOLVE_NO_SYMLINKS =
      hasAll rflags RESOLVE_NO_SYMLINKS := hasAll_or_left_disj _ _ _ (by decide)
  have h1 := resolveBeneath_limit_mono (w := w)
    { oflags := oflags, noSymlinks := hasAll rflags RESOLVE_NO_SYMLINKS, maxLinks := w.kernelLinks }
    { oflags := oflags, noSymlinks := hasAll rflags RESOLVE_NO_SYMLINKS, maxLinks := MAX_SYMLINK_TRAVERSALS }
    rfl rfl hlinks path h
  have h2 := resolveBeneath_oflags_congr (w := w)
    { oflags := oflags, noSymlinks := hasAll rflags RESOLVE_NO_SYMLINKS, maxLinks := w.kernelLinks }
    { oflags := oflags ||| O_CLOEXEC,
      noSymlinks := hasAll (RESOLVE_BENEATH ||| RESOLVE_NO_MAGICLINKS ||| RESOLVE_NO_XDEV ||| rflags) RESOLVE_NO_SYMLINKS,
      maxLinks := w.kernelLinks }
    hns rfl (hasAll_or_right_disj _ _ _ (by decide))
    (fun k => openKind_or k oflags O_CLOEXEC (by decide) (by decide) (by decide) (by decide)) path
  rw [h1, h2]

/-! ## non-vacuity: a procfs tree with over-mounts, symlinks and magic-links satisfies `PWF` -/

/-- `/proc` with `self -> 100`, `net -> self/net`, `mounts -> self/mounts`, the magic-links `100/exe`, `100/cwd`,
`100/fd/3`, and other mounts on top of `uptime` and `fs` -/
def exampleWorld : PWorld :=
  { base := 10
    kind := fun d =>
      if d ∈ [10, 14, 20, 30, 34] then .dir else if d ∈ [12, 28, 38] then .lnk
      else if d ∈ [18, 22, 24] then .magic else .other
    child := fun d n =>
      if d = 10 then
        (if n = b!"self" then some 12 else if n = b!"100" then some 14 else if n = b!"uptime" then some 26
         else if n = b!"net" then some 28 else if n = b!"fs" then some 34 else if n = b!"mounts" then some 38
         else if n = b!"cpuinfo" then some 42 else none)
      else if d = 14 then
        (if n = b!"status" then some 16 else if n = b!"exe" then some 18 else if n = b!"fd" then some 20
         else if n = b!"cwd" then some 24 else if n = b!"net" then some 30 else if n = b!"mounts" then some 40
         else none)
      else if d = 20 then (if n = b!"3" then some 22 else none)
      else if d = 30 then (if n = b!"dev" then some 32 else none)
      else if d = 34 then (if n = b!"x" then some 36 else none)
      else none
    parent := fun d => if d = 14 ∨ d = 34 then 10 else if d = 20 ∨ d = 30 then 14 else 10
    body := fun d =>
      if d = 12 then b!"100" else if d = 28 then b!"self/net" else if d = 38 then b!"self/mounts"
      else if d = 18 then b!"/usr/bin/x" else if d = 24 then b!"/tmp" else b!"/proc/100/fd/pipe"
    mnt := fun d => if d = 26 ∨ d = 34 ∨ d = 36 then 2 else 1
    kernelLinks := 40 }

theorem exampleWorld_wf : PWF exampleWorld where
  base_nonneg := by decide
  base_dir := by decide
  child_nonneg := by
    intro d n c h
    simp only [exampleWorld] at h
    repeat' split at h
    all_goals first | (cases h; decide) | cases h
  lnk_body := by
    intro l h
    have hl : l = 12 ∨ l = 28 ∨ l = 38 := by
      simp only [exampleWorld] at h
      split at h
      · cases h
      · split at h
        · rename_i hm; simpa using hm
        · split at h <;> cases h
    rcases hl with rfl | rfl | rfl <;> decide
  magic_body := by
    intro l h
    have hl : l = 18 ∨ l = 22 ∨ l = 24 := by
      simp only [exampleWorld] at h
      split at h
      · cases h
      · split at h
        · cases h
        · split at h
          · rename_i hm; simpa using hm
          · cases h
    rcases hl with rfl | rfl | rfl <;> decide

/-- the hypotheses of the main theorem are satisfiable: `net/dev` (through two symlinks) with `O_PATH|O_NOFOLLOW` -/
example :
    Prog.prun exampleWorld (Procfs.opathResolve exampleWorld.base b!"net/dev" (O_PATH ||| O_NOFOLLOW) 0) =
      toOutP (resolveBeneath exampleWorld { oflags := O_PATH ||| O_NOFOLLOW, noSymlinks := hasAll 0 RESOLVE_NO_SYMLINKS,
                                            maxLinks := MAX_SYMLINK_TRAVERSALS } b!"net/dev") :=
  opathResolve_spec exampleWorld_wf _ (by decide) (by decide) _ _ (Or.inl (by decide))

end KProc
