import Pathrs.Proofs.KProc

/-!
# `ProcfsHandle::open`, `open_follow` and `reopen` on a procfs tree with mounts (`PWorld`)

`KProc.lean` proves that the two resolvers compute `PWorld.resolveBeneath`.  Here the layers above them are run on
the same worlds: `open_base` + the verified lookup below it (`ProcfsHandle::open`, emulated resolver, a handle that is
not masked), and the following half of `open_follow` — whose last step is the library's only `openat` that lets the
kernel follow a link.  The result: on *every* tree and *every* mount layout, a successful `open_follow`
returns what the final link leads to, where that link is an entry, on the handle's own mount, of a directory on the
handle's own mount.  An object that was mounted over any component, or over the link itself, is never returned.
-/

open K PWorld KProc

namespace KProcOpen

variable {w : PWorld}

/-- the same tree seen from another starting directory -/
def rebase (w : PWorld) (d : Fd) : PWorld := { w with base := d }

/-- the kernel's answers do not depend on where lookups of the world "start" -/
theorem answer_rebase (w : PWorld) (d : Fd) : (rebase w d).answer = w.answer := by
  funext c; cases c <;> rfl

theorem prun_rebase {α : Type} (w : PWorld) (d : Fd) (p : Prog α) : Prog.prun (rebase w d) p = Prog.prun w p := by
  induction p with
  | ret a => rfl
  | call c k ih =>
    show Prog.prun (rebase w d) (k ((rebase w d).answer c)) = Prog.prun w (k (w.answer c))
    rw [answer_rebase]; exact ih _

theorem PWF.rebase (hw : PWF w) (d : Fd) (hd : 0 ≤ d) (hk : w.kind d = .dir) : PWF (rebase w d) :=
  ⟨hd, hk, hw.child_nonneg, hw.lnk_body, hw.magic_body⟩

/-- the handle whose root is the world's base directory: its mount id is known, it is not masked, it uses the
emulated resolver -/
def handleOf (w : PWorld) : ProcH := { fd := w.base, mntId := some (w.mnt w.base), isSubset := false, emulated := true }

def ecfgP (oflags : Nat) : PCfg := { oflags := oflags, noSymlinks := false, maxLinks := MAX_SYMLINK_TRAVERSALS }

/-- specification of `ProcfsHandle::open(base, sub, oflags)`: the confined lookup of the base directory from the
handle's root, then the confined no-follow lookup of the sub-path from there -/
def openSpec (w : PWorld) (bp sub : Bytes) (oflags : Nat) : Except Nat Fd :=
  match resolveBeneath w (ecfgP (O_PATH ||| O_DIRECTORY)) bp with
  | .error e => .error e
  | .ok b => resolveBeneath (rebase w b) (ecfgP (oflags ||| O_NOFOLLOW)) sub

/-- what the kernel does with the one following `openat(d, name, flags)` (no `O_NOFOLLOW`) -/
def followOpen (w : PWorld) (d : Fd) (name : Bytes) (fl : Nat) : Except Nat Fd :=
  match w.lookup d name with
  | .error e => .error e
  | .ok c =>
    if hasAll fl O_NOFOLLOW || !isLink (w.kind c) then
      (match openKind (w.kind c) fl with | .ok () => .ok c | .error e => .error e)
    else
      match (if w.kind c = .magic then (match w.target c with | some t => .ok t | none => .error ENOENT)
             else w.follow c) with
      | .ok t => (match openKind (w.kind t) fl with | .ok () => .ok t | .error e => .error e)
      | .error e => .error e

/-- specification of the following half of `open_follow` -/
def followSpec (w : PWorld) (bp parent trailing : Bytes) (fl : Nat) : Except Nat Fd :=
  match openSpec w bp parent (O_PATH ||| O_DIRECTORY) with
  | .error e => .error e
  | .ok d =>
    match w.lookup d trailing with
    | .error e => .error e
    | .ok l => if w.mnt l ≠ w.mnt d then .error EXDEV else followOpen w d trailing (fl ||| O_CLOEXEC ||| O_NOCTTY)

/-! ## what a confined lookup returns -/

theorem splitSlash_ne_nil (p : Bytes) : Path.splitSlash p ≠ [] := by
  cases p with
  | nil => simp [Path.splitSlash]
  | cons c rest =>
    rw [Path.splitSlash]
    split
    · simp
    · split <;> simp

theorem openKind_ok_dir (k : PKind) (fl : Nat) (hd : hasAll fl O_DIRECTORY = true) (h : openKind k fl = .ok ()) :
    k = .dir := by
  cases k <;> simp [openKind, hd] at h ⊢

theorem match_ok_iff (x : Except Nat Unit) (a r : Fd) :
    (match x with | .ok () => (.ok a : Except Nat Fd) | .error e => .error e) = .ok r ↔ x = .ok () ∧ a = r := by
  cases x with
  | error e => simp
  | ok u => cases u; simp

theorem presolve_nonneg_dir (hw : PWF w) (c : PCfg) (cur : Fd) (rem : List Bytes) (links : Nat) (r : Fd)
    (hc : 0 ≤ cur) (hdd : Path.dotdot ∉ rem) (h : presolve w c cur rem links = .ok r) :
    0 ≤ r ∧ (rem ≠ [] → hasAll c.oflags O_DIRECTORY = true → w.kind r = .dir) := by
  fun_induction presolve w c cur rem links
  case case13 =>
    cases h
    exact ⟨hw.child_nonneg _ _ _ (by assumption), fun _ hd => openKind_ok_dir _ _ hd (by assumption)⟩
  case case20 =>
    cases h
    exact ⟨hw.child_nonneg _ _ _ (by assumption), fun _ hd => openKind_ok_dir _ _ hd (by assumption)⟩
  case case22 =>
    rename_i ih
    obtain ⟨h1, h2⟩ := ih (hw.child_nonneg _ _ _ (by assumption)) (fun hm => hdd (List.mem_cons_of_mem _ hm)) h
    exact ⟨h1, fun _ => h2 (by assumption)⟩
  case case19 =>
    rename_i nxt _ _ hlk _ _ hnm _ _ ih
    have hkl : w.kind nxt = .lnk := by
      rcases isLink_cases hlk with h | h
      · exact h
      · exact absurd h hnm
    have hb := (hw.lnk_body nxt hkl).2.2.2
    have hne : ∀ l : List Bytes, Path.rawComponents (w.body nxt) ++ l ≠ [] := by
      intro l h0
      exact splitSlash_ne_nil _ (List.append_eq_nil_iff.mp h0).1
    obtain ⟨h1, h2⟩ := ih hc (by
      intro hm
      rcases List.mem_append.mp hm with h' | h'
      · exact hb h'
      · exact hdd (List.mem_cons_of_mem _ h')) h
    exact ⟨h1, fun _ => h2 (hne _)⟩
  all_goals simp_all

/-- without `..` in the path (link bodies never contain one, `PWF.lnk_body`), a confined lookup only ever returns the
starting directory or a `child`, hence a non-negative number; and `O_DIRECTORY` makes the final `open` refuse everything
but a directory -/
theorem resolveBeneath_nonneg_dir (hw : PWF w) (c : PCfg) (path : Bytes)
    (hdd : Path.dotdot ∉ Path.rawComponents path) (r : Fd) (h : resolveBeneath w c path = .ok r) :
    0 ≤ r ∧ (hasAll c.oflags O_DIRECTORY = true → w.kind r = .dir) := by
  unfold resolveBeneath at h
  split at h
  · cases h
  · split at h
    · cases h
    · obtain ⟨h1, h2⟩ := presolve_nonneg_dir hw c w.base _ 0 r hw.base_nonneg hdd h
      exact ⟨h1, h2 (splitSlash_ne_nil _)⟩

/-- a confined lookup that asks for a directory returns a directory with a non-negative number.

The hypothesis `hdd` (no `..` component in the path) is **not in the original statement and is needed**: a `..` step
returns `w.parent cur`, and `PWF` says nothing about `parent` — neither that it is non-negative nor that it is a
directory.  Counterexample without it: `base = 0`, `kind 0 = kind 1 = dir`, `child 0 "a" = some 1`, `parent 1 = -5`,
one mount, no links (`PWF` holds); then `resolveBeneath w ⟨O_PATH|O_DIRECTORY, false, 128⟩ "a/.."` is `.ok (-5)`
(the last step only runs `openKind .dir`, it does not look at `kind (-5)`), and `-5 < 0`.  The two users of this lemma
have the hypothesis at hand: the base paths `.`, `self`, `thread-self` have no `..`, and the theorems about sub-paths
assume it (as `opathResolve_spec` does, because the emulated resolver refuses `..` outright). -/
theorem resolveBeneath_dir (hw : PWF w) (c : PCfg) (hdir : hasAll c.oflags O_DIRECTORY = true) (path : Bytes)
    (hdd : Path.dotdot ∉ Path.rawComponents path) (r : Fd)
    (h : resolveBeneath w c path = .ok r) : 0 ≤ r ∧ w.kind r = .dir :=
  let ⟨h1, h2⟩ := resolveBeneath_nonneg_dir hw c path hdd r h
  ⟨h1, h2 hdir⟩

/-- the base directory of `/proc/self` and `/proc` lookups; for `thread-self` the existence probe of the first
candidate must succeed on this world (hypothesis of the theorems below) -/
def basePath : Procfs.Base → Bytes
  | .root => Path.dot
  | .self => b!"self"
  | .threadSelf => b!"thread-self"

theorem basePath_ok (base : Procfs.Base) : basePath base ≠ [] ∧ Path.dotdot ∉ Path.rawComponents (basePath base) := by
  cases base <;> decide

/-! ## the layers of `ProcfsHandle::open` on a world -/

theorem prun_fstatfs (d : Fd) (hd : 0 ≤ d) : Prog.prun w (Sys.fstatfs d) = .ok PROC_SUPER_MAGIC := by
  unfold Sys.fstatfs
  simp [KRun.hotfix_tree hd, PWorld.answer]

theorem prun_verifyIsProcfs (d : Fd) (hd : 0 ≤ d) : Prog.prun w (Procfs.verifyIsProcfs d) = .ok () := by
  unfold Procfs.verifyIsProcfs
  simp [prun_fstatfs d hd]

theorem prun_verifySameProcfsMnt (d : Fd) (hd : 0 ≤ d) (hm : w.mnt d = w.mnt w.base) :
    Prog.prun w (Procfs.verifySameProcfsMnt (handleOf w) d) = .ok () := by
  unfold Procfs.verifySameProcfsMnt handleOf
  simp only [M.bind_def, prun_bind'_simp, prun_verifySameMnt _ d hd, hm, ↓reduceIte, prun_verifyIsProcfs d hd]

/-- OR-ing `O_NOFOLLOW` adds no creation flag -/
theorem creation_or_nofollow (fl : Nat) :
    (hasAny (fl ||| O_NOFOLLOW) (O_CREAT ||| O_EXCL) || hasAll (fl ||| O_NOFOLLOW) O_TMPFILE) =
      (hasAny fl (O_CREAT ||| O_EXCL) || hasAll fl O_TMPFILE) := by
  have h1 : (fl ||| O_NOFOLLOW) &&& (O_CREAT ||| O_EXCL) = fl &&& (O_CREAT ||| O_EXCL) := by
    rw [Nat.and_or_distrib_right]
    have : O_NOFOLLOW &&& (O_CREAT ||| O_EXCL) = 0 := by decide
    rw [this, Nat.or_zero]
  unfold hasAny
  rw [h1, hasAll_or_right_disj _ _ _ (by decide)]

/-- the emulated resolver started at any directory `b` of the tree -/
theorem prun_resolve_at (hw : PWF w) (env : Env) (b : Fd) (hb : 0 ≤ b) (hk : w.kind b = .dir) (path : Bytes)
    (hp : path ≠ []) (hdd : Path.dotdot ∉ Path.rawComponents path) (oflags : Nat) (hfl : FlagsOk oflags)
    (hcf : (hasAny oflags (O_CREAT ||| O_EXCL) || hasAll oflags O_TMPFILE) = false) :
    Prog.prun w (Procfs.resolve env true b path oflags 0) = toOutP (resolveBeneath (rebase w b) (ecfgP oflags) path) := by
  unfold Procfs.resolve
  simp only [hcf, Bool.false_eq_true, ↓reduceIte]
  exact (prun_rebase w b _).symm.trans
    (opathResolve_spec (w := rebase w b) (PWF.rebase hw b hb hk) path hp hdd oflags 0 hfl)

/-- the verified lookup from a directory `b` on the handle's mount -/
theorem prun_lookupVerified (hw : PWF w) (env : Env) (b : Fd) (hb : 0 ≤ b) (hk : w.kind b = .dir)
    (hmb : w.mnt b = w.mnt w.base) (path : Bytes)
    (hp : path ≠ []) (hdd : Path.dotdot ∉ Path.rawComponents path) (oflags : Nat) (hfl : FlagsOk oflags)
    (hcf : (hasAny oflags (O_CREAT ||| O_EXCL) || hasAll oflags O_TMPFILE) = false) :
    Prog.prun w (Procfs.lookupVerified env (handleOf w) b path oflags) =
      toOutP (resolveBeneath (rebase w b) (ecfgP oflags) path) := by
  unfold Procfs.lookupVerified
  have he : (handleOf w).emulated = true := rfl
  simp only [M.bind_def, prun_bind'_simp, he, prun_resolve_at hw env b hb hk path hp hdd oflags hfl hcf,
    prun_onErr_simp]
  generalize hr : resolveBeneath (rebase w b) (ecfgP oflags) path = x
  cases x with
  | error e => rfl
  | ok fd =>
    have h0 := (resolveBeneath_nonneg_dir (PWF.rebase hw b hb hk) _ path hdd fd hr).1
    have hm : w.mnt fd = w.mnt w.base := (resolveBeneath_same_mnt (w := rebase w b) _ path fd hr).trans hmb
    simp only [toOutP, prun_verifySameProcfsMnt fd h0 hm, prun_do_pure]

theorem prun_openBase (hw : PWF w) (env : Env) (base : Procfs.Base)
    (hprobe : Prog.prun w (Procfs.intoPath base w.base) = .ok (basePath base)) :
    Prog.prun w (Procfs.openBase env (handleOf w) base) =
      toOutP (resolveBeneath w (ecfgP (O_PATH ||| O_DIRECTORY)) (basePath base)) := by
  have h : Procfs.openBase env (handleOf w) base = M.bind' (Procfs.intoPath base w.base) fun path =>
      Procfs.lookupVerified env (handleOf w) w.base path (O_PATH ||| O_DIRECTORY) := rfl
  rw [h, prun_mbind, hprobe]
  exact prun_lookupVerified hw env w.base hw.base_nonneg hw.base_dir rfl (basePath base) (basePath_ok base).1
    (basePath_ok base).2 (O_PATH ||| O_DIRECTORY) (Or.inr (Or.inl (hasAll_or_left _ _))) (by decide)

/-- `ProcfsHandle::open` on a world, for a handle that is not masked, with the emulated resolver: the specification.
(`hprobe`: the base path is what `into_path` yields on this world — trivially true for `root` and `self`.) -/
theorem prun_openH (hw : PWF w) (env : Env) (base : Procfs.Base) (sub : Bytes) (oflags : Nat) (fuel : Nat)
    (hprobe : Prog.prun w (Procfs.intoPath base w.base) = .ok (basePath base))
    (hsub : sub ≠ []) (hdd : Path.dotdot ∉ Path.rawComponents sub)
    (hcf : (hasAny oflags (O_CREAT ||| O_EXCL) || hasAll oflags O_TMPFILE) = false) :
    Prog.prun w (Procfs.openH env (fuel + 1) (handleOf w) base sub oflags) =
      toOutP (openSpec w (basePath base) sub oflags) := by
  rw [Procfs.openH]
  unfold Procfs.openStep openSpec
  have hsb : (handleOf w).isSubset = false := rfl
  simp only [M.bind_def, prun_bind'_simp, prun_openBase hw env base hprobe]
  generalize hr : resolveBeneath w (ecfgP (O_PATH ||| O_DIRECTORY)) (basePath base) = x
  cases x with
  | error e => rfl
  | ok b =>
    obtain ⟨hb, hk⟩ := resolveBeneath_dir hw _ (by rw [Nat.or_comm]; exact hasAll_or_left _ _) _ (basePath_ok base).2 b hr
    have hmb := resolveBeneath_same_mnt _ _ _ hr
    have hlv := prun_lookupVerified hw env b hb hk hmb sub hsub hdd (oflags ||| O_NOFOLLOW)
      (Or.inl (by rw [Nat.or_comm]; exact hasAll_or_left _ _)) ((creation_or_nofollow oflags).trans hcf)
    simp only [toOutP, prun_try_simp, hlv]
    cases resolveBeneath (rebase w b) (ecfgP (oflags ||| O_NOFOLLOW)) sub with
    | error e =>
      simp only [Err.isFatal, Bool.false_eq_true, ↓reduceIte, hsb, false_and, prun_bind'_simp, prun_do_liftP,
        prun_do_throw]
    | ok fd =>
      simp only [prun_bind'_simp, prun_do_liftP, prun_do_pure]

/-! ## the following half of `open_follow` -/

theorem lookup_err (d : Fd) (n : Bytes) (e : Nat) (h : w.lookup d n = .error e) : e = ENOTDIR ∨ e = ENOENT := by
  unfold PWorld.lookup at h
  split at h
  · cases h; exact Or.inl rfl
  · split at h
    · cases h
    · split at h
      · cases h
      · split at h
        · cases h
        · cases h; exact Or.inr rfl

theorem prun_statx_name (d : Fd) (hd : 0 ≤ d) (n : Bytes) (hn : n ≠ []) :
    Prog.prun w (Sys.statx d n STATX_WANT) =
      match w.lookup d n with
      | .ok c => .ok (STATX_WANT, w.mnt c)
      | .error e => .error (.os e) := by
  unfold Sys.statx
  simp only [M.bind_def, prun_bind'_simp, prun_do_liftE, KRun.hotfix_tree hd, prun_mcall_simp, PWorld.answer, hn,
    ↓reduceIte]
  cases w.lookup d n with
  | error e => simp
  | ok c => simp

theorem prun_fetchMntId_name (d : Fd) (hd : 0 ≤ d) (n : Bytes) (hn : n ≠ []) :
    Prog.prun w (Procfs.fetchMntId d n) =
      match w.lookup d n with
      | .ok c => .ok (some (w.mnt c))
      | .error e => .error (.os e) := by
  unfold Procfs.fetchMntId
  have hW : hasAny STATX_WANT STATX_WANT = true := by decide
  simp only [M.bind_def, prun_bind'_simp, prun_try_simp, prun_statx_name d hd n hn]
  cases hl : w.lookup d n with
  | ok c => simp [hW]
  | error e =>
    have hne : ¬ (e = ENOSYS ∨ e = EINVAL) := by
      rcases lookup_err d n e hl with h | h <;> rw [h] <;> decide
    simp [Err.isFatal, hne]

def respOf : Except Nat Fd → Resp
  | .ok c => .fd c
  | .error e => .err e

theorem answer_openat (d : Fd) (n : Bytes) (fl mode : Nat) :
    w.answer (.openat d n fl mode) = respOf (followOpen w d n fl) := by
  unfold followOpen
  simp only [PWorld.answer]
  cases w.lookup d n with
  | error e => rfl
  | ok c =>
    simp only []
    by_cases hc : (hasAll fl O_NOFOLLOW || !isLink (w.kind c)) = true
    · simp only [hc, ↓reduceIte]
      cases openKind (w.kind c) fl <;> rfl
    · simp only [hc]
      generalize (if w.kind c = PKind.magic then
          (match w.target c with | some t => (Except.ok t : Except Nat Fd) | none => Except.error ENOENT)
          else w.follow c) = y
      cases y with
      | error e => rfl
      | ok t => simp only []; cases openKind (w.kind t) fl <;> rfl

theorem prun_openatFollow (d : Fd) (hd : 0 ≤ d) (n : Bytes) (fl mode : Nat) :
    Prog.prun w (Sys.openatFollow d n fl mode) = toOutP (followOpen w d n (fl ||| O_CLOEXEC ||| O_NOCTTY)) := by
  unfold Sys.openatFollow
  simp only [M.bind_def, prun_bind'_simp, prun_do_liftE, KRun.hotfix_tree hd, prun_mcall_simp, answer_openat]
  cases followOpen w d n (fl ||| O_CLOEXEC ||| O_NOCTTY) with
  | error e => simp [respOf, toOutP]
  | ok t => simp [respOf, toOutP]

theorem openSpec_ok (_hw : PWF w) (bp sub : Bytes) (oflags : Nat) (d : Fd) (h : openSpec w bp sub oflags = .ok d) :
    ∃ b, resolveBeneath w (ecfgP (O_PATH ||| O_DIRECTORY)) bp = .ok b ∧ w.mnt b = w.mnt w.base ∧
      resolveBeneath (rebase w b) (ecfgP (oflags ||| O_NOFOLLOW)) sub = .ok d ∧ w.mnt d = w.mnt w.base := by
  unfold openSpec at h
  generalize hr : resolveBeneath w (ecfgP (O_PATH ||| O_DIRECTORY)) bp = x at h
  cases x with
  | error e => cases h
  | ok b =>
    have hmb := resolveBeneath_same_mnt _ _ _ hr
    exact ⟨b, rfl, hmb, h, (resolveBeneath_same_mnt (w := rebase w b) _ _ _ h).trans hmb⟩

/-- the following half of `open_follow` on a world -/
theorem prun_openFollowTail (hw : PWF w) (env : Env) (base : Procfs.Base) (sub parent trailing : Bytes) (fl : Nat)
    (hprobe : Prog.prun w (Procfs.intoPath base w.base) = .ok (basePath base))
    (hsplit : Path.pathSplit sub = .ok (parent, some trailing)) (htr : trailing ≠ [])
    (hpar : parent ≠ []) (hdd : Path.dotdot ∉ Path.rawComponents parent) :
    Prog.prun w (Procfs.openFollowTail env (handleOf w) base sub fl) =
      toOutP (followSpec w (basePath base) parent trailing fl) := by
  unfold Procfs.openFollowTail followSpec
  have hfuel : Procfs.retryFuel = 63 + 1 := rfl
  simp only [M.bind_def, prun_bind'_simp, prun_do_monadLiftE, hsplit, hfuel,
    prun_openH hw env base parent (O_PATH ||| O_DIRECTORY) 63 hprobe hpar hdd (by decide)]
  generalize hs : openSpec w (basePath base) parent (O_PATH ||| O_DIRECTORY) = x
  cases x with
  | error e => rfl
  | ok d =>
    obtain ⟨b, hrb, hmb, hrd, hmd⟩ := openSpec_ok hw _ _ _ _ hs
    obtain ⟨hb, hkb⟩ := resolveBeneath_dir hw _ (by rw [Nat.or_comm]; exact hasAll_or_left _ _) _ (basePath_ok base).2 b hrb
    obtain ⟨hd, hkd⟩ := resolveBeneath_dir (PWF.rebase hw b hb hkb) _
      (show hasAll (O_PATH ||| O_DIRECTORY ||| O_NOFOLLOW) O_DIRECTORY = true by decide) _ hdd d hrd
    simp only [toOutP, prun_onErr_simp, prun_fetchMntId d hd]
    unfold Procfs.verifySameMnt
    simp only [M.bind_def, prun_bind'_simp, prun_fetchMntId_name d hd trailing htr]
    cases hl : w.lookup d trailing with
    | error e => rfl
    | ok l =>
      simp only []
      by_cases hm : w.mnt l = w.mnt d
      · simp only [hm, ne_eq, not_true_eq_false, ↓reduceIte, prun_do_pure, prun_try_simp,
          prun_openatFollow d hd]
        cases followOpen w d trailing (fl ||| O_CLOEXEC ||| O_NOCTTY) with
        | error e => simp [toOutP, Err.isFatal]
        | ok t => simp [toOutP]
      · have hm' : some (w.mnt d) ≠ some (w.mnt l) := by
          intro h; injection h with h; exact hm h.symm
        simp only [hm, hm', ne_eq, not_false_eq_true, ↓reduceIte, prun_do_throw]

/-- **Whatever is mounted wherever**: what the following half of `open_follow` returns is reached through a link `l`
that is an entry of a directory `d`, both on the handle's own mount — never through anything that was mounted over a
component of the path or over the link itself; and when `l` is a magic-link, the result is its target. -/
theorem follow_result_on_own_mount (hw : PWF w) (bp parent trailing : Bytes) (fl : Nat) (o : Fd)
    (h : followSpec w bp parent trailing fl = .ok o) :
    ∃ d l, w.mnt d = w.mnt w.base ∧ w.lookup d trailing = .ok l ∧ w.mnt l = w.mnt w.base ∧
      (hasAll fl O_NOFOLLOW = false → w.kind l = .magic → w.target l = some o) ∧
      (isLink (w.kind l) = false → o = l) := by
  unfold followSpec at h
  generalize hs : openSpec w bp parent (O_PATH ||| O_DIRECTORY) = x at h
  cases x with
  | error e => cases h
  | ok d =>
    obtain ⟨b, _, _, _, hmd⟩ := openSpec_ok hw _ _ _ _ hs
    simp only [] at h
    generalize hl : w.lookup d trailing = y at h
    cases y with
    | error e => cases h
    | ok l =>
      simp only [] at h
      by_cases hm : w.mnt l = w.mnt d
      · simp only [hm, ne_eq, not_true_eq_false, ↓reduceIte] at h
        refine ⟨d, l, hmd, hl, hm.trans hmd, ?_, ?_⟩
        · intro hnf hk
          have hnf' : hasAll (fl ||| O_CLOEXEC ||| O_NOCTTY) O_NOFOLLOW = false := by
            rw [hasAll_or_right_disj _ _ _ (by decide), hasAll_or_right_disj _ _ _ (by decide)]; exact hnf
          unfold followOpen at h
          have hlk : isLink PKind.magic = true := rfl
          simp only [hl, hnf', hk, hlk, Bool.not_true, Bool.or_self, Bool.false_eq_true, ↓reduceIte] at h
          cases ht : w.target l with
          | none => rw [ht] at h; cases h
          | some t =>
            rw [ht] at h
            simp only [] at h
            rw [match_ok_iff] at h
            rw [h.2]
        · intro hk
          unfold followOpen at h
          simp only [hl, hk, Bool.not_false, Bool.or_true, ↓reduceIte] at h
          rw [match_ok_iff] at h
          exact h.2.symm
      · simp only [hm, ne_eq, not_false_eq_true, ↓reduceIte] at h
        cases h

/-! ## non-vacuity -/

/-- `KProc.exampleWorld` in which the magic-link `100/fd/3` (object 22) leads to an object 50 that is not part of the
procfs tree -/
def exampleWorldT : PWorld := { exampleWorld with target := fun d => if d = 22 then some 50 else none }

theorem exampleWorldT_wf : PWF exampleWorldT :=
  ⟨exampleWorld_wf.base_nonneg, exampleWorld_wf.base_dir, exampleWorld_wf.child_nonneg, exampleWorld_wf.lnk_body,
    exampleWorld_wf.magic_body⟩

example : followSpec exampleWorldT b!"self" b!"fd" b!"3" O_RDONLY = .ok 50 := by
  have h1 : resolveBeneath exampleWorldT (ecfgP (O_PATH ||| O_DIRECTORY)) b!"self" = .ok 14 := by
    unfold resolveBeneath
    rw [if_neg (by decide), if_neg (by decide)]
    show presolve exampleWorldT _ 10 [b!"self"] 0 = _
    rw [p_name _ _ _ _ _ (by decide) (by decide) (by decide) (by decide)]
    have hc : exampleWorldT.child 10 b!"self" = some 12 := by decide
    rw [hc]
    simp only []
    rw [if_neg (by decide), if_pos (by decide), if_neg (by decide), if_neg (by decide), if_neg (by decide),
      if_neg (by decide), if_neg (by decide)]
    show presolve exampleWorldT _ 10 [b!"100"] 1 = _
    rw [p_name _ _ _ _ _ (by decide) (by decide) (by decide) (by decide)]
    have hc : exampleWorldT.child 10 b!"100" = some 14 := by decide
    rw [hc]
    simp only []
    rw [if_neg (by decide), if_neg (by decide), if_pos trivial]
    rfl
  have h2 : resolveBeneath (rebase exampleWorldT 14) (ecfgP (O_PATH ||| O_DIRECTORY ||| O_NOFOLLOW)) b!"fd" = .ok 20 := by
    unfold resolveBeneath
    rw [if_neg (by decide), if_neg (by decide)]
    show presolve (rebase exampleWorldT 14) _ 14 [b!"fd"] 0 = _
    rw [p_name _ _ _ _ _ (by decide) (by decide) (by decide) (by decide)]
    have hc : (rebase exampleWorldT 14).child 14 b!"fd" = some 20 := by decide
    rw [hc]
    simp only []
    rw [if_neg (by decide), if_neg (by decide), if_pos trivial]
    rfl
  unfold followSpec openSpec
  rw [h1]
  simp only []
  rw [h2]
  rfl

example (env : Env) :
    Prog.prun exampleWorldT (Procfs.openFollowTail env (handleOf exampleWorldT) .self b!"fd/3" O_RDONLY) =
      toOutP (followSpec exampleWorldT b!"self" b!"fd" b!"3" O_RDONLY) :=
  prun_openFollowTail exampleWorldT_wf env .self b!"fd/3" b!"fd" b!"3" O_RDONLY rfl rfl (by decide) (by decide)
    (by decide)

end KProcOpen
