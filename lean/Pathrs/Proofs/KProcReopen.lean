import Pathrs.Proofs.KProcOpen
import Pathrs.Proofs.KOpen

/-!
# `open_follow` and `reopen` on a procfs tree with mounts: never an object that was mounted over

On every `PWorld` — any tree, any mount layout — and for a handle on the world's base directory (not masked,
emulated resolver): whatever `open_follow` returns is either an object of the handle's own mount (the no-follow
open of a path that is not a link) or what a link leads to, where the link is an entry, on the handle's own mount, of
a directory on the handle's own mount.  `reopen(fd)` is `open_follow(thread-self, "fd/<fd>")`.
-/

open K PWorld KProc KProcOpen

namespace KProcReopen

variable {w : PWorld}

/-- the outcome of a lookup that may follow a final link, described without reference to how it was computed -/
def OnOwnMount (w : PWorld) (trailing : Bytes) (fl : Nat) (o : Fd) : Prop :=
  w.mnt o = w.mnt w.base ∨
  ∃ d l, w.mnt d = w.mnt w.base ∧ w.lookup d trailing = .ok l ∧ w.mnt l = w.mnt w.base ∧
    (hasAll fl O_NOFOLLOW = false → w.kind l = .magic → w.target l = some o) ∧
    (isLink (w.kind l) = false → o = l)

/-- the sub-paths `open_follow` is used with: a parent and a final component, no `..`, no trailing slash -/
structure SubOk (sub parent trailing : Bytes) : Prop where
  strip : Path.stripTrailingSlash sub = (sub, false)
  split : Path.pathSplit sub = .ok (parent, some trailing)
  trailing_ne : trailing ≠ []
  parent_ne : parent ≠ []
  sub_ne : sub ≠ []
  nodd : Path.dotdot ∉ Path.rawComponents sub
  nodd_parent : Path.dotdot ∉ Path.rawComponents parent

theorem prun_readlinkat_nonlink (d : Fd) (hd : 0 ≤ d) (hk : isLink (w.kind d) = false) :
    Prog.prun w (Sys.readlinkat d []) = .error (.os EINVAL) := by
  unfold Sys.readlinkat
  simp [KRun.hotfix_tree hd, PWorld.answer, hk]

theorem openSpec_nonneg (hw : PWF w) (base : Procfs.Base) (sub : Bytes) (oflags : Nat)
    (hdd : Path.dotdot ∉ Path.rawComponents sub) (d : Fd)
    (h : openSpec w (basePath base) sub oflags = .ok d) : 0 ≤ d ∧ w.mnt d = w.mnt w.base := by
  obtain ⟨b, hrb, _, hrd, hmd⟩ := openSpec_ok hw _ _ _ _ h
  obtain ⟨hb, hkb⟩ := resolveBeneath_dir hw _ (by rw [Nat.or_comm]; exact hasAll_or_left _ _) _ (basePath_ok base).2 b hrb
  exact ⟨(resolveBeneath_nonneg_dir (PWF.rebase hw b hb hkb) _ _ hdd d hrd).1, hmd⟩

/-- specification of `ProcfsHandle::readlink` -/
def probeSpec (w : PWorld) (bp sub : Bytes) : Except Err Bytes :=
  match openSpec w bp sub O_PATH with
  | .error e => .error (.os e)
  | .ok link => if isLink (w.kind link) = true then .ok (w.body link) else .error (.os EINVAL)

theorem prun_readlinkH (hw : PWF w) (env : Env) (base : Procfs.Base) (sub : Bytes)
    (hprobe : Prog.prun w (Procfs.intoPath base w.base) = .ok (basePath base))
    (hsub : sub ≠ []) (hdd : Path.dotdot ∉ Path.rawComponents sub) :
    Prog.prun w (Procfs.readlinkH env (handleOf w) base sub) = probeSpec w (basePath base) sub := by
  unfold Procfs.readlinkH probeSpec
  have hfuel : Procfs.retryFuel = 63 + 1 := rfl
  simp only [M.bind_def, prun_bind'_simp, hfuel,
    prun_openH hw env base sub O_PATH 63 hprobe hsub hdd (by decide)]
  generalize hs : openSpec w (basePath base) sub O_PATH = x
  cases x with
  | error e => rfl
  | ok link =>
    have h0 := (openSpec_nonneg hw base sub _ hdd link hs).1
    simp only [toOutP]
    by_cases hk : isLink (w.kind link) = true
    · simp only [prun_try_simp, prun_readlinkat link h0 hk (link_body_short hw link hk), hk, ↓reduceIte,
        prun_do_liftP, prun_ofExcept_simp]
    · have hk' : isLink (w.kind link) = false := by simpa using hk
      simp only [prun_try_simp, prun_readlinkat_nonlink link h0 hk', hk', Bool.false_eq_true, ↓reduceIte,
        Err.isFatal, prun_do_liftP, prun_ofExcept_simp]

theorem probeSpec_not_fatal (bp sub : Bytes) (e : Err) (h : probeSpec w bp sub = .error e) : e.isFatal = false := by
  unfold probeSpec at h
  generalize openSpec w bp sub O_PATH = x at h
  cases x with
  | error e' => cases h; rfl
  | ok link =>
    simp only [] at h
    split at h
    · cases h
    · cases h; rfl

theorem openH_own (hw : PWF w) (env : Env) (base : Procfs.Base) (sub : Bytes) (fl : Nat)
    (hprobe : Prog.prun w (Procfs.intoPath base w.base) = .ok (basePath base))
    (hsub : sub ≠ []) (hdd : Path.dotdot ∉ Path.rawComponents sub)
    (hcf : (hasAny fl (O_CREAT ||| O_EXCL) || hasAll fl O_TMPFILE) = false) (o : Fd)
    (h : Prog.prun w (Procfs.openH env Procfs.retryFuel (handleOf w) base sub fl) = .ok o) :
    w.mnt o = w.mnt w.base := by
  have hfuel : Procfs.retryFuel = 63 + 1 := rfl
  rw [hfuel, prun_openH hw env base sub fl 63 hprobe hsub hdd hcf] at h
  generalize hs : openSpec w (basePath base) sub fl = x at h
  cases x with
  | error e => cases h
  | ok d =>
    cases h
    exact (openSpec_nonneg hw base sub _ hdd _ hs).2

/-- **`open_follow` on any mount layout** -/
theorem open_follow_on_own_mount (hw : PWF w) (env : Env) (base : Procfs.Base) (sub parent trailing : Bytes) (fl : Nat)
    (hprobe : Prog.prun w (Procfs.intoPath base w.base) = .ok (basePath base))
    (hsub : SubOk sub parent trailing) (o : Fd)
    (h : Prog.prun w (Procfs.openFollowH env (handleOf w) base sub fl) = .ok o) :
    OnOwnMount w trailing fl o := by
  have htail : Prog.prun w (Procfs.openFollowTail env (handleOf w) base sub fl) = .ok o → OnOwnMount w trailing fl o := by
    intro ht
    rw [prun_openFollowTail hw env base sub parent trailing fl hprobe hsub.split hsub.trailing_ne hsub.parent_ne
      hsub.nodd_parent] at ht
    generalize hf : followSpec w (basePath base) parent trailing fl = x at ht
    cases x with
    | error e => cases ht
    | ok o' => cases ht; exact Or.inr (follow_result_on_own_mount hw _ _ _ _ _ hf)
  unfold Procfs.openFollowH at h
  simp only [hsub.strip, Bool.false_eq_true, ↓reduceIte] at h
  by_cases hcf : (hasAny fl (O_CREAT ||| O_EXCL) || hasAll fl O_TMPFILE) = true
  · simp only [hcf, ↓reduceIte, prun_do_throw] at h
    cases h
  · have hcf' : (hasAny fl (O_CREAT ||| O_EXCL) || hasAll fl O_TMPFILE) = false := by simpa using hcf
    have hopen := openH_own hw env base sub fl hprobe hsub.sub_ne hsub.nodd hcf' o
    simp only [hcf', Bool.false_eq_true, ↓reduceIte, M.bind_def, prun_bind'_simp, prun_try_simp,
      prun_readlinkH hw env base sub hprobe hsub.sub_ne hsub.nodd] at h
    generalize hp : probeSpec w (basePath base) sub = x at h
    cases x with
    | ok body => exact htail h
    | error e =>
      simp only [probeSpec_not_fatal _ _ _ hp, Bool.false_eq_true, ↓reduceIte] at h
      by_cases h1 : e = .os EINVAL ∨ e = .os ENOENT
      · simp only [h1, ↓reduceIte] at h
        exact Or.inl (hopen h)
      · by_cases h2 : e = .os ENAMETOOLONG
        · simp only [h2, ↓reduceIte] at h
          exact htail h
        · simp only [h1, h2, ↓reduceIte, prun_do_throw] at h
          cases h

theorem decimal_ne_dotdot (n : Nat) : Path.decimal n ≠ Path.dotdot := by
  intro h
  have := (KOpen.decimal_mem n 46 (by rw [h]; decide)).1
  exact absurd this (by decide)

/-- `fd/<n>` is such a sub-path -/
theorem subOk_fd (n : Nat) : SubOk (b!"fd/" ++ Path.decimal n) b!"fd" (Path.decimal n) where
  strip := KOpen.strip_fdpath n
  split := KOpen.pathSplit_fdpath n
  trailing_ne := KOpen.decimal_ne_nil n
  parent_ne := by decide
  sub_ne := by simp
  nodd := by
    rw [KOpen.raw_fdpath]
    intro h
    simp only [List.mem_cons, List.not_mem_nil, or_false] at h
    rcases h with h | h
    · revert h; decide
    · exact decimal_ne_dotdot n h.symm
  nodd_parent := by decide

theorem procSubpath_nonneg (fd : Fd) (h : 0 ≤ fd) :
    Sys.procSubpath fd = .ok (b!"fd/" ++ Path.decimal fd.toNat) := by
  unfold Sys.procSubpath
  have h1 : fd ≠ AT_FDCWD := nonneg_ne_cwd h
  simp [h1, h]

/-- **`reopen` on any mount layout**: the descriptor that comes back is on the handle's own mount (impossible for a
file outside procfs: then the call failed) or is what the entry `fd/<n>` — an entry, on the handle's own mount, of a
directory on the handle's own mount — leads to.  Nothing that was mounted over `thread-self`, over `fd`, or over the
magic-link itself is ever returned. -/
theorem reopen_on_own_mount (hw : PWF w) (env : Env) (fd : Fd) (hfd : 0 ≤ fd) (flags : Nat)
    (hproc : env.proc = handleOf w)
    (hprobe : Prog.prun w (Procfs.intoPath .threadSelf w.base) = .ok b!"thread-self") (o : Fd)
    (h : Prog.prun w (Procfs.reopen env fd flags) = .ok o) :
    OnOwnMount w (Path.decimal fd.toNat) (clearBits flags O_NOFOLLOW) o := by
  unfold Procfs.reopen at h
  by_cases hcf : (hasAny flags (O_CREAT ||| O_EXCL) || hasAll flags O_TMPFILE) = true
  · simp only [hcf, ↓reduceIte, prun_do_throw] at h
    cases h
  · simp only [hcf, Bool.false_eq_true, ↓reduceIte, M.bind_def, prun_bind'_simp, prun_fstatat fd hfd,
      isSymlink_modeOf] at h
    by_cases hk : isLink (w.kind fd) = true
    · simp only [hk, ↓reduceIte, prun_do_throw] at h
      cases h
    · simp only [hk, Bool.false_eq_true, ↓reduceIte, prun_bind'_simp, prun_do_monadLiftE,
        procSubpath_nonneg fd hfd, hproc] at h
      exact open_follow_on_own_mount hw env .threadSelf _ _ _ _ hprobe (subOk_fd fd.toNat) o h


/-! ## non-vacuity -/

def exampleWorldR : PWorld :=
  { exampleWorldT with
    kind := fun d => if d = 44 then .lnk else exampleWorldT.kind d
    child := fun d n => if d = 10 ∧ n = b!"thread-self" then some 44 else exampleWorldT.child d n
    body := fun d => if d = 44 then b!"100" else exampleWorldT.body d }

theorem exampleWorldR_wf : PWF exampleWorldR where
  base_nonneg := by decide
  base_dir := by decide
  child_nonneg := by
    intro d n c h
    simp only [exampleWorldR] at h
    split at h
    · cases h; decide
    · exact exampleWorldT_wf.child_nonneg _ _ _ h
  lnk_body := by
    intro l h
    by_cases hl : l = 44
    · subst hl; decide
    · have hk : exampleWorldR.kind l = exampleWorldT.kind l := if_neg hl
      have hb : exampleWorldR.body l = exampleWorldT.body l := if_neg hl
      rw [hb]; exact exampleWorldT_wf.lnk_body l (hk ▸ h)
  magic_body := by
    intro l h
    by_cases hl : l = 44
    · subst hl; revert h; decide
    · have hk : exampleWorldR.kind l = exampleWorldT.kind l := if_neg hl
      have hb : exampleWorldR.body l = exampleWorldT.body l := if_neg hl
      rw [hb]; exact exampleWorldT_wf.magic_body l (hk ▸ h)

theorem exampleWorldR_probe :
    Prog.prun exampleWorldR (Procfs.intoPath .threadSelf exampleWorldR.base) = .ok b!"thread-self" := by
  rfl


/-- an environment whose global handle is the handle on `exampleWorldR` -/
def envR : Env := { proc := handleOf exampleWorldR, openat2 := false, protectedSymlinks := 1 }

theorem exR_base : resolveBeneath exampleWorldR (ecfgP (O_PATH ||| O_DIRECTORY)) b!"thread-self" = .ok 14 := by
  unfold resolveBeneath
  rw [if_neg (by decide), if_neg (by decide)]
  show presolve exampleWorldR _ 10 [b!"thread-self"] 0 = _
  rw [p_name _ _ _ _ _ (by decide) (by decide) (by decide) (by decide)]
  have hc : exampleWorldR.child 10 b!"thread-self" = some 44 := by decide
  rw [hc]
  simp only []
  rw [if_neg (by decide), if_pos (by decide), if_neg (by decide), if_neg (by decide), if_neg (by decide),
    if_neg (by decide), if_neg (by decide)]
  show presolve exampleWorldR _ 10 [b!"100"] 1 = _
  rw [p_name _ _ _ _ _ (by decide) (by decide) (by decide) (by decide)]
  have hc : exampleWorldR.child 10 b!"100" = some 14 := by decide
  rw [hc]
  simp only []
  rw [if_neg (by decide), if_neg (by decide), if_pos trivial]
  rfl

theorem exR_parent :
    resolveBeneath (rebase exampleWorldR 14) (ecfgP (O_PATH ||| O_DIRECTORY ||| O_NOFOLLOW)) b!"fd" = .ok 20 := by
  unfold resolveBeneath
  rw [if_neg (by decide), if_neg (by decide)]
  show presolve (rebase exampleWorldR 14) _ 14 [b!"fd"] 0 = _
  rw [p_name _ _ _ _ _ (by decide) (by decide) (by decide) (by decide)]
  have hc : (rebase exampleWorldR 14).child 14 b!"fd" = some 20 := by decide
  rw [hc]
  simp only []
  rw [if_neg (by decide), if_neg (by decide), if_pos trivial]
  rfl

theorem exR_link :
    resolveBeneath (rebase exampleWorldR 14) (ecfgP (O_PATH ||| O_NOFOLLOW)) b!"fd/3" = .ok 22 := by
  unfold resolveBeneath
  rw [if_neg (by decide), if_neg (by decide)]
  show presolve (rebase exampleWorldR 14) _ 14 [b!"fd", b!"3"] 0 = _
  rw [p_name _ _ _ _ _ (by decide) (by decide) (by decide) (by decide)]
  have hc : (rebase exampleWorldR 14).child 14 b!"fd" = some 20 := by decide
  rw [hc]
  simp only []
  rw [if_neg (by decide), if_neg (by decide), if_neg (by decide)]
  rw [p_name _ _ _ _ _ (by decide) (by decide) (by decide) (by decide)]
  have hc : (rebase exampleWorldR 14).child 20 b!"3" = some 22 := by decide
  rw [hc]
  simp only []
  rw [if_neg (by decide), if_pos (by decide), if_pos (by decide)]
  rfl

/-- the probe of `open_follow(thread-self, "fd/3")` finds the magic-link 22 … -/
theorem exR_probe : probeSpec exampleWorldR b!"thread-self" b!"fd/3" = .ok b!"/proc/100/fd/pipe" := by
  unfold probeSpec openSpec
  rw [exR_base]
  simp only []
  rw [exR_link]
  rfl

/-- … and the following half returns its target, the object 50 outside the tree -/
theorem exR_follow : followSpec exampleWorldR b!"thread-self" b!"fd" b!"3" O_RDONLY = .ok 50 := by
  unfold followSpec openSpec
  rw [exR_base]
  simp only []
  rw [exR_parent]
  rfl

/-- the hypotheses of `reopen_on_own_mount` are satisfiable: on `exampleWorldR`, `reopen(3, O_RDONLY)` through the handle
on the tree succeeds and returns 50, the target of the magic-link `100/fd/3` -/
theorem exR_reopen : Prog.prun exampleWorldR (Procfs.reopen envR 3 O_RDONLY) = .ok 50 := by
  have hfd : (0 : Fd) ≤ 3 := by decide
  have hk : isLink (exampleWorldR.kind 3) = false := by decide
  have hsub : SubOk b!"fd/3" b!"fd" (Path.decimal 3) := subOk_fd 3
  have hsub3 : (b!"fd/" ++ Path.decimal (3 : Fd).toNat) = b!"fd/3" := by decide
  have hcl : clearBits O_RDONLY O_NOFOLLOW = O_RDONLY := by decide
  have hproc : envR.proc = handleOf exampleWorldR := rfl
  unfold Procfs.reopen
  rw [if_neg (by decide)]
  simp only [M.bind_def, prun_bind'_simp, prun_fstatat 3 hfd, isSymlink_modeOf, hk, Bool.false_eq_true, ↓reduceIte,
    prun_do_monadLiftE, procSubpath_nonneg 3 hfd, hsub3, hcl, hproc]
  have hrl : Prog.prun exampleWorldR (Procfs.readlinkH envR (handleOf exampleWorldR) .threadSelf b!"fd/3") =
      .ok b!"/proc/100/fd/pipe" :=
    (prun_readlinkH exampleWorldR_wf envR .threadSelf b!"fd/3" exampleWorldR_probe hsub.sub_ne hsub.nodd).trans exR_probe
  have htl : Prog.prun exampleWorldR (Procfs.openFollowTail envR (handleOf exampleWorldR) .threadSelf b!"fd/3" O_RDONLY) =
      .ok 50 :=
    (prun_openFollowTail exampleWorldR_wf envR .threadSelf b!"fd/3" b!"fd" (Path.decimal 3) O_RDONLY exampleWorldR_probe
      hsub.split hsub.trailing_ne hsub.parent_ne hsub.nodd_parent).trans (congrArg toOutP exR_follow)
  unfold Procfs.openFollowH
  simp only [hsub.strip, Bool.false_eq_true, ↓reduceIte]
  rw [if_neg (by decide)]
  simp only [M.bind_def, prun_bind'_simp, prun_try_simp, hrl, htl]

example : OnOwnMount exampleWorldR b!"3" O_RDONLY 50 :=
  reopen_on_own_mount exampleWorldR_wf envR 3 (by decide) O_RDONLY rfl exampleWorldR_probe 50 exR_reopen

end KProcReopen
