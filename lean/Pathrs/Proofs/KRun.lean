import Pathrs.Proofs.KPath

/-!
# Running the model against a `World`: the building blocks
-/

open K

namespace KRun

variable (w : World)

@[simp] theorem run_ret {α : Type} (a : α) : (Prog.ret a).run w = a := rfl
@[simp] theorem run_call {α : Type} (c : Call) (k : Resp → Prog α) :
    (Prog.call c k).run w = (k (w.answer c)).run w := rfl

theorem run_bind {α β : Type} (p : Prog α) (f : α → Prog β) :
    (Prog.bind p f).run w = (f (p.run w)).run w := by
  induction p with
  | ret a => rfl
  | call c k ih => simp [Prog.bind, ih]

theorem run_mbind {α β : Type} (p : M α) (f : α → M β) :
    Prog.run w (M.bind' p f) = match Prog.run w p with
      | .ok a => Prog.run w (f a)
      | .error e => .error e := by
  have key : ∀ q : Prog (Except Err α), Prog.run w (M.bind' q f) = match Prog.run w q with
      | .ok a => Prog.run w (f a)
      | .error e => .error e := by
    intro q
    unfold M.bind'
    rw [run_bind]
    cases Prog.run w q <;> rfl
  exact key p

theorem run_mbind_ok {α β : Type} (p : M α) (f : α → M β) (a : α) (h : Prog.run w p = .ok a) :
    Prog.run w (M.bind' p f) = Prog.run w (f a) := by
  rw [run_mbind, h]

theorem run_mbind_err {α β : Type} (p : M α) (f : α → M β) (e : Err) (h : Prog.run w p = .error e) :
    Prog.run w (M.bind' p f) = .error e := by
  rw [run_mbind, h]

theorem run_lift {α : Type} (p : Prog α) : Prog.run w (M.lift p) = .ok (p.run w) := by
  unfold M.lift
  rw [run_bind]; rfl

theorem run_mcall (c : Call) : Prog.run w (M.call c) = .ok (w.answer c) := by
  unfold M.call Prog.perform
  rw [run_lift]; rfl

theorem run_ofExcept {α : Type} (x : Except Err α) : Prog.run w (M.ofExcept x) = x := by
  cases x <;> rfl

theorem run_onErr_ok {α : Type} (p : M α) (c : Prog Unit) (a : α) (h : Prog.run w p = .ok a) :
    Prog.run w (M.onErr p c) = .ok a := by
  have key : ∀ q : Prog (Except Err α), Prog.run w q = .ok a → Prog.run w (M.onErr q c) = .ok a := by
    intro q hq
    unfold M.onErr
    rw [run_bind, hq]; rfl
  exact key p h

theorem run_onErr_err {α : Type} (p : M α) (c : Prog Unit) (e : Err) (h : Prog.run w p = .error e) :
    Prog.run w (M.onErr p c) = .error e := by
  have key : ∀ q : Prog (Except Err α), Prog.run w q = .error e → Prog.run w (M.onErr q c) = .error e := by
    intro q hq
    unfold M.onErr
    rw [run_bind, hq]
    show Prog.run w (Prog.bind c _) = _
    rw [run_bind]; rfl
  exact key p h

theorem run_try_ok {α : Type} (p : M α) (a : α) (h : Prog.run w p = .ok a) :
    Prog.run w (M.try' p) = .ok (.ok a) := by
  have key : ∀ q : Prog (Except Err α), Prog.run w q = .ok a → Prog.run w (M.try' q) = .ok (.ok a) := by
    intro q hq
    unfold M.try'
    rw [run_bind, hq]; rfl
  exact key p h

theorem run_try_err {α : Type} (p : M α) (e : Err) (h : Prog.run w p = .error e) (hf : e.isFatal = false) :
    Prog.run w (M.try' p) = .ok (.error e) := by
  have key : ∀ q : Prog (Except Err α), Prog.run w q = .error e → Prog.run w (M.try' q) = .ok (.error e) := by
    intro q hq
    unfold M.try'
    rw [run_bind, hq]
    simp [hf]
  exact key p h

/-! ## descriptor bookkeeping is invisible -/

theorem run_close (fd : Fd) : (Sys.close fd).run w = () := rfl

theorem run_closeList (l : List Fd) : (Sys.closeList l).run w = () := by
  induction l with
  | nil => rfl
  | cons fd rest ih => unfold Sys.closeList; rw [run_bind]

theorem run_closeAll (l : List Fd) : (Sys.closeAll l).run w = () := rfl

theorem run_releaseMany (a b : List Fd) : (Opath.releaseMany a b).run w = () := rfl

/-! ## building an error value always completes, with the error it was built for -/

theorem run_gettid : Sys.gettid.run w = 1 := rfl

theorem run_failWith {α : Type} (fds : List Fd) (e : Nat) :
    Prog.run w (Sys.failWith (α := α) fds e) = .error (.os e) := by
  unfold Sys.failWith
  induction fds with
  | nil => rfl
  | cons fd rest ih =>
    unfold Sys.failWith.go
    rw [run_bind]
    exact ih

theorem hotfix_tree {fd : Fd} (h : 0 ≤ fd) : Sys.hotfix fd = .ok () := by
  unfold Sys.hotfix
  simp [h]

end KRun

/-! ## the same facts in the syntactic form `do`-notation produces -/

namespace KRun

variable (w : World)

@[simp] theorem run_bind'_simp {α β : Type} (p : M α) (f : α → M β) :
    Prog.run w (M.bind' p f) = match Prog.run w p with
      | .ok a => Prog.run w (f a)
      | .error e => .error e := run_mbind w p f

@[simp] theorem run_do_pure {α : Type} (a : α) : Prog.run w (pure a : M α) = .ok a := rfl
@[simp] theorem run_do_throw {α : Type} (e : Err) : Prog.run w (throw e : M α) = .error e := rfl
@[simp] theorem run_do_liftE {α : Type} (x : Except Err α) : Prog.run w (liftM x : M α) = x :=
  run_ofExcept w x
@[simp] theorem run_do_liftP {α : Type} (p : Prog α) : Prog.run w (liftM p : M α) = .ok (p.run w) :=
  run_lift w p
@[simp] theorem run_do_monadLiftE {α : Type} (x : Except Err α) : Prog.run w (monadLift x : M α) = x :=
  run_ofExcept w x
@[simp] theorem run_do_monadLiftP {α : Type} (p : Prog α) : Prog.run w (monadLift p : M α) = .ok (p.run w) :=
  run_lift w p
@[simp] theorem run_ofExcept_simp {α : Type} (x : Except Err α) : Prog.run w (M.ofExcept x) = x :=
  run_ofExcept w x
@[simp] theorem run_mcall_simp (c : Call) : Prog.run w (M.call c) = .ok (w.answer c) := run_mcall w c
@[simp] theorem run_lift_simp {α : Type} (p : Prog α) : Prog.run w (M.lift p) = .ok (p.run w) := run_lift w p
@[simp] theorem run_failWith_simp {α : Type} (fds : List Fd) (e : Nat) :
    Prog.run w (Sys.failWith (α := α) fds e) = .error (.os e) := run_failWith w fds e
@[simp] theorem run_close_simp (fd : Fd) : (Sys.close fd).run w = () := rfl
@[simp] theorem run_closeAll_simp (l : List Fd) : (Sys.closeAll l).run w = () := rfl
@[simp] theorem run_releaseMany_simp (a b : List Fd) : (Opath.releaseMany a b).run w = () := rfl

theorem run_onErr {α : Type} (p : M α) (c : Prog Unit) : Prog.run w (M.onErr p c) = Prog.run w p := by
  cases h : Prog.run w p with
  | ok a => exact run_onErr_ok w p c a h
  | error e => exact run_onErr_err w p c e h

@[simp] theorem run_onErr_simp {α : Type} (p : M α) (c : Prog Unit) :
    Prog.run w (M.onErr p c) = Prog.run w p := run_onErr w p c

theorem run_try {α : Type} (p : M α) : Prog.run w (M.try' p) = match Prog.run w p with
    | .ok a => .ok (.ok a)
    | .error e => if e.isFatal then .error e else .ok (.error e) := by
  have key : ∀ q : Prog (Except Err α), Prog.run w (M.try' q) = match Prog.run w q with
      | .ok a => .ok (.ok a)
      | .error e => if e.isFatal then .error e else .ok (.error e) := by
    intro q
    unfold M.try'
    rw [run_bind]
    cases Prog.run w q with
    | ok a => rfl
    | error e => by_cases hf : e.isFatal = true <;> simp [hf]
  exact key p

@[simp] theorem run_try_simp {α : Type} (p : M α) : Prog.run w (M.try' p) = match Prog.run w p with
    | .ok a => .ok (.ok a)
    | .error e => if e.isFatal then .error e else .ok (.error e) := run_try w p

end KRun

/-! ## the syscall wrappers on a world -/

namespace KRun

open World

/-- the environment libpathrs runs in on a `World`: a private, unmasked procfs handle with
the kernel resolver, `fs.protected_symlinks = 0` -/
def kenv (w : World) : Env :=
  { proc := { fd := procRoot, mntId := some w.procMnt, isSubset := false, emulated := false },
    openat2 := true, protectedSymlinks := 0 }

variable {w : World}

theorem int_even_not_odd (x : Int) (h0 : x % 2 = 0) (h1 : x % 2 = 1) : False := by omega
theorem int_ge4_nonneg (x : Int) (h : 4 ≤ x) : 0 ≤ x := by omega

theorem tree_ge4 {d : Fd} (h : isTree d) : (4 : Int) ≤ (d : Int) := h.1
theorem tree_mod {d : Fd} (h : isTree d) : (d : Int) % 2 = 0 := h.2
theorem tree_nonneg {d : Fd} (h : isTree d) : 0 ≤ d := int_ge4_nonneg d h.1
theorem tree_ne_cwd {d : Fd} (h : isTree d) : d ≠ AT_FDCWD := by
  have := h.1; intro he; rw [he] at this; exact absurd this (by decide)
theorem tree_ne_proc {d : Fd} (h : isTree d) : d ≠ procRoot := by
  have := h.1; intro he; rw [he] at this; exact absurd this (by decide)
theorem tree_ne_ts {d : Fd} (h : isTree d) : d ≠ threadSelf := by
  have := h.1; intro he; rw [he] at this; exact absurd this (by decide)
theorem tree_not_odd {d : Fd} (h : isTree d) : ¬ d % 2 = 1 :=
  fun h1 => int_even_not_odd d h.2 h1

theorem tree_ne_fdDir {d : Fd} (h : isTree d) : d ≠ fdDir := by
  intro he; have := h.2; rw [he] at this; exact absurd this (by decide)

theorem run_openat (d : Fd) (hd : isTree d) (n : Bytes) (fl mode : Nat) :
    Prog.run w (Sys.openat d n fl mode) =
      match w.lookup d n with
      | .ok c => .ok c
      | .error e => .error (.os e) := by
  unfold Sys.openat Sys.openatFollow
  simp [hotfix_tree (tree_nonneg hd), World.answer, tree_ne_fdDir hd]
  cases w.lookup d n <;> simp

theorem run_fstatat_tree (d : Fd) (hd : isTree d) :
    Prog.run w (Sys.fstatat d []) = .ok { mode := modeOf (w.kind d), uid := 0, ino := d.toNat } := by
  unfold Sys.fstatat
  simp [hotfix_tree (tree_nonneg hd), World.answer, tree_ne_cwd hd, tree_ne_proc hd]

theorem run_fstatfs_tree (d : Fd) (hd : isTree d) : Prog.run w (Sys.fstatfs d) = .ok 0xEF53 := by
  unfold Sys.fstatfs
  simp [hotfix_tree (tree_nonneg hd), World.answer, tree_ne_ts hd, tree_ne_proc hd, tree_not_odd hd]

theorem run_readlinkat_lnk (hw : w.WF) (d : Fd) (hd : isTree d) (hk : w.kind d = .lnk) :
    Prog.run w (Sys.readlinkat d []) = .ok (w.body d) := by
  unfold Sys.readlinkat
  have hlen : ¬ (w.body d).length ≥ READLINK_BUF := by have := (hw.body_ok d hk).2.2; omega
  simp [hotfix_tree (tree_nonneg hd), World.answer, tree_not_odd hd, hk, hlen]

/-! ## libpathrs' own procfs handle on a world -/

theorem run_isOk {α : Type} (p : M α) : Prog.run w (M.isOk p) = match Prog.run w p with
    | .ok _ => .ok true
    | .error e => if e.isFatal then .error e else .ok false := by
  unfold M.isOk
  simp
  cases Prog.run w p with
  | ok a => rfl
  | error e => by_cases hf : e.isFatal = true <;> simp [hf]

theorem run_existsAt_ts : (Sys.existsAt procRoot b!"thread-self").run w = true := by
  unfold Sys.existsAt
  have h0 : Sys.hotfix procRoot = .ok () := hotfix_tree (by decide)
  simp [h0, World.answer, AT_FDCWD]

theorem run_intoPath_ts : Prog.run w (Procfs.intoPath .threadSelf procRoot) = .ok b!"thread-self" := by
  unfold Procfs.intoPath
  simp [Sys.threadSelfCandidates, Procfs.intoPath.probe, run_existsAt_ts]

theorem run_openat2_proc (fl rs : Nat) :
    Prog.run w (Sys.openat2 procRoot b!"thread-self" fl rs) = .ok threadSelf := by
  unfold Sys.openat2
  have h0 : Sys.hotfix procRoot = .ok () := hotfix_tree (by decide)
  simp [h0, World.answer, Path.toCString]

/-- descriptors on libpathrs' procfs: `thread-self` and the magic-links -/
def onProc (d : Fd) : Prop := d = threadSelf ∨ (d % 2 = 1 ∧ 0 ≤ d)

theorem onProc_nonneg {d : Fd} (h : onProc d) : 0 ≤ d := by
  rcases h with rfl | h
  · decide
  · exact h.2

theorem onProc_cases {d : Fd} (hd : onProc d) : d = threadSelf ∨ d = procRoot ∨ d % 2 = 1 := by
  rcases hd with h | h
  · exact Or.inl h
  · exact Or.inr (Or.inr h.1)

theorem run_statx_proc (d : Fd) (hd : onProc d) :
    Prog.run w (Sys.statx d [] STATX_WANT) = .ok (STATX_WANT, w.procMnt) := by
  unfold Sys.statx
  simp [hotfix_tree (onProc_nonneg hd), World.answer, onProc_cases hd]

theorem run_fstatfs_proc (d : Fd) (hd : onProc d) :
    Prog.run w (Sys.fstatfs d) = .ok PROC_SUPER_MAGIC := by
  unfold Sys.fstatfs
  simp [hotfix_tree (onProc_nonneg hd), World.answer, onProc_cases hd]

theorem run_verify_proc (d : Fd) (hd : onProc d) :
    Prog.run w (Procfs.verifySameProcfsMnt (kenv w).proc d) = .ok () := by
  unfold Procfs.verifySameProcfsMnt Procfs.verifySameMnt Procfs.fetchMntId Procfs.verifyIsProcfs
  have : hasAny STATX_WANT STATX_WANT = true := by decide
  simp [run_statx_proc d hd, run_fstatfs_proc d hd, kenv, this]

theorem run_resolve_proc_ts (fl : Nat)
    (hfl : (hasAny fl (O_CREAT ||| O_EXCL) || hasAll fl O_TMPFILE) = false) :
    Prog.run w (Procfs.resolve (kenv w) false procRoot b!"thread-self" fl 0) = .ok threadSelf := by
  unfold Procfs.resolve Procfs.openat2Resolve
  simp [hfl, kenv, run_openat2_proc]

theorem run_openBase_ts :
    Prog.run w (Procfs.openBase (kenv w) (kenv w).proc .threadSelf) = .ok threadSelf := by
  unfold Procfs.openBase
  have h1 : (hasAny (O_PATH ||| O_DIRECTORY) (O_CREAT ||| O_EXCL) || hasAll (O_PATH ||| O_DIRECTORY) O_TMPFILE) = false := by decide
  have hv := run_verify_proc (w := w) threadSelf (Or.inl rfl)
  have hr := run_resolve_proc_ts (w := w) (O_PATH ||| O_DIRECTORY) h1
  have hp : Prog.run w (Procfs.intoPath .threadSelf (kenv w).proc.fd) = .ok b!"thread-self" := run_intoPath_ts
  have hr' : Prog.run w (Procfs.resolve (kenv w) (kenv w).proc.emulated (kenv w).proc.fd b!"thread-self"
      (O_PATH ||| O_DIRECTORY) 0) = .ok threadSelf := hr
  simp [hp, hr', hv]

theorem fdpath_no_nul (n : Nat) : (b!"fd/" ++ Path.decimal n).contains 0 = false := by
  have := KPath.decimal_no_nul n
  simp only [List.contains_eq_mem, decide_eq_false_iff_not] at this ⊢
  intro hm
  rcases List.mem_append.mp hm with h | h
  · revert h; decide
  · exact this h

theorem int_magic (x : Int) (h4 : 4 ≤ x) (h2 : x % 2 = 0) : (x + 1) % 2 = 1 ∧ 0 ≤ x + 1 ∧ x + 1 - 1 = x := by omega

theorem magic_onProc {f : Fd} (hf : isTree f) : onProc (magic f) :=
  Or.inr ⟨(int_magic f hf.1 hf.2).1, (int_magic f hf.1 hf.2).2.1⟩

theorem toCString_id (p : Bytes) (h : p.contains 0 = false) : Path.toCString p = p := by
  unfold Path.toCString
  induction p with
  | nil => rfl
  | cons c rest ih =>
    simp only [List.contains_cons, Bool.or_eq_false_iff] at h
    have hc : c ≠ 0 := by intro he; subst he; simp at h
    have := ih h.2
    simp only [List.takeWhile, ne_eq, hc, not_false_eq_true, decide_true] at this ⊢
    rw [this]

theorem run_openat2_fd (f : Fd) (hf : isTree f) (fl rs : Nat) :
    Prog.run w (Sys.openat2 threadSelf (b!"fd/" ++ Path.decimal f.toNat) fl rs) = .ok (magic f) := by
  unfold Sys.openat2
  have h0 : Sys.hotfix threadSelf = .ok () := hotfix_tree (by decide)
  have hnn : (f.toNat : Int) = f := Int.toNat_of_nonneg (tree_nonneg hf)
  have hne : threadSelf ≠ procRoot := by decide
  have hpre : (b!"fd/").isPrefixOf (b!"fd/" ++ Path.decimal f.toNat) = true := by simp [List.isPrefixOf]
  have hdrop : (b!"fd/" ++ Path.decimal f.toNat).drop 3 = Path.decimal f.toNat := by simp
  rw [if_neg (by rw [fdpath_no_nul]; simp)]
  rw [toCString_id _ (fdpath_no_nul _)]
  simp only [M.bind_def, run_bind'_simp, run_do_liftE, run_do_monadLiftE, h0, run_mcall_simp, World.answer,
    hne, hpre, hdrop, KPath.parse_decimal, hnn, ↓reduceIte, run_do_pure, magic]

theorem run_lookup_fd (f : Fd) (hf : isTree f) :
    Prog.run w (Procfs.lookupVerified (kenv w) (kenv w).proc threadSelf (b!"fd/" ++ Path.decimal f.toNat)
      (O_PATH ||| O_NOFOLLOW)) = .ok (magic f) := by
  unfold Procfs.lookupVerified Procfs.resolve Procfs.openat2Resolve
  have h1 : (hasAny (O_PATH ||| O_NOFOLLOW) (O_CREAT ||| O_EXCL) || hasAll (O_PATH ||| O_NOFOLLOW) O_TMPFILE) = false := by decide
  have hv := run_verify_proc (w := w) (magic f) (magic_onProc hf)
  have ho := run_openat2_fd (w := w) f hf (O_PATH ||| O_NOFOLLOW) (RESOLVE_BENEATH ||| RESOLVE_NO_MAGICLINKS ||| RESOLVE_NO_XDEV ||| 0)
  have hemu : (kenv w).proc.emulated = false := rfl
  have ho2 : (kenv w).openat2 = true := rfl
  simp only [h1, hemu, ho2, Bool.false_eq_true, ↓reduceIte, Bool.not_true, M.bind_def, run_bind'_simp, ho, run_onErr_simp, hv,
    run_do_pure]

theorem run_openH_fd (f : Fd) (hf : isTree f) (fuel : Nat) :
    Prog.run w (Procfs.openH (kenv w) (fuel + 1) (kenv w).proc .threadSelf (b!"fd/" ++ Path.decimal f.toNat) O_PATH)
      = .ok (magic f) := by
  rw [Procfs.openH]
  unfold Procfs.openStep
  have hb := run_openBase_ts (w := w)
  have hl := run_lookup_fd (w := w) f hf
  simp only [M.bind_def, run_bind'_simp, hb, run_try_simp, hl, run_do_liftP, run_do_monadLiftP, run_do_pure]

theorem run_readlinkat_magic (hw : w.WF) (f : Fd) (hf : isTree f) (p : List Bytes) (hp : w.dpath f = some p) :
    Prog.run w (Sys.readlinkat (magic f) []) = .ok (w.render p) := by
  unfold Sys.readlinkat
  have hm := magic_onProc hf
  have hodd : magic f % 2 = 1 := (int_magic f hf.1 hf.2).1
  have hlen : ¬ (w.render p).length ≥ READLINK_BUF := by have := hw.path_short f p hp; omega
  have hsub : magic f - 1 = f := (int_magic f hf.1 hf.2).2.2
  have h0 : Sys.hotfix (magic f) = .ok () := hotfix_tree (onProc_nonneg hm)
  simp only [M.bind_def, run_bind'_simp, run_do_liftE, h0, run_mcall_simp, World.answer, hodd, hsub, hp, hlen,
    ↓reduceIte, run_do_pure, ne_eq, not_true_eq_false]

theorem run_asUnsafePath (hw : w.WF) (f : Fd) (hf : isTree f) (p : List Bytes) (hp : w.dpath f = some p) :
    Prog.run w (Procfs.asUnsafePath (kenv w) f) = .ok (w.render p) := by
  unfold Procfs.asUnsafePath Procfs.readlinkH
  have hsub : Sys.procSubpath f = .ok (b!"fd/" ++ Path.decimal f.toNat) := by
    unfold Sys.procSubpath
    simp [tree_ne_cwd hf, tree_nonneg hf]
  have ho := run_openH_fd (w := w) f hf 63
  have hr := run_readlinkat_magic hw f hf p hp
  have hfuel : Procfs.retryFuel = 63 + 1 := rfl
  simp only [M.bind_def, run_bind'_simp, run_do_liftE, hsub, hfuel, ho, run_try_simp, hr, run_do_liftP, run_do_pure,
    run_ofExcept_simp]

theorem run_checkCurrent (hw : w.WF) (cur : Fd) (e : List Bytes) (hc : w.dpath cur = some e) :
    Prog.run w (Opath.checkCurrent (kenv w) cur w.root e) = .ok () := by
  unfold Opath.checkCurrent
  have hroot := run_asUnsafePath hw w.root hw.root_tree [] hw.root_path
  have hcur := run_asUnsafePath hw cur (hw.path_tree cur e hc) e hc
  have heq := KPath.expected_eq_render w hw e (hw.path_proper cur e hc)
  have hrefl : Path.pathEq (w.render []) (w.render []) = true := by simp [Path.pathEq]
  simp only [M.bind_def, run_bind'_simp, hroot, hcur, heq, hrefl, Bool.not_true, Bool.false_eq_true, ↓reduceIte,
    run_do_pure]

theorem run_mayFollowLink (cur next : Fd) (hc : isTree cur) (hn : isTree next) :
    Prog.run w (Opath.mayFollowLink (kenv w) cur next) = .ok () := by
  unfold Opath.mayFollowLink
  have h1 := run_fstatat_tree (w := w) cur hc
  have h2 := run_fstatat_tree (w := w) next hn
  have hg : Prog.run w (liftM Sys.geteuid : M Nat) = .ok 0 := by
    rw [run_do_liftP]; rfl
  simp only [M.bind_def, run_bind'_simp, hg, h1, h2, Opath.mayFollowDecision, kenv, decide_true, Bool.true_or,
    ↓reduceIte, run_do_pure]

theorem run_isMagiclink (next : Fd) (hn : isTree next) :
    Prog.run w (Procfs.isMagiclinkFilesystem next) = .ok false := by
  unfold Procfs.isMagiclinkFilesystem
  simp only [M.bind_def, run_bind'_simp, run_fstatfs_tree next hn, run_do_pure]
  have : (decide (61267 = PROC_SUPER_MAGIC) || decide (61267 = APPARMORFS_MAGIC)) = false := by decide
  rw [this]

end KRun
