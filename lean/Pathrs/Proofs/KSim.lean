import Pathrs.Proofs.KRun

/-!
# The emulated walk computes kernel in-root resolution (simulation proof)
-/

open K KRun World

namespace KSim

variable {w : World}

def lookupOut : Lookup Fd → Except Err Fd
  | .complete h => .ok h
  | .part _ _ e => .error e

def toOut : Except Nat Fd → Except Err Fd
  | .ok c => .ok c
  | .error e => .error (.os e)

/-- the specification's configuration for a walk configuration -/
def kcfg (cfg : Opath.WalkCfg) : World.Cfg :=
  { nofollow := cfg.nofollow, noSymlinks := hasAll cfg.rflags RESOLVE_NO_SYMLINKS,
    maxLinks := MAX_SYMLINK_TRAVERSALS }

/-! ### one-step unfoldings of the specification -/

theorem k_nil (c : World.Cfg) (cur : Fd) (links : Nat) : kresolve w c cur [] links = .ok cur := by
  rw [kresolve.eq_def]

theorem k_notdir (c : World.Cfg) (cur : Fd) (x : Bytes) (rest : List Bytes) (links : Nat)
    (h : w.kind cur ≠ .dir) : kresolve w c cur (x :: rest) links = .error ENOTDIR := by
  rw [kresolve.eq_def]; simp [h]

theorem k_dot (c : World.Cfg) (cur : Fd) (x : Bytes) (rest : List Bytes) (links : Nat)
    (h : w.kind cur = .dir) (hx : x = [] ∨ x = Path.dot) :
    kresolve w c cur (x :: rest) links = kresolve w c cur rest links := by
  rw [kresolve.eq_def]; simp [h, hx]

theorem k_dotdot (c : World.Cfg) (cur : Fd) (rest : List Bytes) (links : Nat) (h : w.kind cur = .dir) :
    kresolve w c cur (Path.dotdot :: rest) links
      = kresolve w c (if cur = w.root then w.root else w.parent cur) rest links := by
  rw [kresolve.eq_def]
  have h1 : ¬ (Path.dotdot = [] ∨ Path.dotdot = Path.dot) := by decide
  simp [h, h1]

theorem k_name (c : World.Cfg) (cur : Fd) (x : Bytes) (rest : List Bytes) (links : Nat)
    (h : w.kind cur = .dir) (h1 : x ≠ []) (h2 : x ≠ Path.dot) (h3 : x ≠ Path.dotdot) :
    kresolve w c cur (x :: rest) links =
      match w.child cur x with
      | none => .error ENOENT
      | some nxt =>
        if w.kind nxt = .lnk then
          if rest = [] ∧ c.nofollow then .ok nxt
          else if c.noSymlinks then .error ELOOP
          else if links + 1 ≥ c.maxLinks then .error ELOOP
          else kresolve w c (if Path.isAbsolute (w.body nxt) then w.root else cur)
                (Path.rawComponents (w.body nxt) ++ rest) (links + 1)
        else kresolve w c nxt rest links := by
  rw [kresolve.eq_def]; simp [h, h1, h2, h3]
  rfl

theorem isSymlink_modeOf (k : Kind) (u i : Nat) :
    ({ mode := modeOf k, uid := u, ino := i } : Sys.Stat).isSymlink = true ↔ k = .lnk := by
  cases k
  · show decide (modeOf .dir &&& S_IFMT = S_IFLNK) = true ↔ _
    decide
  · show decide (modeOf .lnk &&& S_IFMT = S_IFLNK) = true ↔ _
    decide
  · show decide (modeOf .other &&& S_IFMT = S_IFLNK) = true ↔ _
    decide

theorem lookup_dir_dot {cur : Fd} (h : w.kind cur = .dir) : w.lookup cur Path.dot = .ok cur := by
  simp [World.lookup, h]

theorem lookup_notdir {cur : Fd} (n : Bytes) (h : w.kind cur ≠ .dir) : w.lookup cur n = .error ENOTDIR := by
  simp [World.lookup, h]

theorem lookup_dir_dotdot {cur : Fd} (h : w.kind cur = .dir) :
    w.lookup cur Path.dotdot = .ok (w.parent cur) := by
  have : Path.dotdot ≠ Path.dot := by decide
  simp [World.lookup, h, this]

theorem lookup_dir_name {cur : Fd} (n : Bytes) (h : w.kind cur = .dir) (h2 : n ≠ Path.dot)
    (h3 : n ≠ Path.dotdot) :
    w.lookup cur n = match w.child cur n with | some c => .ok c | none => .error ENOENT := by
  simp [World.lookup, h, h2, h3]
  rfl

end KSim
