import Pathrs.Proofs.KRun

/-!
# The emulated walk computes kernel in-root resolution (simulation proof)
-/

open K KRun World

namespace KSim

variable {w : World}

def lookupOut : Lookup Fd → Except Err Fd
  | .complete h => .ok h
  | .part _ _ e => .error e

def toOut : Except Nat Fd → Except Err Fd
  | .ok c => .ok c
  | .error e => .error (.os e)

/-- the specification's configuration for a walk configuration -/
def kcfg (cfg : Opath.WalkCfg) : World.Cfg :=
  { nofollow := cfg.nofollow, noSymlinks := hasAll cfg.rflags RESOLVE_NO_SYMLINKS,
    maxLinks := MAX_SYMLINK_TRAVERSALS }

/-! ### one-step unfoldings of the specification -/

theorem k_nil (c : World.Cfg) (cur : Fd) (links : Nat) : kresolve w c cur [] links = .ok cur := by
  rw [kresolve.eq_def]

theorem k_notdir (c : World.Cfg) (cur : Fd) (x : Bytes) (rest : List Bytes) (links : Nat)
    (h : w.kind cur ≠ .dir) : kresolve w c cur (x :: rest) links = .error ENOTDIR := by
  rw [kresolve.eq_def]; simp [h]

theorem k_dot (c : World.Cfg) (cur : Fd) (x : Bytes) (rest : List Bytes) (links : Nat)
    (h : w.kind cur = .dir) (hx : x = [] ∨ x = Path.dot) :
    kresolve w c cur (x :: rest) links = kresolve w c cur rest links := by
  rw [kresolve.eq_def]; simp [h, hx]

theorem k_dotdot (c : World.Cfg) (cur : Fd) (rest : List Bytes) (links : Nat) (h : w.kind cur = .dir) :
    kresolve w c cur (Path.dotdot :: rest) links
      = kresolve w c (if cur = w.root then w.root else w.parent cur) rest links := by
  rw [kresolve.eq_def]
  have h1 : ¬ (Path.dotdot = [] ∨ Path.dotdot = Path.dot) := by decide
  simp [h, h1]

theorem k_name (c : World.Cfg) (cur : Fd) (x : Bytes) (rest : List Bytes) (links : Nat)
    (h : w.kind cur = .dir) (h1 : x ≠ []) (h2 : x ≠ Path.dot) (h3 : x ≠ Path.dotdot) :
    kresolve w c cur (x :: rest) links =
      match w.child cur x with
      | none => .error ENOENT
      | some nxt =>
        if w.kind nxt = .lnk then
          if rest = [] ∧ c.nofollow then .ok nxt
          else if c.noSymlinks then .error ELOOP
          else if links + 1 ≥ c.maxLinks then .error ELOOP
          else kresolve w c (if Path.isAbsolute (w.body nxt) then w.root else cur)
                (Path.rawComponents (w.body nxt) ++ rest) (links + 1)
        else kresolve w c nxt rest links := by
  rw [kresolve.eq_def]; simp [h, h1, h2, h3]
  rfl

theorem isSymlink_modeOf (k : Kind) (u i : Nat) :
    ({ mode := modeOf k, uid := u, ino := i } : Sys.Stat).isSymlink = true ↔ k = .lnk := by
  cases k
  · show decide (modeOf .dir &&& S_IFMT = S_IFLNK) = true ↔ _
    decide
  · show decide (modeOf .lnk &&& S_IFMT = S_IFLNK) = true ↔ _
    decide
  · show decide (modeOf .other &&& S_IFMT = S_IFLNK) = true ↔ _
    decide

theorem lookup_dir_dot {cur : Fd} (h : w.kind cur = .dir) : w.lookup cur Path.dot = .ok cur := by
  simp [World.lookup, h]

theorem lookup_notdir {cur : Fd} (n : Bytes) (h : w.kind cur ≠ .dir) : w.lookup cur n = .error ENOTDIR := by
  simp [World.lookup, h]

theorem lookup_dir_dotdot {cur : Fd} (h : w.kind cur = .dir) :
    w.lookup cur Path.dotdot = .ok (w.parent cur) := by
  have : Path.dotdot ≠ Path.dot := by decide
  simp [World.lookup, h, this]

theorem lookup_dir_name {cur : Fd} (n : Bytes) (h : w.kind cur = .dir) (h2 : n ≠ Path.dot)
    (h3 : n ≠ Path.dotdot) :
    w.lookup cur n = match w.child cur n with | some c => .ok c | none => .error ENOENT := by
  simp [World.lookup, h, h2, h3]
  rfl

/-! ### the simulation -/

theorem cur_root_iff (hw : w.WF) {cur : Fd} {e : List Bytes} (h : w.dpath cur = some e) :
    cur = w.root ↔ e = [] := by
  constructor
  · intro hc; rw [hc, hw.root_path] at h; cases h; rfl
  · intro he; rw [he] at h; exact hw.path_inj _ _ _ h hw.root_path

theorem not_symlink (k : Kind) (u i : Nat) (h : k ≠ .lnk) :
    ({ mode := modeOf k, uid := u, ino := i } : Sys.Stat).isSymlink = false := by
  rw [Bool.eq_false_iff]; intro hs; exact h ((isSymlink_modeOf k u i).1 hs)

theorem walk_sim (hw : w.WF) (cfg : Opath.WalkCfg) (hroot : cfg.root = w.root)
    (hns : cfg.useStack = false) (st : Opath.WalkSt)
    (hinv : w.dpath st.cur = some st.expected) :
    ∃ l, Prog.run w (Opath.walk (kenv w) cfg st) = .ok (l, st.stack) ∧
      lookupOut l = toOut (kresolve w (kcfg cfg) st.cur st.rem st.links) := by
  fun_induction Opath.walk (kenv w) cfg st with
  | case1 st hrem =>
    rw [hrem, k_nil, hroot]
    have hc := run_checkCurrent hw st.cur st.expected hinv
    by_cases hcr : st.cur = w.root
    · rw [hcr] at hc
      have ho : Prog.run w (Sys.openat w.root Path.dot (O_PATH ||| O_NOFOLLOW) 0) = .ok w.root := by
        rw [run_openat _ hw.root_tree, lookup_dir_dot hw.root_dir]
      refine ⟨.complete w.root, ?_, by rw [hcr]; rfl⟩
      simp only [run_bind'_simp, run_onErr_simp, hc, hcr, ↓reduceIte, ho, run_lift_simp, run_do_pure]
    · refine ⟨.complete st.cur, ?_, rfl⟩
      simp only [run_bind'_simp, run_onErr_simp, hc, hcr, ↓reduceIte, run_lift_simp, run_do_pure]
  | case2 st part0 rest hrem hcond e he =>
    exfalso
    simp [Opath.stackOp, hns] at he
  | case3 st part0 rest hrem hcond stack' hstk ih =>
    have hs : stack' = st.stack := by
      simp [Opath.stackOp, hns] at hstk; exact hstk.symm
    subst hs
    have hcr : st.cur = w.root := (cur_root_iff hw hinv).2 hcond.2
    have ih' := ih (by simp only [hroot, hcond.2]; exact hw.root_path)
    obtain ⟨l, h1, h2⟩ := ih'
    refine ⟨l, ?_, ?_⟩
    · simp only [run_bind'_simp, run_lift_simp]; exact h1
    · rw [h2, hrem, hcond.1, hcr, k_dotdot _ _ _ _ hw.root_dir]; simp [hroot]
  | case4 st part0 rest hrem remaining hdd part expected' ih1 ih2 =>
    have hct : isTree st.cur := hw.path_tree _ _ hinv
    have hc0 := tree_nonneg hct
    rw [hrem]
    simp only [] at ih1 ih2
    by_cases hk : w.kind st.cur = .dir
    · by_cases hdot : part0 = [] ∨ part0 = Path.dot
      · have hpart : part = Path.dot := by
          show (if part0 = [] then Path.dot else part0) = _
          rcases hdot with h | h <;> simp [h]
        have hexp : expected' = st.expected := by
          show (if part = Path.dot then st.expected else _) = _
          simp [hpart]
        have ho : Prog.run w (Sys.openat st.cur Path.dot (O_PATH ||| O_NOFOLLOW) 0) = .ok st.cur := by
          rw [run_openat _ hct, lookup_dir_dot hk]
        have hm := run_fstatat_tree (w := w) st.cur hct
        have hnd : Path.dot ≠ Path.dotdot := by decide
        have hsy : ({ mode := modeOf (w.kind st.cur), uid := 0, ino := st.cur.toNat } : Sys.Stat).isSymlink = false := by
          apply not_symlink; rw [hk]; decide
        obtain ⟨l, h1, h2⟩ := ih1 st.cur st.stack (by rw [hexp]; exact hinv)
        refine ⟨l, ?_, ?_⟩
        · simp only [run_bind'_simp, run_try_simp, ho, run_onErr_simp, hpart, hnd, ↓reduceIte, run_do_pure, hm, hsy,
            Opath.stackOp, hns, run_lift_simp, Bool.not_false, Bool.false_eq_true]
          exact h1
        · rw [k_dot _ _ _ _ _ hk hdot]; exact h2
      · have hne : part0 ≠ [] := fun h => hdot (Or.inl h)
        have hnd : part0 ≠ Path.dot := fun h => hdot (Or.inr h)
        have hpart : part = part0 := by
          show (if part0 = [] then Path.dot else part0) = _
          simp [hne]
        by_cases hdd2 : part0 = Path.dotdot
        · -- ".." below the root
          have hen : st.expected ≠ [] := fun h => hdd ⟨hdd2, h⟩
          have hexp : expected' = st.expected.dropLast := by
            show (if part = Path.dot then st.expected else if part = Path.dotdot then _ else _) = _
            have : Path.dotdot ≠ Path.dot := by decide
            simp [hpart, hdd2, this]
          have hsplit := List.dropLast_concat_getLast hen
          rw [← hsplit] at hinv
          obtain ⟨hpp, hpk⟩ := hw.parent_path _ _ _ hk hinv
          have hpt := hw.path_tree _ _ hpp
          have ho : Prog.run w (Sys.openat st.cur Path.dotdot (O_PATH ||| O_NOFOLLOW) 0) = .ok (w.parent st.cur) := by
            rw [run_openat _ hct, lookup_dir_dotdot hk]
          have hc := run_checkCurrent hw _ _ hpp
          have hm := run_fstatat_tree (w := w) _ hpt
          have hsy := not_symlink (w.kind (w.parent st.cur)) 0 (w.parent st.cur).toNat (by rw [hpk]; decide)
          obtain ⟨l, h1, h2⟩ := ih1 (w.parent st.cur) st.stack (by rw [hexp]; exact hpp)
          have hcr : st.cur ≠ w.root := by
            intro h; rw [h, hw.root_path] at hinv
            have := congrArg (fun o => o.map List.length) hinv
            simp at this
          refine ⟨l, ?_, ?_⟩
          · simp only [hpart, hdd2, run_bind'_simp, run_try_simp, ho, run_onErr_simp, ↓reduceIte, hroot, hexp, hc,
              run_do_pure, hm, hsy, Opath.stackOp, hns, run_lift_simp, Bool.not_false, Bool.false_eq_true]
            simp only [hdd2, hexp, hroot] at h1
            exact h1
          · rw [hdd2, k_dotdot _ _ _ _ hk]; simp only [hcr, ↓reduceIte]; exact h2
        · -- a proper name
          have hexp : expected' = st.expected ++ [part0] := by
            show (if part = Path.dot then st.expected else if part = Path.dotdot then _ else _) = _
            simp [hpart, hnd, hdd2]
          rw [k_name _ _ _ _ _ hk hne hnd hdd2]
          have hl := lookup_dir_name (w := w) part0 hk hnd hdd2
          cases hch : w.child st.cur part0 with
          | none =>
            rw [hch] at hl
            have ho : Prog.run w (Sys.openat st.cur part0 (O_PATH ||| O_NOFOLLOW) 0) = .error (.os ENOENT) := by
              rw [run_openat _ hct, hl]
            refine ⟨.part st.cur remaining (.os ENOENT), ?_, rfl⟩
            simp only [hpart, run_bind'_simp, run_try_simp, ho, Err.isFatal, Bool.false_eq_true, ↓reduceIte,
              Opath.exitPartial, run_lift_simp, run_do_pure]
          | some nxt =>
            rw [hch] at hl
            have ho : Prog.run w (Sys.openat st.cur part0 (O_PATH ||| O_NOFOLLOW) 0) = .ok nxt := by
              rw [run_openat _ hct, hl]
            have hnp := hw.child_path _ _ _ _ hch hinv
            have hnt := hw.child_tree _ _ _ hch
            have hm := run_fstatat_tree (w := w) _ hnt
            by_cases hlk : w.kind nxt = .lnk
            · have hsy : ({ mode := modeOf (w.kind nxt), uid := 0, ino := nxt.toNat } : Sys.Stat).isSymlink = true :=
                (isSymlink_modeOf _ _ _).2 hlk
              simp only [hlk, ↓reduceIte, kcfg]
              by_cases htr : rest = [] ∧ cfg.nofollow = true
              · have hc := run_checkCurrent hw _ _ hnp
                refine ⟨.complete nxt, ?_, by simp only [htr, and_self, ↓reduceIte]; rfl⟩
                simp only [hpart, hdd2, run_bind'_simp, run_try_simp, ho, run_onErr_simp, ↓reduceIte,
                  run_do_pure, hm, hsy, run_lift_simp, Bool.not_true, Bool.false_eq_true, htr, and_self, hroot, hexp, hc]
              · by_cases hnosym : hasAll cfg.rflags RESOLVE_NO_SYMLINKS = true
                · refine ⟨.part st.cur remaining (.os ELOOP), ?_, by simp only [htr, hnosym, ↓reduceIte]; rfl⟩
                  simp only [hpart, hdd2, run_bind'_simp, run_try_simp, ho, run_onErr_simp, ↓reduceIte,
                    run_do_pure, hm, hsy, run_lift_simp, Bool.not_true, Bool.false_eq_true, htr, hnosym,
                    Opath.exitPartial]
                · have hmf := run_mayFollowLink (w := w) st.cur nxt hct hnt
                  by_cases hlim : st.links + 1 ≥ MAX_SYMLINK_TRAVERSALS
                  · refine ⟨.part st.cur remaining (.os ELOOP), ?_, by simp only [htr, hnosym, hlim, ↓reduceIte]; rfl⟩
                    simp only [hpart, hdd2, run_bind'_simp, run_try_simp, ho, run_onErr_simp, ↓reduceIte,
                      run_do_pure, hm, hsy, run_lift_simp, Bool.not_true, Bool.false_eq_true, htr, hnosym,
                      Opath.exitPartial, hmf, hlim, ↓reduceDIte]
                  · have hrl := run_readlinkat_lnk hw nxt hnt hlk
                    have hmg := run_isMagiclink (w := w) nxt hnt
                    have hmg' : Prog.run w ((if Path.isAbsolute (w.body nxt) = true then
                        Procfs.isMagiclinkFilesystem nxt else pure false : M Bool)) = .ok false := by
                      split
                      · exact hmg
                      · rfl
                    have hdl : (st.expected ++ [part0]).dropLast = st.expected := List.dropLast_concat
                    obtain ⟨l, h1, h2⟩ := ih2 hlim (w.body nxt) st.stack (by
                      simp only [hexp, hdl, hroot]
                      by_cases habs : Path.isAbsolute (w.body nxt) = true
                      · simp only [habs, ↓reduceIte]; exact hw.root_path
                      · simp only [habs, ↓reduceIte]; exact hinv)
                    refine ⟨l, ?_, ?_⟩
                    · simp only [hpart, hdd2, run_bind'_simp, run_try_simp, ho, run_onErr_simp, ↓reduceIte,
                        run_do_pure, hm, hsy, run_lift_simp, Bool.not_true, Bool.false_eq_true, htr, hnosym,
                        hmf, hlim, ↓reduceDIte, hrl, hmg', Opath.stackOp, hns]
                      simp only [dite_eq_ite] at h1
                      exact h1
                    · simp only [htr, hnosym, hlim, ↓reduceIte, hroot, kcfg, dite_eq_ite, Bool.false_eq_true] at h2 ⊢
                      exact h2
            · have hsy := not_symlink (w.kind nxt) 0 nxt.toNat hlk
              obtain ⟨l, h1, h2⟩ := ih1 nxt st.stack (by rw [hexp]; exact hnp)
              refine ⟨l, ?_, ?_⟩
              · simp only [hpart, hdd2, run_bind'_simp, run_try_simp, ho, run_onErr_simp, ↓reduceIte,
                  run_do_pure, hm, hsy, Opath.stackOp, hns, run_lift_simp, Bool.not_false, Bool.false_eq_true]
                exact h1
              · simp only [hlk, ↓reduceIte]; exact h2
    · have ho : Prog.run w (Sys.openat st.cur part (O_PATH ||| O_NOFOLLOW) 0) = .error (.os ENOTDIR) := by
        rw [run_openat _ hct, lookup_notdir _ hk]
      refine ⟨.part st.cur remaining (.os ENOTDIR), ?_, ?_⟩
      · simp only [run_bind'_simp, run_try_simp, ho, Err.isFatal, Bool.false_eq_true, ↓reduceIte, Opath.exitPartial,
          run_lift_simp, run_do_pure]
      · rw [k_notdir _ _ _ _ _ hk]; rfl

end KSim
