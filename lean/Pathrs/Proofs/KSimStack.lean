import Pathrs.Proofs.KPartial

/-!
# The emulated walk with its symlink stack (partial lookups): simulation against the specification

`walk_sim_stack` extends `KSim.walk_sim` to the walk that `resolve_partial` runs (`useStack = true`,
following lookups): the stack operations never fail (`StackInv`), the result is still the
specification's, and when the lookup stops at a component that does not exist the position it reports
after `pop_top_symlink` is characterised by `KPartial.Claim`.
-/

open K KRun World KSim KSpec KPartial SStack

namespace KSimStack

variable {w : World}

theorem k2_notdir (c : World.Cfg) (cur : Fd) (x : Bytes) (X : List Bytes) (l : Nat) (h : w.kind cur ≠ .dir) :
    kres2 w c cur (x :: X) l = .error ENOTDIR := by
  rw [kres2]; simp [h]

theorem k2_dot (c : World.Cfg) (cur : Fd) (x : Bytes) (l : Nat) (h : w.kind cur = .dir) (hx : x = [] ∨ x = Path.dot)
    (X : List Bytes) : kres2 w c cur (x :: X) l = kres2 w c cur X l := by
  rw [kres2]; simp [h, hx]

theorem k2_dotdot (c : World.Cfg) (cur : Fd) (l : Nat) (h : w.kind cur = .dir) (X : List Bytes) :
    kres2 w c cur (Path.dotdot :: X) l = kres2 w c (if cur = w.root then w.root else w.parent cur) X l := by
  rw [kres2]
  have h1 : ¬ (Path.dotdot = [] ∨ Path.dotdot = Path.dot) := by decide
  simp [h, h1]

theorem k2_nonlink (c : World.Cfg) (cur nxt : Fd) (x : Bytes) (l : Nat) (h : w.kind cur = .dir) (h1 : x ≠ [])
    (h2 : x ≠ Path.dot) (h3 : x ≠ Path.dotdot) (hch : w.child cur x = some nxt) (hl : w.kind nxt ≠ .lnk)
    (X : List Bytes) : kres2 w c cur (x :: X) l = kres2 w c nxt X l := by
  rw [kres2]; simp [h, h1, h2, h3, hch, hl]

theorem k2_link (c : World.Cfg) (hnf : c.nofollow = false) (hns : c.noSymlinks = false) (cur nxt : Fd) (x : Bytes)
    (l : Nat) (h : w.kind cur = .dir) (h1 : x ≠ []) (h2 : x ≠ Path.dot) (h3 : x ≠ Path.dotdot)
    (hch : w.child cur x = some nxt) (hl : w.kind nxt = .lnk) (hlim : ¬ l + 1 ≥ c.maxLinks) (X : List Bytes) :
    kres2 w c cur (x :: X) l =
      kres2 w c (if Path.isAbsolute (w.body nxt) then w.root else cur) (Path.rawComponents (w.body nxt) ++ X) (l + 1) := by
  rw [kres2]; simp [h, h1, h2, h3, hch, hl, hnf, hns, hlim]

theorem nd_true {x : Bytes} (h1 : x ≠ []) (h2 : x ≠ Path.dot) : nd x = true := by
  simp [nd, h1, h2]

theorem nd_false {x : Bytes} (h : x = [] ∨ x = Path.dot) : nd x = false := by
  rcases h with h | h <;> rw [h] <;> decide

theorem os_ne (a b : Nat) (h : a ≠ b) : Err.os a ≠ Err.os b := by
  intro he; cases he; exact h rfl

theorem stackOp_pop (cfg : Opath.WalkCfg) (hs : cfg.useStack = true) (s s' : SStack) (p : Bytes)
    (h : popPart s p = .ok s') : Opath.stackOp cfg s (·.popPart p) = .ok s' := by
  simp [Opath.stackOp, hs, h]

theorem stackOp_swap (cfg : Opath.WalkCfg) (hs : cfg.useStack = true) (s s' : SStack) (p : Bytes) (d : Fd)
    (r t : Bytes) (h : swapLink s p d r t = .ok s') : Opath.stackOp cfg s (·.swapLink p d r t) = .ok s' := by
  simp [Opath.stackOp, hs, h]

/-- decompose the remaining components: outside an expansion the head is a component of the caller's
path, inside it is the head of the pending expansion -/
theorem rem_cases {x : Bytes} {rest pre T : List Bytes} {s : SStack} (hrem : x :: rest = pre ++ T)
    (hsi : StackInv s pre) :
    (pre = [] ∧ s = [] ∧ T = x :: rest) ∨ (∃ pre0, pre = x :: pre0 ∧ rest = pre0 ++ T) := by
  cases pre with
  | nil => left; exact ⟨rfl, inv_nil_pre hsi, by simpa using hrem.symm⟩
  | cons y pre0 =>
    right
    simp only [List.cons_append, List.cons.injEq] at hrem
    exact ⟨pre0, by rw [hrem.1], hrem.2⟩

/-- a component that is not a symlink was walked: the stack operation succeeds and the claim transfers -/
theorem pop_step (c : World.Cfg) (cur nxt : Fd) (links : Nat) {x : Bytes} {rest pre T : List Bytes} {s : SStack}
    (hstep : ∀ X, kres2 w c cur (x :: X) links = kres2 w c nxt X links)
    (hrem : x :: rest = pre ++ T) (hsi : StackInv s pre) (p : Bytes)
    (hp : (nd x = false ∧ p = Path.dot) ∨ (nd x = true ∧ p = x)) :
    ∃ s'', popPart s p = .ok s'' ∧ ∃ pre' T', rest = pre' ++ T' ∧ StackInv s'' pre' ∧
      ∀ l s', Claim w c nxt links s'' pre' T' l s' → Claim w c cur links s pre T l s' := by
  rcases rem_cases hrem hsi with ⟨hpre, hs0, hT⟩ | ⟨pre0, hpre, hrest⟩
  · subst hpre; subst hs0; subst hT
    refine ⟨[], popPart_empty p, [], rest, rfl, inv_nil, ?_⟩
    intro l s' h
    exact claim_nonlink_top c cur nxt links x rest hstep l s' h
  · subst hpre
    rcases hp with ⟨hx, hp⟩ | ⟨hx, hp⟩
    · subst hp
      refine ⟨trim s, popPart_dot s, pre0, T, hrest, inv_skip_dot hsi hx, ?_⟩
      intro l s' h
      exact claim_nonlink_in c cur nxt links x pre0 T hstep s (trim s) (trim_bot s) trim_of_nil l s' h
    · subst hp
      obtain ⟨s'', h1, h2, h3⟩ := popPart_real hsi hx
      refine ⟨s'', h1, pre0, T, hrest, h2, ?_⟩
      intro l s' h
      exact claim_nonlink_in c cur nxt links p pre0 T hstep s s'' h3
        (fun h0 => absurd h0 (inv_top_ne hsi hx)) l s' h

/-- a symlink is being followed: the stack operation succeeds and the claim transfers -/
theorem swap_step (c : World.Cfg) (hnf : c.nofollow = false) (cur cur' : Fd) (links : Nat) {x : Bytes}
    {rest pre T : List Bytes} {s : SStack} (target : Bytes)
    (hstep : ∀ X, kres2 w c cur (x :: X) links = kres2 w c cur' (Path.rawComponents target ++ X) (links + 1))
    (hrem : x :: rest = pre ++ T) (hsi : StackInv s pre) (hx : nd x = true) :
    ∃ s'', swapLink s x cur (Path.joinSlash (x :: rest)) target = .ok s'' ∧
      ∃ pre' T', Path.rawComponents target ++ rest = pre' ++ T' ∧ StackInv s'' pre' ∧
      ∀ l s', Claim w c cur' (links + 1) s'' pre' T' l s' → Claim w c cur links s pre T l s' := by
  rcases rem_cases hrem hsi with ⟨hpre, hs0, hT⟩ | ⟨pre0, hpre, hrest⟩
  · subst hpre; subst hs0; subst hT
    obtain ⟨s'', h1, h2, h3⟩ := swapLink_empty x hx cur (Path.joinSlash (x :: rest)) target
    rw [List.append_nil] at h2
    refine ⟨s'', h1, Path.rawComponents target, rest, rfl, h2, ?_⟩
    intro l s' h
    exact claim_link_top c hnf cur cur' links x _ rest hstep s'' h3 l s' h
  · subst hpre
    obtain ⟨s'', h1, h2, h3, h4⟩ := swapLink_real hsi hx cur (Path.joinSlash (x :: rest)) target
    refine ⟨s'', h1, Path.rawComponents target ++ pre0, T, by rw [hrest, List.append_assoc], h2, ?_⟩
    intro l s' h
    exact claim_link_in c cur cur' links x _ pre0 T hstep s s'' (inv_top_ne hsi hx) h4 l s' h

/-- the component does not exist -/
theorem enoent_step (c : World.Cfg) (cur : Fd) (links : Nat) {x : Bytes} {rest pre T : List Bytes} {s : SStack}
    (hk : ∀ X, kresolve w c cur (x :: X) links = .error ENOENT)
    (hrem : x :: rest = pre ++ T) (hsi : StackInv s pre) (hx : nd x = true) :
    Claim w c cur links s pre T (.part cur (Path.joinSlash (x :: rest)) (.os ENOENT)) s := by
  rcases rem_cases hrem hsi with ⟨hpre, hs0, hT⟩ | ⟨pre0, hpre, _⟩
  · subst hpre; subst hs0; subst hT
    exact claim_enoent_top c cur links x rest (hk [])
  · subst hpre
    exact claim_enoent_in c cur links s _ T (inv_top_ne hsi hx) _ _ (hk pre0)

theorem kcfg_nofollow (cfg : Opath.WalkCfg) (h : cfg.nofollow = false) : (kcfg cfg).nofollow = false := h

/-- **Simulation of the partial-lookup walk** -/
theorem walk_sim_stack (hw : w.WF) (cfg : Opath.WalkCfg) (hroot : cfg.root = w.root)
    (hs : cfg.useStack = true) (hnf : cfg.nofollow = false) (st : Opath.WalkSt)
    (hinv : w.dpath st.cur = some st.expected) :
    ∀ pre T, st.rem = pre ++ T → StackInv st.stack pre →
    ∃ l s', Prog.run w (Opath.walk (kenv w) cfg st) = .ok (l, s') ∧
      lookupOut l = toOut (kresolve w (kcfg cfg) st.cur st.rem st.links) ∧
      Claim w (kcfg cfg) st.cur st.links st.stack pre T l s' := by
  fun_induction Opath.walk (kenv w) cfg st with
  | case1 st hrem =>
    intro pre T _ _
    rw [hrem, k_nil, hroot]
    have hc := run_checkCurrent hw st.cur st.expected hinv
    by_cases hcr : st.cur = w.root
    · rw [hcr] at hc
      have ho : Prog.run w (Sys.openat w.root Path.dot (O_PATH ||| O_NOFOLLOW) 0) = .ok w.root := by
        rw [run_openat _ hw.root_tree, lookup_dir_dot hw.root_dir]
      refine ⟨.complete w.root, st.stack, ?_, by rw [hcr]; rfl, claim_complete _ _ _ _ _ _ _ _⟩
      simp only [run_bind'_simp, run_onErr_simp, hc, hcr, ↓reduceIte, ho, run_lift_simp, run_do_pure]
    · refine ⟨.complete st.cur, st.stack, ?_, rfl, claim_complete _ _ _ _ _ _ _ _⟩
      simp only [run_bind'_simp, run_onErr_simp, hc, hcr, ↓reduceIte, run_lift_simp, run_do_pure]
  | case2 st part0 rest hrem hcond e he =>
    intro pre T hpt hsi
    exfalso
    rw [hrem] at hpt
    have hcr : st.cur = w.root := (cur_root_iff hw hinv).2 hcond.2
    have hx : nd part0 = true := by rw [hcond.1]; decide
    obtain ⟨s'', hpop, _⟩ := pop_step (kcfg cfg) st.cur w.root st.links
      (fun X => by rw [hcond.1, hcr, k2_dotdot _ _ _ hw.root_dir]; simp) hpt hsi part0 (Or.inr ⟨hx, rfl⟩)
    rw [stackOp_pop cfg hs _ _ _ hpop] at he
    cases he
  | case3 st part0 rest hrem hcond stack' hstk ih =>
    intro pre T hpt hsi
    rw [hrem] at hpt
    have hcr : st.cur = w.root := (cur_root_iff hw hinv).2 hcond.2
    have hx : nd part0 = true := by rw [hcond.1]; decide
    obtain ⟨s'', hpop, pre', T', hr', hsi', htr⟩ := pop_step (kcfg cfg) st.cur w.root st.links
      (fun X => by rw [hcond.1, hcr, k2_dotdot _ _ _ hw.root_dir]; simp) hpt hsi part0 (Or.inr ⟨hx, rfl⟩)
    rw [stackOp_pop cfg hs _ _ _ hpop] at hstk
    cases hstk
    obtain ⟨l, s', h1, h2, h3⟩ := ih (by simp only [hroot, hcond.2]; exact hw.root_path) pre' T' hr' (by exact hsi')
    refine ⟨l, s', ?_, ?_, ?_⟩
    · simp only [run_bind'_simp, run_lift_simp]; exact h1
    · rw [h2, hrem, hcond.1, hcr, k_dotdot _ _ _ _ hw.root_dir]; simp [hroot]
    · apply htr; simpa [hroot] using h3
  | case4 st part0 rest hrem remaining hdd part expected' ih1 ih2 =>
    intro pre T hpt hsi
    rw [hrem] at hpt
    have hct : isTree st.cur := hw.path_tree _ _ hinv
    have hc0 := tree_nonneg hct
    rw [hrem]
    simp only [] at ih1 ih2
    by_cases hk : w.kind st.cur = .dir
    · by_cases hdot : part0 = [] ∨ part0 = Path.dot
      · have hpart : part = Path.dot := by
          show (if part0 = [] then Path.dot else part0) = _
          rcases hdot with h | h <;> simp [h]
        have hexp : expected' = st.expected := by
          show (if part = Path.dot then st.expected else _) = _
          simp [hpart]
        have ho : Prog.run w (Sys.openat st.cur Path.dot (O_PATH ||| O_NOFOLLOW) 0) = .ok st.cur := by
          rw [run_openat _ hct, lookup_dir_dot hk]
        have hm := run_fstatat_tree (w := w) st.cur hct
        have hnd : Path.dot ≠ Path.dotdot := by decide
        have hsy : ({ mode := modeOf (w.kind st.cur), uid := 0, ino := st.cur.toNat } : Sys.Stat).isSymlink = false := by
          apply not_symlink; rw [hk]; decide
        obtain ⟨s'', hpop, pre', T', hr', hsi', htr⟩ := pop_step (kcfg cfg) st.cur st.cur st.links
          (fun X => k2_dot _ _ _ _ hk hdot X) hpt hsi Path.dot (Or.inl ⟨nd_false hdot, rfl⟩)
        obtain ⟨l, s', h1, h2, h3⟩ := ih1 st.cur s'' (by rw [hexp]; exact hinv) pre' T' hr' hsi'
        refine ⟨l, s', ?_, ?_, htr l s' h3⟩
        · simp only [run_bind'_simp, run_try_simp, ho, run_onErr_simp, hpart, hnd, ↓reduceIte, run_do_pure, hm, hsy,
            stackOp_pop cfg hs _ _ _ hpop, run_lift_simp, Bool.not_false, Bool.false_eq_true]
          exact h1
        · rw [k_dot _ _ _ _ _ hk hdot]; exact h2
      · have hne : part0 ≠ [] := fun h => hdot (Or.inl h)
        have hnd : part0 ≠ Path.dot := fun h => hdot (Or.inr h)
        have hx : nd part0 = true := nd_true hne hnd
        have hpart : part = part0 := by
          show (if part0 = [] then Path.dot else part0) = _
          simp [hne]
        by_cases hdd2 : part0 = Path.dotdot
        · -- ".." below the root
          have hen : st.expected ≠ [] := fun h => hdd ⟨hdd2, h⟩
          have hexp : expected' = st.expected.dropLast := by
            show (if part = Path.dot then st.expected else if part = Path.dotdot then _ else _) = _
            have : Path.dotdot ≠ Path.dot := by decide
            simp [hpart, hdd2, this]
          have hsplit := List.dropLast_concat_getLast hen
          rw [← hsplit] at hinv
          obtain ⟨hpp, hpk⟩ := hw.parent_path _ _ _ hk hinv
          have hpt2 := hw.path_tree _ _ hpp
          have ho : Prog.run w (Sys.openat st.cur Path.dotdot (O_PATH ||| O_NOFOLLOW) 0) = .ok (w.parent st.cur) := by
            rw [run_openat _ hct, lookup_dir_dotdot hk]
          have hc := run_checkCurrent hw _ _ hpp
          have hm := run_fstatat_tree (w := w) _ hpt2
          have hsy := not_symlink (w.kind (w.parent st.cur)) 0 (w.parent st.cur).toNat (by rw [hpk]; decide)
          have hcr : st.cur ≠ w.root := by
            intro h; rw [h, hw.root_path] at hinv
            have := congrArg (fun o => o.map List.length) hinv
            simp at this
          obtain ⟨s'', hpop, pre', T', hr', hsi', htr⟩ := pop_step (kcfg cfg) st.cur (w.parent st.cur) st.links
            (fun X => by rw [hdd2, k2_dotdot _ _ _ hk]; simp [hcr]) hpt hsi part0 (Or.inr ⟨hx, rfl⟩)
          obtain ⟨l, s', h1, h2, h3⟩ := ih1 (w.parent st.cur) s'' (by rw [hexp]; exact hpp) pre' T' hr' hsi'
          refine ⟨l, s', ?_, ?_, htr l s' h3⟩
          · rw [hdd2] at hpop
            simp only [hpart, hdd2, run_bind'_simp, run_try_simp, ho, run_onErr_simp, ↓reduceIte, hroot, hexp, hc,
              run_do_pure, hm, hsy, stackOp_pop cfg hs _ _ _ hpop, run_lift_simp, Bool.not_false, Bool.false_eq_true]
            simp only [hdd2, hexp, hroot] at h1
            exact h1
          · rw [hdd2, k_dotdot _ _ _ _ hk]; simp only [hcr, ↓reduceIte]; exact h2
        · -- a proper name
          have hexp : expected' = st.expected ++ [part0] := by
            show (if part = Path.dot then st.expected else if part = Path.dotdot then _ else _) = _
            simp [hpart, hnd, hdd2]
          rw [k_name _ _ _ _ _ hk hne hnd hdd2]
          have hl := lookup_dir_name (w := w) part0 hk hnd hdd2
          cases hch : w.child st.cur part0 with
          | none =>
            rw [hch] at hl
            have ho : Prog.run w (Sys.openat st.cur part0 (O_PATH ||| O_NOFOLLOW) 0) = .error (.os ENOENT) := by
              rw [run_openat _ hct, hl]
            refine ⟨.part st.cur remaining (.os ENOENT), st.stack, ?_, rfl, ?_⟩
            · simp only [hpart, run_bind'_simp, run_try_simp, ho, Err.isFatal, Bool.false_eq_true, ↓reduceIte,
                Opath.exitPartial, run_lift_simp, run_do_pure]
            · exact enoent_step (kcfg cfg) st.cur st.links
                (fun X => by rw [k_name _ _ _ _ _ hk hne hnd hdd2, hch]) hpt hsi hx
          | some nxt =>
            rw [hch] at hl
            have ho : Prog.run w (Sys.openat st.cur part0 (O_PATH ||| O_NOFOLLOW) 0) = .ok nxt := by
              rw [run_openat _ hct, hl]
            have hnp := hw.child_path _ _ _ _ hch hinv
            have hnt := hw.child_tree _ _ _ hch
            have hm := run_fstatat_tree (w := w) _ hnt
            by_cases hlk : w.kind nxt = .lnk
            · have hsy : ({ mode := modeOf (w.kind nxt), uid := 0, ino := nxt.toNat } : Sys.Stat).isSymlink = true :=
                (isSymlink_modeOf _ _ _).2 hlk
              simp only [hlk, ↓reduceIte, kcfg]
              have htr0 : ¬ (rest = [] ∧ cfg.nofollow = true) := by rw [hnf]; simp
              by_cases hnosym : hasAll cfg.rflags RESOLVE_NO_SYMLINKS = true
              · refine ⟨.part st.cur remaining (.os ELOOP), st.stack, ?_, by simp only [htr0, hnosym, ↓reduceIte]; rfl,
                  claim_other _ _ _ _ _ _ _ _ _ (os_ne _ _ (by decide)) _⟩
                simp only [hpart, hdd2, run_bind'_simp, run_try_simp, ho, run_onErr_simp, ↓reduceIte,
                  run_do_pure, hm, hsy, run_lift_simp, Bool.not_true, Bool.false_eq_true, htr0, hnosym,
                  Opath.exitPartial]
              · have hmf := run_mayFollowLink (w := w) st.cur nxt hct hnt
                by_cases hlim : st.links + 1 ≥ MAX_SYMLINK_TRAVERSALS
                · refine ⟨.part st.cur remaining (.os ELOOP), st.stack, ?_,
                    by simp only [htr0, hnosym, hlim, ↓reduceIte]; rfl,
                    claim_other _ _ _ _ _ _ _ _ _ (os_ne _ _ (by decide)) _⟩
                  simp only [hpart, hdd2, run_bind'_simp, run_try_simp, ho, run_onErr_simp, ↓reduceIte,
                    run_do_pure, hm, hsy, run_lift_simp, Bool.not_true, Bool.false_eq_true, htr0, hnosym,
                    Opath.exitPartial, hmf, hlim, ↓reduceDIte]
                · have hrl := run_readlinkat_lnk hw nxt hnt hlk
                  have hmg := run_isMagiclink (w := w) nxt hnt
                  have hmg' : Prog.run w ((if Path.isAbsolute (w.body nxt) = true then
                      Procfs.isMagiclinkFilesystem nxt else pure false : M Bool)) = .ok false := by
                    split
                    · exact hmg
                    · rfl
                  have hdl : (st.expected ++ [part0]).dropLast = st.expected := List.dropLast_concat
                  have hns2 : (kcfg cfg).noSymlinks = false := by
                    show hasAll cfg.rflags RESOLVE_NO_SYMLINKS = false
                    simpa using hnosym
                  obtain ⟨s'', hsw, pre', T', hr', hsi', htr⟩ := swap_step (kcfg cfg) (kcfg_nofollow cfg hnf) st.cur
                    (if Path.isAbsolute (w.body nxt) then w.root else st.cur) st.links (w.body nxt)
                    (fun X => k2_link _ (kcfg_nofollow cfg hnf) hns2 _ _ _ _ hk hne hnd hdd2 hch hlk hlim X) hpt hsi hx
                  have hsw' : swapLink st.stack part0 st.cur remaining (w.body nxt) = .ok s'' := hsw
                  obtain ⟨l, s', h1, h2, h3⟩ := ih2 hlim (w.body nxt) s'' (by
                    simp only [hexp, hdl, hroot]
                    by_cases habs : Path.isAbsolute (w.body nxt) = true
                    · simp only [habs, ↓reduceIte]; exact hw.root_path
                    · simp only [habs, ↓reduceIte]; exact hinv) pre' T' (by simpa using hr') (by simpa using hsi')
                  refine ⟨l, s', ?_, ?_, ?_⟩
                  · simp only [hpart, hdd2, run_bind'_simp, run_try_simp, ho, run_onErr_simp, ↓reduceIte,
                      run_do_pure, hm, hsy, run_lift_simp, Bool.not_true, Bool.false_eq_true, htr0, hnosym,
                      hmf, hlim, ↓reduceDIte, hrl, hmg', stackOp_swap cfg hs _ _ _ _ _ _ hsw']
                    simp only [dite_eq_ite] at h1
                    exact h1
                  · simp only [htr0, hnosym, hlim, ↓reduceIte, hroot, kcfg, dite_eq_ite, Bool.false_eq_true] at h2 ⊢
                    exact h2
                  · apply htr
                    simpa [hroot] using h3
            · have hsy := not_symlink (w.kind nxt) 0 nxt.toNat hlk
              obtain ⟨s'', hpop, pre', T', hr', hsi', htr⟩ := pop_step (kcfg cfg) st.cur nxt st.links
                (fun X => k2_nonlink _ _ _ _ _ hk hne hnd hdd2 hch hlk X) hpt hsi part0 (Or.inr ⟨hx, rfl⟩)
              obtain ⟨l, s', h1, h2, h3⟩ := ih1 nxt s'' (by rw [hexp]; exact hnp) pre' T' hr' hsi'
              refine ⟨l, s', ?_, ?_, htr l s' h3⟩
              · simp only [hpart, hdd2, run_bind'_simp, run_try_simp, ho, run_onErr_simp, ↓reduceIte,
                  run_do_pure, hm, hsy, stackOp_pop cfg hs _ _ _ hpop, run_lift_simp, Bool.not_false, Bool.false_eq_true]
                exact h1
              · simp only [hlk, ↓reduceIte]; exact h2
    · have ho : Prog.run w (Sys.openat st.cur part (O_PATH ||| O_NOFOLLOW) 0) = .error (.os ENOTDIR) := by
        rw [run_openat _ hct, lookup_notdir _ hk]
      refine ⟨.part st.cur remaining (.os ENOTDIR), st.stack, ?_, ?_, claim_other _ _ _ _ _ _ _ _ _ (os_ne _ _ (by decide)) _⟩
      · simp only [run_bind'_simp, run_try_simp, ho, Err.isFatal, Bool.false_eq_true, ↓reduceIte, Opath.exitPartial,
          run_lift_simp, run_do_pure]
      · rw [k_notdir _ _ _ _ _ hk]; rfl

end KSimStack
