import Pathrs.Proofs.KSim

/-!
# Consequences of the simulation: both backends compute the specification
-/

open K KRun World KSim

namespace KSpec

variable {w : World}

/-- the specification's configuration for libpathrs' emulated backend -/
def ecfg (rflags : Nat) (nofollow : Bool) : World.Cfg :=
  { nofollow, noSymlinks := hasAll rflags RESOLVE_NO_SYMLINKS, maxLinks := MAX_SYMLINK_TRAVERSALS }

/-- … and for the kernel's own resolution -/
def kcfgK (w : World) (rflags : Nat) (nofollow : Bool) : World.Cfg :=
  { nofollow, noSymlinks := hasAll rflags RESOLVE_NO_SYMLINKS, maxLinks := w.kernelLinks }

theorem run_dup (fd : Fd) : Prog.run w (Sys.dup fd) = .ok fd := by
  unfold Sys.dup
  simp [World.answer]

theorem run_opath_resolve (hw : w.WF) (path : Bytes) (rflags : Nat) (nofollow : Bool) :
    Prog.run w (Opath.resolve (kenv w) w.root path rflags nofollow)
      = toOut (resolveInRoot w (ecfg rflags nofollow) path) := by
  unfold Opath.resolve Opath.doResolve resolveInRoot
  by_cases hp : path = []
  · simp [hp, run_dup, toOut]
  · obtain ⟨l, h1, h2⟩ := walk_sim hw { root := w.root, rflags, nofollow, useStack := false } rfl rfl
      { expected := [], cur := w.root, rem := Path.rawComponents path, links := 0, stack := [] } hw.root_path
    have hk : kcfg { root := w.root, rflags, nofollow, useStack := false } = ecfg rflags nofollow := rfl
    rw [hk] at h2
    simp only [M.bind_def, run_bind'_simp, run_dup, hp, ↓reduceIte, h1]
    rw [← h2]
    cases l <;> simp [lookupOut]

/-- the errors of the specification -/
theorem kresolve_errors (c : World.Cfg) (cur : Fd) (rem : List Bytes) (links : Nat) (e : Nat)
    (h : kresolve w c cur rem links = .error e) : e = ENOTDIR ∨ e = ENOENT ∨ e = ELOOP := by
  fun_induction kresolve w c cur rem links <;> simp_all

theorem resolveInRoot_errors (c : World.Cfg) (path : Bytes) (e : Nat)
    (h : resolveInRoot w c path = .error e) : e = ENOTDIR ∨ e = ENOENT ∨ e = ELOOP := by
  unfold resolveInRoot at h
  split at h
  · cases h; exact Or.inr (Or.inl rfl)
  · exact kresolve_errors _ _ _ _ _ h

theorem hasAll_or_left (a b : Nat) : hasAll (a ||| b) a = true := by
  simp only [hasAll, decide_eq_true_eq]
  apply Nat.eq_of_testBit_eq; intro i
  simp only [Nat.testBit_and, Nat.testBit_or]
  cases a.testBit i <;> simp

theorem hasAll_or_disj (c r m : Nat) (h : c &&& m = 0) : hasAll (c ||| r) m = hasAll r m := by
  simp [hasAll, Nat.and_or_distrib_right, h]

theorem run_openat2_root (hw : w.WF) (path : Bytes) (hnul : path.contains 0 = false) (rflags : Nat) (nofollow : Bool) :
    Prog.run w (Sys.openat2 w.root path (if nofollow then O_PATH ||| O_NOFOLLOW else O_PATH)
        (RESOLVE_IN_ROOT ||| RESOLVE_NO_MAGICLINKS ||| rflags))
      = toOut (resolveInRoot w (kcfgK w rflags nofollow) path) := by
  unfold Sys.openat2
  have h0 := hotfix_tree (tree_nonneg hw.root_tree)
  have h1 : hasAll (RESOLVE_IN_ROOT ||| RESOLVE_NO_MAGICLINKS ||| rflags) (RESOLVE_IN_ROOT ||| RESOLVE_NO_MAGICLINKS) = true :=
    hasAll_or_left _ _
  have h2 : hasAll (RESOLVE_IN_ROOT ||| RESOLVE_NO_MAGICLINKS ||| rflags) RESOLVE_NO_SYMLINKS = hasAll rflags RESOLVE_NO_SYMLINKS :=
    hasAll_or_disj _ _ _ (by decide)
  have h3 : hasAll ((if nofollow then O_PATH ||| O_NOFOLLOW else O_PATH) ||| O_CLOEXEC) O_PATH = true := by
    cases nofollow <;> decide
  have h4 : hasAll ((if nofollow then O_PATH ||| O_NOFOLLOW else O_PATH) ||| O_CLOEXEC) O_NOFOLLOW = nofollow := by
    cases nofollow <;> decide
  simp only [hnul, Bool.false_eq_true, ↓reduceIte, M.bind_def, run_bind'_simp, run_do_liftE, h0, run_mcall_simp,
    World.answer, tree_ne_proc hw.root_tree, tree_ne_ts hw.root_tree, toCString_id path hnul, h1, h2, h3, h4, true_and,
    and_self, kcfgK]
  have hok : ∀ k, openKind k ((if nofollow then O_PATH ||| O_NOFOLLOW else O_PATH) ||| O_CLOEXEC) = .ok () := by
    intro k; cases k <;> cases nofollow <;> rfl
  cases resolveInRoot w _ path <;> simp [toOut, hok]

theorem run_openat2_resolve (hw : w.WF) (path : Bytes) (hnul : path.contains 0 = false) (rflags : Nat)
    (nofollow : Bool) :
    Prog.run w (Openat2.resolve (kenv w) w.root path rflags nofollow)
      = toOut (resolveInRoot w (kcfgK w rflags nofollow) path) := by
  unfold Openat2.resolve
  have hk : (kenv w).openat2 = true := rfl
  have hf : (16 : Nat) = 15 + 1 := rfl
  simp only [hk, Bool.not_true, Bool.false_eq_true, ↓reduceIte]
  rw [hf, Openat2.resolveLoop]
  have ho := run_openat2_root hw path hnul rflags nofollow
  cases hr : resolveInRoot w (kcfgK w rflags nofollow) path with
  | ok c =>
    rw [hr] at ho
    simp only [M.bind_def, run_bind'_simp, run_try_simp, ho, toOut, run_do_pure]
  | error e =>
    rw [hr] at ho
    have he := resolveInRoot_errors _ _ _ hr
    have h1 : e ≠ ENOSYS := by rcases he with h | h | h <;> rw [h] <;> decide
    have h2 : e ≠ EAGAIN := by rcases he with h | h | h <;> rw [h] <;> decide
    simp only [M.bind_def, run_bind'_simp, run_try_simp, ho, toOut, Err.isFatal, Bool.false_eq_true, ↓reduceIte, h1, h2,
      run_do_throw]

/-- every object the specification can reach from a position inside the root has a path
below the root: in-root resolution never leaves the root's tree -/
theorem kresolve_inside (hw : w.WF) (c : World.Cfg) (cur : Fd) (rem : List Bytes) (links : Nat) (r : Fd)
    (hin : ∃ p, w.dpath cur = some p) (h : kresolve w c cur rem links = .ok r) :
    ∃ p, w.dpath r = some p := by
  fun_induction kresolve w c cur rem links with
  | case1 cur links => cases h; exact hin
  | case2 cur links x rest hk => cases h
  | case3 cur links x rest hk hx ih => exact ih hin h
  | case4 cur links rest hk hx ih =>
    simp only [dite_eq_ite] at ih
    apply ih _ h
    split
    · exact ⟨[], hw.root_path⟩
    · rename_i hne
      obtain ⟨p, hp⟩ := hin
      rcases List.eq_nil_or_concat p with h0 | ⟨q, n, hq⟩
      · exact absurd (hw.path_inj _ _ _ (h0 ▸ hp) hw.root_path) hne
      · rw [hq, List.concat_eq_append] at hp
        exact ⟨q, (hw.parent_path _ _ _ (by simpa using hk) hp).1⟩
  | case5 cur links x rest hk hx hdd hch => cases h
  | case6 cur links x rest hk hx hdd nxt hch hl htr =>
    cases h
    obtain ⟨p, hp⟩ := hin
    exact ⟨_, hw.child_path _ _ _ _ hch hp⟩
  | case7 cur links x rest hk hx hdd nxt hch hl htr hns => cases h
  | case8 cur links x rest hk hx hdd nxt hch hl htr hns hlim => cases h
  | case9 cur links x rest hk hx hdd nxt hch hl htr hns hlim ih =>
    simp only [dite_eq_ite] at ih
    apply ih _ h
    split
    · exact ⟨[], hw.root_path⟩
    · exact hin
  | case10 cur links x rest hk hx hdd nxt hch hl ih =>
    obtain ⟨p, hp⟩ := hin
    exact ih ⟨_, hw.child_path _ _ _ _ hch hp⟩ h

/-- a larger link budget changes nothing unless the smaller one was exhausted -/
theorem kresolve_limit_mono (c c' : World.Cfg) (hnf : c'.nofollow = c.nofollow) (hns : c'.noSymlinks = c.noSymlinks)
    (hle : c.maxLinks ≤ c'.maxLinks) (cur : Fd) (rem : List Bytes) (links : Nat)
    (h : kresolve w c cur rem links ≠ .error ELOOP) :
    kresolve w c' cur rem links = kresolve w c cur rem links := by
  fun_induction kresolve w c cur rem links with
  | case1 cur links => rw [k_nil]
  | case2 cur links x rest hk => rw [k_notdir _ _ _ _ _ hk]
  | case3 cur links x rest hk hx ih => rw [k_dot _ _ _ _ _ (by simpa using hk) hx]; exact ih h
  | case4 cur links rest hk hx ih =>
    simp only [dite_eq_ite] at ih
    rw [k_dotdot _ _ _ _ (by simpa using hk)]; exact ih h
  | case5 cur links x rest hk hx hdd hch =>
    rw [k_name _ _ _ _ _ (by simpa using hk) (fun h => hx (Or.inl h)) (fun h => hx (Or.inr h)) hdd, hch]
  | case6 cur links x rest hk hx hdd nxt hch hl htr =>
    rw [k_name _ _ _ _ _ (by simpa using hk) (fun h => hx (Or.inl h)) (fun h => hx (Or.inr h)) hdd, hch]
    simp [hl, htr, hnf]
  | case7 cur links x rest hk hx hdd nxt hch hl htr hnsy => exact absurd rfl h
  | case8 cur links x rest hk hx hdd nxt hch hl htr hnsy hlim => exact absurd rfl h
  | case9 cur links x rest hk hx hdd nxt hch hl htr hnsy hlim ih =>
    simp only [dite_eq_ite] at ih
    rw [k_name _ _ _ _ _ (by simpa using hk) (fun h => hx (Or.inl h)) (fun h => hx (Or.inr h)) hdd, hch]
    have hlim' : ¬ links + 1 ≥ c'.maxLinks := by omega
    simp only [hl, ↓reduceIte, hnf, htr, hns, hnsy, hlim']
    exact ih h
  | case10 cur links x rest hk hx hdd nxt hch hl ih =>
    rw [k_name _ _ _ _ _ (by simpa using hk) (fun h => hx (Or.inl h)) (fun h => hx (Or.inr h)) hdd, hch]
    simp only [hl, ↓reduceIte]
    exact ih h

/-- with `RESOLVE_NO_SYMLINKS` the link budget is never consulted -/
theorem kresolve_nosym (c c' : World.Cfg) (hnf : c'.nofollow = c.nofollow) (hns : c.noSymlinks = true)
    (hns' : c'.noSymlinks = true) (cur : Fd) (rem : List Bytes) (links links' : Nat) :
    kresolve w c' cur rem links' = kresolve w c cur rem links := by
  fun_induction kresolve w c cur rem links with
  | case1 cur links => rw [k_nil]
  | case2 cur links x rest hk => rw [k_notdir _ _ _ _ _ hk]
  | case3 cur links x rest hk hx ih => rw [k_dot _ _ _ _ _ (by simpa using hk) hx]; exact ih
  | case4 cur links rest hk hx ih =>
    simp only [dite_eq_ite] at ih
    rw [k_dotdot _ _ _ _ (by simpa using hk)]; exact ih
  | case5 cur links x rest hk hx hdd hch =>
    rw [k_name _ _ _ _ _ (by simpa using hk) (fun h => hx (Or.inl h)) (fun h => hx (Or.inr h)) hdd, hch]
  | case6 cur links x rest hk hx hdd nxt hch hl htr =>
    rw [k_name _ _ _ _ _ (by simpa using hk) (fun h => hx (Or.inl h)) (fun h => hx (Or.inr h)) hdd, hch]
    simp [hl, htr, hnf]
  | case7 cur links x rest hk hx hdd nxt hch hl htr hnsy =>
    rw [k_name _ _ _ _ _ (by simpa using hk) (fun h => hx (Or.inl h)) (fun h => hx (Or.inr h)) hdd, hch]
    simp only [hl, ↓reduceIte, hnf, htr, hns']
  | case8 cur links x rest hk hx hdd nxt hch hl htr hnsy hlim => exact absurd hns hnsy
  | case9 cur links x rest hk hx hdd nxt hch hl htr hnsy hlim ih => exact absurd hns hnsy
  | case10 cur links x rest hk hx hdd nxt hch hl ih =>
    rw [k_name _ _ _ _ _ (by simpa using hk) (fun h => hx (Or.inl h)) (fun h => hx (Or.inr h)) hdd, hch]
    simp only [hl, ↓reduceIte]
    exact ih

/-- a symlink that names itself: resolution through it ends in `ELOOP`, whatever the budget
already spent (the specification is a total function: it always ends) -/
theorem kresolve_selfloop (hw : w.WF) (c : World.Cfg) (d l : Fd) (n : Bytes) (rest : List Bytes)
    (hch : w.child d n = some l) (hl : w.kind l = .lnk)
    (hbody : Path.rawComponents (w.body l) = [n]) (hrel : Path.isAbsolute (w.body l) = false)
    (htr : ¬ (rest = [] ∧ c.nofollow = true)) (links : Nat) :
    kresolve w c d (n :: rest) links = .error ELOOP := by
  have hk := hw.child_dir _ _ _ hch
  have hp := hw.names _ _ _ hch
  generalize hm : c.maxLinks - links = m
  induction m generalizing links with
  | zero =>
    rw [k_name _ _ _ _ _ hk hp.1 hp.2.2.1 hp.2.2.2.1, hch]
    have : links + 1 ≥ c.maxLinks := by omega
    simp only [hl, ↓reduceIte, htr, this]
    split <;> rfl
  | succ m ih =>
    rw [k_name _ _ _ _ _ hk hp.1 hp.2.2.1 hp.2.2.2.1, hch]
    simp only [hl, ↓reduceIte, htr, hbody, hrel, Bool.false_eq_true]
    split
    · rfl
    · split
      · rfl
      · exact ih (links + 1) (by omega)

end KSpec
