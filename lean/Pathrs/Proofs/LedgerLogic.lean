import Pathrs.Ledger
import Pathrs.Proofs.Runs

/-!
# A Hoare-style logic for the descriptor ledger

`Led ext S p post`: started owning the set of numbers `S`, every run of `p` in which the kernel hands out only
numbers that are not open keeps the ledger defined and ends owning a set `S'` with `post r S'` — unless the run
ends in a fatal model error.  Owned sets are predicates `Fd → Prop`; the ledger's list represents such a set
(`Rep`: no duplicates, same members), so by function and propositional extensionality two states with the
same members are equal.
-/

open K Ledger

namespace LedgerLogic

abbrev FdSet := Fd → Prop

def ins (a : Fd) (S : FdSet) : FdSet := fun x => x = a ∨ S x
def del (a : Fd) (S : FdSet) : FdSet := fun x => x ≠ a ∧ S x
def emp : FdSet := fun _ => False

theorem FdSet.ext {A B : FdSet} (h : ∀ x, A x ↔ B x) : A = B := funext fun x => propext (h x)

/-- the ledger's list `o` stands for the set `S` -/
def Rep (o : List Fd) (S : FdSet) : Prop := o.Nodup ∧ ∀ x, x ∈ o ↔ S x

theorem Rep.nil : Rep [] emp := ⟨List.nodup_nil, fun x => by simp [emp]⟩

/-! ## The ledger over concatenated histories -/

theorem ledger_append (o : List Fd) (l1 l2 : Hist) :
    ledger o (l1 ++ l2) = (ledger o l1).bind fun o' => ledger o' l2 := by
  induction l1 generalizing o with
  | nil => rfl
  | cons cr t ih =>
    obtain ⟨c, r⟩ := cr
    simp only [List.cons_append, ledger]
    cases step o c r with
    | none => rfl
    | some o' => exact ih o'

theorem fresh_append (ext o : List Fd) (l1 l2 : Hist) :
    Fresh ext o (l1 ++ l2) ↔ (Fresh ext o l1 ∧ ∀ o', ledger o l1 = some o' → Fresh ext o' l2) := by
  induction l1 generalizing o with
  | nil =>
    simp only [List.nil_append, Fresh, ledger, true_and]
    constructor
    · intro h o' ho'; cases ho'; exact h
    · intro h; exact h o rfl
  | cons cr t ih =>
    obtain ⟨c, r⟩ := cr
    simp only [List.cons_append, Fresh, ledger]
    cases step o c r with
    | none =>
      simp only [and_true]
      constructor
      · intro h; exact ⟨h, fun o' ho' => by cases ho'⟩
      · intro h; exact h.1
    | some o1 =>
      simp only []
      rw [ih]
      constructor
      · rintro ⟨h1, h2, h3⟩; exact ⟨⟨h1, h2⟩, h3⟩
      · rintro ⟨⟨h1, h2⟩, h3⟩; exact ⟨h1, h2, h3⟩

theorem step_of_not_close {c : Call} (hnc : ∀ n, c ≠ .close n) (o : List Fd) (r : Resp) :
    step o c r = match produced c r with
      | some n => some (n :: o)
      | none => some o := by
  cases c <;> first | rfl | exact absurd rfl (hnc _)

/-! ## The judgment -/

/-- general form: `fat a` marks the results for which nothing is claimed -/
def LedG (ext : List Fd) (S : FdSet) (p : Prog α) (fat : α → Prop) (post : α → FdSet → Prop) : Prop :=
  ∀ o h l a, Rep o S → Runs p h (h ++ l) a → Fresh ext o l →
    fat a ∨ ∃ o' S', ledger o l = some o' ∧ Rep o' S' ∧ post a S'

/-- infallible programs -/
def LedP (ext : List Fd) (S : FdSet) (p : Prog α) (post : α → FdSet → Prop) : Prop :=
  LedG ext S p (fun _ => False) post

def Fatal : Except Err α → Prop
  | .error e => e.isFatal = true
  | .ok _ => False

/-- programs of the error monad: nothing is claimed about runs that end in a fatal model error -/
def Led (ext : List Fd) (S : FdSet) (p : M α) (post : Except Err α → FdSet → Prop) : Prop :=
  LedG (α := Except Err α) ext S p Fatal post

variable {ext : List Fd} {S : FdSet}

namespace LedG

theorem ret {a : α} {fat : α → Prop} {post : α → FdSet → Prop} (h : post a S) :
    LedG ext S (.ret a) fat post := by
  intro o h0 l a' hrep hr _
  obtain ⟨hh, rfl⟩ := Runs.ret_inv hr
  have hl : l = [] := List.append_right_eq_self.mp hh
  subst hl
  exact Or.inr ⟨o, S, rfl, hrep, h⟩

theorem ret_fat {a : α} {fat : α → Prop} {post : α → FdSet → Prop} (h : fat a) :
    LedG ext S (.ret a) fat post := by
  intro o h0 l a' _ hr _
  obtain ⟨_, rfl⟩ := Runs.ret_inv hr
  exact Or.inl h

theorem mono {p : Prog α} {fat fat' : α → Prop} {Q post : α → FdSet → Prop}
    (hp : LedG ext S p fat Q) (hf : ∀ a, fat a → fat' a) (hq : ∀ a S', Q a S' → post a S') :
    LedG ext S p fat' post := by
  intro o h l a hrep hr hfr
  rcases hp o h l a hrep hr hfr with h1 | ⟨o', S', h1, h2, h3⟩
  · exact Or.inl (hf a h1)
  · exact Or.inr ⟨o', S', h1, h2, hq a S' h3⟩

theorem bind {p : Prog α} {f : α → Prog β} {fa : α → Prop} {fb : β → Prop}
    {Q : α → FdSet → Prop} {post : β → FdSet → Prop}
    (hp : LedG ext S p fa Q)
    (hfat : ∀ a, fa a → ∀ h h' b, Runs (f a) h h' b → fb b)
    (hf : ∀ a S', Q a S' → LedG ext S' (f a) fb post) :
    LedG ext S (Prog.bind p f) fb post := by
  intro o h l b hrep hr hfr
  obtain ⟨hm, a, h1, h2⟩ := Runs.bind_inv hr
  obtain ⟨l1, rfl⟩ := h1.isPrefix
  obtain ⟨l2, hl2⟩ := h2.isPrefix
  have hl : l = l1 ++ l2 := by
    rw [List.append_assoc] at hl2
    exact (List.append_cancel_left hl2).symm
  subst hl
  rw [fresh_append] at hfr
  rcases hp o h l1 a hrep h1 hfr.1 with hfa | ⟨o1, S1, hl1, hrep1, hq⟩
  · exact Or.inl (hfat a hfa _ _ _ h2)
  · have h2' : Runs (f a) (h ++ l1) ((h ++ l1) ++ l2) b := by
      rw [List.append_assoc]; exact h2
    rcases hf a S1 hq o1 (h ++ l1) l2 b hrep1 h2' (hfr.2 o1 hl1) with hb | ⟨o2, S2, hl2', hrep2, hpost⟩
    · exact Or.inl hb
    · refine Or.inr ⟨o2, S2, ?_, hrep2, hpost⟩
      rw [ledger_append, hl1]
      exact hl2'

theorem call_gen {c : Call} {k : Resp → Prog α} {fat : α → Prop} {post : α → FdSet → Prop}
    (hk : ∀ r o, Rep o S → (∀ n, produced c r = some n → 0 ≤ n ∧ n ∉ ext ∧ n ∉ o) →
      ∃ o' S', step o c r = some o' ∧ Rep o' S' ∧ LedG ext S' (k r) fat post) :
    LedG ext S (.call c k) fat post := by
  intro o h l a hrep hr hfr
  obtain ⟨r, hkr⟩ := Runs.call_inv hr
  obtain ⟨t, ht⟩ := hkr.isPrefix
  have hl : l = (c, r) :: t := by
    rw [List.append_assoc] at ht
    exact (List.append_cancel_left ht).symm
  subst hl
  simp only [Fresh] at hfr
  obtain ⟨o', S', hs, hrep', hled⟩ := hk r o hrep hfr.1
  have hfr2 := hfr.2
  rw [hs] at hfr2
  have hkr' : Runs (k r) (h ++ [(c, r)]) ((h ++ [(c, r)]) ++ t) a := by
    rw [List.append_assoc]; exact hkr
  rcases hled o' _ t a hrep' hkr' hfr2 with hf | ⟨o2, S2, h1, h2, h3⟩
  · exact Or.inl hf
  · refine Or.inr ⟨o2, S2, ?_, h2, h3⟩
    simp only [ledger, hs]
    exact h1

/-- a `close` of an owned number -/
theorem call_close {n : Fd} {k : Resp → Prog α} {fat : α → Prop} {post : α → FdSet → Prop}
    (hn : S n) (hk : ∀ r, LedG ext (del n S) (k r) fat post) :
    LedG ext S (.call (.close n) k) fat post := by
  apply call_gen
  intro r o hrep _
  refine ⟨o.erase n, del n S, ?_, ⟨hrep.1.erase n, ?_⟩, hk r⟩
  · simp only [step, (hrep.2 n).mpr hn, ↓reduceIte]
  · intro x
    rw [hrep.1.mem_erase_iff, hrep.2 x]
    rfl

/-- a call that hands out no descriptor -/
theorem call_ro {c : Call} {k : Resp → Prog α} {fat : α → Prop} {post : α → FdSet → Prop}
    (hc : ∀ r, produced c r = none) (hnc : ∀ n, c ≠ .close n)
    (hk : ∀ r, LedG ext S (k r) fat post) :
    LedG ext S (.call c k) fat post := by
  apply call_gen
  intro r o hrep _
  refine ⟨o, S, ?_, hrep, hk r⟩
  rw [step_of_not_close hnc, hc r]

/-- a call that may hand out a descriptor -/
theorem call_fd {c : Call} {k : Resp → Prog α} {fat : α → Prop} {post : α → FdSet → Prop}
    (hnc : ∀ n, c ≠ .close n)
    (hsome : ∀ r n, produced c r = some n → ¬ S n → LedG ext (ins n S) (k r) fat post)
    (hnone : ∀ r, produced c r = none → LedG ext S (k r) fat post) :
    LedG ext S (.call c k) fat post := by
  apply call_gen
  intro r o hrep hfresh
  rw [step_of_not_close hnc]
  cases hp : produced c r with
  | none => exact ⟨o, S, rfl, hrep, hnone r hp⟩
  | some n =>
    have hn := (hfresh n hp).2.2
    have hSn : ¬ S n := fun h => hn ((hrep.2 n).mpr h)
    refine ⟨n :: o, ins n S, rfl, ⟨List.nodup_cons.mpr ⟨hn, hrep.1⟩, ?_⟩, hsome r n hp hSn⟩
    intro x
    simp only [List.mem_cons, ins, hrep.2 x]

end LedG

/-! ## Infallible programs -/

namespace LedP

theorem ret {a : α} {post : α → FdSet → Prop} (h : post a S) : LedP ext S (.ret a) post := LedG.ret h

theorem bind {p : Prog α} {f : α → Prog β} {Q : α → FdSet → Prop} {post : β → FdSet → Prop}
    (hp : LedP ext S p Q) (hf : ∀ a S', Q a S' → LedP ext S' (f a) post) :
    LedP ext S (Prog.bind p f) post :=
  LedG.bind hp (fun _ h => h.elim) hf

theorem mono {p : Prog α} {Q post : α → FdSet → Prop} (hp : LedP ext S p Q)
    (hq : ∀ a S', Q a S' → post a S') : LedP ext S p post :=
  LedG.mono hp (fun _ h => h) hq

theorem call_ro {c : Call} {k : Resp → Prog α} {post : α → FdSet → Prop}
    (hc : ∀ r, produced c r = none) (hnc : ∀ n, c ≠ .close n)
    (hk : ∀ r, LedP ext S (k r) post) : LedP ext S (.call c k) post :=
  LedG.call_ro hc hnc hk

theorem close {fd : Fd} (h : S fd) : LedP ext S (Sys.close fd) (fun _ S' => S' = del fd S) := by
  unfold Sys.close
  exact LedG.call_close h (fun _ => LedG.ret rfl)

theorem closeList (l : List Fd) (hnd : l.Nodup) (S : FdSet) (hmem : ∀ x ∈ l, S x) :
    LedP ext S (Sys.closeList l) (fun _ S' => S' = fun x => S x ∧ x ∉ l) := by
  induction l generalizing S with
  | nil =>
    unfold Sys.closeList
    apply ret
    apply FdSet.ext; intro x; simp
  | cons fd rest ih =>
    unfold Sys.closeList
    have hnd' := List.nodup_cons.mp hnd
    apply bind (close (hmem fd List.mem_cons_self))
    rintro _ S' rfl
    apply mono (ih hnd'.2 _ ?_)
    · rintro _ S'' rfl
      apply FdSet.ext; intro x
      simp only [del, List.mem_cons, not_or]
      constructor
      · rintro ⟨⟨h1, h2⟩, h3⟩; exact ⟨h2, h1, h3⟩
      · rintro ⟨h2, h1, h3⟩; exact ⟨⟨h1, h2⟩, h3⟩
    · intro x hx
      refine ⟨?_, hmem x (List.mem_cons_of_mem _ hx)⟩
      intro hxe; subst hxe; exact hnd'.1 hx

end LedP

theorem nodup_eraseDups (l : List Fd) : l.eraseDups.Nodup := by
  generalize hn : l.length = n
  induction n using Nat.strongRecOn generalizing l with
  | _ n ih =>
    cases l with
    | nil => simp
    | cons a t =>
      rw [List.eraseDups_cons, List.nodup_cons]
      constructor
      · rw [List.mem_eraseDups, List.mem_filter]
        simp
      · subst hn
        exact ih _ (Nat.lt_succ_of_le (List.length_filter_le _ _)) _ rfl

namespace LedP

/-- `closeAll l` with the end state given by its members -/
theorem closeAll (l : List Fd) (T : FdSet) (hmem : ∀ x ∈ l, S x) (hT : ∀ x, T x ↔ (S x ∧ x ∉ l)) :
    LedP ext S (Sys.closeAll l) (fun _ S' => S' = T) := by
  unfold Sys.closeAll
  apply mono (closeList _ (nodup_eraseDups l) S (fun x hx => hmem x (List.mem_eraseDups.mp hx)))
  rintro _ S' rfl
  apply FdSet.ext; intro x
  rw [hT x, List.mem_eraseDups]

theorem close_to {fd : Fd} (T : FdSet) (h : S fd) (hT : ∀ x, T x ↔ (x ≠ fd ∧ S x)) :
    LedP ext S (Sys.close fd) (fun _ S' => S' = T) := by
  apply mono (close h)
  rintro _ S' rfl
  exact FdSet.ext fun x => (hT x).symm

end LedP

/-! ## The error monad -/

theorem fatal_of_ret {e : Err} (he : e.isFatal = true) {h h' : Hist} {b : Except Err β}
    (hr : Runs (Prog.ret (Except.error e : Except Err β)) h h' b) : Fatal b := by
  obtain ⟨_, rfl⟩ := Runs.ret_inv hr
  exact he

namespace Led

theorem mono {p : M α} {Q post : Except Err α → FdSet → Prop} (hp : Led ext S p Q)
    (hq : ∀ r S', Q r S' → post r S') : Led ext S p post :=
  LedG.mono hp (fun _ h => h) hq

theorem pure {a : α} {post : Except Err α → FdSet → Prop} (h : post (.ok a) S) :
    Led ext S (Pure.pure a : M α) post := LedG.ret h

theorem throw {e : Err} {post : Except Err α → FdSet → Prop} (h : post (.error e) S) :
    Led ext S (MonadExcept.throw e : M α) post := LedG.ret h

theorem throw_fatal {e : Err} {post : Except Err α → FdSet → Prop} (h : e.isFatal = true) :
    Led ext S (MonadExcept.throw e : M α) post := LedG.ret_fat h

theorem ofP {p : Prog (Except Err α)} {post : Except Err α → FdSet → Prop} (hp : LedP ext S p post) :
    Led ext S (p : M α) post :=
  LedG.mono hp (fun _ h => h.elim) (fun _ _ h => h)

theorem bind {p : M α} {f : α → M β} {Q : Except Err α → FdSet → Prop}
    {post : Except Err β → FdSet → Prop}
    (hp : Led ext S p Q) (hf : ∀ a S', Q (.ok a) S' → Led ext S' (f a) post)
    (he : ∀ e S', Q (.error e) S' → post (.error e) S') : Led ext S (M.bind' p f) post := by
  unfold M.bind'
  refine LedG.bind hp ?_ ?_
  · intro a ha h h' b hr
    cases a with
    | ok a => exact ha.elim
    | error e => exact fatal_of_ret ha hr
  · intro a S' hq
    cases a with
    | ok a => exact hf a S' hq
    | error e => exact LedG.ret (he e S' hq)

theorem lift {p : Prog α} {post : Except Err α → FdSet → Prop}
    (hp : LedP ext S p (fun a S' => post (.ok a) S')) : Led ext S (M.lift p) post := by
  unfold M.lift
  exact LedG.bind hp (fun _ h => h.elim) (fun a S' hq => LedG.ret hq)

theorem ofExcept {x : Except Err α} {post : Except Err α → FdSet → Prop} (h : post x S) :
    Led ext S (M.ofExcept x) post := by
  cases x <;> exact LedG.ret h

theorem try' {p : M α} {Q : Except Err α → FdSet → Prop}
    {post : Except Err (Except Err α) → FdSet → Prop} (hp : Led ext S p Q)
    (hok : ∀ a S', Q (.ok a) S' → post (.ok (.ok a)) S')
    (herr : ∀ e S', e.isFatal = false → Q (.error e) S' → post (.ok (.error e)) S') :
    Led ext S (M.try' p) post := by
  unfold M.try'
  refine LedG.bind hp ?_ ?_
  · intro a ha h h' b hr
    cases a with
    | ok a => exact ha.elim
    | error e =>
      have ha' : e.isFatal = true := ha
      simp only [ha', ↓reduceIte] at hr
      exact fatal_of_ret ha hr
  · intro a S' hq
    cases a with
    | ok a => exact LedG.ret (hok a S' hq)
    | error e =>
      by_cases hf : e.isFatal = true
      · simp only [hf, ↓reduceIte]; exact LedG.ret_fat hf
      · simp only [hf]
        exact LedG.ret (herr e S' (by simpa using hf) hq)

theorem onErr {p : M α} {c : Prog Unit} {Q post : Except Err α → FdSet → Prop}
    (hp : Led ext S p Q) (hok : ∀ a S', Q (.ok a) S' → post (.ok a) S')
    (herr : ∀ e S', Q (.error e) S' → LedP ext S' c (fun _ S'' => post (.error e) S'')) :
    Led ext S (M.onErr p c) post := by
  unfold M.onErr
  refine LedG.bind hp ?_ ?_
  · intro a ha h h' b hr
    cases a with
    | ok a => exact ha.elim
    | error e =>
      obtain ⟨_, _, _, h2⟩ := Runs.bind_inv hr
      exact fatal_of_ret ha h2
  · intro a S' hq
    cases a with
    | ok a => exact LedG.ret (hok a S' hq)
    | error e =>
      exact LedG.bind (herr e S' hq) (fun _ h => h.elim) (fun _ S'' h => LedG.ret h)

/-- a call through `M.call` that hands out no descriptor -/
theorem call_ro {c : Call} {post : Except Err Resp → FdSet → Prop}
    (hc : ∀ r, produced c r = none) (hnc : ∀ n, c ≠ .close n) (hq : ∀ r, post (.ok r) S) :
    Led ext S (M.call c) post := by
  unfold M.call Prog.perform
  exact lift (LedP.call_ro hc hnc (fun r => LedP.ret (hq r)))

/-- a call through `M.call` that may hand out a descriptor -/
theorem call_fd {c : Call} {post : Except Err Resp → FdSet → Prop} (hnc : ∀ n, c ≠ .close n)
    (hsome : ∀ r n, produced c r = some n → ¬ S n → post (.ok r) (ins n S))
    (hnone : ∀ r, produced c r = none → post (.ok r) S) :
    Led ext S (M.call c) post := by
  unfold M.call Prog.perform
  apply lift
  exact LedG.call_fd hnc (fun r n h1 h2 => LedG.ret (hsome r n h1 h2)) (fun r h => LedG.ret (hnone r h))

theorem isOk {p : M α} {Q : Except Err α → FdSet → Prop} {post : Except Err Bool → FdSet → Prop}
    (hp : Led ext S p Q)
    (hok : ∀ a S', Q (.ok a) S' → post (.ok true) S')
    (herr : ∀ e S', Q (.error e) S' → post (.ok false) S') :
    Led ext S (M.isOk p) post := by
  unfold M.isOk
  refine bind (Q := fun r S' => match r with
      | .ok (.ok _) => post (.ok true) S'
      | .ok (.error _) => post (.ok false) S'
      | .error _ => False)
    (try' hp ?_ ?_) ?_ ?_
  · intro a S' hq; exact hok a S' hq
  · intro e S' _ hq; exact herr e S' hq
  · intro x S' hx
    cases x with
    | ok a => exact pure hx
    | error e => exact pure hx
  · intro e S' hx; exact hx.elim

end Led

end LedgerLogic
