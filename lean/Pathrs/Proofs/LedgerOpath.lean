import Pathrs.Proofs.LedgerProcfs

/-!
# Ledger rules of the emulated in-root resolver
-/

open K Ledger

namespace LedgerLogic

variable {ext : List Fd} {S : FdSet}

/-! ## The symlink stack only ever forgets directories (or takes the one it is given) -/

def StackAll (P : Fd → Prop) (s : SStack) : Prop := ∀ e ∈ s, P e.dir

theorem StackAll_dropLast {P : Fd → Prop} {s : SStack} (h : StackAll P s) : StackAll P s.dropLast :=
  fun e he => h e ((List.dropLast_sublist s).subset he)

theorem StackAll_doPop {P : Fd → Prop} {s s' : SStack} {part : Bytes} (h : StackAll P s)
    (hp : s.doPop part = .ok s') : StackAll P s' := by
  unfold SStack.doPop at hp
  split at hp
  · cases hp; exact h
  · split at hp
    · cases hp
    · rename_i e he
      split at hp
      · cases hp
      · split at hp
        · cases hp
        · cases hp
          intro x hx
          rcases List.mem_append.mp hx with h1 | h1
          · exact StackAll_dropLast h x h1
          · simp at h1; subst h1
            exact h e (List.mem_of_getLast? he)

theorem StackAll_trim {P : Fd → Prop} {s : SStack} (h : StackAll P s) : StackAll P s.trim := by
  unfold SStack.trim
  intro e he
  have : e ∈ s.reverse := (List.dropWhile_sublist (l := s.reverse) _).subset (List.mem_reverse.mp he)
  exact h e (List.mem_reverse.mp this)

theorem StackAll_doPush {P : Fd → Prop} {s : SStack} (h : StackAll P s) (dir : Fd) (hd : P dir)
    (r t : Bytes) : StackAll P (s.doPush dir r t) := by
  unfold SStack.doPush
  intro e he
  rcases List.mem_append.mp he with h1 | h1
  · exact h e h1
  · simp at h1; subst h1; exact hd

theorem StackAll_popPart {P : Fd → Prop} {s s' : SStack} {part : Bytes} (h : StackAll P s)
    (hp : s.popPart part = .ok s') : StackAll P s' := by
  unfold SStack.popPart at hp
  split at hp
  · cases hp; exact h
  · cases hp
  · rename_i s1 h1; cases hp; exact StackAll_trim (StackAll_doPop h h1)

theorem StackAll_swapLink {P : Fd → Prop} {s s' : SStack} {part : Bytes} {dir : Fd} {r t : Bytes}
    (h : StackAll P s) (hd : P dir) (hp : s.swapLink part dir r t = .ok s') : StackAll P s' := by
  unfold SStack.swapLink at hp
  split at hp
  · cases hp; exact StackAll_doPush h dir hd r t
  · rename_i s1 h1; cases hp; exact StackAll_doPush (StackAll_doPop h h1) dir hd r t
  · cases hp

theorem StackAll_stackOp {P : Fd → Prop} {cfg : Opath.WalkCfg} {s s' : SStack}
    {f : SStack → Except SErr SStack} (h : StackAll P s) (hf : ∀ s1, f s = .ok s1 → StackAll P s1)
    (hp : Opath.stackOp cfg s f = .ok s') : StackAll P s' := by
  unfold Opath.stackOp at hp
  split at hp
  · split at hp
    · rename_i s1 h1; cases hp; exact hf _ h1
    · cases hp
  · cases hp; exact h

theorem stackOp_noStack {cfg : Opath.WalkCfg} {s s' : SStack} {f : SStack → Except SErr SStack}
    (hp : Opath.stackOp cfg s f = .ok s') (hu : cfg.useStack = false) : s' = s := by
  unfold Opath.stackOp at hp
  simp only [hu] at hp
  cases hp; rfl

theorem StackAll_dirs {P : Fd → Prop} {s : SStack} (h : StackAll P s) : ∀ x ∈ s.dirs, P x := by
  intro x hx
  unfold SStack.dirs at hx
  obtain ⟨e, he, rfl⟩ := List.mem_map.mp hx
  exact h e he

theorem StackAll_self (s : SStack) : StackAll (fun x => x ∈ s.dirs) s := by
  intro e he
  unfold SStack.dirs
  exact List.mem_map.mpr ⟨e, he, rfl⟩

theorem dirs_popPart {cfg : Opath.WalkCfg} {s s' : SStack} {part : Bytes}
    (hp : Opath.stackOp cfg s (·.popPart part) = .ok s') : ∀ x ∈ s'.dirs, x ∈ s.dirs :=
  StackAll_dirs (StackAll_stackOp (StackAll_self s) (fun _ h1 => StackAll_popPart (StackAll_self s) h1) hp)

theorem dirs_swapLink {cfg : Opath.WalkCfg} {s s' : SStack} {part : Bytes} {dir : Fd} {r t : Bytes}
    (hp : Opath.stackOp cfg s (·.swapLink part dir r t) = .ok s') :
    ∀ x ∈ s'.dirs, x ∈ s.dirs ∨ x = dir := by
  have h0 : StackAll (fun x => x ∈ s.dirs ∨ x = dir) s := fun e he => Or.inl (StackAll_self s e he)
  exact StackAll_dirs (StackAll_stackOp h0 (fun _ h1 => StackAll_swapLink h0 (Or.inr rfl) h1) hp)

/-! ## `releaseMany` -/

theorem LedP.releaseMany (cands held : List Fd) (T : FdSet) (hmem : ∀ x ∈ cands, x ∉ held → S x)
    (hT : ∀ x, T x ↔ (S x ∧ ¬ (x ∈ cands ∧ x ∉ held))) :
    LedP ext S (Opath.releaseMany cands held) (fun _ S' => S' = T) := by
  unfold Opath.releaseMany
  apply LedP.closeAll _ T
  · intro x hx
    simp only [List.mem_filter, List.contains_eq_mem, Bool.not_eq_true', decide_eq_false_iff_not] at hx
    exact hmem x hx.1 hx.2
  · intro x
    rw [hT x]
    simp only [List.mem_filter, List.contains_eq_mem, Bool.not_eq_true', decide_eq_false_iff_not]

theorem Led.releaseMany_then {k : M β} {post : Except Err β → FdSet → Prop} (cands held : List Fd)
    (T : FdSet) (hmem : ∀ x ∈ cands, x ∉ held → S x)
    (hT : ∀ x, T x ↔ (S x ∧ ¬ (x ∈ cands ∧ x ∉ held))) (hk : Led ext T k post) :
    Led ext S (M.bind' (M.lift (Opath.releaseMany cands held)) fun _ => k) post :=
  Led.bind (Q := fun r S' => S' = T ∧ ∃ x, r = .ok x)
    (Led.lift (LedP.mono (LedP.releaseMany cands held T hmem hT) (fun a S' h => ⟨h, a, rfl⟩)))
    (fun _ S' h => by obtain ⟨rfl, _⟩ := h; exact hk)
    (fun e S' h => by obtain ⟨_, x, hx⟩ := h; cases hx)

/-! ## The walk -/

theorem checkCurrent_led (env : Env) (cur root : Fd) (expected : List Bytes) :
    Led ext S (Opath.checkCurrent env cur root expected) (PostRO S) := by
  unfold Opath.checkCurrent
  apply Led.bind_ro (asUnsafePath_led env root)
  · intro rootPath
    apply Led.bind_ro (asUnsafePath_led env cur)
    · intro curPath
      split
      · exact Led.throw rfl
      · apply Led.bind_ro (asUnsafePath_led env root)
        · intro _; split
          · exact Led.throw rfl
          · exact Led.pure rfl
        · intro _; rfl
    · intro _; rfl
  · intro _; rfl

theorem mayFollowLink_led (env : Env) (dir link : Fd) :
    Led ext S (Opath.mayFollowLink env dir link) (PostRO S) := by
  unfold Opath.mayFollowLink
  apply Led.lift_ro_then geteuid_led
  intro _
  apply Led.bind_ro (fstatat_led dir [])
  · intro _
    apply Led.bind_ro (fstatat_led link [])
    · intro _; split
      · exact Led.pure rfl
      · exact Led.throw rfl
    · intro _; rfl
  · intro _; rfl

/-- the handle of a lookup result -/
def hnd : Lookup Fd → Fd
  | .complete h => h
  | .part h _ _ => h

/-- the walk owns the numbers of `owned cfg st`; `F` is everything else that is open -/
def own (cfg : Opath.WalkCfg) (st : Opath.WalkSt) (F : FdSet) : FdSet :=
  fun x => x ∈ Opath.owned cfg st ∨ F x

/-- what the walk leaves: the result's handle and the stack's directories -/
def WalkPost (F : FdSet) (cfg : Opath.WalkCfg) (s0 : SStack) :
    Except Err (Lookup Fd × SStack) → FdSet → Prop
  | .ok (l, s), S' => ¬ F (hnd l) ∧ (∀ x ∈ s.dirs, ¬ F x) ∧
      (S' = fun x => x = hnd l ∨ x ∈ s.dirs ∨ F x) ∧ (cfg.useStack = false → s = s0)
  | .error _, S' => S' = F

theorem WalkPost.err {F : FdSet} {cfg : Opath.WalkCfg} {s0 : SStack} (e : Err) :
    WalkPost F cfg s0 (.error e) F := rfl

theorem WalkPost.mono_stack {F : FdSet} {cfg : Opath.WalkCfg} {s0 s1 : SStack}
    (h : cfg.useStack = false → s1 = s0) (r : Except Err (Lookup Fd × SStack)) (S' : FdSet)
    (hp : WalkPost F cfg s1 r S') : WalkPost F cfg s0 r S' := by
  cases r with
  | error e => exact hp
  | ok ls =>
    obtain ⟨l, s⟩ := ls
    obtain ⟨h1, h2, h3, h4⟩ := hp
    exact ⟨h1, h2, h3, fun hu => (h4 hu).trans (h hu)⟩

macro "wset" : tactic =>
  `(tactic| (intros; (try simp only [ins, del, emp, own, Opath.owned, hnd] at *); grind))

theorem exitPartial_led (cfg : Opath.WalkCfg) (st : Opath.WalkSt) (extra : List Fd) (remaining : Bytes)
    (e : Err) (F S1 : FdSet) (hF : ∀ x ∈ Opath.owned cfg st, ¬ F x)
    (hS1 : ∀ x, S1 x ↔ (x ∈ extra ∨ x ∈ Opath.owned cfg st ∨ F x))
    (hex : ∀ x ∈ extra, ¬ F x ∧ x ∉ Opath.owned cfg st) :
    Led ext S1 (Opath.exitPartial cfg st extra remaining e) (WalkPost F cfg st.stack) := by
  unfold Opath.exitPartial
  refine Led.releaseMany_then _ _ (fun x => x = st.cur ∨ x ∈ st.stack.dirs ∨ F x) ?_ ?_ ?_
  · wset
  · wset
  · exact Led.pure ⟨by wset, by wset, rfl, fun _ => rfl⟩

theorem walk_led (env : Env) (cfg : Opath.WalkCfg) (st : Opath.WalkSt) :
    ∀ F : FdSet, (∀ x ∈ Opath.owned cfg st, ¬ F x) →
      Led ext (own cfg st F) (Opath.walk env cfg st) (WalkPost F cfg st.stack) := by
  fun_induction Opath.walk env cfg st with
  | case1 st hrem' =>
    intro F hF
    refine Led.bind_onErr_ro F (checkCurrent_led env _ _ _)
      (LedP.closeAll _ _ (by wset) (by wset)) ?_ WalkPost.err
    intro _
    refine Led.bind (Q := fun r S' => match r with
        | .ok res => (S' = fun x => x = res ∨ own cfg st F x) ∧ ¬ F res ∧
            (st.cur = cfg.root ∨ res = st.cur)
        | .error _ => S' = F) ?_ ?_ ?_
    · split
      · rename_i hcr
        refine Led.onErr (openat_led cfg.root Path.dot _ 0) ?_ ?_
        · intro fd S' h
          obtain ⟨h1, rfl⟩ := h
          exact ⟨rfl, by wset, Or.inl hcr⟩
        · intro e S' (h : S' = own cfg st F)
          subst h
          exact LedP.closeAll _ _ (by wset) (by wset)
      · refine Led.pure ⟨?_, by wset, Or.inr rfl⟩
        apply FdSet.ext; wset
    · intro res S' h
      obtain ⟨rfl, hres, hor⟩ := h
      refine Led.releaseMany_then _ _ (fun x => x = res ∨ x ∈ st.stack.dirs ∨ F x) ?_ ?_ ?_
      · wset
      · wset
      · exact Led.pure ⟨hres, by wset, rfl, fun _ => rfl⟩
    · intro e S' h; exact h
  | case2 st part0 rest hrem' hdd e hst =>
    intro F hF
    refine Led.closeAll_then _ F (by wset) (by wset) ?_
    exact Led.throw rfl
  | case3 st part0 rest hrem' hdd stack' hst ih =>
    intro F hF
    have hsub := dirs_popPart hst
    refine Led.releaseMany_then _ _ _ ?_ ?_
      (Led.mono (ih F ?_) (WalkPost.mono_stack (fun hu => stackOp_noStack hst hu)))
    · wset
    · wset
    · wset
  | case4 st part0 rest hrem' remaining hdd part expected' ih1 ih2 =>
    intro F hF
    refine Led.bind_try (openat_led st.cur part _ 0) ?_
    intro r S' hr
    split
    · rename_i e
      have hr' : S' = own cfg st F := hr
      subst hr'
      exact exitPartial_led cfg st [] _ e F _ hF (by wset) (by wset)
    · rename_i next
      obtain ⟨hnext, rfl⟩ := hr
      have hnF : ¬ F next := by wset
      have hno : next ∉ Opath.owned cfg st := by wset
      dsimp only
      refine Led.bind_onErr_ro F ?_ (LedP.closeAll _ _ (by wset) (by wset)) ?_ WalkPost.err
      · split
        · exact checkCurrent_led env _ _ _
        · exact Led.pure rfl
      intro _
      refine Led.bind_onErr_ro F (fstatat_led next [])
        (LedP.closeAll _ _ (by wset) (by wset)) ?_ WalkPost.err
      intro md
      split
      · split
        · refine Led.closeAll_then _ F (by wset) (by wset) ?_
          exact Led.throw rfl
        · rename_i stack' hst
          have hsub := dirs_popPart hst
          refine Led.releaseMany_then _ _ _ ?_ ?_
            (Led.mono (ih1 next stack' F ?_) (WalkPost.mono_stack (fun hu => stackOp_noStack hst hu)))
          · wset
          · wset
          · wset
      · split
        · refine Led.releaseMany_then _ _
            (fun x => x ∈ next :: cfg.root :: st.stack.dirs ∨ F x) ?_ ?_ ?_
          · wset
          · wset
          · refine Led.bind_onErr_ro F (checkCurrent_led env _ _ _)
              (LedP.closeAll _ _ (by wset) (by wset)) ?_ WalkPost.err
            intro _
            refine Led.releaseMany_then _ _ (fun x => x = next ∨ x ∈ st.stack.dirs ∨ F x) ?_ ?_ ?_
            · wset
            · wset
            · exact Led.pure ⟨hnF, by wset, rfl, fun _ => rfl⟩
        · split
          · exact exitPartial_led cfg st [next] _ _ F _ hF (by wset) (by wset)
          · refine Led.bind_onErr_ro F (mayFollowLink_led env st.cur next)
              (LedP.closeAll _ _ (by wset) (by wset)) ?_ WalkPost.err
            intro _
            split
            · exact exitPartial_led cfg st [next] _ _ F _ hF (by wset) (by wset)
            · refine Led.bind_onErr_ro F (readlinkat_led next [])
                (LedP.closeAll _ _ (by wset) (by wset)) ?_ WalkPost.err
              intro target
              refine Led.bind_onErr_ro F ?_ (LedP.closeAll _ _ (by wset) (by wset)) ?_ WalkPost.err
              · split
                · exact isMagiclinkFilesystem_led next
                · exact Led.pure rfl
              intro magic
              split
              · refine Led.closeAll_then _ F (by wset) (by wset) ?_
                exact Led.throw rfl
              · split
                · refine Led.closeAll_then _ F (by wset) (by wset) ?_
                  exact Led.throw rfl
                · rename_i stack' hst
                  have hsub := dirs_swapLink hst
                  refine Led.releaseMany_then _ _ _ ?_ ?_
                    (Led.mono (ih2 (by assumption) target stack' F ?_)
                      (WalkPost.mono_stack (fun hu => stackOp_noStack hst hu)))
                  · wset
                  · wset
                  · wset


theorem Led.state_eq {p : M α} {post : Except Err α → FdSet → Prop} {S S' : FdSet} (h : S = S')
    (hp : Led ext S' p post) : Led ext S p post := h ▸ hp

/-- what `doResolve` leaves -/
def DoPost (F : FdSet) (useStack : Bool) : Except Err (Lookup Fd × SStack) → FdSet → Prop
  | .ok (l, s), S' => ¬ F (hnd l) ∧ (∀ x ∈ s.dirs, ¬ F x) ∧
      (S' = fun x => x = hnd l ∨ x ∈ s.dirs ∨ F x) ∧ (useStack = false → s = [])
  | .error _, S' => S' = F

theorem doResolve_led (env : Env) (root : Fd) (path : Bytes) (rflags : Nat) (nofollow useStack : Bool) :
    Led ext S (Opath.doResolve env root path rflags nofollow useStack) (DoPost S useStack) := by
  unfold Opath.doResolve
  apply Led.bind_fd (dup_led root)
  · intro rd hrd
    split
    · refine Led.pure ⟨hrd, by simp [SStack.dirs], ?_, fun _ => rfl⟩
      apply FdSet.ext; intro x; simp [ins, hnd, SStack.dirs]
    · refine Led.state_eq
        (S' := own { root := rd, rflags := rflags, nofollow := nofollow, useStack := useStack }
          { expected := [], cur := rd, rem := Path.rawComponents path, links := 0, stack := [] } S)
        (FdSet.ext (by intro x; simp [own, Opath.owned, ins, SStack.dirs])) ?_
      refine Led.mono (walk_led env _ _ S (by intro x; simp [Opath.owned, SStack.dirs]; intro h; subst h; exact hrd)) ?_
      intro r S' h
      cases r with
      | error e => exact h
      | ok ls => obtain ⟨l, s⟩ := ls; exact h
  · intro _; rfl

theorem opath_resolve_led (env : Env) (root : Fd) (path : Bytes) (rflags : Nat) (nofollow : Bool) :
    Led ext S (Opath.resolve env root path rflags nofollow) (PostFd S) := by
  unfold Opath.resolve
  refine Led.bind (doResolve_led env root path rflags nofollow false) ?_ ?_
  · intro res S' hres
    obtain ⟨l, s⟩ := res
    obtain ⟨h1, _, rfl, h4⟩ := hres
    have hs : s = [] := h4 rfl
    subst hs
    dsimp only
    split
    · rename_i h
      refine Led.pure ⟨h1, ?_⟩
      apply FdSet.ext; intro x; simp [ins, hnd, SStack.dirs]
    · rename_i h rem e
      refine Led.close_then h S ?_ ?_ ?_
      · simp [hnd]
      · intro x; simp only [hnd, SStack.dirs, List.map_nil, List.not_mem_nil, false_or]
        constructor
        · intro hx; exact ⟨fun hxe => h1 (by simpa [hnd, hxe] using hx), Or.inr hx⟩
        · rintro ⟨hne, hx | hx⟩
          · exact absurd hx hne
          · exact hx
      · exact Led.throw rfl
  · intro e S' h; exact h

/-- success hands out the lookup's handle -/
def PostL (S : FdSet) : Except Err (Lookup Fd) → FdSet → Prop
  | .ok l, S' => ¬ S (hnd l) ∧ S' = ins (hnd l) S
  | .error _, S' => S' = S

theorem PostL.err {S : FdSet} (e : Err) : PostL S (.error e) S := rfl

theorem opath_resolvePartial_led (env : Env) (root : Fd) (path : Bytes) (rflags : Nat) (nofollow : Bool) :
    Led ext S (Opath.resolvePartial env root path rflags nofollow) (PostL S) := by
  unfold Opath.resolvePartial
  refine Led.bind (doResolve_led env root path rflags nofollow true) ?_ ?_
  · intro res S' hres
    obtain ⟨l, s⟩ := res
    obtain ⟨h1, h2, rfl, _⟩ := hres
    dsimp only
    split
    · rename_i h
      refine Led.releaseMany_then _ _ (ins h S) ?_ ?_ ?_
      · wset
      · wset
      · exact Led.pure ⟨h1, rfl⟩
    · rename_i h rem e
      cases s with
      | nil =>
        simp only [SStack.popTopSymlink]
        refine Led.pure ⟨h1, ?_⟩
        apply FdSet.ext; intro x; simp [ins, hnd, SStack.dirs]
      | cons e0 rest0 =>
        simp only [SStack.popTopSymlink]
        have hd : SStack.dirs (e0 :: rest0) = e0.dir :: SStack.dirs rest0 := rfl
        rw [hd] at h2 ⊢
        refine Led.releaseMany_then _ _ (ins e0.dir S) ?_ ?_ ?_
        · wset
        · wset
        · exact Led.pure ⟨by wset, rfl⟩
  · intro e S' h; exact h

end LedgerLogic
