import Pathrs.Proofs.LedgerSys

/-!
# Ledger rules of the procfs layer
-/

open K Ledger

namespace LedgerLogic

variable {ext : List Fd} {S : FdSet}

/-- pointwise goals about owned sets -/
macro "fdset" : tactic =>
  `(tactic| (intros; (try simp only [ins, del, emp] at *); grind))

/-- success leaves `S`, failure leaves `T` -/
def PostOE (S T : FdSet) {α : Type} : Except Err α → FdSet → Prop
  | .ok _, S' => S' = S
  | .error _, S' => S' = T

namespace Led

theorem bind_ro {p : M α} {f : α → M β} {post : Except Err β → FdSet → Prop}
    (hp : Led ext S p (PostRO S)) (hf : ∀ a, Led ext S (f a) post) (he : ∀ e, post (.error e) S) :
    Led ext S (M.bind' p f) post :=
  Led.bind hp (fun a S' (h : S' = S) => by subst h; exact hf a)
    (fun e S' (h : S' = S) => by subst h; exact he e)

theorem bind_fd {p : M Fd} {f : Fd → M β} {post : Except Err β → FdSet → Prop}
    (hp : Led ext S p (PostFd S)) (hf : ∀ fd, ¬ S fd → Led ext (ins fd S) (f fd) post)
    (he : ∀ e, post (.error e) S) : Led ext S (M.bind' p f) post :=
  Led.bind hp (fun a S' (h : ¬ S a ∧ S' = ins a S) => by obtain ⟨h1, rfl⟩ := h; exact hf a h1)
    (fun e S' (h : S' = S) => by subst h; exact he e)

theorem bind_oe {p : M α} {f : α → M β} {T U : FdSet} {post : Except Err β → FdSet → Prop}
    (hp : Led ext S p (PostOE T U)) (hf : ∀ a, Led ext T (f a) post) (he : ∀ e, post (.error e) U) :
    Led ext S (M.bind' p f) post :=
  Led.bind hp (fun a S' (h : S' = T) => by subst h; exact hf a)
    (fun e S' (h : S' = U) => by subst h; exact he e)

/-- a read-only program with a cleanup that ends in `T` -/
theorem onErr_ro {p : M α} {c : Prog Unit} (T : FdSet) (hp : Led ext S p (PostRO S))
    (hc : LedP ext S c (fun _ S' => S' = T)) : Led ext S (M.onErr p c) (PostOE S T) :=
  Led.onErr hp (fun a S' (h : S' = S) => h) (fun e S' (h : S' = S) => by subst h; exact hc)

theorem bind_onErr_ro {p : M α} {c : Prog Unit} {f : α → M β} {post : Except Err β → FdSet → Prop}
    (T : FdSet) (hp : Led ext S p (PostRO S)) (hc : LedP ext S c (fun _ S' => S' = T))
    (hf : ∀ a, Led ext S (f a) post) (he : ∀ e, post (.error e) T) :
    Led ext S (M.bind' (M.onErr p c) f) post :=
  bind_oe (onErr_ro T hp hc) hf he

theorem bind_onErr_fd {p : M Fd} {c : Prog Unit} {f : Fd → M β} {post : Except Err β → FdSet → Prop}
    (T : FdSet) (hp : Led ext S p (PostFd S)) (hc : LedP ext S c (fun _ S' => S' = T))
    (hf : ∀ fd, ¬ S fd → Led ext (ins fd S) (f fd) post) (he : ∀ e, post (.error e) T) :
    Led ext S (M.bind' (M.onErr p c) f) post := by
  refine Led.bind (Q := fun r S' => match r with
      | .ok fd => ¬ S fd ∧ S' = ins fd S
      | .error _ => S' = T) (Led.onErr hp ?_ ?_) ?_ ?_
  · intro a S' h; exact h
  · intro e S' (h : S' = S); subst h; exact hc
  · intro a S' h; obtain ⟨h1, rfl⟩ := h; exact hf a h1
  · intro e S' (h : S' = T); subst h; exact he e

theorem close_then {k : M β} {post : Except Err β → FdSet → Prop} (fd : Fd) (T : FdSet)
    (hmem : S fd) (hT : ∀ x, T x ↔ (x ≠ fd ∧ S x)) (hk : Led ext T k post) :
    Led ext S (M.bind' (M.lift (Sys.close fd)) fun _ => k) post :=
  Led.bind (Q := fun r S' => S' = T ∧ ∃ x, r = .ok x)
    (Led.lift (LedP.mono (LedP.close_to T hmem hT) (fun a S' h => ⟨h, a, rfl⟩)))
    (fun _ S' h => by obtain ⟨rfl, _⟩ := h; exact hk)
    (fun e S' h => by obtain ⟨_, x, hx⟩ := h; cases hx)

theorem closeAll_then {k : M β} {post : Except Err β → FdSet → Prop} (l : List Fd) (T : FdSet)
    (hmem : ∀ x ∈ l, S x) (hT : ∀ x, T x ↔ (S x ∧ x ∉ l)) (hk : Led ext T k post) :
    Led ext S (M.bind' (M.lift (Sys.closeAll l)) fun _ => k) post :=
  Led.bind (Q := fun r S' => S' = T ∧ ∃ x, r = .ok x)
    (Led.lift (LedP.mono (LedP.closeAll l T hmem hT) (fun a S' h => ⟨h, a, rfl⟩)))
    (fun _ S' h => by obtain ⟨rfl, _⟩ := h; exact hk)
    (fun e S' h => by obtain ⟨_, x, hx⟩ := h; cases hx)

/-- `match ← try' p with …` -/
theorem bind_try {p : M α} {f : Except Err α → M β} {Q : Except Err α → FdSet → Prop}
    {post : Except Err β → FdSet → Prop} (hp : Led ext S p Q)
    (hf : ∀ x S', Q x S' → Led ext S' (f x) post) : Led ext S (M.bind' (M.try' p) f) post :=
  Led.bind (Q := fun r S' => match r with
      | .ok x => Q x S'
      | .error _ => False)
    (Led.try' hp (fun a S' h => h) (fun e S' _ h => h)) (fun x S' h => hf x S' h)
    (fun e S' h => h.elim)

/-- a lifted infallible read-only program, then the rest -/
theorem lift_ro_then {p : Prog α} {f : α → M β} {post : Except Err β → FdSet → Prop}
    (hp : LedP ext S p (fun _ S' => S' = S)) (hf : ∀ a, Led ext S (f a) post) :
    Led ext S (M.bind' (M.lift p) f) post :=
  Led.bind (Q := fun r S' => S' = S ∧ ∃ x, r = .ok x)
    (Led.lift (LedP.mono hp (fun a S' h => ⟨h, a, rfl⟩)))
    (fun a S' h => by obtain ⟨rfl, _⟩ := h; exact hf a)
    (fun e S' h => by obtain ⟨_, x, hx⟩ := h; cases hx)

theorem isOk_ro {p : M α} (hp : Led ext S p (PostRO S)) : Led ext S (M.isOk p) (PostRO S) :=
  Led.isOk hp (fun _ _ h => h) (fun _ _ h => h)

theorem try_ro {p : M α} (hp : Led ext S p (PostRO S)) : Led ext S (M.try' p) (PostRO S) :=
  Led.try' hp (fun _ _ h => h) (fun _ _ _ h => h)

end Led

/-! ## procfs -/

theorem intoPath_probe_led (root : Fd) (cands : List Bytes) :
    Led ext S (Procfs.intoPath.probe root cands) (PostRO S) := by
  induction cands with
  | nil => unfold Procfs.intoPath.probe; exact Led.pure rfl
  | cons c rest ih =>
    unfold Procfs.intoPath.probe
    apply Led.lift_ro_then (existsAt_led root c)
    intro ok
    split
    · exact Led.pure rfl
    · exact ih

theorem intoPath_led (base : Procfs.Base) (root : Fd) :
    Led ext S (Procfs.intoPath base root) (PostRO S) := by
  unfold Procfs.intoPath
  split
  · exact Led.pure rfl
  · exact Led.pure rfl
  · apply Led.lift_ro_then gettid_led
    intro tid
    exact intoPath_probe_led root _

theorem fetchMntId_led (dir : Fd) (path : Bytes) : Led ext S (Procfs.fetchMntId dir path) (PostRO S) := by
  unfold Procfs.fetchMntId
  apply Led.bind_ro (Led.try_ro (statx_led dir path _))
  · intro r
    split
    · exact Led.pure rfl
    · split <;> first | exact Led.pure rfl | exact Led.throw rfl
    · exact Led.throw rfl
  · intro _; rfl

theorem verifySameMnt_led (m : Option Nat) (dir : Fd) (path : Bytes) :
    Led ext S (Procfs.verifySameMnt m dir path) (PostRO S) := by
  unfold Procfs.verifySameMnt
  apply Led.bind_ro (fetchMntId_led dir path)
  · intro _; split
    · exact Led.throw rfl
    · exact Led.pure rfl
  · intro _; rfl

theorem verifyIsProcfs_led (fd : Fd) : Led ext S (Procfs.verifyIsProcfs fd) (PostRO S) := by
  unfold Procfs.verifyIsProcfs
  apply Led.bind_ro (fstatfs_led fd)
  · intro _; split
    · exact Led.throw rfl
    · exact Led.pure rfl
  · intro _; rfl

theorem verifySameProcfsMnt_led (h : ProcH) (fd : Fd) :
    Led ext S (Procfs.verifySameProcfsMnt h fd) (PostRO S) := by
  unfold Procfs.verifySameProcfsMnt
  apply Led.bind_ro (verifySameMnt_led _ fd [])
  · intro _; exact verifyIsProcfs_led fd
  · intro _; rfl

theorem openat2Resolve_led (env : Env) (root : Fd) (path : Bytes) (oflags rflags : Nat) :
    Led ext S (Procfs.openat2Resolve env root path oflags rflags) (PostFd S) := by
  unfold Procfs.openat2Resolve
  split
  · exact Led.throw rfl
  · exact openat2_led _ _ _ _

/-- what `opathFinal` leaves: the final descriptor instead of `cur` and `next`, or everything as it was -/
def PostFinal (S0 : FdSet) (cur next : Fd) : Except Err (Option Fd) → FdSet → Prop
  | .ok (some fin), S' => ¬ S0 fin ∧ S' = ins fin S0
  | .ok none, S' => S' = ins next (ins cur S0)
  | .error _, S' => S' = S0

theorem opathFinal_led (m : Option Nat) (oflags : Nat) (cur next : Fd) (part : Bytes) (isLink : Bool)
    (S0 : FdSet) (hc : ¬ S0 cur) (hn : ¬ S0 next) (hcn : next ≠ cur) :
    Led ext (ins next (ins cur S0)) (Procfs.opathFinal m oflags cur next part isLink)
      (PostFinal S0 cur next) := by
  unfold Procfs.opathFinal
  apply Led.bind_try (openat_led cur part _ 0)
  intro x S' hx
  split
  · rename_i fin
    obtain ⟨hfin, rfl⟩ := hx
    refine Led.bind_onErr_ro S0 (verifySameMnt_led m fin [])
      (LedP.closeAll _ _ (by fdset) (by fdset)) ?_ (fun _ => rfl)
    intro _
    refine Led.closeAll_then _ (ins fin S0) (by fdset) (by fdset) ?_
    exact Led.pure ⟨by fdset, rfl⟩
  · rename_i e
    have hx' : S' = ins next (ins cur S0) := hx
    subst hx'
    split
    · refine Led.closeAll_then _ S0 (by fdset) (by fdset) ?_
      exact Led.throw rfl
    · exact Led.pure rfl

theorem opathLoop_led (m : Option Nat) (oflags rflags : Nat) (cur : Fd) (rem : List Bytes) (links : Nat) :
    ∀ S0 : FdSet, ¬ S0 cur →
      Led ext (ins cur S0) (Procfs.opathLoop m oflags rflags cur rem links) (PostFd S0) := by
  fun_induction Procfs.opathLoop m oflags rflags cur rem links with
  | case1 cur links => intro S0 hc; exact Led.pure ⟨hc, rfl⟩
  | case2 cur links part0 rest part hdd =>
    intro S0 hc
    refine Led.close_then cur S0 (by fdset) (by fdset) ?_
    exact Led.throw rfl
  | case3 cur links part0 rest part hdd ih1 ih2 =>
    intro S0 hc
    refine Led.bind_onErr_fd S0 (openat_led cur part _ 0)
      (LedP.close_to S0 (by fdset) (by fdset)) ?_ (fun _ => rfl)
    intro next hnext
    have hn : ¬ S0 next := by fdset
    have hcn : next ≠ cur := by fdset
    refine Led.bind_onErr_ro S0 (verifySameMnt_led m next [])
      (LedP.closeAll _ _ (by fdset) (by fdset)) ?_ (fun _ => rfl)
    intro _
    refine Led.bind_onErr_ro S0 (fstatat_led next [])
      (LedP.closeAll _ _ (by fdset) (by fdset)) ?_ (fun _ => rfl)
    intro st
    refine Led.bind (Q := PostFinal S0 cur next) ?_ ?_ ?_
    · split
      · exact opathFinal_led m oflags cur next part _ S0 hc hn hcn
      · exact Led.pure rfl
    · intro fin S' hfin
      split
      · rename_i fd
        obtain ⟨h1, rfl⟩ := hfin
        exact Led.pure ⟨h1, rfl⟩
      · have hS' : S' = ins next (ins cur S0) := hfin
        subst hS'
        split
        · refine Led.close_then cur (ins next S0) (by fdset) (by fdset) ?_
          exact ih1 next S0 hn
        · split
          · refine Led.closeAll_then _ S0 (by fdset) (by fdset) ?_
            exact Led.throw rfl
          · split
            · refine Led.closeAll_then _ S0 (by fdset) (by fdset) ?_
              exact Led.throw rfl
            · refine Led.bind_onErr_ro S0 (readlinkat_led next [])
                (LedP.closeAll _ _ (by fdset) (by fdset)) ?_ (fun _ => rfl)
              intro target
              split
              · refine Led.closeAll_then _ S0 (by fdset) (by fdset) ?_
                exact Led.throw rfl
              · refine Led.close_then next (ins cur S0) (by fdset) (by fdset) ?_
                exact ih2 (by assumption) target S0 hc
    · intro e S' h; exact h

theorem opathResolve_led (root : Fd) (path : Bytes) (oflags rflags : Nat) :
    Led ext S (Procfs.opathResolve root path oflags rflags) (PostFd S) := by
  unfold Procfs.opathResolve
  split
  · exact Led.throw rfl
  apply Led.bind_ro (fetchMntId_led root [])
  · intro m
    apply Led.bind_fd (dup_led root)
    · intro cur hcur
      exact opathLoop_led m oflags rflags cur _ 0 S hcur
    · intro _; rfl
  · intro _; rfl

theorem resolve_led (env : Env) (emulated : Bool) (root : Fd) (path : Bytes) (oflags rflags : Nat) :
    Led ext S (Procfs.resolve env emulated root path oflags rflags) (PostFd S) := by
  unfold Procfs.resolve
  split
  · exact Led.throw rfl
  · split
    · exact opathResolve_led root path oflags rflags
    · exact openat2Resolve_led env root path oflags rflags


/-! ## procfs handles -/

/-- success hands out the handle's descriptor -/
def PostH (S : FdSet) : Except Err ProcH → FdSet → Prop
  | .ok h, S' => ¬ S h.fd ∧ S' = ins h.fd S
  | .error _, S' => S' = S

theorem PostH.err {S : FdSet} (e : Err) : PostH S (.error e) S := rfl

/-- read-only, and the only errors are fatal ones -/
def PostROok (S : FdSet) {α : Type} : Except Err α → FdSet → Prop := fun r S' => S' = S ∧ ∃ a, r = .ok a

theorem missing_led (inner : Fd) (name : Bytes) : Led ext S (Procfs.missing inner name) (PostROok S) := by
  unfold Procfs.missing
  apply callk_ro _ _ _ (fun _ => rfl) (fun n h => by cases h)
  intro r
  split
  · exact Led.pure ⟨rfl, _, rfl⟩
  · exact Led.pure ⟨rfl, _, rfl⟩
  · exact Led.throw_fatal rfl

theorem probeSubset_led (inner : Fd) : Led ext S (Procfs.probeSubset inner) (PostROok S) := by
  unfold Procfs.probeSubset
  refine Led.bind (missing_led inner _) ?_ ?_
  · intro m1 S' h
    obtain ⟨rfl, _⟩ := h
    split
    · exact Led.pure ⟨rfl, _, rfl⟩
    · exact missing_led inner _
  · intro e S' h
    obtain ⟨_, a, ha⟩ := h
    cases ha

theorem tryFromFd_led (env : Env) (inner : Fd) (S0 : FdSet) (hi : ¬ S0 inner) :
    Led ext (ins inner S0) (Procfs.tryFromFd env inner) (PostH S0) := by
  unfold Procfs.tryFromFd
  refine Led.bind_onErr_ro S0 (verifyIsProcfs_led inner)
    (LedP.close_to S0 (by fdset) (by fdset)) ?_ (fun _ => rfl)
  intro _
  unfold Procfs.fstatOrPanic
  refine Led.bind_onErr_ro S0 (fstatat_led inner [])
    (LedP.close_to S0 (by fdset) (by fdset)) ?_ (fun _ => rfl)
  intro st
  split
  · refine Led.close_then inner S0 (by fdset) (by fdset) ?_
    exact Led.throw rfl
  · refine Led.bind_onErr_ro S0 (fetchMntId_led inner [])
      (LedP.close_to S0 (by fdset) (by fdset)) ?_ (fun _ => rfl)
    intro mnt
    refine Led.bind (probeSubset_led inner) ?_ ?_
    · intro sub S' h
      obtain ⟨rfl, _⟩ := h
      exact Led.pure ⟨hi, rfl⟩
    · intro e S' h
      obtain ⟨_, a, ha⟩ := h
      cases ha

theorem setSubsetOptions_led (sfd : Fd) (subset : Bool) :
    Led ext S (Procfs.setSubsetOptions sfd subset) (PostROok S) := by
  unfold Procfs.setSubsetOptions
  split
  · refine Led.bind_try (fsconfigSetString_led sfd _ _) ?_
    intro _ S' (h : S' = S)
    subst S'
    refine Led.bind_try (fsconfigSetString_led sfd _ _) ?_
    intro _ S' (h : S' = S)
    subst S'
    exact Led.pure ⟨rfl, _, rfl⟩
  · exact Led.pure ⟨rfl, _, rfl⟩

theorem newFsopen_led (env : Env) (subset : Bool) : Led ext S (Procfs.newFsopen env subset) (PostH S) := by
  unfold Procfs.newFsopen
  apply Led.bind_fd (fsopen_led _ _)
  · intro sfd hsfd
    refine Led.bind (setSubsetOptions_led sfd subset) ?_ ?_
    · intro _ S' h
      obtain ⟨h1, _⟩ := h
      subst S'
      refine Led.bind_onErr_ro S (fsconfigCreate_led sfd)
        (LedP.close_to S (by fdset) (by fdset)) ?_ PostH.err
      intro _
      refine Led.bind_onErr_fd S (fsmount_led sfd _ _)
        (LedP.close_to S (by fdset) (by fdset)) ?_ PostH.err
      intro mnt hmnt
      refine Led.bind (Q := fun r S' => match r with
          | .ok h => ¬ (ins sfd S) h.fd ∧ S' = ins h.fd (ins sfd S)
          | .error _ => S' = S) ?_ ?_ ?_
      · refine Led.onErr (tryFromFd_led env mnt (ins sfd S) hmnt) ?_ ?_
        · intro h S' hq; exact hq
        · intro e S' (hq : S' = ins sfd S)
          subst hq
          exact LedP.close_to S (by fdset) (by fdset)
      · intro h S' hq
        obtain ⟨hh, rfl⟩ := hq
        refine Led.close_then sfd (ins h.fd S) (by fdset) (by fdset) ?_
        exact Led.pure ⟨by fdset, rfl⟩
      · intro e S' hq; exact hq
    · intro e S' h
      obtain ⟨_, a, ha⟩ := h
      cases ha
  · exact PostH.err

theorem newOpenTree_led (env : Env) (flags : Nat) : Led ext S (Procfs.newOpenTree env flags) (PostH S) := by
  unfold Procfs.newOpenTree
  apply Led.bind_fd (openTree_led _ _ _)
  · intro fd hfd; exact tryFromFd_led env fd S hfd
  · exact PostH.err

theorem newUnsafeOpen_led (env : Env) : Led ext S (Procfs.newUnsafeOpen env) (PostH S) := by
  unfold Procfs.newUnsafeOpen
  apply Led.bind_fd (openat_led _ _ _ _)
  · intro fd hfd; exact tryFromFd_led env fd S hfd
  · exact PostH.err

theorem orElse_led {α : Type} {p q : M α} {post : Except Err α → FdSet → Prop}
    (hp : Led ext S p post) (hq : Led ext S q post) (herr : ∀ e S', post (.error e) S' → S' = S) :
    Led ext S (Procfs.orElse p q) post := by
  unfold Procfs.orElse
  refine Led.bind_try hp ?_
  intro x S' hx
  split
  · exact Led.pure hx
  · have := herr _ _ hx
    subst this
    exact hq

theorem newUnmasked_led (env : Env) : Led ext S (Procfs.newUnmasked env) (PostH S) := by
  unfold Procfs.newUnmasked
  exact orElse_led (newFsopen_led env false)
    (orElse_led (newOpenTree_led env _) (newUnsafeOpen_led env) (fun _ _ h => h)) (fun _ _ h => h)

theorem new_led (env : Env) : Led ext S (Procfs.new env) (PostH S) := by
  unfold Procfs.new
  exact orElse_led (newFsopen_led env true)
    (orElse_led (newOpenTree_led env _) (newUnsafeOpen_led env) (fun _ _ h => h)) (fun _ _ h => h)

theorem openBase_led (env : Env) (h : ProcH) (base : Procfs.Base) :
    Led ext S (Procfs.openBase env h base) (PostFd S) := by
  unfold Procfs.openBase
  apply Led.bind_ro (intoPath_led base h.fd)
  · intro path
    apply Led.bind_fd (resolve_led env h.emulated h.fd path _ 0)
    · intro fd hfd
      refine Led.bind_onErr_ro S (verifySameProcfsMnt_led h fd)
        (LedP.close_to S (by fdset) (by fdset)) ?_ PostFd.err
      intro _
      exact Led.pure ⟨hfd, rfl⟩
    · exact PostFd.err
  · exact PostFd.err

theorem lookupVerified_led (env : Env) (h : ProcH) (basedir : Fd) (subpath : Bytes) (oflags : Nat) :
    Led ext S (Procfs.lookupVerified env h basedir subpath oflags) (PostFd S) := by
  unfold Procfs.lookupVerified
  apply Led.bind_fd (resolve_led env h.emulated basedir subpath _ 0)
  · intro fd hfd
    refine Led.bind_onErr_ro S (verifySameProcfsMnt_led h fd)
      (LedP.close_to S (by fdset) (by fdset)) ?_ PostFd.err
    intro _
    exact Led.pure ⟨hfd, rfl⟩
  · exact PostFd.err

theorem retryUnmasked_led (env : Env) (again : ProcH → M Fd) (basedir : Fd) (e : Err) (S0 : FdSet)
    (hb : ¬ S0 basedir) (hagain : ∀ h2 (S : FdSet), Led ext S (again h2) (PostFd S)) :
    Led ext (ins basedir S0) (Procfs.retryUnmasked env again basedir e) (PostFd S0) := by
  unfold Procfs.retryUnmasked
  refine Led.bind_try (newUnmasked_led env) ?_
  intro x S' hx
  split
  · have hx' : S' = ins basedir S0 := hx
    subst hx'
    refine Led.close_then basedir S0 (by fdset) (by fdset) ?_
    exact Led.throw rfl
  · rename_i h2
    obtain ⟨hh2, rfl⟩ := hx
    split
    · refine Led.closeAll_then _ S0 (by fdset) (by fdset) ?_
      exact Led.throw rfl
    · refine Led.bind_try (hagain h2 _) ?_
      intro r S' hr
      cases r with
      | ok fd =>
        obtain ⟨hfd, rfl⟩ := hr
        refine Led.closeAll_then _ (ins fd S0) (by fdset) (by fdset) ?_
        exact Led.ofExcept ⟨by fdset, rfl⟩
      | error e' =>
        have hr' : S' = ins h2.fd (ins basedir S0) := hr
        subst hr'
        refine Led.closeAll_then _ S0 (by fdset) (by fdset) ?_
        exact Led.ofExcept rfl

theorem openStep_led (env : Env) (again : ProcH → Nat → M Fd) (h : ProcH) (base : Procfs.Base)
    (subpath : Bytes) (oflags : Nat)
    (hagain : ∀ h2 fl (S : FdSet), Led ext S (again h2 fl) (PostFd S)) :
    Led ext S (Procfs.openStep env again h base subpath oflags) (PostFd S) := by
  unfold Procfs.openStep
  apply Led.bind_fd (openBase_led env h base)
  · intro basedir hbd
    refine Led.bind_try (lookupVerified_led env h basedir subpath _) ?_
    intro first S' hfirst
    split
    · rename_i fd
      obtain ⟨hfd, rfl⟩ := hfirst
      refine Led.close_then basedir (ins fd S) (by fdset) (by fdset) ?_
      exact Led.pure ⟨by fdset, rfl⟩
    · rename_i e
      have hf' : S' = ins basedir S := hfirst
      subst hf'
      split
      · exact retryUnmasked_led env _ basedir e S hbd (fun h2 S => hagain h2 _ S)
      · refine Led.close_then basedir S (by fdset) (by fdset) ?_
        exact Led.throw rfl
  · exact PostFd.err

theorem openH_led (env : Env) (fuel : Nat) : ∀ (h : ProcH) (base : Procfs.Base) (subpath : Bytes)
    (oflags : Nat) (S : FdSet), Led ext S (Procfs.openH env fuel h base subpath oflags) (PostFd S) := by
  induction fuel with
  | zero => intro h base subpath oflags S; unfold Procfs.openH; exact Led.throw_fatal rfl
  | succ n ih =>
    intro h base subpath oflags S
    unfold Procfs.openH
    exact openStep_led env _ h base subpath oflags (fun h2 fl S => ih h2 base subpath fl S)

theorem readlinkH_led (env : Env) (h : ProcH) (base : Procfs.Base) (subpath : Bytes) :
    Led ext S (Procfs.readlinkH env h base subpath) (PostRO S) := by
  unfold Procfs.readlinkH
  apply Led.bind_fd (openH_led env _ h base subpath _ S)
  · intro link hl
    refine Led.bind_try (readlinkat_led link []) ?_
    intro r S' (hr : S' = ins link S)
    subst hr
    refine Led.close_then link S (by fdset) (by fdset) ?_
    exact Led.ofExcept rfl
  · intro _; rfl

theorem asUnsafePath_led (env : Env) (fd : Fd) : Led ext S (Procfs.asUnsafePath env fd) (PostRO S) := by
  unfold Procfs.asUnsafePath
  apply Led.bind_ro (Led.ofExcept rfl)
  · intro sub; exact readlinkH_led env env.proc _ sub
  · intro _; rfl

theorem openFollowTail_led (env : Env) (h : ProcH) (base : Procfs.Base) (subpath : Bytes) (fl : Nat) :
    Led ext S (Procfs.openFollowTail env h base subpath fl) (PostFd S) := by
  unfold Procfs.openFollowTail
  apply Led.bind_ro (Led.ofExcept rfl)
  · intro pr
    obtain ⟨parent, trailing⟩ := pr
    dsimp only
    split
    · exact Led.throw rfl
    · rename_i trailing
      apply Led.bind_fd (openH_led env _ h base parent _ _)
      · intro pfd hpfd
        refine Led.bind_onErr_ro S (fetchMntId_led pfd [])
          (LedP.close_to S (by fdset) (by fdset)) ?_ PostFd.err
        intro pm
        refine Led.bind_onErr_ro S (verifySameMnt_led pm pfd trailing)
          (LedP.close_to S (by fdset) (by fdset)) ?_ PostFd.err
        intro _
        refine Led.bind_try (openatFollow_led pfd trailing fl 0) ?_
        intro r S'' hr
        cases r with
        | ok fd =>
          obtain ⟨hfd, rfl⟩ := hr
          refine Led.close_then pfd (ins fd S) (by fdset) (by fdset) ?_
          exact Led.ofExcept ⟨by fdset, rfl⟩
        | error e' =>
          have hr' : S'' = ins pfd S := hr
          subst hr'
          refine Led.close_then pfd S (by fdset) (by fdset) ?_
          exact Led.ofExcept rfl
      · exact PostFd.err
  · exact PostFd.err

theorem openFollowH_led (env : Env) (h : ProcH) (base : Procfs.Base) (subpath : Bytes) (oflags : Nat) :
    Led ext S (Procfs.openFollowH env h base subpath oflags) (PostFd S) := by
  unfold Procfs.openFollowH
  dsimp only
  generalize (if (Path.stripTrailingSlash subpath).2 = true then oflags ||| O_DIRECTORY else oflags) = fl
  split
  · exact Led.throw rfl
  refine Led.bind_try (readlinkH_led env h base _) ?_
  intro probe S' (hprobe : S' = S)
  subst hprobe
  split
  · split
    · exact openH_led env _ h base _ _ _
    · split
      · exact openFollowTail_led env h base _ fl
      · exact Led.throw rfl
  · exact openFollowTail_led env h base _ fl

theorem reopen_led (env : Env) (fd : Fd) (flags : Nat) : Led ext S (Procfs.reopen env fd flags) (PostFd S) := by
  unfold Procfs.reopen
  split
  · exact Led.throw rfl
  · apply Led.bind_ro (fstatat_led fd [])
    · intro st
      split
      · exact Led.throw rfl
      · apply Led.bind_ro (Led.ofExcept rfl)
        · intro sub; exact openFollowH_led env env.proc _ sub _
        · exact PostFd.err
    · exact PostFd.err

theorem isMagiclinkFilesystem_led (fd : Fd) : Led ext S (Procfs.isMagiclinkFilesystem fd) (PostRO S) := by
  unfold Procfs.isMagiclinkFilesystem
  apply Led.bind_ro (fstatfs_led fd)
  · intro _; exact Led.pure rfl
  · intro _; rfl

end LedgerLogic
