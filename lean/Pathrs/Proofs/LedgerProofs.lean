import Pathrs.Ledger
import Pathrs.Proofs.Runs
import Pathrs.Proofs.LedgerRoot

/-!
# Descriptor balance (C11): for every environment, a call leaves open exactly the descriptor it returns

`Balanced ext p` — for every run of `p` (every sequence of kernel answers in which the kernel hands out only
descriptor numbers that are not open: `Fresh`), the ledger of the run is defined (the program never closes a descriptor it
was not handed in that run — in particular none of the caller's `ext`) and what is left open at the end is exactly the
result's descriptor (`resFds`), unless the run ended in a fatal model error (`panic`, `badResp`, `outOfFuel`: answers of
an impossible shape, or exhausted model fuel).
-/

open K Ledger LedgerLogic

namespace LedgerProofs

/-- `Balanced` for programs that return a descriptor -/
def BalancedFd (ext : List Fd) (p : M Fd) : Prop :=
  ∀ h l r, Runs p h (h ++ l) r → Fresh ext [] l →
    match r with
    | .ok fd => ∃ o, ledger [] l = some o ∧ o.Perm [fd]
    | .error e => e.isFatal = true ∨ ledger [] l = some []

/-- … and for programs that return no descriptor -/
def BalancedNone {α : Type} (ext : List Fd) (p : M α) : Prop :=
  ∀ h l r, Runs p h (h ++ l) r → Fresh ext [] l →
    match r with
    | .ok _ => ledger [] l = some []
    | .error e => e.isFatal = true ∨ ledger [] l = some []

/-! Targets, in this order (all proved below; the `…` hypotheses were filled in like those of `resolve_balanced`):

theorem resolve_balanced (env : Env) (r : Resolver) (root : Fd) (path : Bytes) (nofollow : Bool) (ext : List Fd)
    (hroot : root ∈ ext) (hproc : env.proc.fd ∈ ext) (hr0 : 0 ≤ root) (hp0 : 0 ≤ env.proc.fd) :
    BalancedFd ext (Resolver.resolve env r root path nofollow)

theorem openOnce_balanced … : BalancedFd ext (Resolver.openOnce env r root path flags)
theorem reopen_balanced (env) (fd) (flags) (ext) (hfd : fd ∈ ext) … : BalancedFd ext (Procfs.reopen env fd flags)
theorem removeInode_balanced … : BalancedNone ext (Root.removeInode env root path isDir)       -- root.fd ∈ ext
theorem create_balanced … : BalancedNone ext (Root.create env root path ty)
theorem createFile_balanced … : BalancedFd ext (Root.createFile env root path flags perm)
theorem rename_balanced … : BalancedNone ext (Root.rename env root src dst rflags)
theorem readlink_balanced … : BalancedNone ext (Root.readlink env root path)
theorem mkdirAll_balanced … : BalancedFd ext (Root.mkdirAll env root path perm)
theorem removeAll_balanced … : BalancedNone ext (Root.removeAll env root path)
-/

/-! ## From the ledger logic (`Pathrs/Proofs/LedgerLogic.lean` …) to `Balanced` -/

theorem rep_single {o : List Fd} {fd : Fd} (h : Rep o (ins fd emp)) : o = [fd] := by
  obtain ⟨hnd, hm⟩ := h
  have hm' : ∀ x, x ∈ o ↔ x = fd := fun x => by rw [hm x]; simp [ins, emp]
  cases o with
  | nil => exact absurd ((hm' fd).mpr rfl) (by simp)
  | cons a t =>
    have ha : a = fd := (hm' a).mp List.mem_cons_self
    subst ha
    have ht : t = [] := by
      apply List.eq_nil_iff_forall_not_mem.mpr
      intro b hb
      have : b = a := (hm' b).mp (List.mem_cons_of_mem _ hb)
      subst this
      exact (List.nodup_cons.mp hnd).1 hb
    rw [ht]

theorem rep_empty {o : List Fd} (h : Rep o emp) : o = [] :=
  List.eq_nil_iff_forall_not_mem.mpr fun x hx => (h.2 x).mp hx

theorem balancedFd_of_led {ext : List Fd} {p : M Fd} (h : Led ext emp p (PostFd emp)) :
    BalancedFd ext p := by
  intro h0 l r hr hfr
  rcases h [] h0 l r Rep.nil hr hfr with hfat | ⟨o', S', hl, hrep, hpost⟩
  · cases r with
    | ok fd => exact hfat.elim
    | error e => exact Or.inl hfat
  · cases r with
    | ok fd =>
      obtain ⟨_, rfl⟩ := hpost
      exact ⟨o', hl, by rw [rep_single hrep]⟩
    | error e =>
      have hS : S' = emp := hpost
      subst hS
      exact Or.inr (by rw [hl, rep_empty hrep])

theorem balancedNone_of_led {α : Type} {ext : List Fd} {p : M α} (h : Led ext emp p (PostRO emp)) :
    BalancedNone ext p := by
  intro h0 l r hr hfr
  rcases h [] h0 l r Rep.nil hr hfr with hfat | ⟨o', S', hl, hrep, hpost⟩
  · cases r with
    | ok a => exact hfat.elim
    | error e => exact Or.inl hfat
  · have hS : S' = emp := hpost
    subst hS
    cases r with
    | ok a => show ledger [] l = some []; rw [hl, rep_empty hrep]
    | error e => exact Or.inr (by rw [hl, rep_empty hrep])

/-! ## The targets

None of the proofs needs the hypotheses about `ext` (the program never closes a number it was not handed in the
run, whatever the caller holds); they are kept because the statements were fixed beforehand. -/

set_option linter.unusedVariables false

theorem resolve_balanced (env : Env) (r : Resolver) (root : Fd) (path : Bytes) (nofollow : Bool) (ext : List Fd)
    (hroot : root ∈ ext) (hproc : env.proc.fd ∈ ext) (hr0 : 0 ≤ root) (hp0 : 0 ≤ env.proc.fd) :
    BalancedFd ext (Resolver.resolve env r root path nofollow) :=
  balancedFd_of_led (resolver_resolve_led env r root path nofollow)

theorem openOnce_balanced (env : Env) (r : Resolver) (root : Fd) (path : Bytes) (flags : Nat) (ext : List Fd)
    (hroot : root ∈ ext) (hproc : env.proc.fd ∈ ext) (hr0 : 0 ≤ root) (hp0 : 0 ≤ env.proc.fd) :
    BalancedFd ext (Resolver.openOnce env r root path flags) :=
  balancedFd_of_led (resolver_openOnce_led env r root path flags)

theorem reopen_balanced (env : Env) (fd : Fd) (flags : Nat) (ext : List Fd)
    (hfd : fd ∈ ext) (hproc : env.proc.fd ∈ ext) (hf0 : 0 ≤ fd) (hp0 : 0 ≤ env.proc.fd) :
    BalancedFd ext (Procfs.reopen env fd flags) :=
  balancedFd_of_led (reopen_led env fd flags)

theorem removeInode_balanced (env : Env) (root : Root) (path : Bytes) (isDir : Bool) (ext : List Fd)
    (hroot : root.fd ∈ ext) (hproc : env.proc.fd ∈ ext) (hr0 : 0 ≤ root.fd) (hp0 : 0 ≤ env.proc.fd) :
    BalancedNone ext (Root.removeInode env root path isDir) :=
  balancedNone_of_led (root_removeInode_led env root path isDir)

theorem create_balanced (env : Env) (root : Root) (path : Bytes) (ty : InodeType) (ext : List Fd)
    (hroot : root.fd ∈ ext) (hproc : env.proc.fd ∈ ext) (hr0 : 0 ≤ root.fd) (hp0 : 0 ≤ env.proc.fd) :
    BalancedNone ext (Root.create env root path ty) :=
  balancedNone_of_led (root_create_led env root path ty)

theorem createFile_balanced (env : Env) (root : Root) (path : Bytes) (flags perm : Nat) (ext : List Fd)
    (hroot : root.fd ∈ ext) (hproc : env.proc.fd ∈ ext) (hr0 : 0 ≤ root.fd) (hp0 : 0 ≤ env.proc.fd) :
    BalancedFd ext (Root.createFile env root path flags perm) :=
  balancedFd_of_led (root_createFile_led env root path flags perm)

theorem rename_balanced (env : Env) (root : Root) (src dst : Bytes) (rflags : Nat) (ext : List Fd)
    (hroot : root.fd ∈ ext) (hproc : env.proc.fd ∈ ext) (hr0 : 0 ≤ root.fd) (hp0 : 0 ≤ env.proc.fd) :
    BalancedNone ext (Root.rename env root src dst rflags) :=
  balancedNone_of_led (root_rename_led env root src dst rflags)

theorem readlink_balanced (env : Env) (root : Root) (path : Bytes) (ext : List Fd)
    (hroot : root.fd ∈ ext) (hproc : env.proc.fd ∈ ext) (hr0 : 0 ≤ root.fd) (hp0 : 0 ≤ env.proc.fd) :
    BalancedNone ext (Root.readlink env root path) :=
  balancedNone_of_led (root_readlink_led env root path)

theorem mkdirAll_balanced (env : Env) (root : Root) (path : Bytes) (perm : Nat) (ext : List Fd)
    (hroot : root.fd ∈ ext) (hproc : env.proc.fd ∈ ext) (hr0 : 0 ≤ root.fd) (hp0 : 0 ≤ env.proc.fd) :
    BalancedFd ext (Root.mkdirAll env root path perm) :=
  balancedFd_of_led (root_mkdirAll_led env root path perm)

theorem removeAll_balanced (env : Env) (root : Root) (path : Bytes) (ext : List Fd)
    (hroot : root.fd ∈ ext) (hproc : env.proc.fd ∈ ext) (hr0 : 0 ≤ root.fd) (hp0 : 0 ≤ env.proc.fd) :
    BalancedNone ext (Root.removeAll env root path) :=
  balancedNone_of_led (root_removeAll_led env root path)

/-! Further programs covered by the same logic (not in the list) -/

theorem resolvePartial_balanced (env : Env) (r : Resolver) (root : Fd) (path : Bytes) (nofollow : Bool)
    (ext : List Fd) : ∀ h l res, Runs (Resolver.resolvePartial env r root path nofollow) h (h ++ l) res →
      Fresh ext [] l →
      match res with
      | .ok lk => ∃ o, ledger [] l = some o ∧ o.Perm [hnd lk]
      | .error e => e.isFatal = true ∨ ledger [] l = some [] := by
  intro h0 l res hr hfr
  rcases resolver_resolvePartial_led (S := emp) env r root path nofollow [] h0 l res Rep.nil hr hfr
    with hfat | ⟨o', S', hl, hrep, hpost⟩
  · cases res with
    | ok a => exact hfat.elim
    | error e => exact Or.inl hfat
  · cases res with
    | ok lk =>
      obtain ⟨_, rfl⟩ := hpost
      exact ⟨o', hl, by rw [rep_single hrep]⟩
    | error e =>
      have hS : S' = emp := hpost
      subst hS
      exact Or.inr (by rw [hl, rep_empty hrep])

theorem newUnmasked_balanced (env : Env) (ext : List Fd) :
    ∀ h l res, Runs (Procfs.newUnmasked env) h (h ++ l) res → Fresh ext [] l →
      match res with
      | .ok ph => ∃ o, ledger [] l = some o ∧ o.Perm [ph.fd]
      | .error e => e.isFatal = true ∨ ledger [] l = some [] := by
  intro h0 l res hr hfr
  rcases newUnmasked_led (S := emp) env [] h0 l res Rep.nil hr hfr
    with hfat | ⟨o', S', hl, hrep, hpost⟩
  · cases res with
    | ok a => exact hfat.elim
    | error e => exact Or.inl hfat
  · cases res with
    | ok ph =>
      obtain ⟨_, rfl⟩ := hpost
      exact ⟨o', hl, by rw [rep_single hrep]⟩
    | error e =>
      have hS : S' = emp := hpost
      subst hS
      exact Or.inr (by rw [hl, rep_empty hrep])

/-- non-vacuity: a program that forgets the descriptor it was handed is not balanced -/
example : ¬ BalancedNone [] (M.bind' (Sys.dup 5) fun _ => (pure () : M Unit)) := by
  intro h
  have hr : Runs (M.bind' (Sys.dup 5) fun _ => (pure () : M Unit)) []
      ([] ++ [(Call.dup 5 3, Resp.fd 7)]) (.ok ()) :=
    Runs.call _ _ (.fd 7) _ _ _ (Runs.ret _ _)
  have := h [] _ _ hr (by simp [Fresh, produced, step])
  simp [ledger, step, produced] at this

end LedgerProofs
