import Pathrs.Proofs.LedgerOpath

/-!
# Ledger rules of the kernel resolver, the dispatch, `remove_all` and the `Root` operations
-/

open K Ledger

namespace LedgerLogic

variable {ext : List Fd} {S : FdSet}

/-! ## Kernel resolver -/

theorem openat2_openOnce_led (env : Env) (root : Fd) (path : Bytes) (rflags oflags : Nat) :
    Led ext S (Openat2.openOnce env root path rflags oflags) (PostFd S) := by
  unfold Openat2.openOnce
  split
  · exact Led.throw rfl
  · exact openat2_led _ _ _ _

theorem resolveLoop_led (root : Fd) (path : Bytes) (oflags resolve : Nat) (n : Nat) :
    Led ext S (Openat2.resolveLoop root path oflags resolve n) (PostFd S) := by
  induction n with
  | zero => unfold Openat2.resolveLoop; exact Led.throw rfl
  | succ n ih =>
    unfold Openat2.resolveLoop
    refine Led.bind_try (openat2_led root path oflags resolve) ?_
    intro r S' hr
    split
    · exact Led.pure hr
    · have hr' : S' = S := hr
      subst S'
      split
      · exact Led.throw rfl
      · split
        · exact ih
        · exact Led.throw rfl
    · have hr' : S' = S := hr
      subst S'
      exact Led.throw rfl

theorem openat2_resolve_led (env : Env) (root : Fd) (path : Bytes) (rflags : Nat) (nofollow : Bool) :
    Led ext S (Openat2.resolve env root path rflags nofollow) (PostFd S) := by
  unfold Openat2.resolve
  split
  · exact Led.throw rfl
  · exact resolveLoop_led root path _ _ 16

theorem openat2_probe_led (env : Env) (root : Fd) (rflags : Nat) (nofollow : Bool) :
    ∀ (anc : List (Bytes × Option Bytes)) (e : Err),
      Led ext S (Openat2.probe env root rflags nofollow anc e) (PostL S) := by
  intro anc
  induction anc with
  | nil => intro e; unfold Openat2.probe; exact Led.throw rfl
  | cons pr rest ih =>
    intro e
    obtain ⟨p, remaining⟩ := pr
    unfold Openat2.probe
    split
    · exact Led.throw rfl
    · refine Led.bind_try (openat2_resolve_led env root p rflags nofollow) ?_
      intro r S' hr
      split
      · rename_i h
        obtain ⟨h1, rfl⟩ := hr
        exact Led.pure ⟨h1, rfl⟩
      · have hr' : S' = S := hr
        subst S'
        exact ih _

theorem openat2_resolvePartial_led (env : Env) (root : Fd) (path : Bytes) (rflags : Nat)
    (nofollow : Bool) : Led ext S (Openat2.resolvePartial env root path rflags nofollow) (PostL S) := by
  unfold Openat2.resolvePartial
  refine Led.bind_try (openat2_resolve_led env root path rflags nofollow) ?_
  intro r S' hr
  split
  · rename_i h
    obtain ⟨h1, rfl⟩ := hr
    exact Led.pure ⟨h1, rfl⟩
  · have hr' : S' = S := hr
    subst S'
    exact openat2_probe_led env root rflags nofollow _ _

/-! ## Dispatch -/

theorem resolver_resolve_led (env : Env) (r : Resolver) (root : Fd) (path : Bytes) (nofollow : Bool) :
    Led ext S (Resolver.resolve env r root path nofollow) (PostFd S) := by
  unfold Resolver.resolve
  split
  · exact opath_resolve_led env root path _ nofollow
  · exact openat2_resolve_led env root path _ nofollow

theorem resolver_resolvePartial_led (env : Env) (r : Resolver) (root : Fd) (path : Bytes)
    (nofollow : Bool) : Led ext S (Resolver.resolvePartial env r root path nofollow) (PostL S) := by
  unfold Resolver.resolvePartial
  split
  · exact opath_resolvePartial_led env root path _ nofollow
  · exact openat2_resolvePartial_led env root path _ nofollow

theorem resolver_openOnce_led (env : Env) (r : Resolver) (root : Fd) (path : Bytes) (flags : Nat) :
    Led ext S (Resolver.openOnce env r root path flags) (PostFd S) := by
  unfold Resolver.openOnce
  split
  · exact Led.throw rfl
  · split
    · exact openat2_openOnce_led env root path _ _
    · apply Led.bind_fd (resolver_resolve_led env r root path _)
      · intro handle hh
        refine Led.bind_onErr_ro S (fstatat_led handle [])
          (LedP.close_to S (by fdset) (by fdset)) ?_ PostFd.err
        intro st
        split
        · split
          · refine Led.close_then handle S (by fdset) (by fdset) ?_
            exact Led.throw rfl
          · split
            · exact Led.pure ⟨hh, rfl⟩
            · refine Led.close_then handle S (by fdset) (by fdset) ?_
              exact Led.throw rfl
        · refine Led.bind_try (reopen_led env handle flags) ?_
          intro res S' hres
          cases res with
          | ok fd =>
            obtain ⟨hfd, rfl⟩ := hres
            refine Led.close_then handle (ins fd S) (by fdset) (by fdset) ?_
            exact Led.ofExcept ⟨by fdset, rfl⟩
          | error e =>
            have hres' : S' = ins handle S := hres
            subst hres'
            refine Led.close_then handle S (by fdset) (by fdset) ?_
            exact Led.ofExcept rfl
      · exact PostFd.err

/-! ## `remove_all` -/

theorem ignoreEnoent_led {p : M Unit} (hp : Led ext S p (PostRO S)) :
    Led ext S (RemoveAll.ignoreEnoent p) (PostRO S) := by
  unfold RemoveAll.ignoreEnoent
  apply Led.bind_ro (Led.try_ro hp)
  · intro r
    split
    · exact Led.pure rfl
    · split
      · exact Led.pure rfl
      · exact Led.throw rfl
    · exact Led.throw rfl
  · intro _; rfl

theorem removeInode_led (dir : Fd) (name : Bytes) : Led ext S (RemoveAll.removeInode dir name) (PostRO S) := by
  unfold RemoveAll.removeInode
  apply Led.bind_ro (Led.try_ro (unlinkat_led dir name 0))
  · intro r
    split
    · exact Led.pure rfl
    · apply Led.bind_ro (Led.try_ro (unlinkat_led dir name _))
      · intro r2
        split
        · exact Led.pure rfl
        · split
          · exact Led.throw rfl
          · exact Led.throw rfl
      · intro _; rfl
  · intro _; rfl

theorem nextEntry_led (fd : Fd) (n : Nat) : Led ext S (RemoveAll.nextEntry fd n) (PostRO S) := by
  induction n with
  | zero => unfold RemoveAll.nextEntry; exact Led.throw rfl
  | succ n ih =>
    unfold RemoveAll.nextEntry
    apply callk_ro _ _ _ (fun _ => rfl) (fun n h => by cases h)
    intro r
    split
    · split
      · exact ih
      · exact Led.pure rfl
    · exact Led.pure rfl
    · exact Led.pure rfl
    · exact Led.throw rfl

theorem children_led (rm : Fd → Bytes → M Unit) (subdir : Fd) (sf : Nat)
    (hrm : ∀ name, Led ext S (rm subdir name) (PostRO S)) :
    ∀ (n : Nat) (first : RemoveAll.DirItem),
      Led ext S (RemoveAll.children rm subdir sf first n) (PostRO S) := by
  intro n
  induction n with
  | zero => intro first; unfold RemoveAll.children; exact Led.throw rfl
  | succ n ih =>
    intro first
    cases first with
    | fin => unfold RemoveAll.children; exact Led.pure rfl
    | err e => unfold RemoveAll.children; exact Led.throw rfl
    | entry child =>
      unfold RemoveAll.children
      apply Led.bind_ro (ignoreEnoent_led (hrm child))
      · intro _
        apply Led.bind_ro (nextEntry_led subdir sf)
        · intro nxt; exact ih nxt
        · intro _; rfl
      · intro _; rfl

theorem scan_led (rm : Fd → Bytes → M Unit) (subdir : Fd) (sf : Nat)
    (hrm : ∀ name, Led ext S (rm subdir name) (PostRO S)) (n : Nat) :
    Led ext S (RemoveAll.scan rm subdir sf n) (PostRO S) := by
  induction n with
  | zero => unfold RemoveAll.scan; exact Led.throw rfl
  | succ n ih =>
    unfold RemoveAll.scan
    apply callk_ro _ _ _ (fun _ => rfl) (fun n h => by cases h)
    intro r
    split
    · apply Led.bind_ro (nextEntry_led subdir sf)
      · intro first
        split
        · exact Led.pure rfl
        · apply Led.bind_ro (children_led rm subdir sf hrm sf _)
          · intro _; exact ih
          · intro _; rfl
      · intro _; rfl
    · split
      · exact Led.pure rfl
      · exact Led.throw rfl
    · exact Led.throw_fatal rfl

/-- the sub-directory descriptor, if there is one -/
def PostSub (S : FdSet) : Except Err (Option Fd) → FdSet → Prop
  | .ok (some fd), S' => ¬ S fd ∧ S' = ins fd S
  | .ok none, S' => S' = S
  | .error _, S' => S' = S

theorem openSubdir_led (dir : Fd) (name : Bytes) : Led ext S (RemoveAll.openSubdir dir name) (PostSub S) := by
  unfold RemoveAll.openSubdir
  refine Led.bind_try (openat_led dir name O_DIRECTORY 0) ?_
  intro r S' hr
  split
  · exact Led.pure hr
  · have hr' : S' = S := hr
    subst S'
    split
    · exact Led.pure rfl
    · exact Led.throw rfl
  · have hr' : S' = S := hr
    subst S'
    exact Led.throw rfl

theorem emptyDir_led (rm : Fd → Bytes → M Unit) (dir : Fd) (name : Bytes) (subdir : Fd) (fuel : Nat)
    (S0 : FdSet) (hs : ¬ S0 subdir)
    (hrm : ∀ nm (S : FdSet), Led ext S (rm subdir nm) (PostRO S)) :
    Led ext (ins subdir S0) (RemoveAll.emptyDir rm dir name subdir fuel) (PostRO S0) := by
  unfold RemoveAll.emptyDir
  refine Led.bind_onErr_ro S0 (scan_led rm subdir fuel (fun nm => hrm nm _) fuel)
    (LedP.close_to S0 (by fdset) (by fdset)) ?_ (fun _ => rfl)
  intro _
  refine Led.bind_try (ignoreEnoent_led (removeInode_led dir name)) ?_
  intro r S' (hr : S' = ins subdir S0)
  subst hr
  refine Led.close_then subdir S0 (by fdset) (by fdset) ?_
  exact Led.ofExcept rfl

theorem removeAll_led (fuel : Nat) : ∀ (dir : Fd) (name : Bytes) (S : FdSet),
    Led ext S (RemoveAll.removeAll fuel dir name) (PostRO S) := by
  induction fuel with
  | zero => intro dir name S; unfold RemoveAll.removeAll; exact Led.throw_fatal rfl
  | succ n ih =>
    intro dir name S
    unfold RemoveAll.removeAll
    split
    · exact Led.throw rfl
    · split
      · exact Led.throw rfl
      · apply Led.bind_ro (Led.isOk_ro (ignoreEnoent_led (removeInode_led dir name)))
        · intro removed
          split
          · exact Led.pure rfl
          · refine Led.bind (openSubdir_led dir name) ?_ ?_
            · intro sub S' hsub
              split
              · have hs' : S' = S := hsub
                subst S'
                exact Led.pure rfl
              · rename_i subdir
                obtain ⟨hsd, rfl⟩ := hsub
                exact emptyDir_led _ dir name subdir n S hsd (fun nm S => ih subdir nm S)
            · intro e S' h; exact h
        · intro _; rfl

/-! ## `Root` operations -/

/-- success hands out the parent directory's descriptor -/
def PostPair (S : FdSet) : Except Err (Fd × Option Bytes) → FdSet → Prop
  | .ok (d, _), S' => ¬ S d ∧ S' = ins d S
  | .error _, S' => S' = S

theorem PostPair.err {S : FdSet} (e : Err) : PostPair S (.error e) S := rfl

theorem resolveParent_led (env : Env) (root : Root) (path : Bytes) :
    Led ext S (Root.resolveParent env root path) (PostPair S) := by
  unfold Root.resolveParent
  apply Led.bind_ro (Led.ofExcept rfl)
  · intro pr
    obtain ⟨parent, name⟩ := pr
    dsimp only
    apply Led.bind_fd (resolver_resolve_led env root.resolver root.fd parent false)
    · intro dir hdir
      exact Led.pure ⟨hdir, rfl⟩
    · exact PostPair.err
  · exact PostPair.err

theorem root_readlink_led (env : Env) (root : Root) (path : Bytes) :
    Led ext S (Root.readlink env root path) (PostRO S) := by
  unfold Root.readlink Root.resolve
  apply Led.bind_fd (resolver_resolve_led env root.resolver root.fd path true)
  · intro link hl
    refine Led.bind_try (readlinkat_led link []) ?_
    intro r S' (hr : S' = ins link S)
    subst hr
    refine Led.close_then link S (by fdset) (by fdset) ?_
    exact Led.ofExcept rfl
  · intro _; rfl

/-- generic shape: resolve the parent, refuse a trailing slash, run `body`, drop the parent -/
theorem withParent_led {α : Type} (env : Env) (root : Root) (path : Bytes) (body : Fd → Bytes → M α)
    (P : FdSet → Except Err α → FdSet → Prop) (herr : ∀ e, P S (.error e) S)
    (hframe : ∀ d x S', ¬ S d → P (ins d S) x S' → S' d ∧ P S x (del d S'))
    (hbody : ∀ dir name (S1 : FdSet), Led ext S1 (body dir name) (P S1)) :
    Led ext S (do
      let (dir, name) ← Root.resolveParent env root path
      match name with
      | none =>
        (Sys.close dir : Prog Unit)
        throw .invalidArgument
      | some name =>
        let r ← M.try' (body dir name)
        (Sys.close dir : Prog Unit)
        M.ofExcept r : M α) (P S) := by
  refine Led.bind (resolveParent_led env root path) ?_ ?_
  · intro pr S' hpr
    obtain ⟨dir, name⟩ := pr
    obtain ⟨hdir, rfl⟩ := hpr
    dsimp only
    split
    · refine Led.close_then dir S (by fdset) (by fdset) ?_
      exact Led.throw (herr _)
    · rename_i name
      refine Led.bind_try (hbody dir name _) ?_
      intro r S' hr
      obtain ⟨h1, h2⟩ := hframe dir r S' hdir hr
      refine Led.close_then dir (del dir S') h1 (fun _ => Iff.rfl) ?_
      exact Led.ofExcept h2
  · intro e S' (h : S' = S)
    subst S'
    exact herr e

theorem frame_ro {α : Type} (d : Fd) (x : Except Err α) (S' : FdSet) (hd : ¬ S d)
    (h : PostRO (ins d S) x S') : S' d ∧ PostRO S x (del d S') := by
  have h' : S' = ins d S := h
  subst h'
  exact ⟨Or.inl rfl, FdSet.ext (by fdset)⟩

theorem frame_fd (d : Fd) (x : Except Err Fd) (S' : FdSet) (hd : ¬ S d)
    (h : PostFd (ins d S) x S') : S' d ∧ PostFd S x (del d S') := by
  cases x with
  | ok fd =>
    obtain ⟨h1, rfl⟩ := h
    exact ⟨Or.inr (Or.inl rfl), by fdset, FdSet.ext (by fdset)⟩
  | error e =>
    have h' : S' = ins d S := h
    subst h'
    exact ⟨Or.inl rfl, FdSet.ext (by fdset)⟩

theorem createCall_led (env : Env) (root : Root) (dir : Fd) (name : Bytes) (ty : InodeType) :
    Led ext S (Root.createCall env root dir name ty) (PostRO S) := by
  cases ty with
  | file perm => exact mknodat_led dir name _ _
  | directory perm => exact mkdirat_led dir name _
  | symlink target => exact symlinkat_led target dir name
  | fifo perm => exact mknodat_led dir name _ _
  | charDev perm dev => exact mknodat_led dir name _ _
  | blockDev perm dev => exact mknodat_led dir name _ _
  | hardlink target =>
    unfold Root.createCall
    refine Led.bind (resolveParent_led env root target) ?_ ?_
    · intro pr S' hpr
      obtain ⟨olddir, oldname⟩ := pr
      obtain ⟨ho, rfl⟩ := hpr
      dsimp only
      split
      · refine Led.close_then olddir S (by fdset) (by fdset) ?_
        exact Led.throw rfl
      · rename_i oldname
        refine Led.bind_try (linkat_led olddir oldname dir name 0) ?_
        intro r S' (hr : S' = ins olddir S)
        subst hr
        refine Led.close_then olddir S (by fdset) (by fdset) ?_
        exact Led.ofExcept rfl
    · intro e S' h; exact h

theorem root_create_led (env : Env) (root : Root) (path : Bytes) (ty : InodeType) :
    Led ext S (Root.create env root path ty) (PostRO S) := by
  unfold Root.create
  exact withParent_led env root path (fun dir name => Root.createCall env root dir name ty)
    (fun S => PostRO S) (fun _ => rfl) (fun d x S' hd h => frame_ro d x S' hd h)
    (fun dir name S1 => createCall_led env root dir name ty)

theorem root_createFile_led (env : Env) (root : Root) (path : Bytes) (flags perm : Nat) :
    Led ext S (Root.createFile env root path flags perm) (PostFd S) := by
  unfold Root.createFile
  refine withParent_led env root path (fun dir name => Root.createFileOpen dir name flags perm)
    (fun S => PostFd S) PostFd.err (fun d x S' hd h => frame_fd d x S' hd h)
    (fun dir name S1 => ?_)
  unfold Root.createFileOpen
  split
  · exact Led.throw (PostFd.err _)
  · exact openat_led dir name _ _

theorem root_removeInode_led (env : Env) (root : Root) (path : Bytes) (isDir : Bool) :
    Led ext S (Root.removeInode env root path isDir) (PostRO S) := by
  unfold Root.removeInode
  exact withParent_led env root path
    (fun dir name => Sys.unlinkat dir name (if isDir then AT_REMOVEDIR else 0))
    (fun S => PostRO S) (fun _ => rfl) (fun d x S' hd h => frame_ro d x S' hd h)
    (fun dir name S1 => unlinkat_led dir name _)

theorem root_removeAll_led (env : Env) (root : Root) (path : Bytes) :
    Led ext S (Root.removeAll env root path) (PostRO S) := by
  unfold Root.removeAll
  exact withParent_led env root path
    (fun dir name => RemoveAll.removeAll Root.removeAllFuel dir name)
    (fun S => PostRO S) (fun _ => rfl) (fun d x S' hd h => frame_ro d x S' hd h)
    (fun dir name S1 => removeAll_led _ dir name S1)

theorem root_rename_led (env : Env) (root : Root) (src dst : Bytes) (rflags : Nat) :
    Led ext S (Root.rename env root src dst rflags) (PostRO S) := by
  unfold Root.rename
  refine Led.bind (resolveParent_led env root src) ?_ ?_
  · intro pr S' hpr
    obtain ⟨srcDir, srcName⟩ := pr
    obtain ⟨hs, rfl⟩ := hpr
    dsimp only
    split
    · refine Led.close_then srcDir S (by fdset) (by fdset) ?_
      exact Led.throw rfl
    · rename_i srcName
      refine Led.bind (Q := fun r S' => match r with
          | .ok (d, _) => ¬ (ins srcDir S) d ∧ S' = ins d (ins srcDir S)
          | .error _ => S' = S) ?_ ?_ ?_
      · refine Led.onErr (resolveParent_led env root dst) ?_ ?_
        · intro pr2 S' h
          obtain ⟨d, n⟩ := pr2
          exact h
        · intro e S' (h : S' = ins srcDir S)
          subst h
          exact LedP.close_to S (by fdset) (by fdset)
      · intro pr2 S' hpr2
        obtain ⟨dstDir, dstName⟩ := pr2
        obtain ⟨hd, rfl⟩ := hpr2
        dsimp only
        split
        · refine Led.closeAll_then _ S (by fdset) (by fdset) ?_
          exact Led.throw rfl
        · rename_i dstName
          refine Led.bind_try (renameat2_led srcDir srcName dstDir dstName rflags) ?_
          intro r S' (hr : S' = ins dstDir (ins srcDir S))
          subst hr
          refine Led.close_then srcDir (ins dstDir S) (by fdset) (by fdset) ?_
          refine Led.close_then dstDir S (by fdset) (by fdset) ?_
          exact Led.ofExcept rfl
      · intro e S' h; exact h
  · intro e S' h; exact h

theorem mkdirTolerant_led (cur : Fd) (part : Bytes) (perm : Nat) :
    Led ext S (Root.mkdirTolerant cur part perm) (PostRO S) := by
  unfold Root.mkdirTolerant
  apply Led.bind_ro (Led.try_ro (mkdirat_led cur part perm))
  · intro r
    split
    · exact Led.pure rfl
    · split
      · exact Led.throw rfl
      · exact Led.pure rfl
  · intro _; rfl

theorem mkdirLoop_led (perm : Nat) (parts : List Bytes) : ∀ (cur : Fd) (S0 : FdSet), ¬ S0 cur →
    Led ext (ins cur S0) (Root.mkdirLoop perm cur parts) (PostFd S0) := by
  induction parts with
  | nil => intro cur S0 hc; unfold Root.mkdirLoop; exact Led.pure ⟨hc, rfl⟩
  | cons part rest ih =>
    intro cur S0 hc
    unfold Root.mkdirLoop
    split
    · refine Led.close_then cur S0 (by fdset) (by fdset) ?_
      exact Led.throw rfl
    · refine Led.bind_onErr_ro S0 (mkdirTolerant_led cur part perm)
        (LedP.close_to S0 (by fdset) (by fdset)) ?_ PostFd.err
      intro _
      refine Led.bind_onErr_fd S0 (openat_led cur part _ 0)
        (LedP.close_to S0 (by fdset) (by fdset)) ?_ PostFd.err
      intro next hnext
      refine Led.close_then cur (ins next S0) (by fdset) (by fdset) ?_
      exact ih next S0 (by fdset)

theorem partialTarget_led (env : Env) (root : Root) (path : Bytes) :
    Led ext S (Root.partialTarget env root path) (PostPair S) := by
  unfold Root.partialTarget
  refine Led.bind (resolver_resolvePartial_led env root.resolver root.fd path false) ?_ ?_
  · intro l S' hl
    obtain ⟨h1, rfl⟩ := hl
    split
    · rename_i h; exact Led.pure ⟨h1, rfl⟩
    · rename_i h rem e
      split
      · exact Led.pure ⟨h1, rfl⟩
      · refine Led.close_then h S (Or.inl rfl) ?_ ?_
        · have h1' : ¬ S h := h1
          intro x; simp only [ins, hnd]
          constructor
          · intro hx; exact ⟨fun hxe => h1' (hxe ▸ hx), Or.inr hx⟩
          · rintro ⟨hne, hx | hx⟩
            · exact absurd hx hne
            · exact hx
        · exact Led.throw rfl
  · intro e S' h; exact h

theorem mkdirFrom_led (env : Env) (perm : Nat) (handle : Fd) (remaining : Option Bytes) (S0 : FdSet)
    (hh : ¬ S0 handle) :
    Led ext (ins handle S0) (Root.mkdirFrom env perm handle remaining) (PostFd S0) := by
  unfold Root.mkdirFrom
  have hcleanup : LedP ext (ins handle S0)
      (Prog.bind (Sys.freeze handle) fun _ => Sys.close handle) (fun _ S' => S' = S0) :=
    LedP.bind_ro (freeze_led _) (fun _ => LedP.close_to S0 (by fdset) (by fdset))
  refine Led.bind_onErr_fd S0 (reopen_led env handle O_DIRECTORY) hcleanup ?_ PostFd.err
  intro cur hcur
  dsimp only
  split
  · refine Led.closeAll_then _ S0 (by fdset) (by fdset) ?_
    exact Led.throw rfl
  · refine Led.bind_try (mkdirLoop_led perm _ cur (ins handle S0) hcur) ?_
    intro r S' hr
    cases r with
    | ok fd =>
      obtain ⟨hfd, rfl⟩ := hr
      refine Led.close_then handle (ins fd S0) (by fdset) (by fdset) ?_
      exact Led.ofExcept ⟨by fdset, rfl⟩
    | error e =>
      have hr' : S' = ins handle S0 := hr
      subst hr'
      refine Led.close_then handle S0 (by fdset) (by fdset) ?_
      exact Led.ofExcept rfl

theorem root_mkdirAll_led (env : Env) (root : Root) (path : Bytes) (perm : Nat) :
    Led ext S (Root.mkdirAll env root path perm) (PostFd S) := by
  unfold Root.mkdirAll
  split
  · exact Led.throw rfl
  · split
    · exact Led.throw rfl
    · split
      · exact Led.throw rfl
      · refine Led.bind (partialTarget_led env root path) ?_ ?_
        · intro pr S' hpr
          obtain ⟨handle, remaining⟩ := pr
          obtain ⟨hh, rfl⟩ := hpr
          exact mkdirFrom_led env perm handle remaining S hh
        · intro e S' h; exact h

end LedgerLogic
