import Pathrs.Proofs.LedgerLogic

/-!
# Ledger rules of the syscall wrappers
-/

open K Ledger

namespace LedgerLogic

variable {ext : List Fd} {S : FdSet}

/-- nothing changes -/
def PostRO (S : FdSet) {α : Type} : Except Err α → FdSet → Prop := fun _ S' => S' = S

/-- success hands out one more descriptor, which was not owned; failure changes nothing -/
def PostFd (S : FdSet) : Except Err Fd → FdSet → Prop
  | .ok fd, S' => ¬ S fd ∧ S' = ins fd S
  | .error _, S' => S' = S

theorem PostFd.err {S : FdSet} (e : Err) : PostFd S (.error e) S := rfl

theorem gettid_led : LedP ext S Sys.gettid (fun _ S' => S' = S) := by
  unfold Sys.gettid
  refine LedP.call_ro (fun _ => rfl) (fun n h => by cases h) (fun r => ?_)
  split <;> exact LedP.ret rfl

theorem geteuid_led : LedP ext S Sys.geteuid (fun _ S' => S' = S) := by
  unfold Sys.geteuid
  refine LedP.call_ro (fun _ => rfl) (fun n h => by cases h) (fun r => ?_)
  split <;> exact LedP.ret rfl

theorem LedP.bind_ro {p : Prog α} {f : α → Prog β} {post : β → FdSet → Prop}
    (hp : LedP ext S p (fun _ S' => S' = S)) (hf : ∀ a, LedP ext S (f a) post) :
    LedP ext S (Prog.bind p f) post :=
  LedP.bind hp (fun a S' h => by subst h; exact hf a)

theorem freeze_probe_led :
    ∀ cands, LedP ext S (Sys.freeze.probe cands) (fun _ S' => S' = S) := by
  intro cands
  induction cands with
  | nil => rw [Sys.freeze.probe.eq_1]; exact LedP.ret rfl
  | cons cand rest ih =>
    rw [Sys.freeze.probe.eq_2]
    refine LedP.call_ro (fun _ => rfl) (fun n h => by cases h) (fun r => ?_)
    split
    · exact ih
    · exact LedP.ret rfl

theorem freeze_led (fd : Fd) : LedP ext S (Sys.freeze fd) (fun _ S' => S' = S) := by
  unfold Sys.freeze
  apply LedP.bind_ro gettid_led
  intro tid
  apply LedP.bind_ro (freeze_probe_led _)
  intro x
  split
  · exact LedP.ret rfl
  · exact LedP.call_ro (fun _ => rfl) (fun n h => by cases h) (fun _ => LedP.ret rfl)

theorem failWith_go_led {α : Type} (e : Nat) (post : Except Err α → FdSet → Prop)
    (hq : ∀ e', post (.error e') S) :
    ∀ fds, LedP ext S (Sys.failWith.go (α := α) e fds) post := by
  intro fds
  induction fds with
  | nil => unfold Sys.failWith.go; exact LedP.ret (hq _)
  | cons fd rest ih =>
    unfold Sys.failWith.go
    apply LedP.bind_ro (freeze_led fd)
    intro _
    exact ih

theorem failWith_led {α : Type} (fds : List Fd) (e : Nat) (post : Except Err α → FdSet → Prop)
    (hq : ∀ e', post (.error e') S) : Led ext S (Sys.failWith (α := α) fds e) post := by
  unfold Sys.failWith
  exact Led.ofP (failWith_go_led e post hq fds)

/-- `hotfix`, then the rest -/
theorem wrapper_led {α : Type} (dir : Fd) (k : M α) (post : Except Err α → FdSet → Prop)
    (hq : ∀ e, post (.error e) S) (hk : Led ext S k post) :
    Led ext S (M.bind' (M.ofExcept (Sys.hotfix dir)) fun _ => k) post := by
  refine Led.bind (Q := fun _ S' => S' = S) (Led.ofExcept rfl) ?_ ?_
  · rintro _ S' rfl; exact hk
  · rintro e S' rfl; exact hq e

/-- a call that hands out no descriptor, then the rest -/
theorem callk_ro {α : Type} (c : Call) (k : Resp → M α) (post : Except Err α → FdSet → Prop)
    (hc : ∀ r, produced c r = none) (hnc : ∀ n, c ≠ .close n)
    (hk : ∀ r, Led ext S (k r) post) : Led ext S (M.bind' (M.call c) k) post := by
  refine Led.bind (Q := fun r S' => S' = S ∧ ∃ x, r = .ok x)
    (Led.call_ro hc hnc (fun r => ⟨rfl, r, rfl⟩)) ?_ ?_
  · rintro r S' ⟨rfl, _⟩; exact hk r
  · rintro e S' ⟨_, x, hx⟩; cases hx

/-- a call that may hand out a descriptor, then the rest -/
theorem callk_fd {α : Type} (c : Call) (k : Resp → M α) (post : Except Err α → FdSet → Prop)
    (hnc : ∀ n, c ≠ .close n)
    (hsome : ∀ r n, produced c r = some n → ¬ S n → Led ext (ins n S) (k r) post)
    (hnone : ∀ r, produced c r = none → Led ext S (k r) post) :
    Led ext S (M.bind' (M.call c) k) post := by
  refine Led.bind (Q := fun r S' => ∃ x, r = .ok x ∧
      ((∃ n, produced c x = some n ∧ ¬ S n ∧ S' = ins n S) ∨ (produced c x = none ∧ S' = S)))
    (Led.call_fd hnc (fun r n h1 h2 => ⟨r, rfl, Or.inl ⟨n, h1, h2, rfl⟩⟩)
      (fun r h => ⟨r, rfl, Or.inr ⟨h, rfl⟩⟩)) ?_ ?_
  · rintro r S' ⟨x, hx, h⟩
    cases hx
    rcases h with ⟨n, h1, h2, rfl⟩ | ⟨h1, rfl⟩
    · exact hsome r n h1 h2
    · exact hnone r h1
  · rintro e S' ⟨x, hx, _⟩; cases hx

/-- the shape of the wrappers that return a descriptor -/
theorem fdcall_led (c : Call) (site : String) (onE : Nat → M Fd) (hnc : ∀ n, c ≠ .close n)
    (hfd : ∀ n, produced c (.fd n) = some n) (herr : ∀ e, produced c (.err e) = none)
    (hE : ∀ e, Led ext S (onE e) (PostFd S)) :
    Led ext S (M.bind' (M.call c) fun r => match r with
      | .fd n => pure n
      | .err e => onE e
      | _ => throw (.badResp site)) (PostFd S) := by
  apply callk_fd c _ _ hnc
  · intro r n hp hn
    split
    · rename_i m
      rw [hfd m] at hp
      cases hp
      exact Led.pure ⟨hn, rfl⟩
    · rename_i e
      rw [herr e] at hp
      cases hp
    · exact Led.throw_fatal rfl
  · intro r hp
    split
    · rename_i m
      rw [hfd m] at hp
      cases hp
    · exact hE _
    · exact Led.throw_fatal rfl

theorem openatFollow_led (dir : Fd) (name : Bytes) (flags mode : Nat) :
    Led ext S (Sys.openatFollow dir name flags mode) (PostFd S) := by
  unfold Sys.openatFollow
  apply wrapper_led dir _ _ PostFd.err
  exact fdcall_led _ _ _ (fun n h => by cases h) (fun _ => rfl) (fun _ => rfl)
    (fun e => failWith_led _ _ _ PostFd.err)

theorem openat_led (dir : Fd) (name : Bytes) (flags mode : Nat) :
    Led ext S (Sys.openat dir name flags mode) (PostFd S) := by
  unfold Sys.openat
  exact openatFollow_led _ _ _ _

theorem openat2_led (dir : Fd) (path : Bytes) (flags resolve : Nat) :
    Led ext S (Sys.openat2 dir path flags resolve) (PostFd S) := by
  unfold Sys.openat2
  split
  · apply wrapper_led dir _ _ PostFd.err
    exact failWith_led _ _ _ PostFd.err
  · apply wrapper_led dir _ _ PostFd.err
    exact fdcall_led _ _ _ (fun n h => by cases h) (fun _ => rfl) (fun _ => rfl)
      (fun e => failWith_led _ _ _ PostFd.err)

theorem dup_led (fd : Fd) : Led ext S (Sys.dup fd) (PostFd S) := by
  unfold Sys.dup
  exact fdcall_led _ _ _ (fun n h => by cases h) (fun _ => rfl) (fun _ => rfl)
    (fun e => Led.throw (PostFd.err _))

theorem fsopen_led (t : Bytes) (f : Nat) : Led ext S (Sys.fsopen t f) (PostFd S) := by
  unfold Sys.fsopen
  exact fdcall_led _ _ _ (fun n h => by cases h) (fun _ => rfl) (fun _ => rfl)
    (fun e => Led.throw (PostFd.err _))

theorem fsmount_led (fd : Fd) (f a : Nat) : Led ext S (Sys.fsmount fd f a) (PostFd S) := by
  unfold Sys.fsmount
  apply wrapper_led fd _ _ PostFd.err
  exact fdcall_led _ _ _ (fun n h => by cases h) (fun _ => rfl) (fun _ => rfl)
    (fun e => failWith_led _ _ _ PostFd.err)

theorem openTree_led (dir : Fd) (path : Bytes) (f : Nat) : Led ext S (Sys.openTree dir path f) (PostFd S) := by
  unfold Sys.openTree
  apply wrapper_led dir _ _ PostFd.err
  exact fdcall_led _ _ _ (fun n h => by cases h) (fun _ => rfl) (fun _ => rfl)
    (fun e => failWith_led _ _ _ PostFd.err)

/-! read-only wrappers -/

theorem readlinkat_led (dir : Fd) (name : Bytes) : Led ext S (Sys.readlinkat dir name) (PostRO S) := by
  unfold Sys.readlinkat
  apply wrapper_led dir _ _ (fun _ => rfl)
  apply callk_ro _ _ _ (fun _ => rfl) (fun n h => by cases h)
  intro r
  split
  · split
    · exact failWith_led _ _ _ (fun _ => rfl)
    · exact Led.pure rfl
  · exact failWith_led _ _ _ (fun _ => rfl)
  · exact Led.throw_fatal rfl

theorem fstatat_led (dir : Fd) (name : Bytes) : Led ext S (Sys.fstatat dir name) (PostRO S) := by
  unfold Sys.fstatat
  apply wrapper_led dir _ _ (fun _ => rfl)
  apply callk_ro _ _ _ (fun _ => rfl) (fun n h => by cases h)
  intro r
  split
  · exact Led.pure rfl
  · exact failWith_led _ _ _ (fun _ => rfl)
  · exact Led.throw_fatal rfl

/-- `exists_at` hands out no descriptor -/
theorem existsAt_led (dir : Fd) (name : Bytes) :
    LedP ext S (Sys.existsAt dir name) (fun _ S' => S' = S) := by
  unfold Sys.existsAt
  split
  · exact LedP.ret rfl
  · refine LedP.call_ro (fun _ => rfl) (fun n h => by cases h) (fun r => ?_)
    split <;> exact LedP.ret rfl

theorem statx_led (dir : Fd) (name : Bytes) (mask : Nat) : Led ext S (Sys.statx dir name mask) (PostRO S) := by
  unfold Sys.statx
  apply wrapper_led dir _ _ (fun _ => rfl)
  apply callk_ro _ _ _ (fun _ => rfl) (fun n h => by cases h)
  intro r
  split
  · exact Led.pure rfl
  · exact failWith_led _ _ _ (fun _ => rfl)
  · exact Led.throw_fatal rfl

theorem fstatfs_led (fd : Fd) : Led ext S (Sys.fstatfs fd) (PostRO S) := by
  unfold Sys.fstatfs
  apply wrapper_led fd _ _ (fun _ => rfl)
  apply callk_ro _ _ _ (fun _ => rfl) (fun n h => by cases h)
  intro r
  split
  · exact Led.pure rfl
  · exact failWith_led _ _ _ (fun _ => rfl)
  · exact Led.throw_fatal rfl

theorem unitCall_led (c : Call) (fds : List Fd) (site : String)
    (hc : ∀ r, produced c r = none) (hnc : ∀ n, c ≠ .close n) :
    Led ext S (Sys.unitCall c fds site) (PostRO S) := by
  unfold Sys.unitCall
  apply callk_ro _ _ _ hc hnc
  intro r
  split
  · exact Led.pure rfl
  · exact failWith_led _ _ _ (fun _ => rfl)
  · exact Led.throw_fatal rfl

theorem mkdirat_led (dir : Fd) (name : Bytes) (mode : Nat) : Led ext S (Sys.mkdirat dir name mode) (PostRO S) := by
  unfold Sys.mkdirat
  apply wrapper_led dir _ _ (fun _ => rfl)
  exact unitCall_led _ _ _ (fun _ => rfl) (fun n h => by cases h)

theorem mknodat_led (dir : Fd) (name : Bytes) (mode dev : Nat) :
    Led ext S (Sys.mknodat dir name mode dev) (PostRO S) := by
  unfold Sys.mknodat
  apply wrapper_led dir _ _ (fun _ => rfl)
  exact unitCall_led _ _ _ (fun _ => rfl) (fun n h => by cases h)

theorem unlinkat_led (dir : Fd) (name : Bytes) (flags : Nat) :
    Led ext S (Sys.unlinkat dir name flags) (PostRO S) := by
  unfold Sys.unlinkat
  apply wrapper_led dir _ _ (fun _ => rfl)
  exact unitCall_led _ _ _ (fun _ => rfl) (fun n h => by cases h)

theorem symlinkat_led (target : Bytes) (dir : Fd) (name : Bytes) :
    Led ext S (Sys.symlinkat target dir name) (PostRO S) := by
  unfold Sys.symlinkat
  apply wrapper_led dir _ _ (fun _ => rfl)
  exact unitCall_led _ _ _ (fun _ => rfl) (fun n h => by cases h)

theorem linkat_led (odir : Fd) (oname : Bytes) (ndir : Fd) (nname : Bytes) (flags : Nat) :
    Led ext S (Sys.linkat odir oname ndir nname flags) (PostRO S) := by
  unfold Sys.linkat
  apply wrapper_led odir _ _ (fun _ => rfl)
  apply wrapper_led ndir _ _ (fun _ => rfl)
  exact unitCall_led _ _ _ (fun _ => rfl) (fun n h => by cases h)

theorem renameat_led (odir : Fd) (oname : Bytes) (ndir : Fd) (nname : Bytes) :
    Led ext S (Sys.renameat odir oname ndir nname) (PostRO S) := by
  unfold Sys.renameat
  apply wrapper_led odir _ _ (fun _ => rfl)
  apply wrapper_led ndir _ _ (fun _ => rfl)
  exact unitCall_led _ _ _ (fun _ => rfl) (fun n h => by cases h)

theorem renameat2_led (odir : Fd) (oname : Bytes) (ndir : Fd) (nname : Bytes) (flags : Nat) :
    Led ext S (Sys.renameat2 odir oname ndir nname flags) (PostRO S) := by
  unfold Sys.renameat2
  split
  · exact renameat_led _ _ _ _
  · apply wrapper_led odir _ _ (fun _ => rfl)
    apply wrapper_led ndir _ _ (fun _ => rfl)
    exact unitCall_led _ _ _ (fun _ => rfl) (fun n h => by cases h)

theorem fsconfigSetString_led (fd : Fd) (k v : Bytes) :
    Led ext S (Sys.fsconfigSetString fd k v) (PostRO S) := by
  unfold Sys.fsconfigSetString
  apply wrapper_led fd _ _ (fun _ => rfl)
  exact unitCall_led _ _ _ (fun _ => rfl) (fun n h => by cases h)

theorem fsconfigCreate_led (fd : Fd) : Led ext S (Sys.fsconfigCreate fd) (PostRO S) := by
  unfold Sys.fsconfigCreate
  apply wrapper_led fd _ _ (fun _ => rfl)
  exact unitCall_led _ _ _ (fun _ => rfl) (fun n h => by cases h)

end LedgerLogic
