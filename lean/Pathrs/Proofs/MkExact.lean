import Pathrs.Proofs.Rely

/-!
# `mkdir_all`'s creating loop creates exactly the missing directories (sequential refinement against `KS`)

`KS` (Rely.lean) is the mutable kernel state of the creating loop: directory entries, kinds, the id allocator, with the
kernel's answers (`KS.answer`) and effects (`KS.effect`).  `execK` runs a program against it, threading the state.
`chainAdd w cur parts` is the state in which exactly the components of `parts` that are missing below `cur` have been
created, one `mkdirat` each, in order — nothing else differs from `w`.
-/

open K

namespace MkExact

def execK {α : Type} (w : KS) : Prog α → KS × α
  | .ret a => (w, a)
  | .call c k => execK (w.effect c) (k (w.answer c))

/-- the state after creating exactly the missing components of the chain -/
def chainAdd (w : KS) (cur : Fd) : List Bytes → KS
  | [] => w
  | p :: rest =>
    match w.child cur p with
    | some c => chainAdd w c rest
    | none => chainAdd (w.effect (.mkdirat cur p 0)) w.next rest

/-! ## `execK` calculus -/

theorem execK_ret {α : Type} (w : KS) (a : α) : execK w (Prog.ret a) = (w, a) := rfl

theorem execK_call {α : Type} (w : KS) (c : Call) (k : Resp → Prog α) :
    execK w (Prog.call c k) = execK (w.effect c) (k (w.answer c)) := rfl

theorem execK_bind {α β : Type} (w : KS) (p : Prog α) (f : α → Prog β) :
    execK w (Prog.bind p f) = execK (execK w p).1 (f (execK w p).2) := by
  induction p generalizing w with
  | ret a => rfl
  | call c k ih => simp only [Prog.bind_call, execK_call, ih]

theorem execK_bind_eq {α β : Type} {w w' : KS} {p : Prog α} {a : α} (f : α → Prog β)
    (h : execK w p = (w', a)) : execK w (Prog.bind p f) = execK w' (f a) := by
  rw [execK_bind, h]

theorem execK_pure {α : Type} (w : KS) (a : α) : execK w (pure a : M α) = (w, Except.ok a) := rfl
theorem execK_throw {α : Type} (w : KS) (e : Err) : execK w (throw e : M α) = (w, Except.error e) := rfl

theorem execK_mbind_ok {α β : Type} {w w' : KS} {p : M α} {a : α} (f : α → M β)
    (h : execK w p = (w', Except.ok a)) : execK w (M.bind' p f) = execK w' (f a) :=
  execK_bind_eq _ h

theorem execK_mbind_err {α β : Type} {w w' : KS} {p : M α} {e : Err} (f : α → M β)
    (h : execK w p = (w', Except.error e)) : execK w (M.bind' p f) = (w', Except.error e) :=
  execK_bind_eq _ h

theorem execK_try_ok {α : Type} {w w' : KS} {p : M α} {a : α}
    (h : execK w p = (w', Except.ok a)) : execK w (M.try' p) = (w', Except.ok (Except.ok a)) :=
  execK_bind_eq _ h

theorem execK_try_err {α : Type} {w w' : KS} {p : M α} {e : Err}
    (h : execK w p = (w', Except.error e)) (hf : e.isFatal = false) :
    execK w (M.try' p) = (w', Except.ok (Except.error e)) := by
  refine (execK_bind_eq _ h).trans ?_
  simp only [hf]; rfl

theorem execK_onErr_ok {α : Type} {w w' : KS} {p : M α} {a : α} (cl : Prog Unit)
    (h : execK w p = (w', Except.ok a)) : execK w (M.onErr p cl) = (w', Except.ok a) :=
  execK_bind_eq _ h

theorem execK_onErr_err {α : Type} {w w' : KS} {p : M α} {e : Err} (cl : Prog Unit)
    (h : execK w p = (w', Except.error e)) :
    execK w (M.onErr p cl) = ((execK w' cl).1, Except.error e) := by
  refine (execK_bind_eq _ h).trans ?_
  exact execK_bind _ _ _

theorem execK_lift {α : Type} (w : KS) (p : Prog α) :
    execK w (M.lift p) = ((execK w p).1, Except.ok (execK w p).2) :=
  execK_bind w p _

theorem execK_mcall (w : KS) (c : Call) : execK w (M.call c) = (w.effect c, Except.ok (w.answer c)) := rfl

theorem execK_ofExcept {α : Type} (w : KS) (x : Except Err α) : execK w (M.ofExcept x) = (w, x) := by
  cases x <;> rfl

theorem execK_close (w : KS) (d : Fd) : execK w (Sys.close d) = (w, ()) := rfl

/-! ## the wrappers on a `KS` -/

theorem answer_fstatat (w : KS) (d : Fd) (n : Bytes) (f : Nat) :
    w.answer (.fstatat d n f) = .nums [S_IFLNK ||| 0o777, 0, 3, 5] := rfl
theorem effect_fstatat (w : KS) (d : Fd) (n : Bytes) (f : Nat) : w.effect (.fstatat d n f) = w := rfl

theorem execK_probe (w : KS) (cand : Bytes) (rest : List Bytes) :
    execK w (Sys.freeze.probe (cand :: rest)) = (w, cand) := by
  rw [Sys.freeze.probe.eq_2, execK_call, answer_fstatat, effect_fstatat]
  rfl

theorem execK_freeze (w : KS) (fd : Fd) : execK w (Sys.freeze fd) = (w, ()) := by
  unfold Sys.freeze
  have h1 : execK w Sys.gettid = (w, 1) := rfl
  rw [execK_bind_eq _ h1]
  unfold Sys.threadSelfCandidates
  rw [execK_bind_eq _ (execK_probe w _ _)]
  cases Sys.procSubpath fd with
  | error e => rfl
  | ok sub => rfl

theorem execK_failWith {α : Type} (w : KS) (d : Fd) (e : Nat) :
    execK w (Sys.failWith [d] e : M α) = (w, Except.error (Err.os e)) := by
  unfold Sys.failWith Sys.failWith.go
  refine (execK_bind_eq _ (execK_freeze w d)).trans ?_
  unfold Sys.failWith.go
  rfl

theorem execK_unitCall_unit {w : KS} {c : Call} (d : Fd) (site : String) (h : w.answer c = .unit) :
    execK w (Sys.unitCall c [d] site) = (w.effect c, Except.ok ()) := by
  unfold Sys.unitCall
  simp only [M.bind_def]
  rw [execK_mbind_ok _ (execK_mcall w c), h]
  rfl

theorem execK_unitCall_err {w : KS} {c : Call} (d : Fd) (site : String) {e : Nat} (h : w.answer c = .err e) :
    execK w (Sys.unitCall c [d] site) = (w.effect c, Except.error (Err.os e)) := by
  unfold Sys.unitCall
  simp only [M.bind_def]
  rw [execK_mbind_ok _ (execK_mcall w c), h]
  exact execK_failWith _ d e

theorem execK_hotfix {w : KS} {d : Fd} (h : 0 ≤ d) : execK w (M.ofExcept (Sys.hotfix d)) = (w, Except.ok ()) := by
  rw [hotfix_ok h]; rfl

/-- `KS.effect` ignores the mode of `mkdirat` -/
theorem effect_mkdirat_mode (w : KS) (d : Fd) (n : Bytes) (m : Nat) :
    w.effect (.mkdirat d n m) = w.effect (.mkdirat d n 0) := rfl

theorem answer_mkdirat_none {w : KS} {d : Fd} {n : Bytes} (m : Nat) (hd : w.isDir d = true)
    (h : w.child d n = none) : w.answer (.mkdirat d n m) = .unit := by
  simp only [KS.answer, hd, Bool.true_eq_false, ↓reduceIte, h]

theorem answer_mkdirat_some {w : KS} {d : Fd} {n : Bytes} {c : Fd} (m : Nat) (hd : w.isDir d = true)
    (h : w.child d n = some c) : w.answer (.mkdirat d n m) = .err EEXIST := by
  simp only [KS.answer, hd, Bool.true_eq_false, ↓reduceIte, h]

theorem effect_mkdirat_some {w : KS} {d : Fd} {n : Bytes} {c : Fd} (m : Nat)
    (h : w.child d n = some c) : w.effect (.mkdirat d n m) = w := by
  simp only [KS.effect, h, ite_self]

theorem effect_mkdirat_child {w : KS} {d : Fd} {n : Bytes} (m : Nat) (hd : w.isDir d = true)
    (h : w.child d n = none) : (w.effect (.mkdirat d n m)).child d n = some w.next := by
  simp only [KS.effect, hd, Bool.true_eq_false, ↓reduceIte, h, and_self]

theorem effect_mkdirat_isDir {w : KS} {d : Fd} {n : Bytes} (m : Nat) (hd : w.isDir d = true)
    (h : w.child d n = none) : (w.effect (.mkdirat d n m)).isDir w.next = true := by
  simp only [KS.effect, hd, Bool.true_eq_false, ↓reduceIte, h]

theorem effect_mkdirat_next {w : KS} {d : Fd} {n : Bytes} (m : Nat) (hd : w.isDir d = true)
    (h : w.child d n = none) : (w.effect (.mkdirat d n m)).next = w.next + 1 := by
  simp only [KS.effect, hd, Bool.true_eq_false, ↓reduceIte, h]

/-- `mkdirat` of a missing component: one entry is added -/
theorem execK_mkdirat_none {w : KS} {d : Fd} (hd0 : 0 ≤ d) {n : Bytes} (m : Nat) (hd : w.isDir d = true)
    (h : w.child d n = none) :
    execK w (Sys.mkdirat d n m) = (w.effect (.mkdirat d n 0), Except.ok ()) := by
  unfold Sys.mkdirat
  simp only [M.bind_def]
  refine (execK_mbind_ok _ (execK_hotfix hd0)).trans ?_
  rw [execK_unitCall_unit d _ (answer_mkdirat_none m hd h), effect_mkdirat_mode]

/-- `mkdirat` of an existing component: `EEXIST`, the diagnostics change nothing -/
theorem execK_mkdirat_some {w : KS} {d : Fd} (hd0 : 0 ≤ d) {n : Bytes} {c : Fd} (m : Nat) (hd : w.isDir d = true)
    (h : w.child d n = some c) :
    execK w (Sys.mkdirat d n m) = (w, Except.error (Err.os EEXIST)) := by
  unfold Sys.mkdirat
  simp only [M.bind_def]
  refine (execK_mbind_ok _ (execK_hotfix hd0)).trans ?_
  rw [execK_unitCall_err d _ (answer_mkdirat_some m hd h), effect_mkdirat_some m h]

theorem execK_openat_dir {w : KS} {d : Fd} (hd : 0 ≤ d) {n : Bytes} {c : Fd} (fl mode : Nat)
    (hc : w.child d n = some c) (hdir : w.isDir c = true) :
    execK w (Sys.openat d n fl mode) = (w, Except.ok c) := by
  unfold Sys.openat Sys.openatFollow
  simp only [M.bind_def]
  refine (execK_mbind_ok _ (execK_hotfix hd)).trans ?_
  rw [execK_mbind_ok _ (execK_mcall w _)]
  have ha : w.answer (.openat d n (fl ||| O_NOFOLLOW ||| O_CLOEXEC ||| O_NOCTTY) mode) = .fd c := by
    simp only [KS.answer, hc, hdir, ↓reduceIte]
  rw [ha]
  rfl

theorem os_not_fatal (e : Nat) : (Err.os e).isFatal = false := by
  simp [Err.isFatal]

/-- the tolerant `mkdirat` of a missing component -/
theorem execK_mkdirTolerant_none {w : KS} {d : Fd} (hd0 : 0 ≤ d) {n : Bytes} (m : Nat) (hd : w.isDir d = true)
    (h : w.child d n = none) :
    execK w (Root.mkdirTolerant d n m) = (w.effect (.mkdirat d n 0), Except.ok ()) := by
  unfold Root.mkdirTolerant
  simp only [M.bind_def]
  rw [execK_mbind_ok _ (execK_try_ok (execK_mkdirat_none hd0 m hd h))]
  rfl

/-- the tolerant `mkdirat` of an existing component: nothing happens -/
theorem execK_mkdirTolerant_some {w : KS} {d : Fd} (hd0 : 0 ≤ d) {n : Bytes} {c : Fd} (m : Nat)
    (hd : w.isDir d = true) (h : w.child d n = some c) :
    execK w (Root.mkdirTolerant d n m) = (w, Except.ok ()) := by
  unfold Root.mkdirTolerant
  simp only [M.bind_def]
  rw [execK_mbind_ok _ (execK_try_err (execK_mkdirat_some hd0 m hd h) (os_not_fatal _))]
  simp only [ne_eq, not_true_eq_false, ↓reduceIte]
  rfl

/-- one round of the loop once the component exists in the state `w'` the tolerant `mkdirat` leaves -/
theorem execK_loop_step {w w' : KS} {cur c : Fd} (hc0 : 0 ≤ cur) {part : Bytes} {rest : List Bytes} (perm : Nat)
    (hs : Path.containsSlash part = false)
    (hmk : execK w (Root.mkdirTolerant cur part perm) = (w', Except.ok ()))
    (hch : w'.child cur part = some c) (hdc : w'.isDir c = true) :
    execK w (Root.mkdirLoop perm cur (part :: rest)) = execK w' (Root.mkdirLoop perm c rest) := by
  rw [Root.mkdirLoop]
  simp only [hs, Bool.false_eq_true, ↓reduceIte, M.bind_def]
  rw [execK_mbind_ok _ (execK_onErr_ok _ hmk)]
  rw [execK_mbind_ok _ (execK_onErr_ok _ (execK_openat_dir hc0 _ 0 hch hdc))]
  have hcl : execK w' (M.lift (Sys.close cur)) = (w', Except.ok ()) := by
    rw [execK_lift, execK_close]
  exact execK_mbind_ok _ hcl

/-! ## `chainAdd` -/

theorem chainAdd_nil (w : KS) (cur : Fd) : chainAdd w cur [] = w := rfl

theorem chainAdd_some {w : KS} {cur c : Fd} {p : Bytes} (rest : List Bytes) (h : w.child cur p = some c) :
    chainAdd w cur (p :: rest) = chainAdd w c rest := by
  simp only [chainAdd, h]

theorem chainAdd_none {w : KS} {cur : Fd} {p : Bytes} (rest : List Bytes) (h : w.child cur p = none) :
    chainAdd w cur (p :: rest) = chainAdd (w.effect (.mkdirat cur p 0)) w.next rest := by
  simp only [chainAdd, h]

/-- nothing that existed is touched, and every new entry is a directory of the chain -/
theorem chainAdd_adds (w : KS) (ha : Alloc w) (cur : Fd) (parts : List Bytes) (hd : w.isDir cur = true)
    (hpre : Pre w cur parts) : AddsDirs w (chainAdd w cur parts) ∧ Alloc (chainAdd w cur parts) := by
  induction parts generalizing w cur with
  | nil => exact ⟨AddsDirs.refl _, ha⟩
  | cons p rest ih =>
    cases hch : w.child cur p with
    | some c =>
      rw [chainAdd_some rest hch]
      simp only [Pre, hch] at hpre
      exact ih w ha c hpre.1 hpre.2
    | none =>
      rw [chainAdd_none rest hch]
      have hg := effect_guarantee w ha (.mkdirat cur p 0)
      have hpre' := pre_of_fresh ha hg.1 rest w.next (Int.le_refl _)
      obtain ⟨h1, h2⟩ := ih _ hg.2 w.next (effect_mkdirat_isDir 0 hd hch) hpre'
      exact ⟨AddsDirs.trans hg.2 hg.1 h1, h2⟩

/-- when the whole chain exists already nothing changes -/
theorem chainAdd_existing (w : KS) (cur fd : Fd) (parts : List Bytes) (h : kwalk w cur parts = some fd) :
    chainAdd w cur parts = w := by
  induction parts generalizing cur with
  | nil => rfl
  | cons p rest ih =>
    simp only [kwalk] at h
    cases hch : w.child cur p with
    | none => simp only [hch] at h; cases h
    | some c =>
      simp only [hch] at h
      rw [chainAdd_some rest hch]
      by_cases hd : w.isDir c = true
      · simp only [hd, ↓reduceIte] at h
        exact ih c h
      · simp only [hd] at h; cases h

/-- **exactly the missing directories**: alone on the tree, the creating loop succeeds, returns the directory at the
end of the chain, and the final state is the initial one with one `mkdirat` for every component that was missing, in
order, and nothing else -/
theorem mkdirLoop_exact (perm : Nat) (parts : List Bytes) (cur : Fd) (w : KS) (ha : Alloc w) (hc : 0 ≤ cur)
    (hd : w.isDir cur = true) (hns : ∀ p ∈ parts, Path.containsSlash p = false) (hpre : Pre w cur parts) :
    ∃ fd, execK w (Root.mkdirLoop perm cur parts) = (chainAdd w cur parts, .ok fd) ∧
      kwalk (chainAdd w cur parts) cur parts = some fd := by
  induction parts generalizing cur w with
  | nil =>
    refine ⟨cur, ?_, rfl⟩
    rw [Root.mkdirLoop]
    rfl
  | cons part rest ih =>
    have hs : Path.containsSlash part = false := hns part List.mem_cons_self
    have hns' : ∀ p ∈ rest, Path.containsSlash p = false := fun p hp => hns p (List.mem_cons_of_mem _ hp)
    cases hch : w.child cur part with
    | some c =>
      simp only [Pre, hch] at hpre
      obtain ⟨hdc, hprec⟩ := hpre
      obtain ⟨fd, hrun, hwalk⟩ := ih c w ha (ha.pos _ _ _ hch) hdc hns' hprec
      obtain ⟨hR, _⟩ := chainAdd_adds w ha c rest hdc hprec
      rw [chainAdd_some rest hch]
      refine ⟨fd, ?_, ?_⟩
      · rw [execK_loop_step hc perm hs (execK_mkdirTolerant_some hc perm hd hch) hch hdc]
        exact hrun
      · simp only [kwalk, hR.keep _ _ _ hch, hR.kinds c (ha.bound _ _ _ hch), hdc, ↓reduceIte]
        exact hwalk
    | none =>
      have hg := effect_guarantee w ha (.mkdirat cur part 0)
      have hch1 := effect_mkdirat_child 0 hd hch
      have hd1 := effect_mkdirat_isDir 0 hd hch
      have hn1 := effect_mkdirat_next 0 hd hch
      have hpre1 := pre_of_fresh ha hg.1 rest w.next (Int.le_refl _)
      obtain ⟨fd, hrun, hwalk⟩ := ih w.next _ hg.2 ha.next_pos hd1 hns' hpre1
      obtain ⟨hR, _⟩ := chainAdd_adds _ hg.2 w.next rest hd1 hpre1
      rw [chainAdd_none rest hch]
      refine ⟨fd, ?_, ?_⟩
      · rw [execK_loop_step hc perm hs (execK_mkdirTolerant_none hc perm hd hch) hch1 hd1]
        exact hrun
      · have hlt : w.next < (w.effect (.mkdirat cur part 0)).next := by rw [hn1]; exact int_lt_succ _
        simp only [kwalk, hR.keep _ _ _ hch1, hR.kinds w.next hlt, hd1, ↓reduceIte]
        exact hwalk

/-! ## non-vacuity -/

/-- on the one-directory kernel `ks0`, creating `a/b` below directory 4 allocates ids 5 and 6 -/
example : ∃ w', execK ks0 (Root.mkdirLoop 0o755 4 [b!"a", b!"b"]) = (w', .ok 6) ∧
    w'.child 4 b!"a" = some 5 ∧ w'.child 5 b!"b" = some 6 ∧ w'.next = 7 ∧
    w' = chainAdd ks0 4 [b!"a", b!"b"] := by
  obtain ⟨fd, hrun, hwalk⟩ := mkdirLoop_exact 0o755 [b!"a", b!"b"] 4 ks0 ks0_alloc (by decide) (by decide)
    (by decide) (by simp [Pre, ks0])
  have hfd : fd = 6 := by
    have : kwalk (chainAdd ks0 4 [b!"a", b!"b"]) 4 [b!"a", b!"b"] = some 6 := by decide
    rw [this] at hwalk
    exact (Option.some.inj hwalk).symm
  subst hfd
  exact ⟨_, hrun, by decide, by decide, by decide, rfl⟩

/-- running it again on the result changes nothing -/
example : chainAdd (chainAdd ks0 4 [b!"a", b!"b"]) 4 [b!"a", b!"b"] = chainAdd ks0 4 [b!"a", b!"b"] :=
  chainAdd_existing _ 4 6 _ (by decide)

end MkExact

#print axioms MkExact.mkdirLoop_exact
#print axioms MkExact.chainAdd_adds
#print axioms MkExact.chainAdd_existing
