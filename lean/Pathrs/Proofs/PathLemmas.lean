import Pathrs.Discipline

/-! # Facts about the pure path helpers -/

open K

theorem digit_ok : ∀ d, d < 10 → (48 : UInt8) ≤ 48 + UInt8.ofNat d ∧ 48 + UInt8.ofNat d ≤ 57 := by
  decide

theorem natToDigits_allDigits (fuel n : Nat) : allDigits (Path.natToDigits fuel n) = true := by
  induction fuel generalizing n with
  | zero => simp [Path.natToDigits, allDigits]
  | succ f ih =>
    unfold Path.natToDigits
    split
    · rename_i h
      have := digit_ok n h
      simp [allDigits]
      exact this
    · have h10 : n % 10 < 10 := Nat.mod_lt _ (by decide)
      have := digit_ok (n % 10) h10
      have ih' := ih (n / 10)
      simp [allDigits] at ih' ⊢
      exact ⟨ih', this.1, this.2⟩

theorem decimal_allDigits (n : Nat) : allDigits (Path.decimal n) = true :=
  natToDigits_allDigits _ _

/-- every piece of `splitSlash` is free of '/' -/
theorem splitSlash_single (p : Bytes) : ∀ c ∈ Path.splitSlash p, single c := by
  induction p with
  | nil => intro c hc; simp [Path.splitSlash] at hc; subst hc; simp [single, Path.containsSlash]
  | cons x rest ih =>
    intro c hc
    unfold Path.splitSlash at hc
    split at hc
    · rcases List.mem_cons.mp hc with rfl | h
      · simp [single, Path.containsSlash]
      · exact ih c h
    · rename_i hx
      split at hc
      · simp at hc; subst hc
        simp [single, Path.containsSlash, hx]
        intro h; exact hx h.symm
      · rename_i y ys hsplit
        rcases List.mem_cons.mp hc with rfl | h
        · have hy : single y := ih y (by rw [hsplit]; exact List.mem_cons_self)
          simp [single, Path.containsSlash] at hy ⊢
          exact ⟨fun h => hx h.symm, hy⟩
        · exact ih c (by rw [hsplit]; exact List.mem_cons_of_mem _ h)

theorem rawComponents_single (p : Bytes) : ∀ c ∈ Path.rawComponents p, single c :=
  splitSlash_single p

theorem single_dot : single Path.dot := by decide
theorem single_dotdot : single Path.dotdot := by decide

/-- the name `path_split` returns is a single component -/
theorem pathSplit_single {p dir name : Bytes} (h : Path.pathSplit p = .ok (dir, some name)) :
    single name := by
  unfold Path.pathSplit at h
  split at h
  · cases h
  · rename_i d base _ _
    split at h
    · cases h
    · rename_i b0
      split at h
      · cases h
      · split at h
        · cases h
        · rename_i hs
          cases h
          simpa [single] using hs
