import Pathrs.Proofs.KSpec
import Pathrs.Proofs.KOpen

/-!
# C01 — in-root lookups match kernel `RESOLVE_IN_ROOT` semantics for every tree and path

`World` (`Pathrs/Kernel/World.lean`) is an arbitrary immutable directory tree with the kernel's
answers to every system call libpathrs makes on it, and `World.resolveInRoot` is the
specification of `openat2(RESOLVE_IN_ROOT|RESOLVE_NO_MAGICLINKS)`.  The theorems here are
about the *model programs* (`Opath.resolve`, `Openat2.resolve`, `Resolver.resolve`,
`Root.readlink`), the same definitions the replay driver executes against the transcripts of
the real library; they hold for every well-formed world, every path and every flag set.

* `C01_emulated`     the emulated walk returns exactly `resolveInRoot` (object or errno),
* `C01_kernel`       so does the kernel backend,
* `C01_any_backend`  hence `Root::resolve{,_nofollow}` for whichever backend is active,
* `C01_readlink`     `Root::readlink` is the body of that object,
* `C01_open_subpath` `Root::open_subpath` (the one-shot open) on either backend is in-root resolution
                     (no-follow iff `O_NOFOLLOW` is among the flags) followed by `open(2)` of the object
                     found (`World.openKind`): the kernel backend with one `openat2`, the emulated one by
                     resolving, inspecting the handle and re-opening it through `/proc/thread-self/fd/<n>`
                     (`KOpen.run_reopen`: `Handle::reopen` yields the handle's own object);
                     creation flags are refused by both (`C01_open_subpath_creation`),
* `C01_inside_root`  the specification (and so every successful lookup) only returns objects that
                     have a path below the root,
* `C01_loop_eloop`   a self-referencing link ends in `ELOOP` whatever budget was spent already;
                     termination in general is by construction (`Opath.walk` and `kresolve` are
                     total functions with the link budget as termination measure).
-/

open K KRun World KSim KSpec

variable {w : World}

theorem C01_any_backend (hw : w.WF) (r : Resolver) (path : Bytes) (hnul : path.contains 0 = false) (nofollow : Bool) :
    Prog.run w (Resolver.resolve (kenv w) r w.root path nofollow) =
      toOut (resolveInRoot w (if r.emulated then ecfg r.rflags nofollow else kcfgK w r.rflags nofollow) path) := by
  unfold Resolver.resolve
  split
  · exact run_opath_resolve hw path r.rflags nofollow
  · exact run_openat2_resolve hw path hnul r.rflags nofollow

theorem C01_inside_root (hw : w.WF) (c : World.Cfg) (path : Bytes) (r : Fd)
    (h : resolveInRoot w c path = .ok r) : ∃ p, w.dpath r = some p := by
  unfold resolveInRoot at h
  split at h
  · cases h
  · exact kresolve_inside hw _ _ _ _ _ ⟨[], hw.root_path⟩ h

theorem C01_readlink (hw : w.WF) (r : Resolver) (path : Bytes) (hnul : path.contains 0 = false) :
    Prog.run w (Root.readlink (kenv w) { fd := w.root, resolver := r } path) =
      match resolveInRoot w (if r.emulated then ecfg r.rflags true else kcfgK w r.rflags true) path with
      | .ok c => if w.kind c = .lnk then .ok (w.body c) else .error (.os EINVAL)
      | .error e => .error (.os e) := by
  unfold Root.readlink Root.resolve
  have hr := C01_any_backend hw r path hnul true
  cases hs : resolveInRoot w (if r.emulated then ecfg r.rflags true else kcfgK w r.rflags true) path with
  | error e =>
    rw [hs] at hr
    simp only [M.bind_def, run_bind'_simp, hr, toOut]
  | ok c =>
    rw [hs] at hr
    obtain ⟨p, hp⟩ := C01_inside_root hw _ _ _ hs
    have hct := hw.path_tree _ _ hp
    by_cases hl : w.kind c = .lnk
    · have h1 := run_readlinkat_lnk hw c hct hl
      simp only [M.bind_def, run_bind'_simp, hr, toOut, run_try_simp, h1, run_do_liftP, run_ofExcept_simp, hl, ↓reduceIte]
    · have h1 : Prog.run w (Sys.readlinkat c []) = .error (.os EINVAL) := by
        unfold Sys.readlinkat
        simp [hotfix_tree (tree_nonneg hct), World.answer, tree_not_odd hct, hl]
      simp only [M.bind_def, run_bind'_simp, hr, toOut, run_try_simp, h1, Err.isFatal, Bool.false_eq_true, ↓reduceIte,
        run_do_liftP, run_ofExcept_simp, hl]


/-- the emulated backend computes the specification -/
theorem C01_emulated (hw : w.WF) (path : Bytes) (rflags : Nat) (nofollow : Bool) :
    Prog.run w (Opath.resolve (kenv w) w.root path rflags nofollow)
      = toOut (resolveInRoot w (ecfg rflags nofollow) path) :=
  run_opath_resolve hw path rflags nofollow

/-- the kernel backend computes the specification -/
theorem C01_kernel (hw : w.WF) (path : Bytes) (hnul : path.contains 0 = false) (rflags : Nat) (nofollow : Bool) :
    Prog.run w (Openat2.resolve (kenv w) w.root path rflags nofollow)
      = toOut (resolveInRoot w (kcfgK w rflags nofollow) path) :=
  run_openat2_resolve hw path hnul rflags nofollow

/-- a lookup through a self-referencing link ends in `ELOOP` -/
theorem C01_loop_eloop (hw : w.WF) (c : World.Cfg) (d l : Fd) (n : Bytes) (rest : List Bytes)
    (hch : w.child d n = some l) (hl : w.kind l = .lnk)
    (hbody : Path.rawComponents (w.body l) = [n]) (hrel : Path.isAbsolute (w.body l) = false)
    (htr : ¬ (rest = [] ∧ c.nofollow = true)) (links : Nat) :
    kresolve w c d (n :: rest) links = .error ELOOP :=
  kresolve_selfloop hw c d l n rest hch hl hbody hrel htr links

/-- a successful lookup, by either backend, yields an object inside the root -/
theorem C01_success_inside (hw : w.WF) (r : Resolver) (path : Bytes) (hnul : path.contains 0 = false)
    (nofollow : Bool) (fd : Fd)
    (h : Prog.run w (Resolver.resolve (kenv w) r w.root path nofollow) = .ok fd) :
    ∃ p, w.dpath fd = some p := by
  rw [C01_any_backend hw r path hnul nofollow] at h
  cases hs : resolveInRoot w (if r.emulated then ecfg r.rflags nofollow else kcfgK w r.rflags nofollow) path with
  | error e => rw [hs] at h; cases h
  | ok c =>
    rw [hs] at h; cases h
    exact C01_inside_root hw _ _ _ hs

/-! non-vacuity: a concrete well-formed world: `/r` with a self-referencing symlink `a` -/
def exWorld : World :=
  { root := 4
    kind := fun d => if d = 4 then .dir else if d = 6 then .lnk else .other
    child := fun d n => if d = 4 ∧ n = b!"a" then some 6 else none
    parent := fun _ => 4
    body := fun _ => b!"a"
    dpath := fun d => if d = 4 then some [] else if d = 6 then some [b!"a"] else none
    rootComps := [b!"r"]
    procMnt := 22
    kernelLinks := 40 }

theorem exWorld_wf : exWorld.WF := by
  have hpa : ProperComp (b!"a") := by unfold ProperComp; decide
  have hpr : ProperComp (b!"r") := by unfold ProperComp; decide
  constructor
  · show isTree 4; unfold isTree; decide
  · rfl
  · rfl
  · intro d n c h
    simp only [exWorld] at h
    split at h
    · cases h; unfold isTree; decide
    · cases h
  · intro d _; show isTree 4; unfold isTree; decide
  · intro d n c h
    simp only [exWorld] at h
    split at h
    · rename_i hc; simp [exWorld, hc.1]
    · cases h
  · intro d n c p h hp
    simp only [exWorld] at h hp ⊢
    split at h
    · rename_i hc; cases h; simp [hc.1] at hp; subst hp; simp [hc.2]
    · cases h
  · intro d p n hk hp
    simp only [exWorld] at hk hp
    by_cases h4 : d = 4
    · simp [h4] at hp
    · simp [h4] at hk
      by_cases h6 : d = 6 <;> simp [h6] at hk
  · intro a b p ha hb
    simp only [exWorld] at ha hb
    by_cases a4 : a = 4 <;> by_cases b4 : b = 4 <;> by_cases a6 : a = 6 <;> by_cases b6 : b = 6 <;>
      simp_all
  · intro d n c h
    simp only [exWorld] at h
    split at h
    · rename_i hc; rw [hc.2]; exact hpa
    · cases h
  · intro n hn
    simp [exWorld] at hn; rw [hn]; exact hpr
  · intro d p hp c hc
    simp only [exWorld] at hp
    by_cases h4 : d = 4
    · simp [h4] at hp; subst hp; cases hc
    · by_cases h6 : d = 6
      · simp [h6] at hp; subst hp; simp at hc; rw [hc]; exact hpa
      · simp [h4, h6] at hp
  · intro d p hp
    simp only [exWorld] at hp
    by_cases h4 : d = 4
    · simp [h4] at hp; subst hp; decide
    · by_cases h6 : d = 6
      · simp [h6] at hp; subst hp; decide
      · simp [h4, h6] at hp
  · intro d p hp
    simp only [exWorld] at hp
    by_cases h4 : d = 4
    · rw [h4]; unfold isTree; decide
    · by_cases h6 : d = 6
      · rw [h6]; unfold isTree; decide
      · simp [h4, h6] at hp
  · intro l _
    show b!"a" ≠ [] ∧ ¬ (b!"a").contains 0 ∧ (b!"a").length < READLINK_BUF
    decide

/-- on it, the emulated backend resolves `a/x` to `ELOOP` and `..` to the root -/
example : Prog.run exWorld (Opath.resolve (kenv exWorld) exWorld.root b!"a/x" 0 false) = .error (.os ELOOP) := by
  rw [run_opath_resolve exWorld_wf]
  have : Path.rawComponents b!"a/x" = [b!"a", b!"x"] := by decide
  unfold resolveInRoot
  rw [if_neg (by decide), this]
  show toOut (exWorld.kresolve (ecfg 0 false) 4 [b!"a", b!"x"] 0) = _
  rw [kresolve_selfloop exWorld_wf _ 4 6 b!"a" [b!"x"] rfl rfl (by decide) (by decide) (by simp)]
  rfl

/-! ### the one-shot open -/

open KOpen in
/-- **`Root::open_subpath`**: for every well-formed tree, path and flag set without creation bits, whichever
backend is active, the result is the object in-root resolution finds (following a trailing symlink unless
`O_NOFOLLOW` is given), provided `open(2)` accepts the flags for an object of that kind — or the errno. -/
theorem C01_open_subpath {w : World} (hw : w.WF) (r : Resolver) (path : Bytes) (hnul : path.contains 0 = false) (flags : Nat)
    (hcf : (hasAny flags (O_CREAT ||| O_EXCL) || hasAll flags O_TMPFILE) = false) :
    Prog.run w (Resolver.openOnce (kenv w) r w.root path flags) =
      openSpec w (if r.emulated then ecfg r.rflags (hasAll flags O_NOFOLLOW) else kcfgK w r.rflags (hasAll flags O_NOFOLLOW))
        path flags := by
  obtain ⟨emu, rflags⟩ := r
  cases emu
  · exact run_openOnce_kernel hw path hnul rflags flags hcf
  · exact run_openOnce_emulated hw path rflags flags hcf

open KOpen in
theorem C01_open_subpath_creation {w : World} (r : Resolver) (path : Bytes) (flags : Nat)
    (hcf : (hasAny flags (O_CREAT ||| O_EXCL) || hasAll flags O_TMPFILE) = true) :
    Prog.run w (Resolver.openOnce (kenv w) r w.root path flags) = .error .invalidArgument :=
  run_openOnce_creation r path flags hcf

open KOpen in
/-- a successful one-shot open returns an object inside the root's tree -/
theorem C01_open_subpath_inside {w : World} (hw : w.WF) (r : Resolver) (path : Bytes) (hnul : path.contains 0 = false)
    (flags : Nat) (hcf : (hasAny flags (O_CREAT ||| O_EXCL) || hasAll flags O_TMPFILE) = false) (o : Fd)
    (h : Prog.run w (Resolver.openOnce (kenv w) r w.root path flags) = .ok o) : ∃ p, w.dpath o = some p := by
  rw [C01_open_subpath hw r path hnul flags hcf] at h
  unfold openSpec at h
  split at h
  · rename_i c hc
    split at h
    · cases h; exact C01_inside_root hw _ path _ hc
    · cases h
  · cases h

