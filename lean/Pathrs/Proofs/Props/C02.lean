import Pathrs.Proofs.C02Runs
import Pathrs.Proofs.Attack

/-!
# C02 — lookups never escape the root under any concurrent attacker schedule

Two layers (`Proofs/C02Runs.lean`, `Proofs/Attack.lean`):

* for **every environment** (`Runs`: every sequence of kernel answers, hence every interleaving of attacker mutations
  with the library's system calls): a successful emulated lookup ends with a passed `check_current` on the very
  descriptor it returns; the kernel backend returns only the kernel's own confined answer, with bounded retries;
* against an **attacker that rearranges the tree between any two system calls** (`Attack.runSeq`: the `i`-th call is
  answered by the world of moment `i`, and the trees of different moments are unrelated): a descriptor the emulated
  lookup returns refers to an object that the kernel's `d_path` placed below the root at some moment during the call.
  The kernel statement this rests on is `World.answer`'s reading of `readlink(/proc/thread-self/fd/N)` (`DPathSound`).
-/

open K Runs KPath Path

/-- **Emulated backend: every successful lookup is a checked descriptor.**  For every environment: if `opath::resolve`
returns `fd`, the last thing that happened before the final bookkeeping closes is a passed `check_current` on `fd` (or
on the walk's root duplicate, followed by the `O_PATH|O_NOFOLLOW` open of `"."` beneath it that produced `fd`). -/
theorem C02_emulated_checked (env : Env) (root : Fd) (path : Bytes) (rflags : Nat) (nofollow : Bool)
    {h h' : Hist} {fd : Fd}
    (hr : Runs (Opath.resolve env root path rflags nofollow) h h' (.ok fd)) :
    ∃ rd, (h ++ [(Call.dup root 3, Resp.fd rd)]) <+: h' ∧ WalkFinal env rd (h ++ [(Call.dup root 3, Resp.fd rd)]) h' fd :=
  emulated_checked env root path rflags nofollow hr

/-- **Kernel backend: a result is the kernel's own confined answer.**  If `openat2::resolve` returns `fd`, the last call
of the run is `openat2(root, path, …, RESOLVE_IN_ROOT|RESOLVE_NO_MAGICLINKS|rflags)` answered with `fd`; at most 16
`openat2` calls were made; `EAGAIN` never reaches the caller (after 16 tries the error is `SafetyViolation`). -/
theorem C02_kernel_confined (env : Env) (root : Fd) (path : Bytes) (rflags : Nat) (nofollow : Bool)
    {h h' : Hist} {r : Except Err Fd}
    (hr : Runs (Openat2.resolve env root path rflags nofollow) h h' r) :
    (∃ t, h' = h ++ t ∧ ((∀ x ∈ t, x.2.sane) → countO2 t ≤ 16)) ∧
    (∀ fd, r = .ok fd → ∃ pre fl, h' = pre ++
        [(Call.openat2 root (toCString path) fl 0 (RESOLVE_IN_ROOT ||| RESOLVE_NO_MAGICLINKS ||| rflags) OPEN_HOW_SIZE,
          Resp.fd fd)]) ∧
    r ≠ .error (.os EAGAIN) :=
  kernel_confined env root path rflags nofollow hr

/-- the limit is real: with no tries left the loop is `SafetyViolation` -/
theorem C02_eagain_exhausted (root : Fd) (path : Bytes) (fl rs : Nat) :
    Openat2.resolveLoop root path fl rs 0 = throw .safetyViolation :=
  eagain_exhausted root path fl rs

open Attack in
/-- **The emulated lookup against an attacker who rearranges the tree between any two system calls.**  `ws i` is the
state of the machine when the `i`-th system call of the lookup is made; nothing relates the trees of different moments
(the attacker renames, exchanges, replaces, removes, moves things out of and into the root as it likes, as often as it
likes), and none of them needs to be well-formed.  `Attacker` asks only that the root directory itself stays where it is
(`dpath root = some []` at every moment — the attacker works *inside* the tree), that it is a tree object, and one fact
about the numbering of the model's procfs objects (with a counterexample in `Proofs/Attack.lean` showing it is needed).
If the lookup returns `fd`, then at some moment `i` of the call `(ws i).dpath fd = some p`: the kernel's `d_path` placed
the object below the root — it was inside the root's tree at that moment.  An object that was outside the tree at every
moment of the call is never returned. -/
theorem C02_under_attack (ws : Nat → World) (root : Fd) (rc : List Bytes) (m : Nat)
    (ha : Attacker ws root rc m) (path : Bytes) (rflags : Nat) (nofollow : Bool) (i0 : Nat) (fd : Fd)
    (h : (runSeq ws i0 (Opath.resolve (aenv m) root path rflags nofollow)).1 = .ok fd) :
    ∃ i p, i0 ≤ i ∧ i < (runSeq ws i0 (Opath.resolve (aenv m) root path rflags nofollow)).2 ∧
      (ws i).dpath fd = some p :=
  emulated_resolve_under_attack ws root rc m ha path rflags nofollow i0 fd h

/-! ## Non-vacuity -/

open Attack in
/-- the attacker model is inhabited (the attacker who does nothing), and a lookup succeeds there -/
example : (runSeq (fun _ => exWorld) 0 (Opath.resolve (aenv exWorld.procMnt) exWorld.root b!"a" 0 true)).1 = .ok 6 := ex_run
