import Pathrs.Proofs.AttackOps

/-!
# C02 (the other lookups) — `readlink` and `open_subpath` against an attacker who rearranges the tree between any two
system calls

Same attacker as `C02_under_attack` (`Props/C02.lean`), same `Root` on the emulated resolver.  `readlink` returns only
bytes the kernel printed for a link that was below the root at an earlier moment of the call; the descriptor `open_subpath`
returns (the resolver's handle itself, or its re-open through `thread-self/fd/<n>` — in `World` descriptors are identified
with the objects they refer to, so the re-open of object `n` is object `n`) refers to an object that was below the root at
some moment of the call.  (`AttackOps.lean` imports `C14.lean`, hence the separate file.)
-/

open K World KRun Attack AttackOps

/-- **readlink under attack**: the bytes returned are the kernel's answer, at some moment `j` of the call, to `readlinkat`
on a descriptor of an object that was below the root at an earlier moment `i` of the call -/
theorem C02_readlink_under_attack (ws : Nat → World) (root : Fd) (rc : List Bytes) (m : Nat) (ha : Attacker ws root rc m)
    (path : Bytes) (rflags : Nat) (i0 : Nat) (body : Bytes)
    (h : (runSeq ws i0 (Root.readlink (aenv m) (eroot root rflags) path)).1 = .ok body) :
    ∃ link i p j, i0 ≤ i ∧ i < j ∧ j < (runSeq ws i0 (Root.readlink (aenv m) (eroot root rflags) path)).2 ∧
      (ws i).dpath link = some p ∧ (ws j).answer (.readlinkat link [] READLINK_BUF) = .bytes body :=
  readlink_under_attack ws root rc m ha path rflags i0 body h

/-- **open_subpath (emulated one-shot open) under attack** -/
theorem C02_open_subpath_under_attack (ws : Nat → World) (root : Fd) (rc : List Bytes) (m : Nat) (ha : Attacker ws root rc m)
    (path : Bytes) (rflags flags : Nat) (i0 : Nat) (fd : Fd)
    (h : (runSeq ws i0 (Root.openSubpath (aenv m) (eroot root rflags) path flags)).1 = .ok fd) :
    ∃ i p, i0 ≤ i ∧ i < (runSeq ws i0 (Root.openSubpath (aenv m) (eroot root rflags) path flags)).2 ∧
      (ws i).dpath fd = some p :=
  openSubpath_under_attack ws root rc m ha path rflags flags i0 fd h

/-! ## Non-vacuity -/

example : ∃ b, (runSeq (fun _ => exWorld) 0 (Root.readlink (aenv exWorld.procMnt) (eroot exWorld.root 0) b!"a")).1 = .ok b :=
  ⟨_, ex_readlink⟩
