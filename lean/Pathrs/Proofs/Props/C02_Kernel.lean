import Pathrs.Proofs.Attack
import Pathrs.Proofs.Props.C01

/-!
# C02 (kernel backend) — `openat2::resolve` against an attacker who rearranges the tree between any two system calls

The kernel backend makes one kind of call, `openat2(root, path, …, RESOLVE_IN_ROOT|RESOLVE_NO_MAGICLINKS|…)`, up to 16
times.  Under `Attack.runSeq` each call is answered by the world of its moment; `World.answer` resolves the whole path
inside that one world — which is the trusted statement that the kernel's own in-root walk is atomic with respect to
renames (`RESOLVE_IN_ROOT` retries or fails with `EAGAIN` when a rename races with it).  If the world of the moment of
the successful call is well-formed, the object returned was below the root at that very moment.
-/

open K World KRun Attack Runs

theorem C02_kernel_under_attack (ws : Nat → World) (root : Fd) (m : Nat) (path : Bytes) (rflags : Nat) (nofollow : Bool)
    (i0 : Nat) (fd : Fd) (hroot : ∀ i, (ws i).root = root) (hwf : ∀ i, (ws i).WF)
    (h : (runSeq ws i0 (Openat2.resolve (aenv m) root path rflags nofollow)).1 = .ok fd) :
    ∃ i p, i0 ≤ i ∧ i < (runSeq ws i0 (Openat2.resolve (aenv m) root path rflags nofollow)).2 ∧
      (ws i).dpath fd = some p := by
  obtain ⟨H, hruns, hlen, hans⟩ := runSeq_runs ws (Openat2.resolve (aenv m) root path rflags nofollow) i0 []
  rw [h] at hruns
  rw [hlen]
  simp only [List.nil_append] at hruns
  obtain ⟨_, hlast, _⟩ := kernel_confined (aenv m) root path rflags nofollow hruns
  obtain ⟨pre, fl, hH⟩ := hlast fd rfl
  -- the last call was answered by the world of its moment
  have hk : pre.length < H.length := by rw [hH]; simp
  have hans' := hans pre.length hk
  have hget : H[pre.length] = (Call.openat2 root (Path.toCString path) fl 0
      (RESOLVE_IN_ROOT ||| RESOLVE_NO_MAGICLINKS ||| rflags) OPEN_HOW_SIZE, Resp.fd fd) := by
    simp [hH]
  rw [hget] at hans'
  simp only at hans'
  refine ⟨i0 + pre.length, ?_⟩
  have hw := hwf (i0 + pre.length)
  have hr := hroot (i0 + pre.length)
  -- unfold the world's answer to the in-root `openat2`
  generalize hwdef : ws (i0 + pre.length) = w at hans' hw hr
  have hrt := hw.root_tree
  have h1 : root ≠ procRoot := by
    intro he; rw [← hr] at he; rw [he] at hrt; exact absurd hrt.1 (by decide)
  have h2 : root ≠ threadSelf := by
    intro he; rw [← hr] at he; rw [he] at hrt; exact absurd hrt.1 (by decide)
  have hres : resolveInRoot w { nofollow := hasAll fl O_NOFOLLOW
                                noSymlinks := hasAll (RESOLVE_IN_ROOT ||| RESOLVE_NO_MAGICLINKS ||| rflags) RESOLVE_NO_SYMLINKS
                                maxLinks := w.kernelLinks } (Path.toCString path) = .ok fd := by
    simp only [World.answer, h1, h2, ↓reduceIte] at hans'
    rw [← hr] at hans'
    split at hans'
    · generalize hx : resolveInRoot w _ (Path.toCString path) = x at hans'
      cases x with
      | error e => cases hans'
      | ok c =>
        simp only at hans'
        generalize hok : openKind (w.kind c) fl = y at hans'
        cases y with
        | error e => cases hans'
        | ok u => cases hans'; rfl
    · cases hans'
  obtain ⟨p, hp⟩ := C01_inside_root hw _ _ _ hres
  exact ⟨p, Nat.le_add_right _ _, by omega, hp⟩

/-! ## Non-vacuity: on the attacker who does nothing the kernel lookup of `a` (no-follow) succeeds -/

example : (runSeq (fun _ => exWorld) 0 (Openat2.resolve (aenv exWorld.procMnt) exWorld.root b!"a" 0 true)).1 = .ok 6 := by
  refine (runSeq_const exWorld _ 0).trans ?_
  show Prog.run exWorld (Openat2.resolve (KRun.kenv exWorld) exWorld.root b!"a" 0 true) = _
  rw [KSpec.run_openat2_resolve exWorld_wf b!"a" (by decide) 0 true]
  unfold World.resolveInRoot
  rw [if_neg (by decide)]
  have hc : Path.rawComponents b!"a" = [b!"a"] := by decide
  rw [hc]
  show KSim.toOut (exWorld.kresolve _ 4 [b!"a"] 0) = _
  rw [KSim.k_name _ _ _ _ _ (by rfl) (by decide) (by decide) (by decide)]
  rfl
