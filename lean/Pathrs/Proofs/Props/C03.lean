import Pathrs.Proofs.SafeGen
import Pathrs.Proofs.SafeRoot

/-!
# C03 — mutating Root operations never touch anything outside the root

Syntactic half of the property (for every environment, attackers included): the
*targets* of the mutating calls.  Every mutating call names a single slash-free
component below a descriptor the operation obtained by in-root resolution
(`C05_*` theorems: `Disc`), and for the two recursive operations the name is
never `.` or `..` (or empty): they cannot step sideways or upwards.
The semantic half (the parent descriptors were inside the root) is C02's
containment argument plus the kernel's fd-relative semantics.
-/

open K

/-- names that cannot denote the directory itself or its parent -/
def ProperName (name : Bytes) : Prop := single name ∧ name ≠ Path.dot ∧ name ≠ Path.dotdot

/-- the discipline of the recursive operations: every call that creates, removes or
opens an entry names a proper component below a real descriptor -/
def Mut : Call → Prop
  | .openat dir name _ _ => 0 ≤ dir ∧ ProperName name
  | .unlinkat dir name _ => 0 ≤ dir ∧ ProperName name
  | .mkdirat dir name _ => 0 ≤ dir ∧ ProperName name
  | .mknodat _ _ _ _ => False
  | .linkat _ _ _ _ _ => False
  | .symlinkat _ _ _ => False
  | .renameat _ _ _ _ => False
  | .renameat2 _ _ _ _ _ => False
  | .openat2 _ _ _ _ _ _ => False
  | _ => True

theorem mutDiagOk : DiagOk Mut where
  gettid := trivial
  geteuid := trivial
  probe := fun _ _ => trivial
  readlinkAbs := fun _ _ => trivial
  close := fun _ => trivial
  dup := fun _ => trivial

namespace RmProof

open G

theorem ignoreEnoent_safe {p : M Unit} (hp : Safe Mut p (fun _ => True)) :
    Safe Mut (RemoveAll.ignoreEnoent p) (fun _ => True) := by
  unfold RemoveAll.ignoreEnoent
  apply Safe.mbind (Q' := fun _ => True) (try_any hp)
  · intro r _
    split
    · exact trivial
    · split <;> exact trivial
    · exact trivial
  · intro _ _; trivial

theorem removeInode_safe (dir : Fd) (name : Bytes) (hd : 0 ≤ dir) (hn : ProperName name) :
    Safe Mut (RemoveAll.removeInode dir name) (fun _ => True) := by
  unfold RemoveAll.removeInode
  apply Safe.mbind (Q' := fun _ => True) (try_any (unlinkat_safe mutDiagOk dir name 0 ⟨hd, hn⟩))
  · intro r _
    split
    · exact trivial
    · apply Safe.mbind (Q' := fun _ => True) (try_any (unlinkat_safe mutDiagOk dir name _ ⟨hd, hn⟩))
      · intro r2 _
        split
        · exact trivial
        · split <;> exact trivial
      · intro _ _; trivial
  · intro _ _; trivial

theorem nextEntry_safe (fd : Fd) (n : Nat) : Safe Mut (RemoveAll.nextEntry fd n) (fun _ => True) := by
  induction n with
  | zero => unfold RemoveAll.nextEntry; exact trivial
  | succ n ih =>
    unfold RemoveAll.nextEntry
    apply Safe.mbind (Q' := fun _ => True) (Safe.mcall (c := .dirNext fd) trivial (fun _ _ => trivial))
    · intro r _
      split
      · split
        · exact ih
        · exact trivial
      · exact trivial
      · exact trivial
      · exact trivial
    · intro _ _; trivial

theorem children_safe (rm : Fd → Bytes → M Unit) (subdir : Fd) (sf : Nat)
    (hrm : ∀ name, Safe Mut (rm subdir name) (fun _ => True)) :
    ∀ (n : Nat) (first : RemoveAll.DirItem),
      Safe Mut (RemoveAll.children rm subdir sf first n) (fun _ => True) := by
  intro n
  induction n with
  | zero => intro first; unfold RemoveAll.children; exact trivial
  | succ n ih =>
    intro first
    cases first with
    | fin => unfold RemoveAll.children; exact trivial
    | err e => unfold RemoveAll.children; exact trivial
    | entry child =>
      unfold RemoveAll.children
      apply Safe.mbind (Q' := fun _ => True) (ignoreEnoent_safe (hrm child))
      · intro _ _
        apply Safe.mbind (Q' := fun _ => True) (nextEntry_safe subdir sf)
        · intro nxt _; exact ih nxt
        · intro _ _; trivial
      · intro _ _; trivial

theorem scan_safe (rm : Fd → Bytes → M Unit) (subdir : Fd) (sf : Nat)
    (hrm : ∀ name, Safe Mut (rm subdir name) (fun _ => True)) (n : Nat) :
    Safe Mut (RemoveAll.scan rm subdir sf n) (fun _ => True) := by
  induction n with
  | zero => unfold RemoveAll.scan; exact trivial
  | succ n ih =>
    unfold RemoveAll.scan
    apply Safe.mbind (Q' := fun _ => True) (Safe.mcall (c := .dirOpen subdir) trivial (fun _ _ => trivial))
    · intro r _
      split
      · apply Safe.mbind (Q' := fun _ => True) (nextEntry_safe subdir sf)
        · intro first _
          split
          · exact trivial
          · apply Safe.mbind (Q' := fun _ => True) (children_safe rm subdir sf hrm sf _)
            · intro _ _; exact ih
            · intro _ _; trivial
        · intro _ _; trivial
      · split <;> exact trivial
      · exact trivial
    · intro _ _; trivial

theorem openSubdir_safe (dir : Fd) (name : Bytes) (hd : 0 ≤ dir) (hn : ProperName name) :
    Safe Mut (RemoveAll.openSubdir dir name)
      (fun r => ∀ o, r = .ok o → ∀ fd, o = some fd → 0 ≤ fd) := by
  unfold RemoveAll.openSubdir
  apply Safe.mbind (Q' := fun r => ∀ x, r = .ok x → FdOk x)
    (try_fd (openat_safe mutDiagOk dir name O_DIRECTORY 0 (fun _ => ⟨hd, hn⟩)))
  · intro r hr
    split
    · rename_i fd; intro o ho fd' hfd'; cases ho; cases hfd'; exact hr _ rfl fd rfl
    · split
      · intro o ho fd' hfd'; cases ho; cases hfd'
      · intro o ho; cases ho
    · intro o ho; cases ho
  · intro e _ o ho; cases ho

theorem emptyDir_safe (rm : Fd → Bytes → M Unit) (dir : Fd) (name : Bytes) (subdir : Fd) (fuel : Nat)
    (hd : 0 ≤ dir) (hn : ProperName name)
    (hrm : ∀ nm, Safe Mut (rm subdir nm) (fun _ => True)) :
    Safe Mut (RemoveAll.emptyDir rm dir name subdir fuel) (fun _ => True) := by
  unfold RemoveAll.emptyDir
  apply Safe.mbind (Q' := fun _ => True)
    (onErr_any (scan_safe rm subdir fuel hrm fuel) (close_safe mutDiagOk _))
  · intro _ _
    apply Safe.mbind (Q' := fun _ => True)
      (try_any (ignoreEnoent_safe (removeInode_safe dir name hd hn)))
    · intro r _
      apply Safe.mbind (Q' := fun _ => True) (lift_any (close_safe mutDiagOk _))
      · intro _ _; exact Safe.ofExcept trivial
      · intro _ _; trivial
    · intro _ _; trivial
  · intro _ _; trivial

end RmProof

/-- **`remove_all` never steps sideways or upwards.**  For every environment (any
directory listings, any answers, any attacker), every `unlinkat` and every directory open
`remove_all` performs names one slash-free component that is neither `.` nor `..`, relative
to the directory it was given or to one it opened that way; it makes no other kind of
mutating call.  (False before the repair of F1: `remove_all(dir, "..")`.) -/
theorem C03_remove_all_targets (fuel : Nat) : ∀ (dir : Fd) (name : Bytes), 0 ≤ dir →
    Safe Mut (RemoveAll.removeAll fuel dir name) (fun _ => True) := by
  induction fuel with
  | zero => intro dir name _; unfold RemoveAll.removeAll; exact trivial
  | succ n ih =>
    intro dir name hd
    unfold RemoveAll.removeAll
    split
    · exact trivial
    · rename_i hslash
      split
      · exact trivial
      · rename_i hdot
        have hn : ProperName name :=
          ⟨by simpa [single] using hslash, fun h => hdot (Or.inl h), fun h => hdot (Or.inr h)⟩
        apply Safe.mbind (Q' := fun _ => True)
          (G.isOk_safe (RmProof.ignoreEnoent_safe (RmProof.removeInode_safe dir name hd hn)))
        · intro removed _
          split
          · exact trivial
          · apply Safe.mbind (Q' := fun r => ∀ o, r = .ok o → ∀ fd, o = some fd → 0 ≤ fd)
              (RmProof.openSubdir_safe dir name hd hn)
            · intro sub hsub
              split
              · exact trivial
              · rename_i subdir
                have hs : 0 ≤ subdir := hsub _ rfl subdir rfl
                exact RmProof.emptyDir_safe _ dir name subdir n hd hn (fun nm => ih subdir nm hs)
            · intro _ _; trivial
        · intro _ _; trivial


/-- the not-yet-existing components `mkdir_all` creates are proper names: the filter drops
empty and `.` components, the `..` check refuses the rest -/
theorem remainingParts_proper (remaining : Option Bytes)
    (hnd : (Root.remainingParts remaining).any (· == Path.dotdot) = false) :
    ∀ p ∈ Root.remainingParts remaining, ProperName p ∧ p ≠ [] := by
  intro p hp
  have hne : p ≠ Path.dotdot := by
    intro h
    have : (Root.remainingParts remaining).any (· == Path.dotdot) = true := by
      rw [List.any_eq_true]; exact ⟨p, hp, by simp [h]⟩
    rw [this] at hnd; cases hnd
  unfold Root.remainingParts at hp
  simp only [List.mem_filter, Bool.and_eq_true, Bool.not_eq_true', bne_iff_ne, ne_eq] at hp
  obtain ⟨hmem, hnempty, hndot⟩ := hp
  have hs : single p := by
    split at hmem
    · cases hmem
    · exact rawComponents_single _ p hmem
  refine ⟨⟨hs, hndot, hne⟩, ?_⟩
  intro h; subst h; simp at hnempty

/-- **`mkdir_all` only creates and enters proper components** below the directory it
reopened: for every environment, every `mkdirat` and every directory open of the creating
loop names one slash-free component that is not empty, `.` or `..`. -/
theorem C03_mkdir_all_targets (perm : Nat) (parts : List Bytes) (hp : ∀ p ∈ parts, ProperName p) :
    ∀ cur : Fd, 0 ≤ cur → Safe Mut (Root.mkdirLoop perm cur parts) FdOk := by
  induction parts with
  | nil => intro cur hc; unfold Root.mkdirLoop; intro fd h; cases h; exact hc
  | cons part rest ih =>
    intro cur hc
    have hpart := hp part List.mem_cons_self
    have hrest : ∀ p ∈ rest, ProperName p := fun p h => hp p (List.mem_cons_of_mem _ h)
    unfold Root.mkdirLoop
    split
    · exact G.lift_then_throw FdOk_err (G.close_safe mutDiagOk _)
    · have hmk : Safe Mut (Root.mkdirTolerant cur part perm) (fun _ => True) := by
        unfold Root.mkdirTolerant
        apply Safe.mbind (Q' := fun _ => True)
          (G.try_any (G.mkdirat_safe mutDiagOk cur part perm ⟨hc, hpart⟩))
        · intro r _
          split
          · exact trivial
          · split <;> exact trivial
        · intro _ _; trivial
      apply Safe.mbind (Q' := fun _ => True) (G.onErr_any hmk (G.close_safe mutDiagOk _))
      · intro _ _
        apply Safe.mbind (Q' := FdOk)
          (G.onErr_fd (G.openat_safe mutDiagOk cur part _ 0 (fun _ => ⟨hc, hpart⟩)) (G.close_safe mutDiagOk _))
        · intro next hnext
          apply Safe.mbind (Q' := fun _ => True) (G.lift_any (G.close_safe mutDiagOk _))
          · intro _ _; exact ih hrest next (hnext next rfl)
          · intro e _; exact FdOk_err e
        · intro e _; exact FdOk_err e
      · intro e _; exact FdOk_err e

theorem bind'_assoc {α β γ : Type} (p : M α) (f : α → M β) (g : β → M γ) :
    M.bind' (M.bind' p f) g = M.bind' p fun a => M.bind' (f a) g := by
  have key : ∀ q : Prog (Except Err α),
      M.bind' (M.bind' q f) g = M.bind' q fun a => M.bind' (f a) g := by
    intro q
    induction q with
    | ret x => cases x <;> rfl
    | call c k ih =>
      show Prog.call c _ = Prog.call c _
      congr 1
      funext r
      exact ih r
  exact key p

/-- a trailing slash: the operation resolves the parent, closes it and reports
`InvalidArgument` — the mutating call is never reached -/
theorem C03_trailing_slash_create (env : Env) (root : Root) (path parent : Bytes) (ty : InodeType)
    (h : Path.pathSplit path = .ok (parent, none)) :
    Root.create env root path ty =
      M.bind' (Resolver.resolve env root.resolver root.fd parent false) fun dir =>
        M.bind' (M.lift (Sys.close dir)) fun _ => throw .invalidArgument := by
  unfold Root.create Root.resolveParent
  rw [h]
  show M.bind' (M.bind' (M.ofExcept (.ok (parent, none))) _) _ = _
  rw [M.ofExcept_ok, M.bind_ok]
  show M.bind' (M.bind' (Resolver.resolve env root.resolver root.fd parent false) _) _ = _
  rw [bind'_assoc]
  rfl

theorem C03_trailing_slash_remove_all (env : Env) (root : Root) (path parent : Bytes)
    (h : Path.pathSplit path = .ok (parent, none)) :
    Root.removeAll env root path =
      M.bind' (Resolver.resolve env root.resolver root.fd parent false) fun dir =>
        M.bind' (M.lift (Sys.close dir)) fun _ => throw .invalidArgument := by
  unfold Root.removeAll Root.resolveParent
  rw [h]
  show M.bind' (M.bind' (M.ofExcept (.ok (parent, none))) _) _ = _
  rw [M.ofExcept_ok, M.bind_ok]
  show M.bind' (M.bind' (Resolver.resolve env root.resolver root.fd parent false) _) _ = _
  rw [bind'_assoc]
  rfl

/-- the single-entry operations: the one mutating call is made on (descriptor of the
in-root resolution of the parent, final single component) — this is `Disc` for those calls -/
theorem C03_single_entry_targets (env : Env) (root : Root) (path : Bytes) (ty : InodeType)
    (hr : 0 ≤ root.fd) (hp : 0 ≤ env.proc.fd) :
    Safe (Disc false) (Root.create env root path ty) (fun _ => True) :=
  root_create_safe env root path ty hr hp

/-- calls that do not open `.` or `..` -/
def NoDots : Call → Prop
  | .openat _ name _ _ => name ≠ Path.dot ∧ name ≠ Path.dotdot
  | _ => True

theorem noDotsDiagOk : DiagOk NoDots where
  gettid := trivial
  geteuid := trivial
  probe := fun _ _ => trivial
  readlinkAbs := fun _ _ => trivial
  close := fun _ => trivial
  dup := fun _ => trivial

/-- **the creating open of `create_file` never names `.` or `..`**, whatever the open flags and whatever the
environment answers.  This is what keeps `create_file("..", O_PATH)` inside the root: with `O_PATH` the kernel drops
`O_CREAT` and the call would be a plain lookup of the parent of the resolved directory (finding F24). -/
theorem C03_create_file_open_never_dots (dir : Fd) (name : Bytes) (flags perm : Nat) :
    Safe NoDots (Root.createFileOpen dir name flags perm) (fun _ => True) := by
  unfold Root.createFileOpen
  split
  · exact trivial
  · rename_i hname
    refine Safe.weaken (G.openat_safe noDotsDiagOk dir name _ perm ?_)
    intro _
    exact ⟨fun h => hname (Or.inl h), fun h => hname (Or.inr h)⟩

/-! ## Non-vacuity -/

example : ProperName b!"a" := by refine ⟨by decide, by decide, by decide⟩
example : ¬ ProperName Path.dotdot := fun h => h.2.2 rfl
example : ¬ Mut (.unlinkat 5 Path.dotdot 0) := fun h => h.2.2.2 rfl
example : ¬ Mut (.openat 5 b!"a/b" 0 0) := by
  intro h; exact absurd h.2.1 (by decide)
