import Pathrs.Proofs.AttackOps

/-!
# C03 (attack half) — the mutating single-entry operations against an attacker who rearranges the tree between any two
system calls

`Attack.runSeq`: the `i`-th system call of the operation is answered by the world of moment `i`; nothing relates the
worlds of different moments (the attacker renames, exchanges, replaces, removes, moves things out of and into the root
as it likes between any two calls), and how the kernel of a moment answers a mutating call is arbitrary
(`World.mutAns`).  For a `Root` on the emulated resolver: a successful `remove_file`/`remove_dir`, `create` (every inode
type but hard links), `create_file` and `rename` consists of the parent lookup(s), exactly one mutating call on
(parent descriptor, final name) and the close(s), and every parent descriptor named by that call refers to a directory
that the kernel's `d_path` placed below the root at some moment *before* the call was made: the call never names a
directory that was outside the root's tree during the whole operation.  (This file exists next to `C03.lean` because
`AttackOps.lean` uses the shape theorems of `C14.lean`, which imports `C03.lean`.)
-/

open K World KRun Attack AttackOps

theorem C03_remove_under_attack (ws : Nat → World) (root : Fd) (rc : List Bytes) (m : Nat) (ha : Attacker ws root rc m)
    (path : Bytes) (rflags : Nat) (isDir : Bool) (i0 : Nat)
    (h : (runSeq ws i0 (Root.removeInode (aenv m) (eroot root rflags) path isDir)).1 = .ok ()) :
    ∃ parent name dir pre rcl H,
      Path.pathSplit path = .ok (parent, some name) ∧
      Runs (Root.removeInode (aenv m) (eroot root rflags) path isDir) [] H (.ok ()) ∧ AnsSeq ws i0 H ∧
      H = pre ++ [(Call.unlinkat dir name (if isDir then AT_REMOVEDIR else 0), Resp.unit), (Call.close dir, rcl)] ∧
      ∃ i p, i0 ≤ i ∧ i < i0 + pre.length ∧ (ws i).dpath dir = some p :=
  remove_under_attack ws root rc m ha path rflags isDir i0 h

theorem C03_create_file_under_attack (ws : Nat → World) (root : Fd) (rc : List Bytes) (m : Nat) (ha : Attacker ws root rc m)
    (path : Bytes) (rflags flags perm : Nat) (i0 : Nat) (fd : Fd)
    (h : (runSeq ws i0 (Root.createFile (aenv m) (eroot root rflags) path flags perm)).1 = .ok fd) :
    ∃ parent name dir pre rcl H,
      Path.pathSplit path = .ok (parent, some name) ∧ name ≠ Path.dot ∧ name ≠ Path.dotdot ∧
      Runs (Root.createFile (aenv m) (eroot root rflags) path flags perm) [] H (.ok fd) ∧ AnsSeq ws i0 H ∧
      H = pre ++ [(Call.openat dir name (flags ||| O_CREAT ||| O_NOFOLLOW ||| O_CLOEXEC ||| O_NOCTTY) perm, Resp.fd fd),
                  (Call.close dir, rcl)] ∧
      ∃ i p, i0 ≤ i ∧ i < i0 + pre.length ∧ (ws i).dpath dir = some p :=
  createFile_under_attack ws root rc m ha path rflags flags perm i0 fd h

theorem C03_create_under_attack (ws : Nat → World) (root : Fd) (rc : List Bytes) (m : Nat) (ha : Attacker ws root rc m)
    (path : Bytes) (rflags : Nat) (ty : InodeType) (hty : ∀ t, ty ≠ .hardlink t) (i0 : Nat)
    (h : (runSeq ws i0 (Root.create (aenv m) (eroot root rflags) path ty)).1 = .ok ()) :
    ∃ parent name dir pre c rcl H,
      Path.pathSplit path = .ok (parent, some name) ∧
      Runs (Root.create (aenv m) (eroot root rflags) path ty) [] H (.ok ()) ∧ AnsSeq ws i0 H ∧
      isMutating c = true ∧ H = pre ++ [(c, Resp.unit), (Call.close dir, rcl)] ∧
      ∃ i p, i0 ≤ i ∧ i < i0 + pre.length ∧ (ws i).dpath dir = some p :=
  create_under_attack ws root rc m ha path rflags ty hty i0 h

theorem C03_rename_under_attack (ws : Nat → World) (root : Fd) (rc : List Bytes) (m : Nat) (ha : Attacker ws root rc m)
    (src dst : Bytes) (rflags rnflags : Nat) (i0 : Nat)
    (h : (runSeq ws i0 (Root.rename (aenv m) (eroot root rflags) src dst rnflags)).1 = .ok ()) :
    ∃ sparent sname sdir dparent dname ddir pre c rc1 rc2 H,
      Path.pathSplit src = .ok (sparent, some sname) ∧ Path.pathSplit dst = .ok (dparent, some dname) ∧
      Runs (Root.rename (aenv m) (eroot root rflags) src dst rnflags) [] H (.ok ()) ∧ AnsSeq ws i0 H ∧
      isMutating c = true ∧ H = pre ++ [(c, Resp.unit), (Call.close sdir, rc1), (Call.close ddir, rc2)] ∧
      (∃ i p, i0 ≤ i ∧ i < i0 + pre.length ∧ (ws i).dpath sdir = some p) ∧
      (∃ i p, i0 ≤ i ∧ i < i0 + pre.length ∧ (ws i).dpath ddir = some p) :=
  rename_under_attack ws root rc m ha src dst rflags rnflags i0 h

/-! ## Non-vacuity: operations with an acknowledged mutating call do succeed under `runSeq` -/

example : (runSeq (fun _ => ackWorld) 0 (Root.removeInode (aenv ackWorld.procMnt) (eroot ackWorld.root 0) b!"a" false)).1 = .ok () :=
  ex_remove
