import Pathrs.Proofs.Props.C01

/-!
# C04 — kernel and emulated resolver backends are observationally equivalent

Both backends compute the specification `World.resolveInRoot` (C01).  They differ in one
parameter only: the kernel gives up after `kernelLinks` (40) followed links, the emulated walk
after `MAX_SYMLINK_TRAVERSALS` (128).  `kresolve_limit_mono` shows that the larger budget changes
nothing unless the smaller one was exhausted, so for every lookup the kernel does not answer
`ELOOP` (in particular every lookup of at most 40 link traversals, the quantifier of the
property) the two backends return the same object or the same errno; with
`RESOLVE_NO_SYMLINKS` they agree unconditionally (`kresolve_nosym`).

Full lookups (`resolve`, `resolve_nofollow`, `readlink`, and the parent lookups of every
single-entry operation) are covered by these theorems.  The *partial* lookups behind
`mkdir_all` (symlink stack vs. ancestor probing) and the flag handling of the one-shot open are
not proved equivalent here: for them the property is decided by the transcript tie plus the
pairwise differential oracle of the check (`theorem partial`, see DESIGN.md).
-/

open K KRun World KSim KSpec

variable {w : World}

/-- the specifications of the two backends agree unless the kernel ran out of link budget -/
theorem C04_spec_agree (rflags : Nat) (nofollow : Bool) (path : Bytes)
    (hlinks : w.kernelLinks ≤ MAX_SYMLINK_TRAVERSALS)
    (h : resolveInRoot w (kcfgK w rflags nofollow) path ≠ .error ELOOP) :
    resolveInRoot w (ecfg rflags nofollow) path = resolveInRoot w (kcfgK w rflags nofollow) path := by
  unfold resolveInRoot at h ⊢
  split
  · rfl
  · rename_i hp
    rw [if_neg hp] at h
    exact kresolve_limit_mono (kcfgK w rflags nofollow) (ecfg rflags nofollow) rfl rfl hlinks _ _ _ h

/-- with `RESOLVE_NO_SYMLINKS` they agree unconditionally -/
theorem C04_spec_agree_nosym (rflags : Nat) (nofollow : Bool) (path : Bytes)
    (hns : hasAll rflags RESOLVE_NO_SYMLINKS = true) :
    resolveInRoot w (ecfg rflags nofollow) path = resolveInRoot w (kcfgK w rflags nofollow) path := by
  unfold resolveInRoot
  split
  · rfl
  · exact kresolve_nosym (kcfgK w rflags nofollow) (ecfg rflags nofollow) rfl hns hns _ _ _ _

/-- `Root::resolve` / `resolve_nofollow`: the same object or the same errno on both backends -/
theorem C04_resolve_agree (hw : w.WF) (path : Bytes) (hnul : path.contains 0 = false) (rflags : Nat)
    (nofollow : Bool) (hlinks : w.kernelLinks ≤ MAX_SYMLINK_TRAVERSALS)
    (h : Prog.run w (Openat2.resolve (kenv w) w.root path rflags nofollow) ≠ .error (.os ELOOP)) :
    Prog.run w (Opath.resolve (kenv w) w.root path rflags nofollow)
      = Prog.run w (Openat2.resolve (kenv w) w.root path rflags nofollow) := by
  rw [C01_kernel hw path hnul] at h ⊢
  rw [C01_emulated hw, C04_spec_agree rflags nofollow path hlinks]
  intro he; rw [he] at h; exact h rfl

/-- `Root::readlink`: the same body or the same errno on both backends -/
theorem C04_readlink_agree (hw : w.WF) (path : Bytes) (hnul : path.contains 0 = false) (rflags : Nat)
    (hlinks : w.kernelLinks ≤ MAX_SYMLINK_TRAVERSALS)
    (h : resolveInRoot w (kcfgK w rflags true) path ≠ .error ELOOP) :
    Prog.run w (Root.readlink (kenv w) { fd := w.root, resolver := { emulated := true, rflags } } path)
      = Prog.run w (Root.readlink (kenv w) { fd := w.root, resolver := { emulated := false, rflags } } path) := by
  rw [C01_readlink hw _ path hnul, C01_readlink hw _ path hnul]
  simp only [↓reduceIte, Bool.false_eq_true]
  rw [C04_spec_agree rflags true path hlinks h]

/-- non-vacuity: on the example world `a` resolves (no-follow) to the link itself on both backends -/
example : Prog.run exWorld (Opath.resolve (kenv exWorld) exWorld.root b!"a" 0 true)
    = Prog.run exWorld (Openat2.resolve (kenv exWorld) exWorld.root b!"a" 0 true) := by
  apply C04_resolve_agree exWorld_wf _ (by decide) _ _ (by decide)
  rw [C01_kernel exWorld_wf _ (by decide)]
  have : resolveInRoot exWorld (kcfgK exWorld 0 true) b!"a" = .ok 6 := by
    unfold resolveInRoot
    rw [if_neg (by decide)]
    have hr : Path.rawComponents b!"a" = [b!"a"] := by decide
    rw [hr]
    show exWorld.kresolve _ 4 [b!"a"] 0 = _
    rw [k_name _ _ _ _ _ (by rfl) (by decide) (by decide) (by decide)]
    rfl
  rw [this]
  intro h; cases h
