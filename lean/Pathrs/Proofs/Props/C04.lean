import Pathrs.Proofs.Props.C01
import Pathrs.Proofs.KProbe

/-!
# C04 — kernel and emulated resolver backends are observationally equivalent

Both backends compute the specification `World.resolveInRoot` (C01).  They differ in one
parameter only: the kernel gives up after `kernelLinks` (40) followed links, the emulated walk
after `MAX_SYMLINK_TRAVERSALS` (128).  `kresolve_limit_mono` shows that the larger budget changes
nothing unless the smaller one was exhausted, so for every lookup the kernel does not answer
`ELOOP` (in particular every lookup of at most 40 link traversals, the quantifier of the
property) the two backends return the same object or the same errno; with
`RESOLVE_NO_SYMLINKS` they agree unconditionally (`kresolve_nosym`).

Full lookups (`resolve`, `resolve_nofollow`, `readlink`, and the parent lookups of every
single-entry operation) are covered by these theorems.  The *partial* lookups behind
`mkdir_all` are covered by `C04_partial_agree`: the emulated walk with its symlink stack
(`Opath.resolvePartial`, `KSimStack.walk_sim_stack`) and the kernel backend's probing of ever
shorter prefixes (`Openat2.resolvePartial` over `Path.partialAncestors`, `KProbe.anc_probe`)
hand `mkdir_all` the same directory and the same components to create, or the same error.
The one-shot open (`open_subpath`) is covered by `C04_open_agree` (from `C01_open_subpath`): at the
level of which object is opened or which errno is returned.  The *status flags* of the resulting
descriptor (`F_GETFL`) are not represented in `World` and are decided by the transcript tie plus the
pairwise differential oracle of the check.
-/

open K KRun World KSim KSpec

variable {w : World}

/-- the specifications of the two backends agree unless the kernel ran out of link budget -/
theorem C04_spec_agree (rflags : Nat) (nofollow : Bool) (path : Bytes)
    (hlinks : w.kernelLinks ≤ MAX_SYMLINK_TRAVERSALS)
    (h : resolveInRoot w (kcfgK w rflags nofollow) path ≠ .error ELOOP) :
    resolveInRoot w (ecfg rflags nofollow) path = resolveInRoot w (kcfgK w rflags nofollow) path := by
  unfold resolveInRoot at h ⊢
  split
  · rfl
  · rename_i hp
    rw [if_neg hp] at h
    exact kresolve_limit_mono (kcfgK w rflags nofollow) (ecfg rflags nofollow) rfl rfl hlinks _ _ _ h

/-- with `RESOLVE_NO_SYMLINKS` they agree unconditionally -/
theorem C04_spec_agree_nosym (rflags : Nat) (nofollow : Bool) (path : Bytes)
    (hns : hasAll rflags RESOLVE_NO_SYMLINKS = true) :
    resolveInRoot w (ecfg rflags nofollow) path = resolveInRoot w (kcfgK w rflags nofollow) path := by
  unfold resolveInRoot
  split
  · rfl
  · exact kresolve_nosym (kcfgK w rflags nofollow) (ecfg rflags nofollow) rfl hns hns _ _ _ _

/-- `Root::resolve` / `resolve_nofollow`: the same object or the same errno on both backends -/
theorem C04_resolve_agree (hw : w.WF) (path : Bytes) (hnul : path.contains 0 = false) (rflags : Nat)
    (nofollow : Bool) (hlinks : w.kernelLinks ≤ MAX_SYMLINK_TRAVERSALS)
    (h : Prog.run w (Openat2.resolve (kenv w) w.root path rflags nofollow) ≠ .error (.os ELOOP)) :
    Prog.run w (Opath.resolve (kenv w) w.root path rflags nofollow)
      = Prog.run w (Openat2.resolve (kenv w) w.root path rflags nofollow) := by
  rw [C01_kernel hw path hnul] at h ⊢
  rw [C01_emulated hw, C04_spec_agree rflags nofollow path hlinks]
  intro he; rw [he] at h; exact h rfl

/-- `Root::readlink`: the same body or the same errno on both backends -/
theorem C04_readlink_agree (hw : w.WF) (path : Bytes) (hnul : path.contains 0 = false) (rflags : Nat)
    (hlinks : w.kernelLinks ≤ MAX_SYMLINK_TRAVERSALS)
    (h : resolveInRoot w (kcfgK w rflags true) path ≠ .error ELOOP) :
    Prog.run w (Root.readlink (kenv w) { fd := w.root, resolver := { emulated := true, rflags } } path)
      = Prog.run w (Root.readlink (kenv w) { fd := w.root, resolver := { emulated := false, rflags } } path) := by
  rw [C01_readlink hw _ path hnul, C01_readlink hw _ path hnul]
  simp only [↓reduceIte, Bool.false_eq_true]
  rw [C04_spec_agree rflags true path hlinks h]

/-! ### the one-shot open -/

open KOpen in
/-- **`Root::open_subpath` agrees on both backends** (object or errno) unless the kernel ran out of its link
budget: the emulated resolve + inspect + re-open through procfs is the kernel's single `openat2` -/
theorem C04_open_agree (hw : w.WF) (path : Bytes) (hnul : path.contains 0 = false) (rflags flags : Nat)
    (hcf : (hasAny flags (O_CREAT ||| O_EXCL) || hasAll flags O_TMPFILE) = false)
    (hlinks : w.kernelLinks ≤ MAX_SYMLINK_TRAVERSALS)
    (h : resolveInRoot w (kcfgK w rflags (hasAll flags O_NOFOLLOW)) path ≠ .error ELOOP) :
    Prog.run w (Resolver.openOnce (kenv w) { emulated := true, rflags } w.root path flags)
      = Prog.run w (Resolver.openOnce (kenv w) { emulated := false, rflags } w.root path flags) := by
  rw [C01_open_subpath hw _ path hnul flags hcf, C01_open_subpath hw _ path hnul flags hcf]
  simp only [↓reduceIte, Bool.false_eq_true]
  unfold openSpec
  rw [C04_spec_agree rflags (hasAll flags O_NOFOLLOW) path hlinks h]

/-- … and refuse creation flags alike -/
theorem C04_open_agree_creation (path : Bytes) (rflags flags : Nat)
    (hcf : (hasAny flags (O_CREAT ||| O_EXCL) || hasAll flags O_TMPFILE) = true) :
    Prog.run w (Resolver.openOnce (kenv w) { emulated := true, rflags } w.root path flags)
      = Prog.run w (Resolver.openOnce (kenv w) { emulated := false, rflags } w.root path flags) := by
  rw [C01_open_subpath_creation _ path flags hcf, C01_open_subpath_creation _ path flags hcf]

/-! ### partial lookups (`mkdir_all`) -/

open KPartial KPartialRun KProbe SStack in
/-- what `mkdir_all` does with a partial lookup: the directory to start from and the components to create -/
def obsPartial : Except Err (Fd × Option Bytes) → Except Err (Fd × List Bytes)
  | .ok (h, r) => .ok (h, Root.remainingParts r)
  | .error e => .error e

open KPartial KPartialRun KProbe SStack in
theorem partial_agree_core (hw : w.WF) (path : Bytes) (hp : path ≠ []) (hnul : path.contains 0 = false) (rflags : Nat)
    (hfull : kresolve w (ecfg rflags false) w.root (Path.rawComponents path) 0
      = kresolve w (kcfgK w rflags false) w.root (Path.rawComponents path) 0)
    (hconv : ∀ k, pfx w (kcfgK w rflags false) (Path.rawComponents path) k ≠ .error ELOOP →
      pfx w (ecfg rflags false) (Path.rawComponents path) k = pfx w (kcfgK w rflags false) (Path.rawComponents path) k) :
    obsPartial (Prog.run w (Root.partialTarget (kenv w) { fd := w.root, resolver := { emulated := true, rflags } } path))
      = obsPartial (Prog.run w (Root.partialTarget (kenv w) { fd := w.root, resolver := { emulated := false, rflags } } path)) := by
  obtain ⟨le, e1, e2, e3⟩ := run_opath_resolvePartial hw path hp rflags
  obtain ⟨lk, k1, k2, k3⟩ := run_openat2_resolvePartial hw path hp hnul rflags
  rw [hfull] at e2
  have hsl : ∀ x ∈ Path.rawComponents path, Path.containsSlash x = false := rawComponents_single path
  unfold Root.partialTarget Resolver.resolvePartial
  simp only [↓reduceIte, Bool.false_eq_true, M.bind_def, run_bind'_simp, e1, k1]
  cases hres : kresolve w (kcfgK w rflags false) w.root (Path.rawComponents path) 0 with
  | ok h =>
    rw [hres] at e2 k2
    cases le with
    | part _ _ _ => simp [lookupOut, toOut] at e2
    | complete he =>
      cases lk with
      | part _ _ _ => simp [lookupOut, toOut] at k2
      | complete hk =>
        simp only [lookupOut, toOut, Except.ok.injEq] at e2 k2
        subst e2; subst k2
        rfl
  | error e =>
    rw [hres] at e2 k2
    cases le with
    | complete _ => simp [lookupOut, toOut] at e2
    | part he re ee =>
      cases lk with
      | complete _ => simp [lookupOut, toOut] at k2
      | part hk rk ek =>
        simp only [lookupOut, toOut, Except.error.injEq] at e2 k2
        subst e2; subst k2
        by_cases hen : e = ENOENT
        · subst hen
          obtain ⟨je, ⟨_, ⟨x, s1⟩, s2⟩, s3⟩ := e3 he re rfl
          obtain ⟨jk, e', t0, t1, t2, t3⟩ := k3 hk rk _ rfl
          cases t0
          have u1 : pfx w (ecfg rflags false) (Path.rawComponents path) jk = .ok hk := by
            rw [hconv jk (by rw [t1]; intro h; cases h), t1]
          have u2 : pfx w (ecfg rflags false) (Path.rawComponents path) (jk + 1) = .error ENOENT := by
            rw [hconv (jk + 1) (by rw [t2]; intro h; cases h), t2]
          have v1 : pfx w (ecfg rflags false) (Path.rawComponents path) je = .ok he := by
            unfold pfx; rw [kresolve_eq_kres2, s1]; rfl
          obtain ⟨hj, hh⟩ := stop_unique (ecfg rflags false) rfl _ je jk he hk _ _ v1 s2 u1 u2
          subst hj; subst hh
          simp only [↓reduceIte, run_do_pure, obsPartial]
          rw [t3, s3, remainingParts_joinSlash _ (fun c hc => hsl c (List.mem_of_mem_drop hc))]
        · have hne : Err.os e ≠ Err.os ENOENT := by intro h; cases h; exact hen rfl
          simp only [hne, ↓reduceIte, run_bind'_simp, run_do_liftP, run_do_throw, obsPartial]

/-- **Partial lookups agree**: `mkdir_all`'s partial lookup gives the same starting directory and the same
components to create, or the same error, on both backends — unless the kernel ran out of its link budget. -/
theorem C04_partial_agree (hw : w.WF) (path : Bytes) (hp : path ≠ []) (hnul : path.contains 0 = false) (rflags : Nat)
    (hlinks : w.kernelLinks ≤ MAX_SYMLINK_TRAVERSALS)
    (h : kresolve w (kcfgK w rflags false) w.root (Path.rawComponents path) 0 ≠ .error ELOOP) :
    obsPartial (Prog.run w (Root.partialTarget (kenv w) { fd := w.root, resolver := { emulated := true, rflags } } path))
      = obsPartial (Prog.run w (Root.partialTarget (kenv w) { fd := w.root, resolver := { emulated := false, rflags } } path)) :=
  partial_agree_core hw path hp hnul rflags
    (kresolve_limit_mono (kcfgK w rflags false) (ecfg rflags false) rfl rfl hlinks _ _ _ h)
    (fun _ hk => kresolve_limit_mono (kcfgK w rflags false) (ecfg rflags false) rfl rfl hlinks _ _ _ hk)

/-- with `RESOLVE_NO_SYMLINKS` they agree unconditionally -/
theorem C04_partial_agree_nosym (hw : w.WF) (path : Bytes) (hp : path ≠ []) (hnul : path.contains 0 = false) (rflags : Nat)
    (hns : hasAll rflags RESOLVE_NO_SYMLINKS = true) :
    obsPartial (Prog.run w (Root.partialTarget (kenv w) { fd := w.root, resolver := { emulated := true, rflags } } path))
      = obsPartial (Prog.run w (Root.partialTarget (kenv w) { fd := w.root, resolver := { emulated := false, rflags } } path)) :=
  partial_agree_core hw path hp hnul rflags
    (kresolve_nosym (kcfgK w rflags false) (ecfg rflags false) rfl hns hns _ _ _ _)
    (fun _ _ => kresolve_nosym (kcfgK w rflags false) (ecfg rflags false) rfl hns hns _ _ _ _)

/-- non-vacuity: on the example world the hypotheses hold for the missing path `zz/y` -/
example : obsPartial (Prog.run exWorld (Root.partialTarget (kenv exWorld) { fd := exWorld.root, resolver := { emulated := true, rflags := 0 } } b!"zz/y"))
    = obsPartial (Prog.run exWorld (Root.partialTarget (kenv exWorld) { fd := exWorld.root, resolver := { emulated := false, rflags := 0 } } b!"zz/y")) := by
  apply C04_partial_agree exWorld_wf _ (by decide) (by decide) _ (by decide)
  have hr : Path.rawComponents b!"zz/y" = [b!"zz", b!"y"] := by decide
  rw [hr]
  show exWorld.kresolve _ 4 [b!"zz", b!"y"] 0 ≠ _
  rw [k_name _ _ _ _ _ (by rfl) (by decide) (by decide) (by decide)]
  have : exWorld.child 4 b!"zz" = none := by decide
  rw [this]
  intro h; cases h

/-- non-vacuity: on the example world `a` resolves (no-follow) to the link itself on both backends -/
example : Prog.run exWorld (Opath.resolve (kenv exWorld) exWorld.root b!"a" 0 true)
    = Prog.run exWorld (Openat2.resolve (kenv exWorld) exWorld.root b!"a" 0 true) := by
  apply C04_resolve_agree exWorld_wf _ (by decide) _ _ (by decide)
  rw [C01_kernel exWorld_wf _ (by decide)]
  have : resolveInRoot exWorld (kcfgK exWorld 0 true) b!"a" = .ok 6 := by
    unfold resolveInRoot
    rw [if_neg (by decide)]
    have hr : Path.rawComponents b!"a" = [b!"a"] := by decide
    rw [hr]
    show exWorld.kresolve _ 4 [b!"a"] 0 = _
    rw [k_name _ _ _ _ _ (by rfl) (by decide) (by decide) (by decide)]
    rfl
  rw [this]
  intro h; cases h
