import Pathrs.Proofs.SafeSys

/-!
# C05 — only single, non-followed components are ever handed to the kernel

`Disc followOk` (in `Proofs/Disc.lean`) is the discipline as a predicate on one
call.  The theorems state that under every environment (whose only assumed
property is that returned descriptors are non-negative) every call of the named
program satisfies it.  `Disc false` admits no `openat` without `O_NOFOLLOW` at all.
-/

open K

/-- The open wrapper always forces `O_NOFOLLOW|O_CLOEXEC|O_NOCTTY`, whatever
flags the caller passes, and its diagnostics stay on `/proc`. -/
theorem C05_openat_forces_nofollow (dir : Fd) (name : Bytes) (flags mode : Nat)
    (hd : 0 ≤ dir) (hn : single name) :
    Safe (Disc false) (Sys.openat dir name flags mode) FdOk :=
  openat_safe dir name flags mode hd hn

/-- `openat2` is only ever issued with `O_CLOEXEC` and a confining resolve mask. -/
theorem C05_openat2_confined (dir : Fd) (path : Bytes) (flags rflags : Nat) (hd : 0 ≤ dir) :
    Safe (Disc false) (Sys.openat2 dir path flags
      (RESOLVE_IN_ROOT ||| RESOLVE_NO_MAGICLINKS ||| rflags)) FdOk :=
  openat2_safe dir path flags _ hd (Or.inl (hasAll_or_mono _ _ _ (by decide)))

/-- Every trace of a `Safe` program consists of disciplined calls (what `Safe`
means for runs). -/
theorem C05_safe_means_every_call (p : Prog α) (Q : α → Prop) (hp : Safe (Disc b) p Q)
    (o : Oracle) (hsane : ∀ h c, (o h c).sane) :
    ∀ cr ∈ (p.trace o []).1, Disc b cr.1 :=
  (Safe.trace_calls hp o hsane [] (by simp)).1

/-- non-vacuity: a disciplined call, and an undisciplined one that the predicate rejects -/
example : Disc false (.openat 5 b!"a" (O_PATH ||| O_NOFOLLOW ||| O_CLOEXEC ||| O_NOCTTY) 0) := by
  refine Or.inl ⟨by decide, by simp [single, Path.containsSlash, Path.slash], by decide⟩
example : ¬ Disc false (.openat 5 b!"a/b" (O_PATH ||| O_NOFOLLOW ||| O_CLOEXEC ||| O_NOCTTY) 0) := by
  simp [Disc, single, Path.containsSlash, Path.slash, K.AT_FDCWD]
example : ¬ Disc false (.openat 5 b!"a" (O_PATH ||| O_CLOEXEC ||| O_NOCTTY) 0) := by
  simp [Disc, K.AT_FDCWD]
  intro _
  decide
