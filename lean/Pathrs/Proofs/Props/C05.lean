import Pathrs.Proofs.SafeRoot

/-!
# C05 — only single, non-followed components are ever handed to the kernel

`Disc followOk c` (`Pathrs/Discipline.lean`) is the discipline as a decidable
predicate on one system call:

* `openat`: a real directory descriptor (never `AT_FDCWD`), one component without
  `/`, raw flags ⊇ `O_NOFOLLOW|O_CLOEXEC|O_NOCTTY`; the only other shapes are the
  bootstrap `openat(AT_FDCWD, "/proc")` and — only when `followOk` — an `openat`
  that still has `O_CLOEXEC|O_NOCTTY` (the one followed link of `open_follow`);
* `openat2`: `O_CLOEXEC` and a resolve mask ⊇ `IN_ROOT|NO_MAGICLINKS` or
  ⊇ `BENEATH|NO_XDEV|NO_MAGICLINKS`;
* `readlinkat` only on the descriptor itself (empty name); `fstatat`/`statx` with
  exactly `AT_NO_AUTOMOUNT|AT_SYMLINK_NOFOLLOW|AT_EMPTY_PATH`;
* every mutating `*at` call: real descriptors and single components, `linkat`
  without `AT_SYMLINK_FOLLOW`;
* diagnostics (`FrozenFd`) and bootstrap only below `/proc/`.

`Safe (Disc f) p Q` says: under **every** environment whose answers never contain
a negative descriptor, every call `p` makes satisfies `Disc f`.  The hypotheses are
that the caller's root descriptor and the global procfs descriptor are real
descriptors.
-/

open K

variable (env : Env) (root : Root)

/-! ## Operations that never follow anything (`Disc false`) -/

theorem C05_resolve (path : Bytes) (nofollow : Bool) (hr : 0 ≤ root.fd) (hp : 0 ≤ env.proc.fd) :
    Safe (Disc false) (Root.resolve env root path nofollow) FdOk :=
  root_resolve_safe env root path nofollow hr hp

theorem C05_readlink (path : Bytes) (hr : 0 ≤ root.fd) (hp : 0 ≤ env.proc.fd) :
    Safe (Disc false) (Root.readlink env root path) (fun _ => True) :=
  root_readlink_safe env root path hr hp

theorem C05_create (path : Bytes) (ty : InodeType) (hr : 0 ≤ root.fd) (hp : 0 ≤ env.proc.fd) :
    Safe (Disc false) (Root.create env root path ty) (fun _ => True) :=
  root_create_safe env root path ty hr hp

theorem C05_create_file (path : Bytes) (flags perm : Nat) (hr : 0 ≤ root.fd) (hp : 0 ≤ env.proc.fd) :
    Safe (Disc false) (Root.createFile env root path flags perm) FdOk :=
  root_createFile_safe env root path flags perm hr hp

theorem C05_remove_inode (path : Bytes) (isDir : Bool) (hr : 0 ≤ root.fd) (hp : 0 ≤ env.proc.fd) :
    Safe (Disc false) (Root.removeInode env root path isDir) (fun _ => True) :=
  root_removeInode_safe env root path isDir hr hp

theorem C05_remove_all (path : Bytes) (hr : 0 ≤ root.fd) (hp : 0 ≤ env.proc.fd) :
    Safe (Disc false) (Root.removeAll env root path) (fun _ => True) :=
  root_removeAll_safe env root path hr hp

theorem C05_rename (src dst : Bytes) (rflags : Nat) (hr : 0 ≤ root.fd) (hp : 0 ≤ env.proc.fd) :
    Safe (Disc false) (Root.rename env root src dst rflags) (fun _ => True) :=
  root_rename_safe env root src dst rflags hr hp

theorem C05_proc_open (h : ProcH) (base : Procfs.Base) (subpath : Bytes) (oflags fuel : Nat)
    (hh : 0 ≤ h.fd) : Safe (Disc false) (Procfs.openH env fuel h base subpath oflags) FdOk :=
  openH_safe env fuel h base subpath oflags hh

theorem C05_proc_readlink (h : ProcH) (base : Procfs.Base) (subpath : Bytes) (hh : 0 ≤ h.fd) :
    Safe (Disc false) (Procfs.readlinkH env h base subpath) (fun _ => True) :=
  readlinkH_safe env h base subpath hh

theorem C05_procfs_new : Safe (Disc false) (Procfs.new env) ProcHOk := new_safe env

theorem C05_procfs_new_unmasked : Safe (Disc false) (Procfs.newUnmasked env) ProcHOk :=
  newUnmasked_safe env

/-! ## Operations that contain the one followed link (`Disc true`) -/

theorem C05_proc_open_follow (h : ProcH) (base : Procfs.Base) (subpath : Bytes) (oflags : Nat)
    (hh : 0 ≤ h.fd) : Safe (Disc true) (Procfs.openFollowH env h base subpath oflags) FdOk :=
  openFollowH_safe env h base subpath oflags hh

theorem C05_reopen (fd : Fd) (flags : Nat) (hf : 0 ≤ fd) (hp : 0 ≤ env.proc.fd) :
    Safe (Disc true) (Procfs.reopen env fd flags) FdOk :=
  reopen_safe env fd flags hf hp

theorem C05_open_subpath (path : Bytes) (flags : Nat) (hr : 0 ≤ root.fd) (hp : 0 ≤ env.proc.fd) :
    Safe (Disc true) (Root.openSubpath env root path flags) FdOk :=
  root_openSubpath_safe env root path flags hr hp

theorem C05_mkdir_all (path : Bytes) (perm : Nat) (hr : 0 ≤ root.fd) (hp : 0 ≤ env.proc.fd) :
    Safe (Disc true) (Root.mkdirAll env root path perm) FdOk :=
  root_mkdirAll_safe env root path perm hr hp

/-! ## What `Safe` means for runs -/

/-- Every call of every run of a `Safe` program against an environment that never
answers with a negative descriptor satisfies the discipline. -/
theorem C05_safe_means_every_call {α : Type} {f : Bool} (p : Prog α) (Q : α → Prop)
    (hp : Safe (Disc f) p Q) (o : Oracle) (hsane : ∀ h c, (o h c).sane) :
    ∀ cr ∈ (p.trace o []).1, Disc f cr.1 :=
  (Safe.trace_calls hp o hsane [] (by simp)).1

/-! ## Non-vacuity: the predicate accepts a disciplined call and rejects undisciplined ones -/

example : Disc false (.openat 5 b!"a" (O_PATH ||| O_NOFOLLOW ||| O_CLOEXEC ||| O_NOCTTY) 0) := by decide
example : ¬ Disc true (.openat 5 b!"a/b" (O_PATH ||| O_NOFOLLOW ||| O_CLOEXEC ||| O_NOCTTY) 0) := by decide
example : ¬ Disc false (.openat 5 b!"a" (O_PATH ||| O_CLOEXEC ||| O_NOCTTY) 0) := by decide
example : ¬ Disc true (.openat AT_FDCWD b!"a" (O_PATH ||| O_NOFOLLOW ||| O_CLOEXEC ||| O_NOCTTY) 0) := by decide
example : ¬ Disc true (.unlinkat 5 b!"a/b" 0) := by decide
example : ¬ Disc true (.openat2 5 b!"a/b" (O_PATH ||| O_CLOEXEC) 0 RESOLVE_NO_SYMLINKS 24) := by decide
example : ¬ Disc true (.linkat 5 b!"a" 6 b!"b" 0x400) := by decide
