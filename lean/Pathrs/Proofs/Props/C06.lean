import Pathrs.Proofs.Runs
import Pathrs.Proofs.KProc
import Pathrs.Proofs.KProcReopen

/-!
# C06 — procfs calls return only genuine procfs objects

The protection against over-mounts is a check *on the descriptor that is about to
be returned*, not on a name: whatever the environment does (mounts appearing or
disappearing at any moment, any answers at all), a descriptor returned by a
procfs lookup passed, as the last thing that happened, `fstatfs(fd) =
PROC_SUPER_MAGIC`, after `statx(fd, "")` reported the mount id of the handle.

On `PWorld` (a procfs tree whose objects carry mount ids: an over-mounted entry leads to the root of the other
mount) the same is a statement about objects: `C06_spec_same_mount` — the confined lookup only ever returns an object
on the mount it started on — and `C06_emulated_same_mount` — so does the emulated resolver, whatever is mounted wherever.
-/

open K Procfs

/-- the mount id a `statx` answer stands for in `fetch_mnt_id` -/
def mntOf : Resp → Option Nat
  | .nums [mask, id] => if hasAny mask STATX_WANT then some id else none
  | _ => none

theorem failWith_never_ok {α : Type} (fds : List Fd) (e : Nat) (h h' : Hist) (a : α) :
    ¬ Runs (Sys.failWith (α := α) fds e) h h' (.ok a) := by
  unfold Sys.failWith
  induction fds generalizing h with
  | nil => intro hr; unfold Sys.failWith.go at hr; obtain ⟨_, he⟩ := Runs.ret_inv hr; cases he
  | cons fd rest ih =>
    intro hr
    unfold Sys.failWith.go at hr
    obtain ⟨hm, _, _, h2⟩ := Runs.bind_inv hr
    exact ih _ h2

/-- a successful `fstatfs` wrapper call is exactly one answered call -/
theorem fstatfs_ok_inv {fd : Fd} {h h' : Hist} {t : Nat} (hr : Runs (Sys.fstatfs fd) h h' (.ok t)) :
    h' = h ++ [(.fstatfs fd, .nums [t])] := by
  unfold Sys.fstatfs at hr
  obtain ⟨hm, _, h1, h2⟩ := Runs.mbind_ok hr
  obtain ⟨rfl, _⟩ := Runs.ofExcept_inv h1
  obtain ⟨hm2, x, h3, h4⟩ := Runs.mbind_ok h2
  obtain ⟨y, rfl, hy⟩ := Runs.call_ok_inv h3
  cases hy
  split at h4
  · rename_i t'
    obtain ⟨rfl, ht⟩ := Runs.ret_inv h4
    cases ht; rfl
  · exact absurd h4 (failWith_never_ok _ _ _ _ _)
  · obtain ⟨_, he⟩ := Runs.ret_inv h4; cases he

/-- building an error value always completes with the error it was built for, whatever the
diagnostic reads are answered (they build no error value themselves: repair of finding F26) -/
theorem failWith_inv {α : Type} (fds : List Fd) (e : Nat) (h h' : Hist) (x : Except Err α)
    (hr : Runs (Sys.failWith (α := α) fds e) h h' x) :
    x = .error (.os e) := by
  unfold Sys.failWith at hr
  induction fds generalizing h with
  | nil => unfold Sys.failWith.go at hr; obtain ⟨_, he⟩ := Runs.ret_inv hr; exact he
  | cons fd rest ih =>
    unfold Sys.failWith.go at hr
    obtain ⟨hm, _, _, h2⟩ := Runs.bind_inv hr
    exact ih _ h2

/-- every run of the `statx` wrapper: either the descriptor was refused before any call
(`EBADF`), or the first thing that happened is the `statx` call and the result reflects its answer -/
theorem statx_inv {dir : Fd} {path : Bytes} {mask : Nat} {h h' : Hist} {x : Except Err (Nat × Nat)}
    (hr : Runs (Sys.statx dir path mask) h h' x) :
    (x = .error (.os EBADF)) ∨
    ∃ resp, (h ++ [(.statx dir path STAT_FLAGS mask, resp)]) <+: h' ∧
      ((∃ m id, resp = .nums [m, id] ∧ x = .ok (m, id)) ∨
       (∃ e, resp = .err e ∧ x = .error (.os e)) ∨
       (∃ s, x = .error (.badResp s))) := by
  unfold Sys.statx at hr
  rcases Runs.mbind_inv hr with ⟨ha, _, hh1, hh2⟩ | ⟨e, hh1, hx⟩
  · obtain ⟨hha, _⟩ := Runs.ofExcept_inv hh1
    subst hha
    right
    rcases Runs.mbind_inv hh2 with ⟨hb, resp, hc1, hc2⟩ | ⟨e, hc1, _⟩
    · obtain ⟨y, hhb, hy⟩ := Runs.call_ok_inv hc1
      cases hy
      subst hhb
      refine ⟨resp, Runs.isPrefix hc2, ?_⟩
      split at hc2
      · rename_i m idv
        obtain ⟨_, hxx⟩ := Runs.ret_inv hc2
        exact Or.inl ⟨m, idv, rfl, hxx⟩
      · rename_i e
        exact Or.inr (Or.inl ⟨e, rfl, failWith_inv _ _ _ _ _ hc2⟩)
      · obtain ⟨_, hxx⟩ := Runs.ret_inv hc2
        exact Or.inr (Or.inr ⟨_, hxx⟩)
    · obtain ⟨y, _, hy⟩ := Runs.call_ok_inv hc1
      cases hy
  · left
    obtain ⟨_, he⟩ := Runs.ofExcept_inv hh1
    unfold Sys.hotfix at he
    split at he
    · cases he
    · cases he; exact hx

/-- `fetch_mnt_id`: the first thing it does is `statx(dir, path)`, and its result is what
that answer stands for -/
theorem fetchMntId_inv {dir : Fd} {path : Bytes} {h h' : Hist} {id : Option Nat}
    (hr : Runs (fetchMntId dir path) h h' (.ok id)) :
    ∃ resp, (h ++ [(.statx dir path STAT_FLAGS STATX_WANT, resp)]) <+: h' ∧ mntOf resp = id := by
  unfold fetchMntId at hr
  obtain ⟨hm, x, h1, h2⟩ := Runs.mbind_ok hr
  obtain ⟨x', h1', hx⟩ := Runs.try_inv h1
  have hpre2 := Runs.isPrefix h2
  rcases statx_inv h1' with hbad | ⟨resp, hpre, hcase⟩
  · -- EBADF is not tolerated: the result cannot be `ok`
    subst hbad
    rcases hx with ⟨a, ha, _⟩ | ⟨e, he, hfat⟩
    · cases ha
    · cases he
      rcases hfat with ⟨hf, _⟩ | ⟨_, hxx⟩
      · simp [Err.isFatal] at hf
      · cases hxx
        dsimp only at h2
        split at h2
        · rename_i hen; rcases hen with h9 | h9 <;> simp [EBADF, ENOSYS, EINVAL] at h9
        · obtain ⟨_, he⟩ := Runs.ret_inv h2; cases he
  · refine ⟨resp, List.IsPrefix.trans hpre hpre2, ?_⟩
    rcases hcase with ⟨m, idv, hresp, hxx⟩ | ⟨e, hresp, hxx⟩ | ⟨s, hxx⟩
    · subst hresp; subst hxx
      rcases hx with ⟨a, ha, hxa⟩ | ⟨e, he, _⟩
      · cases ha; cases hxa
        dsimp only at h2
        obtain ⟨_, hid⟩ := Runs.ret_inv h2
        cases hid
        simp [mntOf]
      · cases he
    · subst hresp
      subst hxx
      rcases hx with ⟨a, ha, _⟩ | ⟨e', he, hfat⟩
      · cases ha
      · cases he
        rcases hfat with ⟨hf, _⟩ | ⟨_, hxa⟩
        · simp [Err.isFatal] at hf
        · cases hxa
          dsimp only at h2
          split at h2
          · obtain ⟨_, hid⟩ := Runs.ret_inv h2; cases hid; simp [mntOf]
          · obtain ⟨_, he⟩ := Runs.ret_inv h2; cases he
    · subst hxx
      rcases hx with ⟨a, ha, _⟩ | ⟨e', he, hfat⟩
      · cases ha
      · cases he
        rcases hfat with ⟨_, hxa⟩ | ⟨hf, _⟩
        · cases hxa
        · simp [Err.isFatal] at hf

/-- a successful `verify_same_procfs_mnt(fd)`: `statx(fd, "")` stood for the handle's mount
id, and the last thing that happened is `fstatfs(fd) = PROC_SUPER_MAGIC` -/
theorem verifySameProcfsMnt_inv {hd : ProcH} {fd : Fd} {h h' : Hist}
    (hr : Runs (verifySameProcfsMnt hd fd) h h' (.ok ())) :
    (∃ resp, (h ++ [(.statx fd [] STAT_FLAGS STATX_WANT, resp)]) <+: h' ∧ mntOf resp = hd.mntId) ∧
    (∃ pre, h' = pre ++ [(.fstatfs fd, .nums [PROC_SUPER_MAGIC])]) := by
  unfold verifySameProcfsMnt at hr
  obtain ⟨hm, _, h1, h2⟩ := Runs.mbind_ok hr
  -- verify_same_mnt
  unfold verifySameMnt at h1
  obtain ⟨hk, id, h3, h4⟩ := Runs.mbind_ok h1
  obtain ⟨resp, hpre, hmnt⟩ := fetchMntId_inv h3
  have hid : hd.mntId = id := by
    split at h4
    · obtain ⟨_, he⟩ := Runs.ret_inv h4; cases he
    · rename_i hne; simpa using hne
  have hkm : hk <+: hm := Runs.isPrefix h4
  -- verify_is_procfs
  unfold verifyIsProcfs at h2
  obtain ⟨hx, t, h5, h6⟩ := Runs.mbind_ok h2
  have hfs := fstatfs_ok_inv h5
  have ht : t = PROC_SUPER_MAGIC ∧ h' = hx := by
    split at h6
    · obtain ⟨_, he⟩ := Runs.ret_inv h6; cases he
    · rename_i hne
      obtain ⟨hh, _⟩ := Runs.ret_inv h6
      exact ⟨by simpa using hne, hh⟩
  refine ⟨⟨resp, ?_, by rw [hmnt, hid]⟩, ⟨hm, ?_⟩⟩
  · exact List.IsPrefix.trans hpre (List.IsPrefix.trans hkm (List.IsPrefix.trans (Runs.isPrefix h5) (by rw [ht.2]; exact List.prefix_refl _)))
  · rw [ht.2, hfs, ht.1]

/-! ## The property theorems -/

/-- **Every descriptor a procfs lookup returns was verified on the descriptor itself.**
For every environment: if the lookup below an opened base directory returns `fd`, then after
the `openat2`/walk that produced it, `statx(fd, "")` was answered with the mount id of the
handle (or "unknown" exactly when the handle's is unknown), and the very last call of the
run is `fstatfs(fd)` answered with `PROC_SUPER_MAGIC`. -/
theorem C06_lookup_verified (env : Env) (hd : ProcH) (basedir : Fd) (subpath : Bytes) (oflags : Nat)
    (h h' : Hist) (fd : Fd)
    (hr : Runs (lookupVerified env hd basedir subpath oflags) h h' (.ok fd)) :
    (∃ hm resp, h <+: hm ∧ (hm ++ [(.statx fd [] STAT_FLAGS STATX_WANT, resp)]) <+: h' ∧
        mntOf resp = hd.mntId) ∧
    (∃ pre, h' = pre ++ [(.fstatfs fd, .nums [PROC_SUPER_MAGIC])]) := by
  unfold lookupVerified at hr
  obtain ⟨hm, fd', h1, h2⟩ := Runs.mbind_ok hr
  obtain ⟨hk, _, h3, h4⟩ := Runs.mbind_ok h2
  obtain ⟨hh, hfd⟩ := Runs.ret_inv h4
  cases hfd
  subst hh
  have := verifySameProcfsMnt_inv (Runs.onErr_ok h3)
  obtain ⟨⟨resp, hp, hmnt⟩, hlast⟩ := this
  exact ⟨⟨hm, resp, Runs.isPrefix h1, hp, hmnt⟩, hlast⟩

/-- the same for the base directory (`open_base`) -/
theorem C06_base_verified (env : Env) (hd : ProcH) (base : Base) (h h' : Hist) (fd : Fd)
    (hr : Runs (openBase env hd base) h h' (.ok fd)) :
    (∃ hm resp, h <+: hm ∧ (hm ++ [(.statx fd [] STAT_FLAGS STATX_WANT, resp)]) <+: h' ∧
        mntOf resp = hd.mntId) ∧
    (∃ pre, h' = pre ++ [(.fstatfs fd, .nums [PROC_SUPER_MAGIC])]) := by
  unfold openBase at hr
  obtain ⟨hm0, path, h0, h1'⟩ := Runs.mbind_ok hr
  obtain ⟨hm, fd', h1, h2⟩ := Runs.mbind_ok h1'
  obtain ⟨hk, _, h3, h4⟩ := Runs.mbind_ok h2
  obtain ⟨hh, hfd⟩ := Runs.ret_inv h4
  cases hfd
  subst hh
  obtain ⟨⟨resp, hp, hmnt⟩, hlast⟩ := verifySameProcfsMnt_inv (Runs.onErr_ok h3)
  exact ⟨⟨hm, resp, List.IsPrefix.trans (Runs.isPrefix h0) (Runs.isPrefix h1), hp, hmnt⟩, hlast⟩

/-! ## Non-vacuity -/

example : mntOf (.nums [0x5000, 77]) = some 77 := by decide
example : mntOf (.err ENOSYS) = none := rfl

/-! ### on a procfs tree with mounts: only objects of the handle's own mount -/

open KProc PWorld in
theorem C06_spec_same_mount {w : PWorld} (c : PCfg) (path : Bytes) (r : Fd) (h : resolveBeneath w c path = .ok r) :
    w.mnt r = w.mnt w.base :=
  resolveBeneath_same_mnt c path r h

open KProc PWorld in
theorem C06_emulated_same_mount {w : PWorld} (hw : PWF w) (path : Bytes) (hp : path ≠ [])
    (hdd : Path.dotdot ∉ Path.rawComponents path) (oflags rflags : Nat) (hfl : FlagsOk oflags) (r : Fd)
    (h : Prog.prun w (Procfs.opathResolve w.base path oflags rflags) = .ok r) : w.mnt r = w.mnt w.base :=
  opathResolve_same_mnt hw path hp hdd oflags rflags hfl r h


open KProc KProcOpen KProcReopen PWorld in
/-- **`ProcfsHandle::open` on any procfs tree with any mount layout** (handle on the tree's base directory, not masked,
emulated resolver; `Proofs/KProcOpen.lean`): the call computes the two confined lookups of its specification
(`openSpec`: base directory, then the sub-path without following a final link), and an object it returns lies on the
handle's own mount — never on anything that was mounted over a component. -/
theorem C06_open_on_mounts {w : PWorld} (hw : PWF w) (env : Env) (base : Procfs.Base) (sub : Bytes) (oflags fuel : Nat)
    (hprobe : Prog.prun w (Procfs.intoPath base w.base) = .ok (basePath base))
    (hsub : sub ≠ []) (hdd : Path.dotdot ∉ Path.rawComponents sub)
    (hcf : (hasAny oflags (O_CREAT ||| O_EXCL) || hasAll oflags O_TMPFILE) = false) :
    Prog.prun w (Procfs.openH env (fuel + 1) (handleOf w) base sub oflags) = toOutP (openSpec w (basePath base) sub oflags) ∧
    ∀ o, Prog.prun w (Procfs.openH env (fuel + 1) (handleOf w) base sub oflags) = .ok o → w.mnt o = w.mnt w.base := by
  have hrun := prun_openH hw env base sub oflags fuel hprobe hsub hdd hcf
  refine ⟨hrun, fun o ho => ?_⟩
  rw [hrun] at ho
  generalize hs : openSpec w (basePath base) sub oflags = x at ho
  cases x with
  | error e => cases ho
  | ok d =>
    cases ho
    exact (openSpec_nonneg hw base sub oflags hdd _ hs).2
