import Pathrs.Proofs.SafeProcfs
import Pathrs.Proofs.KProc

/-!
# C07 — procfs lookups stay inside procfs and follow only the requested final link

Besides the environment-universal facts below (creation flags, forced `O_NOFOLLOW`, `..` and absolute paths refused,
the kernel mask, `Disc false` for the emulated walk), the two procfs resolvers are related to one specification on
`PWorld` (`Kernel/ProcWorld.lean`: an immutable procfs tree — directories, ordinary symlinks, magic-links, files —
whose objects carry mount ids, with the kernel's answers and `presolve`/`resolveBeneath`, the meaning of
`openat2(RESOLVE_BENEATH|RESOLVE_NO_XDEV|RESOLVE_NO_MAGICLINKS)`):

* `C07_emulated_is_spec`: for every such tree with any mounts on top of it, every non-empty sub-path without `..` and
  every flag set of the resolver's final-component table (`FlagsOk`: what every caller in the library passes), the
  emulated resolver returns exactly what the kernel's confined lookup returns — object or errno: a magic-link as a
  component or followed is `ELOOP`, a mount crossing `EXDEV`, the trailing link is followed iff `O_NOFOLLOW` is absent;
* `C07_resolvers_agree`: hence the emulated and the kernel resolver agree (unless the kernel ran out of its link budget).

Excluded by hypothesis, as the property says or as known findings: the empty path and `..` (the emulated resolver refuses
`..` outright), magic-links whose body is not absolute (F13: `PWF.magic_body`).
-/

open K Procfs

/-- `O_CREAT`, `O_EXCL` and `O_TMPFILE` are refused by the resolver entry point of both
procfs resolvers before any system call -/
theorem C07_creation_flags_refused (env : Env) (emu : Bool) (root : Fd) (path : Bytes) (oflags rflags : Nat)
    (h : hasAny oflags (O_CREAT ||| O_EXCL) = true ∨ hasAll oflags O_TMPFILE = true) :
    resolve env emu root path oflags rflags = Prog.ret (.error .invalidArgument) := by
  unfold resolve
  have : (hasAny oflags (O_CREAT ||| O_EXCL) || hasAll oflags O_TMPFILE) = true := by
    rcases h with h | h <;> simp [h]
  simp only [this, ↓reduceIte]
  rfl

/-- the flags `open_follow` really uses: a trailing slash adds `O_DIRECTORY` -/
def followFlags (sub : Bytes) (oflags : Nat) : Nat :=
  if (Path.stripTrailingSlash sub).2 then oflags ||| O_DIRECTORY else oflags

/-- … and by `open_follow`, whose final component does not go through the resolver (finding F18).
The check is made on the flags that will be used: `O_TMPFILE` contains `O_DIRECTORY`, so the bare
`__O_TMPFILE` bit plus a trailing slash is a creation request too (finding F21). -/
theorem C07_creation_flags_refused_open_follow (env : Env) (hd : ProcH) (base : Base) (sub : Bytes)
    (oflags : Nat)
    (h : hasAny (followFlags sub oflags) (O_CREAT ||| O_EXCL) = true ∨ hasAll (followFlags sub oflags) O_TMPFILE = true) :
    openFollowH env hd base sub oflags = Prog.ret (.error .invalidArgument) := by
  unfold openFollowH
  unfold followFlags at h
  have : (hasAny (if (Path.stripTrailingSlash sub).2 = true then oflags ||| O_DIRECTORY else oflags) (O_CREAT ||| O_EXCL) ||
      hasAll (if (Path.stripTrailingSlash sub).2 = true then oflags ||| O_DIRECTORY else oflags) O_TMPFILE) = true := by
    rcases h with h | h <;> simp [h]
  simp only [this, ↓reduceIte]
  rfl

theorem hasAny_or_mono (f d m : Nat) (h : hasAny f m = true) : hasAny (f ||| d) m = true := by
  simp only [hasAny, ne_eq, decide_eq_true_eq] at h ⊢
  intro h0
  apply h
  apply Nat.eq_of_testBit_eq; intro i
  have := congrArg (fun x => x.testBit i) h0
  simp only [Nat.testBit_and, Nat.testBit_or, Nat.zero_testBit] at this ⊢
  cases hf : f.testBit i <;> cases hm : m.testBit i <;> simp_all

/-- in particular creation bits in the caller's own flag word are refused, whatever the path -/
theorem C07_creation_flags_refused_open_follow_raw (env : Env) (hd : ProcH) (base : Base) (sub : Bytes)
    (oflags : Nat) (h : hasAny oflags (O_CREAT ||| O_EXCL) = true ∨ hasAll oflags O_TMPFILE = true) :
    openFollowH env hd base sub oflags = Prog.ret (.error .invalidArgument) := by
  apply C07_creation_flags_refused_open_follow
  unfold followFlags
  split
  · rcases h with h | h
    · exact Or.inl (hasAny_or_mono _ _ _ h)
    · exact Or.inr (hasAll_or_mono _ _ _ h)
  · exact h

/-- F21: the bare `__O_TMPFILE` bit with a trailing slash on the path is refused -/
example (env : Env) (hd : ProcH) :
    openFollowH env hd .self b!"cwd/" (0o20000000 ||| O_RDWR) = Prog.ret (.error .invalidArgument) := by
  apply C07_creation_flags_refused_open_follow
  right
  decide

/-- `ProcfsHandle::open` forces `O_NOFOLLOW`: one level of it is the same whether or not the
caller passed the flag -/
theorem C07_open_forces_nofollow (env : Env) (again : ProcH → Nat → M Fd) (hd : ProcH) (base : Base)
    (sub : Bytes) (oflags : Nat) :
    openStep env again hd base sub (oflags ||| O_NOFOLLOW) = openStep env again hd base sub oflags := by
  unfold openStep
  have : oflags ||| O_NOFOLLOW ||| O_NOFOLLOW = oflags ||| O_NOFOLLOW := by
    rw [Nat.or_assoc, Nat.or_self]
  simp only [this]

/-- the emulated walk stops at a `..` component with `EXDEV`; it closes its descriptor and
makes no other call (in particular it never looks `..` up) -/
theorem C07_dotdot_refused (m : Option Nat) (oflags rflags : Nat) (cur : Fd) (rest : List Bytes) (links : Nat) :
    opathLoop m oflags rflags cur (Path.dotdot :: rest) links
      = M.bind' (M.lift (Sys.close cur)) fun _ => throw (.os EXDEV) := by
  rw [opathLoop]
  simp [Path.dotdot]

/-- an absolute sub-path is refused with `EXDEV` before any call, like `RESOLVE_BENEATH` (finding F19) -/
theorem C07_absolute_path_refused (root : Fd) (path : Bytes) (oflags rflags : Nat)
    (h : Path.isAbsolute path = true) :
    opathResolve root path oflags rflags = Prog.ret (.error (.os EXDEV)) := by
  unfold opathResolve
  simp only [h, ↓reduceIte]
  rfl

/-- the kernel resolver's mask is exactly `BENEATH|NO_MAGICLINKS|NO_XDEV` plus the caller's
resolver flags, on the given root -/
theorem C07_kernel_resolver_mask (env : Env) (root : Fd) (path : Bytes) (oflags rflags : Nat)
    (h : env.openat2 = true) :
    openat2Resolve env root path oflags rflags =
      Sys.openat2 root path oflags (RESOLVE_BENEATH ||| RESOLVE_NO_MAGICLINKS ||| RESOLVE_NO_XDEV ||| rflags) := by
  unfold openat2Resolve
  simp [h]

/-- every call of the emulated procfs walk is disciplined with *no* followed link at all:
single components, `O_NOFOLLOW`, link bodies read from the opened descriptor only -/
theorem C07_emulated_walk_disciplined (root : Fd) (path : Bytes) (oflags rflags : Nat) (hr : 0 ≤ root) :
    Safe (Disc false) (opathResolve root path oflags rflags) FdOk :=
  opathResolve_safe root path oflags rflags hr

/-- the link budget: a walk that has already followed 127 links refuses the next one; the
recursion of the model is well-founded on `(128 - links, remaining components)`, so every
lookup terminates after a bounded number of steps (Lean accepted the definition). -/
theorem C07_link_budget : MAX_SYMLINK_TRAVERSALS = 128 := rfl

/-! ## Non-vacuity -/

example : hasAll (O_TMPFILE ||| O_RDWR) O_TMPFILE = true := by decide
example : hasAll O_DIRECTORY O_TMPFILE = false := by decide
example : Path.isAbsolute b!"//status" = true := by decide

/-! ### both resolvers against the specification of the confined lookup -/

open KProc PWorld in
theorem C07_emulated_is_spec {w : PWorld} (hw : PWF w) (path : Bytes) (hp : path ≠ [])
    (hdd : Path.dotdot ∉ Path.rawComponents path) (oflags rflags : Nat) (hfl : FlagsOk oflags) :
    Prog.prun w (Procfs.opathResolve w.base path oflags rflags) =
      toOutP (resolveBeneath w { oflags := oflags, noSymlinks := hasAll rflags RESOLVE_NO_SYMLINKS,
                                 maxLinks := MAX_SYMLINK_TRAVERSALS } path) :=
  opathResolve_spec hw path hp hdd oflags rflags hfl

open KProc PWorld in
theorem C07_resolvers_agree {w : PWorld} (hw : PWF w) (env : Env) (henv : env.openat2 = true) (path : Bytes) (hp : path ≠ [])
    (hnul : path.contains 0 = false) (hdd : Path.dotdot ∉ Path.rawComponents path) (oflags rflags : Nat)
    (hfl : FlagsOk oflags) (hlinks : w.kernelLinks ≤ MAX_SYMLINK_TRAVERSALS)
    (h : resolveBeneath w { oflags := oflags, noSymlinks := hasAll rflags RESOLVE_NO_SYMLINKS,
                            maxLinks := w.kernelLinks } path ≠ .error ELOOP) :
    Prog.prun w (Procfs.opathResolve w.base path oflags rflags)
      = Prog.prun w (Procfs.openat2Resolve env w.base path oflags rflags) :=
  resolvers_agree hw env henv path hp hnul hdd oflags rflags hfl hlinks h

